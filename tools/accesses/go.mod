module verifaccesses

go 1.21
