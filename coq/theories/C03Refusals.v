(* C03: an out-of-order command is answered 5xx and causes no callback - the
   handlers' state guards, stated one by one. *)
From Smtp Require Import Bytes GoStrings Transport DataReader Parse Reply Lmtp Conn.
Local Open Scope char_scope.

Lemma mail_before_greeting cfg c arg :
  c_helo c = [] ->
  handle_mail cfg c arg = (c, [reply 502 (5, 5, 1)%Z (bs "Please introduce yourself first.")]).
Proof. intros H. unfold handle_mail. rewrite H. reflexivity. Qed.

Lemma rcpt_without_mail cfg c arg :
  c_from c = false ->
  handle_rcpt cfg c arg = (c, [reply 502 (5, 5, 1)%Z (bs "Missing MAIL FROM command.")]).
Proof. intros H. unfold handle_rcpt. rewrite H. reflexivity. Qed.

Lemma data_without_envelope cfg c :
  c_bdat c = None -> c_binarymime c = false -> (c_from c = false \/ c_rcpts c = []) ->
  handle_data cfg c [] = (c, [reply 502 (5, 5, 1)%Z (bs "Missing RCPT TO command.")]).
Proof.
  intros Hb Hm H. unfold handle_data. rewrite Hb, Hm.
  destruct H as [H|H]; rewrite H; [reflexivity|]. rewrite orb_true_r. reflexivity.
Qed.

Lemma mail_rcpt_data_during_transfer cfg c arg b :
  c_bdat c = Some b ->
  (c_helo c <> [] -> handle_mail cfg c arg = (c, [reply 502 (5, 5, 1)%Z (bs "MAIL not allowed during message transfer")]))
  /\ (c_from c = true -> handle_rcpt cfg c arg = (c, [reply 502 (5, 5, 1)%Z (bs "RCPT not allowed during message transfer")]))
  /\ handle_data cfg c [] = (c, [reply 502 (5, 5, 1)%Z (bs "DATA not allowed during message transfer")]).
Proof.
  intros Hb. repeat split.
  - intros Hh. unfold handle_mail. destruct (c_helo c); [congruence|]. rewrite Hb. reflexivity.
  - intros Hf. unfold handle_rcpt. rewrite Hf, Hb. reflexivity.
  - unfold handle_data. rewrite Hb. reflexivity.
Qed.

Lemma recipient_limit_refused cfg c arg a rcpt rest :
  c_from c = true -> c_bdat c = None -> cut_prefix_fold arg (bs "TO:") = Some a ->
  parse_path (trim_space a) = Some (rcpt, rest) ->
  (0 < cf_max_rcpt cfg)%N -> (cf_max_rcpt cfg <= N.of_nat (List.length (c_rcpts c)))%N ->
  exists msg, handle_rcpt cfg c arg = (c, [reply 452 (4, 5, 3)%Z msg]).
Proof.
  intros Hf Hb Hc Hp H1 H2. unfold handle_rcpt. rewrite Hf, Hb, Hc, Hp. cbn [negb].
  apply N.ltb_lt in H1. apply N.leb_le in H2. rewrite H1, H2. eexists. reflexivity.
Qed.

(* the greeting verb of the other flavour is refused before anything is looked at *)
Lemma wrong_flavour_refused cfg c arg :
  (cf_lmtp cfg = true ->
     (exists m, handle cfg c (bs "EHLO") arg = (c, [reply 500 (5, 5, 1)%Z m]))
     /\ (exists m, handle cfg c (bs "HELO") arg = (c, [reply 500 (5, 5, 1)%Z m])))
  /\ (cf_lmtp cfg = false -> exists m, handle cfg c (bs "LHLO") arg = (c, [reply 500 (5, 5, 1)%Z m])).
Proof.
  split.
  - intros H. split; eexists; unfold handle; cbn; rewrite H; cbn; reflexivity.
  - intros H. eexists. unfold handle. cbn. rewrite H. cbn. reflexivity.
Qed.

(* none of these refusals contains a backend callback: they are a single wire event *)
Definition is_wire_only (ev : list event) : bool :=
  forallb (fun e => match e with EWire _ => true | _ => false end) ev.

Example refusals_are_wire_only :
  is_wire_only [reply 502 (5, 5, 1)%Z (bs "Missing MAIL FROM command.")] = true.
Proof. reflexivity. Qed.
