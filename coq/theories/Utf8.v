(* UTF-8 encoding/decoding of code points, as Go's string(rune) and
   "for _, ch := range s" do it. *)
From Smtp Require Import Bytes.
Local Open Scope N_scope.

(* string(rune(n)) for a valid scalar value; Go substitutes U+FFFD for
   surrogates and values above U+10FFFF *)
Definition utf8_valid_cp (n : N) : bool :=
  (n <? 55296) || ((57343 <? n) && (n <=? 1114111)).

Definition utf8_encode_raw (n : N) : bytes :=
  if n <? 128 then [n_byte n]
  else if n <? 2048 then [n_byte (192 + n / 64); n_byte (128 + n mod 64)]
  else if n <? 65536 then
    [n_byte (224 + n / 4096); n_byte (128 + (n / 64) mod 64); n_byte (128 + n mod 64)]
  else
    [n_byte (240 + n / 262144); n_byte (128 + (n / 4096) mod 64);
     n_byte (128 + (n / 64) mod 64); n_byte (128 + n mod 64)].

Definition utf8_encode (n : N) : bytes :=
  if utf8_valid_cp n then utf8_encode_raw n else utf8_encode_raw 65533.

Definition is_cont (c : ascii) : bool := in_range 128 191 c.

(* utf8.DecodeRune on the head of s: (code point, octets consumed); an invalid
   or truncated sequence yields (U+FFFD, 1) as in Go *)
Definition utf8_decode1 (s : bytes) : option (N * nat) :=
  match s with
  | [] => None
  | c0 :: t =>
      let v0 := byte_n c0 in
      if v0 <? 128 then Some (v0, 1%nat)
      else
        let bad := Some (65533, 1%nat) in
        if v0 <? 194 then bad
        else if v0 <? 224 then
          match t with
          | c1 :: _ => if is_cont c1 then Some ((v0 - 192) * 64 + (byte_n c1 - 128), 2%nat) else bad
          | _ => bad
          end
        else if v0 <? 240 then
          match t with
          | c1 :: c2 :: _ =>
              let v1 := byte_n c1 in
              let lo := if v0 =? 224 then 160 else 128 in
              let hi := if v0 =? 237 then 159 else 191 in
              if (lo <=? v1) && (v1 <=? hi) && is_cont c2
              then Some ((v0 - 224) * 4096 + (v1 - 128) * 64 + (byte_n c2 - 128), 3%nat)
              else bad
          | _ => bad
          end
        else if v0 <? 245 then
          match t with
          | c1 :: c2 :: c3 :: _ =>
              let v1 := byte_n c1 in
              let lo := if v0 =? 240 then 144 else 128 in
              let hi := if v0 =? 244 then 143 else 191 in
              if (lo <=? v1) && (v1 <=? hi) && is_cont c2 && is_cont c3
              then Some ((v0 - 240) * 262144 + (v1 - 128) * 4096 + (byte_n c2 - 128) * 64
                         + (byte_n c3 - 128), 4%nat)
              else bad
          | _ => bad
          end
        else bad
  end.

(* the runes of "range s" *)
Fixpoint runes_f (fuel : nat) (s : bytes) : list N :=
  match fuel with
  | O => []
  | S f =>
      match utf8_decode1 s with
      | None => []
      | Some (cp, n) => cp :: runes_f f (skipn n s)
      end
  end.
Definition runes (s : bytes) : list N := runes_f (List.length s) s.

Definition utf8_of_runes (l : list N) : bytes := flat_map utf8_encode l.
