package harness

import (
	"encoding/hex"
	"fmt"
	"strings"
)

// S-expression output. Atoms use only [A-Za-z0-9_-]; octet strings are
// written as x<hex> (x alone is the empty string), numbers as n<decimal>,
// negative numbers as m<decimal>.

type Sx struct {
	Atom string
	List []*Sx
	IsL  bool
}

func A(s string) *Sx { return &Sx{Atom: s} }
func L(xs ...*Sx) *Sx {
	return &Sx{List: xs, IsL: true}
}
func X(b []byte) *Sx   { return A("x" + hex.EncodeToString(b)) }
func XS(s string) *Sx  { return X([]byte(s)) }
func Num(n int64) *Sx {
	if n < 0 {
		return A(fmt.Sprintf("m%d", -n))
	}
	return A(fmt.Sprintf("n%d", n))
}
func B(b bool) *Sx {
	if b {
		return A("t")
	}
	return A("f")
}

func (s *Sx) write(sb *strings.Builder) {
	if !s.IsL {
		sb.WriteString(s.Atom)
		return
	}
	sb.WriteByte('(')
	for i, x := range s.List {
		if i > 0 {
			sb.WriteByte(' ')
		}
		x.write(sb)
	}
	sb.WriteByte(')')
}

func (s *Sx) String() string {
	var sb strings.Builder
	s.write(&sb)
	return sb.String()
}

func (s *Sx) Add(xs ...*Sx) *Sx {
	s.List = append(s.List, xs...)
	return s
}
