(* kind dr: the DATA reader in isolation *)
From Smtp Require Import Bytes Sx Transport DataReader ReadRetry DotSpec CheckBase.

(* ---- kind "dr": the DATA reader in isolation ----
   (dr (linelimit n) (max n) (raws ...) (sizes ...) (stop none|n) 
       (obs (out x) (err e) (drain e) (rest x) (resterr e)) [(retry k)])
   (retry k): the backend goes on reading after up to k reads that ended in a
   transport failure (ReadRetry.v; harness/retry.go) *)

Definition dr_obs (out : bytes) (e : option rerr) (de : option rerr)
                  (rest : bytes) (re : option terr) : sx :=
  SL [XT "obs"; SL [XT "out"; XB out]; SL [XT "err"; show_rerr e];
      SL [XT "drain"; show_rerr de]; SL [XT "rest"; XB rest];
      SL [XT "resterr"; show_topt re]].

(* cases with (retry k): the message as the reader sees it when the backend reads on after failures -
   all data of the schedule; [pre]: the octets in front of the last failure that has data behind it *)
Fixpoint raws_all_bytes (rs : list raw) : bytes :=
  match rs with
  | [] => []
  | RData c d :: r => c :: d ++ raws_all_bytes r
  | RFail _ :: r => raws_all_bytes r
  end.

Fixpoint has_data (rs : list raw) : bool :=
  match rs with
  | [] => false
  | RData _ _ :: _ => true
  | RFail _ :: r => has_data r
  end.

(* (number of failures with data behind them, octets in front of the last of them) *)
Fixpoint mid_fails (rs : list raw) (seen : nat) : nat * nat :=
  match rs with
  | [] => (O, O)
  | RData c d :: r => mid_fails r (S (List.length d) + seen)
  | RFail _ :: r =>
      let '(n, pre) := mid_fails r seen in
      if has_data r then (S n, match n with O => seen | _ => pre end) else (n, pre)
  end.

(* the backend's reads meet every failure of the schedule and it reads on after each: all of them lie
   inside the message, and (with a limit) in front of the point where the reader stops handing out
   octets - beyond it the reader's own drain would meet them, which the specification below does not
   describe *)
Definition retry_judged (ll : N) (mx : Z) (retry : nat) (rs : list raw) : bool :=
  let '(n, pre) := mid_fails rs O in
  let all := raws_all_bytes rs in
  (ll =? 0)%N && (n <=? retry)%nat
  && match unstuff (firstn pre all) with Incomplete _ => true | Complete _ _ => false end
  && ((mx <=? 0)%Z || (Z.of_nat pre <? mx)%Z
      || match unstuff all with
         | Complete body _ => (Z.of_nat (List.length body) <=? mx)%Z
         | Incomplete _ => false
         end).

Definition check_dr (args : list sx) : verdict :=
  match assoc1 "linelimit" args, assoc1 "max" args, assoc1 "raws" args,
        assoc1 "sizes" args, assoc1 "stop" args, assoc "obs" args with
  | Some ll, Some mx, Some rs, Some SZ, Some st, Some obs =>
      match sx_N ll, sx_Z mx, dec_raws rs, sx_list SZ with
      | Some ll, Some mx, Some rs, Some szl =>
          match map_opt sx_nat szl with
          | Some sizes =>
              let stop := if sx_is "none" st then None else sx_N st in
              let t0 := mkT [] rs 0%N ll false in
              let retry := match assoc1 "retry" args with
                           | Some k => match sx_nat k with Some k => k | None => O end
                           | None => O
                           end in
              let '(out, e, d1, t1) :=
                match retry with
                | O => backend_reads sizes stop (new_data_reader mx) t0
                | _ => backend_reads_retry sizes stop retry (new_data_reader mx) t0
                end in
              let '(de, d2, t2) := dr_drain d1 t1 in
              let '(rest, re) := t_read_rest t2 in
              let model := dr_obs out e de rest re in
              let agree := sx_eqb model (SL (XT "obs" :: obs)) in
              (* oracle: the property specs evaluated on the recorded behaviour *)
              let transparent := match retry with O => lim_ok ll 0%N rs | _ => retry_judged ll mx retry rs end in
              let stream := match retry with O => raws_bytes rs | _ => raws_all_bytes rs end in
              let o_out := match assoc1 "out" obs with Some x => sx_bytes x | None => None end in
              let o_err := assoc1 "err" obs in
              let o_rest := match assoc1 "rest" obs with Some x => sx_bytes x | None => None end in
              let is_e (tag : string) := match o_err with Some x => sx_is tag x | None => false end in
              (* C06 itself, on whatever was recorded: with a limit the reader never hands over more
                 than that many octets - octets that came with a failed read included *)
              let over := match o_out with
                          | Some oo => (0 <? mx)%Z && (mx <? Z.of_nat (List.length oo))%Z
                          | None => false
                          end in
              let viol :=
                (if over then [bs "C06"] else []) ++
                if negb transparent then []
                else match unstuff stream, o_out, o_rest, stop with
                     | Complete body rest, Some oo, Some orr, None =>
                         if (mx <=? 0)%Z || (Z.of_nat (List.length body) <=? mx)%Z then
                           (if bytes_eqb oo body && is_e "eof"%string then [] else [bs "C01"; bs "C06"])
                           ++ (if bytes_eqb orr rest then [] else [bs "C02"])
                         else
                           (if bytes_eqb oo (firstn (Z.to_nat mx) body) && is_e "toolarge"%string
                            then [] else [bs "C06"])
                           ++ (if bytes_eqb orr rest then [] else [bs "C02"])
                     | Incomplete body, Some oo, _, _ =>
                         (if is_e "eof"%string then [bs "C07"] else [])
                         ++ (if (mx <=? 0)%Z && negb (is_prefix oo body) then [bs "C01"] else [])
                     | _, _, _, _ => []
                     end in
              let tags :=
                [match unstuff stream with Complete _ _ => bs "complete" | Incomplete _ => bs "incomplete" end;
                 if transparent then bs "transparent" else bs "limiter-trips";
                 if (0 <? mx)%Z then bs "limited" else bs "unlimited"]
                ++ match retry with O => [] | _ => [bs "reads-on-after-failure"] end in
              mkV true agree model viol [] tags
          | None => bad_case
          end
      | _, _, _, _ => bad_case
      end
  | _, _, _, _, _, _ => bad_case
  end.

