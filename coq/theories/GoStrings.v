(* The part of Go's strings package go-smtp uses, on octet strings.
   Go's functions are Unicode-aware; modelled exactly: white space
   (unicode.IsSpace on UTF-8 decoded runes), and for case mapping / folding the
   ASCII letters plus the only non-ASCII code points whose upper case or
   simple fold is an ASCII letter: U+017F (long s), U+0131 (dotless i) for
   ToUpper, U+017F and U+212A (Kelvin) for EqualFold.  Other non-ASCII octets
   are left unchanged by [to_upper] (Go maps them inside the non-ASCII range,
   or to U+FFFD when they are not valid UTF-8); this only matters where such a
   string is echoed in a reply text. *)
From Smtp Require Import Bytes.
Local Open Scope char_scope.

Definition b (n : N) : ascii := n_byte n.

(* ---- white space: unicode.IsSpace ---- *)

(* UTF-8 encodings of the non-ASCII White_Space code points *)
Definition uni_spaces : list bytes :=
  [ [b 194; b 133]; [b 194; b 160];            (* U+0085, U+00A0 *)
    [b 225; b 154; b 128];                     (* U+1680 *)
    [b 226; b 128; b 128]; [b 226; b 128; b 129]; [b 226; b 128; b 130];
    [b 226; b 128; b 131]; [b 226; b 128; b 132]; [b 226; b 128; b 133];
    [b 226; b 128; b 134]; [b 226; b 128; b 135]; [b 226; b 128; b 136];
    [b 226; b 128; b 137]; [b 226; b 128; b 138]; (* U+2000..U+200A *)
    [b 226; b 128; b 168]; [b 226; b 128; b 169]; (* U+2028, U+2029 *)
    [b 226; b 128; b 175];                     (* U+202F *)
    [b 226; b 129; b 159];                     (* U+205F *)
    [b 227; b 128; b 128] ].                   (* U+3000 *)

(* '\t', '\n', '\v', '\f', '\r', ' ' *)
Definition is_ascii_space (c : ascii) : bool :=
  in_range 9 13 c || Ascii.eqb c " ".

(* number of octets of white space at the head of s (0 if none) *)
Definition space_len (s : bytes) : nat :=
  match s with
  | [] => 0
  | c :: _ =>
      if is_ascii_space c then 1
      else match find (fun u => is_prefix u s) uni_spaces with
           | Some u => List.length u
           | None => 0
           end
  end.

Fixpoint trim_left_f (fuel : nat) (s : bytes) : bytes :=
  match fuel with
  | O => s
  | S f => match space_len s with
           | O => s
           | n => trim_left_f f (skipn n s)
           end
  end.
Definition trim_left_space (s : bytes) : bytes := trim_left_f (List.length s) s.

(* white space at the end: the reversed string starts with a reversed space *)
Definition space_len_rev (r : bytes) : nat :=
  match r with
  | [] => 0
  | c :: _ =>
      if is_ascii_space c then 1
      else match find (fun u => is_prefix (rev u) r) uni_spaces with
           | Some u => List.length u
           | None => 0
           end
  end.

Fixpoint trim_right_f (fuel : nat) (r : bytes) : bytes :=
  match fuel with
  | O => r
  | S f => match space_len_rev r with
           | O => r
           | n => trim_right_f f (skipn n r)
           end
  end.
Definition trim_right_space (s : bytes) : bytes :=
  rev (trim_right_f (List.length s) (rev s)).

(* strings.TrimSpace *)
Definition trim_space (s : bytes) : bytes := trim_right_space (trim_left_space s).

(* strings.Fields: split around runs of white space.  [cur] is the current
   field, reversed. *)
Fixpoint fields_f (fuel : nat) (s : bytes) (cur : bytes) : list bytes :=
  match fuel with
  | O => match cur with [] => [] | _ => [rev cur] end
  | S f =>
      match s with
      | [] => match cur with [] => [] | _ => [rev cur] end
      | c :: t =>
          match space_len s with
          | O => fields_f f t (c :: cur)
          | n => match cur with
                 | [] => fields_f f (skipn n s) []
                 | _ => rev cur :: fields_f f (skipn n s) []
                 end
          end
      end
  end.
Definition fields (s : bytes) : list bytes := fields_f (S (List.length s)) s [].

(* strings.TrimRight(s, "\r\n") *)
Fixpoint trim_right_crlf_rev (r : bytes) : bytes :=
  match r with
  | c :: t => if Ascii.eqb c CR || Ascii.eqb c LF then trim_right_crlf_rev t else r
  | [] => []
  end.
Definition trim_right_crlf (s : bytes) : bytes := rev (trim_right_crlf_rev (rev s)).

(* ---- case ---- *)

(* strings.ToUpper *)
Fixpoint to_upper (s : bytes) : bytes :=
  match s with
  | [] => []
  | c :: t =>
      match t with
      | d :: t' =>
          if Ascii.eqb c (b 197) && Ascii.eqb d (b 191) then "S" :: to_upper t'
          else if Ascii.eqb c (b 196) && Ascii.eqb d (b 177) then "I" :: to_upper t'
          else up1 c :: to_upper t
      | [] => [up1 c]
      end
  end.

(* parse.go upperASCII: only the ASCII letters, every other octet unchanged *)
Definition to_upper_ascii (s : bytes) : bytes := map up1 s.

Definition all_ascii (s : bytes) : bool := forallb is_ascii7 s.

(* strings.EqualFold(s, p) for an ASCII pattern p.  Simple folding makes
   U+017F equal to S/s and U+212A equal to K/k. *)
Fixpoint equal_fold (s p : bytes) : bool :=
  match p with
  | [] => match s with [] => true | _ => false end
  | x :: p' =>
      match s with
      | [] => false
      | c :: t =>
          if Ascii.eqb (up1 c) (up1 x) then equal_fold t p'
          else if Ascii.eqb (up1 x) "S" then
            match t with
            | d :: t' => Ascii.eqb c (b 197) && Ascii.eqb d (b 191) && equal_fold t' p'
            | [] => false
            end
          else if Ascii.eqb (up1 x) "K" then
            match t with
            | d :: e :: t' =>
                Ascii.eqb c (b 226) && Ascii.eqb d (b 132) && Ascii.eqb e (b 170) && equal_fold t' p'
            | _ => false
            end
          else false
      end
  end.

(* ---- misc ---- *)

Definition has_prefix (s p : bytes) : bool := is_prefix p s.
Definition has_suffix (s p : bytes) : bool := is_suffix p s.

(* strings.Contains for a one-octet needle *)
Definition contains_byte (s : bytes) (c : ascii) : bool := mem_byte c s.

(* strings.SplitN(s, sep, 2) for a one-octet separator *)
Definition splitn2 (c : ascii) (s : bytes) : list bytes :=
  match cut_byte c s with
  | Some (a, r) => [a; r]
  | None => [s]
  end.
