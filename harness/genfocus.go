package harness

import (
	"fmt"
	"math/rand"
	"strings"
)

// Focused conversation generators: one per server-side property, following the
// property's own quantifier. Each case is a complete, deliberately simple
// conversation whose expected protocol outcome the generator can state from
// the property text alone (expected reply codes, expected message octets,
// "the reader must not report EOF"); these expectations travel with the case
// and are judged by the oracle in CheckOracle.v against the implementation's
// recorded behaviour, independently of the server model.

type fconv struct {
	cfg    Cfg
	script Script
	out    []byte
	cuts   []int
	codes  []int // expected reply codes, in order; nil once unknown
	known  bool
	extra  []*Sx
}

func newF(cfg Cfg) *fconv { return &fconv{cfg: cfg, codes: []int{220}, known: true} }

func (f *fconv) raw(s string)      { f.out = append(f.out, s...) }
func (f *fconv) cut()              { f.cuts = append(f.cuts, len(f.out)) }
func (f *fconv) expect(c ...int)   { f.codes = append(f.codes, c...) }
func (f *fconv) unknown()          { f.known = false }
func (f *fconv) cmd(l string, c ...int) {
	f.out = append(f.out, l...)
	f.out = append(f.out, '\r', '\n')
	f.expect(c...)
}
func (f *fconv) hello() {
	if f.cfg.LMTP {
		f.cmd("LHLO c.example", 250)
	} else {
		f.cmd("EHLO c.example", 250)
	}
}
func (f *fconv) add(x *Sx) { f.extra = append(f.extra, x) }

func (f *fconv) caseOf(focus string, raws []Raw) ConvCase {
	ex := []*Sx{L(A("focus"), A(focus))}
	if f.known {
		l := L()
		for _, c := range f.codes {
			l.Add(Num(int64(c)))
		}
		ex = append(ex, L(A("expect-codes"), l))
	}
	ex = append(ex, f.extra...)
	cfg := f.cfg
	cfg.Timeouts = nextTimeouts()
	return ConvCase{Cfg: cfg, Script: f.script, Phases: [][]Raw{raws}, Extra: ex}
}

// every third generated conversation runs on a server with ReadTimeout/WriteTimeout configured (see Cfg.Timeouts)
var timeoutsCounter int

func nextTimeouts() bool {
	timeoutsCounter++
	return timeoutsCounter%3 == 0
}

// segStream cuts s into raw reads. mode: 0 one segment (apart from forced
// cuts), 1 per line, 2 byte by byte, 3 random, 4 random small.
func segStream(r *rand.Rand, s []byte, cuts []int, mode int, term Raw) []Raw {
	cutset := map[int]bool{}
	for _, c := range cuts {
		cutset[c] = true
	}
	var raws []Raw
	start := 0
	for i := 1; i <= len(s); i++ {
		b := false
		switch mode {
		case 1:
			b = s[i-1] == '\n'
		case 2:
			b = true
		case 3:
			b = r.Intn(13) == 0
		case 4:
			b = r.Intn(3) == 0
		}
		if b || cutset[i] || i == len(s) {
			if i > start {
				raws = append(raws, Raw{Kind: RawData, Data: append([]byte(nil), s[start:i]...)})
				start = i
			}
		}
	}
	return append(raws, term)
}

var rawEOF = Raw{Kind: RawEOF}

// unstuffLen: length of the message the backend must read for the wire
// content c (complete CRLF-terminated lines, not containing a "." line).
func unstuffed(c []byte) []byte {
	var out []byte
	bol := true
	for i := 0; i < len(c); i++ {
		if bol && c[i] == '.' {
			bol = false
			continue
		}
		out = append(out, c[i])
		bol = c[i] == '\n' && i > 0 && c[i-1] == '\r'
	}
	return out
}

func codeOf(e BErr) int {
	switch e.Kind {
	case "smtp":
		return e.Code
	case "plain":
		return 554
	}
	return 250
}

// dataVerdict: the reply code the property prescribes for a DATA message of
// bodyLen octets under the given limit and backend plan.
func dataVerdict(p DataPlan, bodyLen int, limit int64) int {
	readerFails := limit > 0 && int64(bodyLen) > limit && (p.Stop < 0 || p.Stop > limit)
	if readerFails && p.Prop {
		return 552
	}
	return codeOf(p.Ret)
}

var c02Bodies = []string{
	"hello\r\nMAIL FROM:<bait@evil>\r\nbye\r\n",
	"a\n.\nMAIL FROM:<bait@evil>\r\n",
	"a\n.\r\nMAIL FROM:<bait@evil>\r\n",
	"a\r\n.\nMAIL FROM:<bait@evil>\r\n",
	"a\r.\rMAIL FROM:<bait@evil>\r\n",
	"..\r\nRCPT TO:<bait@evil>\r\n..\r\n",
	strings.Repeat("0123456789\r\n", 40) + "RSET\r\nMAIL FROM:<bait@evil>\r\nRCPT TO:<bait@evil>\r\n",
	"",
	".\rx\r\nMAIL FROM:<bait@evil>\r\n",
	"a\r\r\n.x\r\nMAIL FROM:<bait@evil>\r\n",
	"\x00\xff\r\n\n.\n\nQUIT\r\nMAIL FROM:<bait@evil>\r\n",
}

func rejectErr() BErr { return BSmtp(550, [3]int{5, 7, 1}, "rejected by policy") }

// GenC02: DATA end-of-data detection and resumption of the command stream.
func GenC02(rng *rand.Rand, thorough bool, emit func(*Sx)) {
	type mode struct{ lmtp, sess bool }
	modes := []mode{{false, false}, {true, false}, {true, true}}
	// stop = -2 / -3 stand for "one / two octets short of the whole message" (resolved per body below)
	plans := []DataPlan{}
	for _, stop := range []int64{-1, 3, 0, -2, -3} {
		// (421 is the code of the server's own "closing the channel" replies: from a backend it is a verdict like
		// any other, the command stream goes on behind the end marker)
		for _, ret := range []BErr{BNil, rejectErr(), BSmtp(421, [3]int{4, 3, 2}, "try again later")} {
			for _, prop := range []bool{true, false} {
				p := DefaultPlan()
				p.Stop, p.Ret, p.Prop = stop, ret, prop
				plans = append(plans, p)
			}
		}
	}
	sizesPool := [][]int{{4096}, {1}, {5, 2}}
	n := 0
	for _, m := range modes {
		for bi, body := range c02Bodies {
			blen := len(unstuffed([]byte(body)))
			limits := []int64{0}
			if blen > 3 {
				limits = append(limits, int64(blen-3), int64(blen-2), int64(blen-1), int64(blen), int64(blen+1), int64(blen+5))
			}
			for _, lim := range limits {
				for pi, p0 := range plans {
					p := p0
					near := false // a backend that stops just short of the end, or a limit just below the size
					if p.Stop <= -2 {
						if blen < 4 {
							continue
						}
						p.Stop = int64(blen) + p.Stop + 1
						near = true
					}
					if lim == int64(blen-1) || lim == int64(blen-2) {
						near = true
					}
					for seg := 0; seg < 4; seg++ {
						n++
						if !thorough && (n+bi+pi)%5 != 0 && !(near && seg == bi%4 && bi < 7) {
							continue
						}
						if seg == 2 && len(body) > 200 {
							continue
						}
						cfg := DefaultCfg()
						cfg.LMTP, cfg.LMTPSession, cfg.MaxBytes = m.lmtp, m.sess, lim
						f := newF(cfg)
						f.hello()
						f.cmd("MAIL FROM:<s@ok>", 250)
						nr := 1 + (n % 2)
						for i := 0; i < nr; i++ {
							f.cmd(fmt.Sprintf("RCPT TO:<r%d@ok>", i), 250)
						}
						f.cmd("DATA", 354)
						p.Sizes = sizesPool[n%len(sizesPool)]
						f.script.Data = []DataPlan{p}
						f.raw(body)
						f.raw(".\r\n")
						v := dataVerdict(p, blen, lim)
						if m.lmtp {
							for i := 0; i < nr; i++ {
								f.expect(v)
							}
						} else {
							f.expect(v)
						}
						f.cmd("MAIL FROM:<after@ok>", 250)
						f.cmd("QUIT", 221)
						f.add(L(A("must-mail"), XS("after@ok")))
						emit(RunConv(f.caseOf("C02", segStream(rng, f.out, f.cuts, seg, rawEOF))))
					}
				}
			}
		}
	}
	// message after message refused by the backend (or over the limit): each final reply ends its own
	// transaction and nothing else - the command behind the last end marker is executed
	for _, m := range modes {
		for _, how := range []string{"reject", "toolarge", "mixed"} {
			for _, nmsg := range []int{4, 6} {
				cfg := DefaultCfg()
				cfg.LMTP, cfg.LMTPSession = m.lmtp, m.sess
				if how != "reject" {
					cfg.MaxBytes = 8
				}
				f := newF(cfg)
				f.hello()
				for i := 0; i < nmsg; i++ {
					f.cmd(fmt.Sprintf("MAIL FROM:<s%d@ok>", i), 250)
					f.cmd("RCPT TO:<r0@ok>", 250)
					f.cmd("DATA", 354)
					p := DefaultPlan()
					code := 550
					switch {
					case how == "reject" || (how == "mixed" && i%2 == 0):
						p.Ret = rejectErr()
						f.raw("short\r\n.\r\n")
					default:
						f.raw("a message that is longer than eight octets\r\n.\r\n")
						code = 552
					}
					f.script.Data = append(f.script.Data, p)
					f.expect(code)
				}
				f.cmd("MAIL FROM:<after@ok>", 250)
				f.cmd("QUIT", 221)
				f.add(L(A("must-mail"), XS("after@ok")))
				emit(RunConv(f.caseOf("C02", segStream(rng, f.out, f.cuts, nmsg%3, rawEOF))))
			}
		}
	}
	// a very large message the backend does not read (refuses at once / reads a few octets / stops at the
	// size limit): however much is left, it is skipped up to the end marker and never run as commands
	for mi, m := range modes {
		for bi, big := range []int{300 << 10, 1100 << 10} {
			if !thorough && bi == 1 && mi != 0 {
				continue
			}
			for pi, stop := range []int64{0, 3} {
				if !thorough && (mi+bi+pi)%2 != 0 {
					continue
				}
				cfg := DefaultCfg()
				cfg.LMTP, cfg.LMTPSession = m.lmtp, m.sess
				if pi == 1 {
					cfg.MaxBytes = 1000
				}
				f := newF(cfg)
				f.hello()
				f.cmd("MAIL FROM:<s@ok>", 250)
				f.cmd("RCPT TO:<r0@ok>", 250)
				f.cmd("DATA", 354)
				p := DefaultPlan()
				p.Stop, p.Ret = stop, rejectErr()
				p.Sizes = []int{4096}
				f.script.Data = []DataPlan{p}
				line := "MAIL FROM:<bait@evil>\r\n"
				f.raw(strings.Repeat(line, big/len(line)))
				f.raw(".\r\n")
				f.expect(550)
				f.cmd("MAIL FROM:<after@ok>", 250)
				f.cmd("QUIT", 221)
				f.add(L(A("must-mail"), XS("after@ok")))
				f.add(L(A("must-not-mail"), XS("bait@evil")))
				emit(RunConv(f.caseOf("C02", segStream(rng, f.out, f.cuts, 0, rawEOF))))
			}
		}
	}
	// A backend that PANICS after reading a few octets of a message whose rest (bait lines, end marker, more
	// commands) is already in the server's buffer: whatever the server answers, the connection is over - no
	// octet of the unread message is executed as a command.
	for mi, m := range modes {
		for _, stop := range []int64{0, 3, 30} {
			for seg := 0; seg < 2; seg++ {
				cfg := DefaultCfg()
				cfg.LMTP, cfg.LMTPSession = m.lmtp, m.sess
				f := newF(cfg)
				f.known = false
				f.hello()
				f.raw("MAIL FROM:<s@ok>\r\nRCPT TO:<r0@ok>\r\nDATA\r\n")
				p := DefaultPlan()
				p.Stop, p.Panic = stop, true
				p.Sizes = []int{1}
				f.script.Data = []DataPlan{p}
				f.raw("first line of the message\r\nsecond line\r\nRSET\r\nMAIL FROM:<bait@evil>\r\nRCPT TO:<bait@evil>\r\nDATA\r\nsmuggled\r\n.\r\n")
				f.raw("MAIL FROM:<after@ok>\r\nQUIT\r\n")
				f.add(L(A("must-not-mail"), XS("bait@evil")))
				f.add(L(A("must-not-mail"), XS("after@ok")))
				_ = mi
				emit(RunConv(f.caseOf("C02", segStream(rng, f.out, f.cuts, seg, rawEOF))))
			}
		}
	}
	// An unread message with a line longer than the line limit, segmented so that the over-long paragraph is a
	// raw read of its own between "...CRLF" and ".CRLF<bait commands>": the drain of the rest of the message
	// meets the over-long line.  Whatever the server then does (it closes), it has not seen CRLF.CRLF: the bait
	// lines behind the paragraph's final dot are message text, never commands.
	for mi, m := range modes {
		for _, lim := range []int{60, 2000} {
			for pi, stop := range []int64{0, 3, 9} {
				for ri, ret := range []BErr{BNil, rejectErr()} {
					for shape := 0; shape < 3; shape++ {
						if !thorough && (mi+pi+ri+shape)%2 != 0 {
							continue
						}
						cfg := DefaultCfg()
						cfg.LMTP, cfg.LMTPSession, cfg.MaxLine = m.lmtp, m.sess, lim
						f := newF(cfg)
						f.known = false
						f.hello()
						f.raw("MAIL FROM:<s@ok>\r\nRCPT TO:<r0@ok>\r\nDATA\r\n")
						p := DefaultPlan()
						p.Stop, p.Ret = stop, ret
						f.script.Data = []DataPlan{p}
						f.raw("first line\r\n")
						f.cut()
						switch shape {
						case 0: // the paragraph alone in its read
							f.raw(strings.Repeat("x", lim+40))
							f.cut()
						case 1: // in two reads
							f.raw(strings.Repeat("x", lim-5))
							f.cut()
							f.raw(strings.Repeat("y", 60))
							f.cut()
						case 2: // three times the limit
							f.raw(strings.Repeat("x", 3*lim))
							f.cut()
						}
						f.raw(".\r\nMAIL FROM:<bait@evil>\r\nRCPT TO:<bait@evil>\r\nlast line\r\n")
						f.cut()
						f.raw(".\r\n")
						f.raw("MAIL FROM:<after@ok>\r\nQUIT\r\n")
						f.add(L(A("must-not-mail"), XS("bait@evil")))
						emit(RunConv(f.caseOf("C02", segStream(rng, f.out, f.cuts, 0, rawEOF))))
					}
				}
			}
		}
	}
	// A read that fails inside the message (finding F30).  A read deadline that has expired stays expired
	// until the command loop arms it again; on a scripted connection that is a failure that REPEATS: the
	// backend's read fails, then the server's drain of the rest of the message fails.  The end of the
	// message has not been reached, so the connection must be closed after the final reply - the rest of
	// the message (here: bait lines, the end marker and two commands, delivered after the failures) must
	// not be run as commands.  A single failure seen by the backend is survived: the drain goes on
	// reading, finds the end marker, and commands resume exactly behind it.  (The same over a real socket
	// with a real deadline: kind tmo.)
	for _, m := range modes {
		for _, kind := range []RawKind{RawTimeout, RawErr} {
			for _, nfail := range []int{1, 2, 3} {
				for _, stop := range []int64{-1, 3} {
					cfg := DefaultCfg()
					cfg.LMTP, cfg.LMTPSession = m.lmtp, m.sess
					f := newF(cfg)
					f.hello()
					f.cmd("MAIL FROM:<s@ok>", 250)
					f.cmd("RCPT TO:<r0@ok>", 250)
					f.cmd("DATA", 354)
					p := DefaultPlan()
					p.Stop = stop
					if stop >= 0 {
						p.Sizes = []int{int(stop)} // reads its octets and accepts; the failure hits the drain
					}
					f.script.Data = []DataPlan{p}
					f.raw("first line\r\n")
					k := len(f.out)
					f.raw("MAIL FROM:<bait@evil>\r\nRCPT TO:<bait@evil>\r\n.\r\n")
					final := 554
					if stop >= 0 {
						final = 250
					}
					f.expect(final)
					// the drain fails when a failure is left for it
					closes := nfail >= 2 || stop >= 0
					if closes {
						f.cmd("MAIL FROM:<after@ok>")
						f.cmd("QUIT")
						f.add(L(A("must-not-mail"), XS("after@ok")))
						f.add(L(A("expect-last"), Num(int64(final))))
					} else {
						f.cmd("MAIL FROM:<after@ok>", 250)
						f.cmd("QUIT", 221)
						f.add(L(A("must-mail"), XS("after@ok")))
					}
					f.add(L(A("must-not-mail"), XS("bait@evil")))
					raws := []Raw{{Kind: RawData, Data: append([]byte(nil), f.out[:k]...)}}
					for i := 0; i < nfail; i++ {
						raws = append(raws, Raw{Kind: kind})
					}
					raws = append(raws, Raw{Kind: RawData, Data: append([]byte(nil), f.out[k:]...)}, rawEOF)
					emit(RunConv(f.caseOf("C02", raws)))
				}
			}
		}
	}
}

var c05Payloads = []string{
	"ab\r\n.\r\ncd",
	"\r\nMAIL FROM:<chunk@evil>\r\nRCPT TO:<chunk@evil>\r\n",
	"\x00\xff\x80\r\x00\n.",
	strings.Repeat("x", 100),
	"QUIT\r\n",
	"plain text\r\n",
}

// split s into pieces of the given sizes (the last piece takes the rest)
func chop(s string, sizes []int) []string {
	var out []string
	for _, z := range sizes {
		if z > len(s) {
			z = len(s)
		}
		out = append(out, s[:z])
		s = s[z:]
	}
	if len(s) > 0 {
		out = append(out, s)
	}
	return out
}

// GenC05: BDAT framing.
func GenC05(rng *rand.Rand, thorough bool, emit func(*Sx)) {
	genF6Witness(rng, emit)
	genBigRefusedChunk(rng, "C05", emit)
	chunkings := [][]int{{1 << 20}, {0, 1 << 20}, {3, 0, 4}, {1, 1, 1}, {5}, {0}}
	states := []string{"ok", "nomail", "allrej", "badlast", "over", "lmtp", "lmtpsess"}
	lastModes := []string{"last", "emptylast", "nolast"}
	n := 0
	for _, st := range states {
		for pi, payload := range c05Payloads {
			for ci, ck := range chunkings {
				for _, lm := range lastModes {
					for seg := 0; seg < 4; seg++ {
						n++
						if !thorough && (n+pi+ci)%6 != 0 {
							continue
						}
						cfg := DefaultCfg()
						cfg.MaxLine = 60
						cfg.LMTP = st == "lmtp" || st == "lmtpsess"
						cfg.LMTPSession = st == "lmtpsess"
						pieces := chop(payload, ck)
						if st == "over" {
							cfg.MaxBytes = int64(len(payload)) - 1
							if cfg.MaxBytes < 1 {
								continue
							}
						}
						f := newF(cfg)
						f.hello()
						open := false // a transaction in which BDAT is acceptable
						nr := 1
						switch st {
						case "nomail":
						case "allrej":
							f.cmd("MAIL FROM:<s@ok>", 250)
							f.cmd("RCPT TO:<r@ok>", 550)
							f.script.Rcpt = []BErr{rejectErr()}
						default:
							f.cmd("MAIL FROM:<s@ok>", 250)
							nr = 1 + n%2
							for i := 0; i < nr; i++ {
								f.cmd(fmt.Sprintf("RCPT TO:<r%d@ok>", i), 250)
							}
							open = true
						}
						verdict := BNil
						if n%7 == 0 {
							verdict = rejectErr()
						}
						p := DefaultPlan()
						p.Ret = verdict
						f.script.Data = []DataPlan{p}
						received := 0
						complete := false
						var delivered []byte
						for i, piece := range pieces {
							isLast := i == len(pieces)-1 && lm == "last"
							arg := ""
							if isLast {
								arg = " LAST"
							}
							if st == "badlast" && i == 0 {
								arg = " LOST"
							}
							line := fmt.Sprintf("BDAT %d%s", len(piece), arg)
							switch {
							case !open:
								f.cmd(line, 502)
							case st == "badlast" && i == 0:
								f.cmd(line, 501) // the transaction is not reset by a 501: later chunks continue it
							case cfg.MaxBytes > 0 && int64(received+len(piece)) > cfg.MaxBytes:
								f.cmd(line, 552)
								open = false
							default:
								received += len(piece)
								delivered = append(delivered, piece...)
								if isLast {
									complete = true
									v := codeOf(verdict)
									if cfg.LMTP {
										for k := 0; k < nr; k++ {
											f.expect(v)
										}
										f.cmd(line)
									} else {
										f.cmd(line, v)
									}
									open = false
								} else {
									f.cmd(line, 250)
								}
							}
							// the line-length limiter must not see payload octets: keep the payload in a
							// later raw read than its command whenever it has a long LF-free run (known finding F6)
							if len(piece) > 40 || seg == 1 {
								f.cut()
							}
							f.raw(piece)
						}
						if lm == "emptylast" {
							line := "BDAT 0 LAST"
							if open {
								complete = true
								v := codeOf(verdict)
								if cfg.LMTP {
									for k := 0; k < nr; k++ {
										f.expect(v)
									}
									f.cmd(line)
								} else {
									f.cmd(line, v)
								}
								open = false
							} else {
								f.cmd(line, 502)
							}
						}
						if open {
							// transfer left open: MAIL is refused during a message transfer, RSET aborts it
							f.cmd("RSET", 250)
						}
						if st == "badlast" {
							// the refused first chunk's octets are missing from the message: do not pin it
							complete = false
						}
						f.cmd("MAIL FROM:<after@ok>", 250)
						f.cmd("QUIT", 221)
						f.add(L(A("must-mail"), XS("after@ok")))
						if complete {
							f.add(L(A("expect-del"), X(delivered)))
						}
						mode := seg
						if seg == 1 {
							mode = 0
						}
						emit(RunConv(f.caseOf("C05", segStream(rng, f.out, f.cuts, mode, rawEOF))))
					}
				}
			}
		}
	}
	// A read that fails inside a chunk (finding F30; see GenC02).  An accepted chunk is read twice - the
	// copy to the backend, then the discard of what is left - so one failure is survived (the discard
	// skips the rest of the declared octets and commands resume behind them), a repeated one is not: the
	// declared octets could not be skipped and the connection must be closed after the reply.  A refused
	// chunk is read once: any failure inside it closes the connection.
	for _, st := range []string{"ok", "lmtp", "lmtpsess", "nomail", "badlast", "over"} {
		for _, kind := range []RawKind{RawTimeout, RawErr} {
			for _, nfail := range []int{1, 2, 3} {
				for _, last := range []bool{true, false} {
					cfg := DefaultCfg()
					cfg.LMTP = st == "lmtp" || st == "lmtpsess"
					cfg.LMTPSession = st == "lmtpsess"
					payload := "first part\r\nMAIL FROM:<chunk@evil>\r\nRCPT TO:<chunk@evil>\r\n"
					if st == "over" {
						cfg.MaxBytes = 10
					}
					f := newF(cfg)
					f.hello()
					if st != "nomail" {
						f.cmd("MAIL FROM:<s@ok>", 250)
						f.cmd("RCPT TO:<r0@ok>", 250)
					}
					arg := ""
					if last {
						arg = " LAST"
					}
					code := 554
					refused := true
					switch st {
					case "nomail":
						code = 502
					case "badlast":
						code, arg = 501, " LOST"
					case "over":
						code = 552
					default:
						refused = false
					}
					f.cmd(fmt.Sprintf("BDAT %d%s", len(payload), arg), code)
					f.raw(payload[:12])
					k := len(f.out)
					f.raw(payload[12:])
					closes := nfail >= 2 || refused
					if closes {
						f.cmd("MAIL FROM:<after@ok>")
						f.cmd("QUIT")
						f.add(L(A("must-not-mail"), XS("after@ok")))
						f.add(L(A("expect-last"), Num(int64(code))))
					} else {
						f.cmd("MAIL FROM:<after@ok>", 250)
						f.cmd("QUIT", 221)
						f.add(L(A("must-mail"), XS("after@ok")))
					}
					f.add(L(A("must-not-mail"), XS("chunk@evil")))
					f.add(L(A("forbid-eof")))
					raws := []Raw{{Kind: RawData, Data: append([]byte(nil), f.out[:k]...)}}
					for i := 0; i < nfail; i++ {
						raws = append(raws, Raw{Kind: kind})
					}
					raws = append(raws, Raw{Kind: RawData, Data: append([]byte(nil), f.out[k:]...)}, rawEOF)
					emit(RunConv(f.caseOf("C05", raws)))
				}
			}
		}
	}
}

// genBigRefusedChunk: a chunk far larger than any internal buffer (70 000 and 200 000 octets, full of lines that
// look like commands) whose backend gives up early - with a refusal or with nil - after 0, 3 or 40 000 octets.
// Whatever the verdict, the whole chunk is consumed as payload: none of its lines is executed or answered, the next
// command is the one after the chunk.
func genBigRefusedChunk(rng *rand.Rand, focus string, emit func(*Sx)) {
	unit := "0123456789abcdef0123456789abcdef\r\nMAIL FROM:<chunk@evil>\r\nRCPT TO:<chunk@evil>\r\nNOOP\r\n"
	n := 0
	for _, size := range []int{70000, 200000} {
		for _, stop := range []int64{0, 3, 40000} {
			for _, last := range []bool{false, true} {
				for _, lmtp := range []bool{false, true} {
					n++
					cfg := DefaultCfg()
					cfg.LMTP, cfg.LMTPSession = lmtp, lmtp && n%2 == 0
					f := newF(cfg)
					f.hello()
					f.cmd("MAIL FROM:<s@ok>", 250)
					f.cmd("RCPT TO:<r0@ok>", 250)
					payload := strings.Repeat(unit, size/len(unit)+1)[:size]
					p := DefaultPlan()
					p.Stop, p.Ret = stop, rejectErr()
					f.script.Data = []DataPlan{p}
					arg := ""
					if last {
						arg = " LAST"
					}
					f.cmd(fmt.Sprintf("BDAT %d%s", size, arg), 550)
					f.raw(payload)
					f.cmd("MAIL FROM:<after@ok>", 250)
					f.cmd("QUIT", 221)
					f.add(L(A("must-mail"), XS("after@ok")))
					f.add(L(A("must-not-mail"), XS("chunk@evil")))
					// one reply per command, in order - also stated for C04 (lines of the payload must not be answered)
					cl := L()
					for _, c := range f.codes {
						cl.Add(Num(int64(c)))
					}
					f.add(L(A("for"), A("C04"), L(A("expect-codes"), cl)))
					// (one raw read, or one per line for the smaller size: the model is slow on many thousand reads)
					mode := 0
					if size < 100000 {
						mode = n % 2
					}
					emit(RunConv(f.caseOf(focus, segStream(rng, f.out, nil, mode, rawEOF))))
				}
			}
		}
	}
}

// genF6Witness: the known finding F6 - payload in the same raw read as its
// BDAT command passes through the line limiter. The expectation stated here is
// the property's (250); the implementation answers 500 and closes.
func genF6Witness(rng *rand.Rand, emit func(*Sx)) {
	for _, last := range []string{" LAST", ""} {
		cfg := DefaultCfg()
		cfg.MaxLine = 60
		f := newF(cfg)
		f.hello()
		f.cmd("MAIL FROM:<s@ok>", 250)
		f.cmd("RCPT TO:<r@ok>", 250)
		f.cut()
		f.cmd("BDAT 100"+last, 250)
		f.raw(strings.Repeat("x", 100))
		f.cmd("QUIT", 221)
		emit(RunConv(f.caseOf("C05", segStream(rng, f.out, f.cuts, 0, rawEOF))))
	}
}

// GenC13x: LMTP transfers whose final response depends on WHEN the backend sets its statuses, and
// status collectors across transactions.
func GenC13x(rng *rand.Rand, thorough bool, emit func(*Sx)) {
	// (a) a LAST chunk cut short: the backend learns it from its reader, THEN sets statuses
	for _, term := range []Raw{{Kind: RawEOF}, {Kind: RawTimeout}, {Kind: RawErr}} {
		for _, nr := range []int{1, 2, 3} {
			for _, sess := range []bool{true, false} {
				cfg := DefaultCfg()
				cfg.LMTP, cfg.LMTPSession = true, sess
				f := newF(cfg)
				f.hello()
				f.cmd("MAIL FROM:<s@ok>", 250)
				p := DefaultPlan()
				p.Prop = false
				for i := 0; i < nr; i++ {
					f.cmd(fmt.Sprintf("RCPT TO:<r%d@ok>", i), 250)
				}
				want := make([]int, nr)
				for i := range want {
					want[i] = 250
				}
				if sess {
					p.Status = []StatusCall{{Addr: "r0@ok", Err: rejectErr()}}
					want[0] = 550
				}
				f.script.Data = []DataPlan{p}
				f.cmd("BDAT 10 LAST")
				f.raw("only4")
				if term.Kind == RawEOF {
					// the connection ends here: replies may or may not reach the (closed) peer; no expectation
					f.known = false
				} else {
					f.known = false
				}
				_ = want
				emit(RunConv(f.caseOf("C13", segStream(rng, f.out, nil, 0, term))))
			}
		}
	}
	// (a1) a second MAIL inside the transaction (no RSET in between): the recipients accepted so far stay
	// accepted - the client holds a 250 for each - and every one of them gets its reply
	for _, sess := range []bool{true, false} {
		for _, bdat := range []bool{false, true} {
			for _, second := range []string{"MAIL FROM:<s2@ok>", "MAIL FROM:<>"} {
				cfg := DefaultCfg()
				cfg.LMTP, cfg.LMTPSession = true, sess
				f := newF(cfg)
				f.hello()
				f.cmd("MAIL FROM:<s@ok>", 250)
				f.cmd("RCPT TO:<r0@ok>", 250)
				f.cmd(second, 250)
				f.cmd("RCPT TO:<r1@ok>", 250)
				p := DefaultPlan()
				want := []int{250, 250}
				if sess {
					p.Status = []StatusCall{{Addr: "r0@ok", Err: rejectErr()}, {Addr: "r1@ok", Err: BNil}}
					want[0] = 550
				}
				f.script.Data = []DataPlan{p}
				if bdat {
					f.cmd("BDAT 7 LAST")
					f.raw("hello\r\n")
				} else {
					f.cmd("DATA", 354)
					f.raw("hello\r\n.\r\n")
				}
				f.expect(want...)
				f.cmd("QUIT", 221)
				emit(RunConv(f.caseOf("C13", segStream(rng, f.out, f.cuts, 0, rawEOF))))
			}
		}
	}
	// (a2) consecutive complete transactions with DIFFERENT recipient lists: every transaction has its own
	// status collector
	type tx struct {
		rcpts []string
		st    map[string]bool // recipients for which the backend sets 550
		bdat  bool
	}
	seqs := [][]tx{
		{{[]string{"a@ok", "b@ok"}, map[string]bool{"b@ok": true}, true}, {[]string{"b@ok", "a@ok"}, map[string]bool{"b@ok": true}, true}},
		{{[]string{"a@ok", "b@ok"}, map[string]bool{"a@ok": true}, true}, {[]string{"c@ok"}, map[string]bool{"c@ok": true}, true}},
		{{[]string{"a@ok"}, nil, true}, {[]string{"a@ok", "a@ok", "b@ok"}, map[string]bool{"b@ok": true}, true}},
		{{[]string{"a@ok", "b@ok"}, map[string]bool{"b@ok": true}, false}, {[]string{"b@ok"}, map[string]bool{"b@ok": true}, true}},
		{{[]string{"a@ok", "b@ok"}, map[string]bool{"a@ok": true}, true}, {[]string{"b@ok", "c@ok"}, map[string]bool{"c@ok": true}, false}},
		{{[]string{"a@ok"}, nil, true}, {[]string{"b@ok"}, nil, true}, {[]string{"c@ok", "a@ok"}, map[string]bool{"a@ok": true}, true}},
	}
	for _, sess := range []bool{true, false} {
		for _, seq := range seqs {
			cfg := DefaultCfg()
			cfg.LMTP, cfg.LMTPSession = true, sess
			f := newF(cfg)
			f.hello()
			for ti, t := range seq {
				f.cmd(fmt.Sprintf("MAIL FROM:<s%d@ok>", ti), 250)
				p := DefaultPlan()
				for _, a := range t.rcpts {
					f.cmd("RCPT TO:<"+a+">", 250)
				}
				seen := map[string]bool{}
				for _, a := range t.rcpts {
					if sess && t.st[a] && !seen[a] {
						p.Status = append(p.Status, StatusCall{Addr: a, Err: rejectErr()})
						seen[a] = true
					}
				}
				// expected: the first occurrence of an address with a status gets it, the rest the return value (nil)
				used := map[string]bool{}
				for _, a := range t.rcpts {
					if sess && t.st[a] && !used[a] {
						f.expect(550)
						used[a] = true
					} else {
						f.expect(250)
					}
				}
				f.script.Data = append(f.script.Data, p)
				if t.bdat {
					f.cmd("BDAT 3 LAST")
					f.cut()
					f.raw("abc")
				} else {
					// the 354 comes before the per-recipient replies
					n := len(t.rcpts)
					tail := append([]int(nil), f.codes[len(f.codes)-n:]...)
					f.codes = append(f.codes[:len(f.codes)-n], 354)
					f.codes = append(f.codes, tail...)
					f.cmd("DATA")
					f.raw("abc\r\n.\r\n")
				}
			}
			f.cmd("QUIT", 221)
			emit(RunConv(f.caseOf("C13", segStream(rng, f.out, f.cuts, 0, rawEOF))))
		}
	}
	// (a3) a recipient refused for the recipient limit is not a recipient of the transaction
	for _, sess := range []bool{true, false} {
		for _, bdat := range []bool{true, false} {
			cfg := DefaultCfg()
			cfg.LMTP, cfg.LMTPSession = true, sess
			cfg.MaxRcpt = 2
			f := newF(cfg)
			f.hello()
			f.cmd("MAIL FROM:<s@ok>", 250)
			f.cmd("RCPT TO:<a@ok>", 250)
			f.cmd("RCPT TO:<b@ok>", 250)
			f.cmd("RCPT TO:<over@ok>", 452)
			p := DefaultPlan()
			if sess {
				p.Status = []StatusCall{{Addr: "b@ok", Err: rejectErr()}}
			}
			f.script.Data = []DataPlan{p}
			f.add(L(A("must-not-mail"), XS("over@ok")))
			if bdat {
				if sess {
					f.expect(250, 550)
				} else {
					f.expect(250, 250)
				}
				f.cmd("BDAT 3 LAST")
				f.cut()
				f.raw("abc")
			} else {
				f.cmd("DATA", 354)
				f.raw("abc\r\n.\r\n")
				if sess {
					f.expect(250, 550)
				} else {
					f.expect(250, 250)
				}
			}
			f.cmd("QUIT", 221)
			emit(RunConv(f.caseOf("C13", segStream(rng, f.out, f.cuts, 0, rawEOF))))
		}
	}
	// (b) a transaction refused for its size must not leave anything behind for the next one
	for _, sess := range []bool{true, false} {
		for _, firstLast := range []string{"", " LAST"} {
			cfg := DefaultCfg()
			cfg.LMTP, cfg.LMTPSession = true, sess
			cfg.MaxBytes = 5
			f := newF(cfg)
			f.hello()
			f.cmd("MAIL FROM:<s@ok>", 250)
			f.cmd("RCPT TO:<old@ok>", 250)
			f.cmd("BDAT 8"+firstLast, 552)
			f.cut()
			f.raw("toolarge")
			f.cmd("MAIL FROM:<s2@ok>", 250)
			f.cmd("RCPT TO:<n0@ok>", 250)
			f.cmd("RCPT TO:<n1@ok>", 250)
			p := DefaultPlan()
			if sess {
				p.Status = []StatusCall{{Addr: "n1@ok", Err: rejectErr()}}
			}
			f.script.Data = []DataPlan{p}
			if sess {
				f.expect(250, 550)
			} else {
				f.expect(250, 250)
			}
			f.cmd("BDAT 3 LAST")
			f.cut()
			f.raw("abc")
			f.cmd("QUIT", 221)
			f.add(L(A("expect-del"), XS("abc")))
			emit(RunConv(f.caseOf("C13", segStream(rng, f.out, f.cuts, 0, rawEOF))))
		}
	}
}

// GenC17conv: backend errors at every callback through the real server.
func GenC17conv(rng *rand.Rand, thorough bool, emit func(*Sx)) {
	errs := []BErr{rejectErr(), BSmtp(451, [3]int{4, 3, 0}, "try again later"), BSmtp(554, [3]int{0, 0, 0}, "no enhanced code given"),
		BSmtp(550, [3]int{5, 1, 1}, "line one\nline two"), BPlain("plain failure"), BPlain("timeout: upstream did not answer"),
		BPlain("context deadline exceeded"), BSmtp(452, [3]int{4, 2, 2}, "mailbox 100% full (%s)")}
	for ei, e := range errs {
		for _, greet := range []string{"EHLO", "LHLO", "HELO"} {
			lmtp := greet == "LHLO"
			for site := 0; site < 5; site++ {
				if greet == "HELO" && site == 0 {
					continue
				}
				cfg := DefaultCfg()
				cfg.LMTP = lmtp
				if site == 4 {
					cfg.MaxBytes = 10
				}
				f := newF(cfg)
				// the backend's SMTPError as it must appear on the wire (code, enhanced code - the class
				// default when unset -, text line by line), whatever the greeting was
				if e.Kind == "smtp" && site > 0 {
					ec := e.EC
					if ec == [3]int{0, 0, 0} {
						ec = [3]int{e.Code / 100, 0, 0}
					}
					lines := strings.Split(e.Msg, "\n")
					for i, l := range lines {
						sep := "-"
						if i == len(lines)-1 {
							sep = " "
						}
						pre := ""
						if lmtp && site >= 3 && i == 0 {
							pre = "<r@ok> "
						}
						f.add(L(A("expect-line"), XS(fmt.Sprintf("%d%s%d.%d.%d %s%s", e.Code, sep, ec[0], ec[1], ec[2], pre, l))))
					}
				}
				code := codeOf(e)
				if e.Kind == "plain" {
					code = 451
				}
				hello := func() {
					if greet == "HELO" {
						f.cmd("HELO c.example", 250)
					} else {
						f.hello()
					}
				}
				switch site {
				case 0:
					f.script.NS = []BErr{e}
					f.cmd(map[bool]string{false: "EHLO c.example", true: "LHLO c.example"}[lmtp], code)
					f.cmd("QUIT", 221)
				case 1:
					hello()
					f.script.Mail = []BErr{e}
					f.cmd("MAIL FROM:<s@ok>", code)
					f.cmd("QUIT", 221)
				case 2:
					hello()
					f.cmd("MAIL FROM:<s@ok>", 250)
					f.script.Rcpt = []BErr{e}
					f.cmd("RCPT TO:<r@ok>", code)
					f.cmd("QUIT", 221)
				default:
					hello()
					f.cmd("MAIL FROM:<s@ok>", 250)
					f.cmd("RCPT TO:<r@ok>", 250)
					if lmtp {
						f.cmd("RCPT TO:<second@ok>", 250)
					}
					f.cmd("DATA", 354)
					p := DefaultPlan()
					p.Ret, p.Prop = e, false
					f.script.Data = []DataPlan{p, p}
					f.raw("a message that is longer than ten octets\r\n.\r\n")
					f.expect(codeOf(e)) // the backend's own verdict, also when the size limit was hit
					if lmtp {
						// one reply per recipient, each with the backend's text behind its own address only
						f.expect(codeOf(e))
						if e.Kind == "smtp" {
							ec := e.EC
							if ec == [3]int{0, 0, 0} {
								ec = [3]int{e.Code / 100, 0, 0}
							}
							first := strings.Split(e.Msg, "\n")[0]
							sep := " "
							if strings.Contains(e.Msg, "\n") {
								sep = "-"
							}
							f.add(L(A("expect-line"), XS(fmt.Sprintf("%d%s%d.%d.%d <second@ok> %s", e.Code, sep, ec[0], ec[1], ec[2], first))))
						}
					}
					// the same again in a second transaction of the connection
					f.cmd("MAIL FROM:<s2@ok>", 250)
					f.cmd("RCPT TO:<r@ok>", 250)
					f.cmd("DATA", 354)
					f.raw("another message, also longer than ten octets\r\n.\r\n")
					f.expect(codeOf(e))
					f.add(L(A("max-line-prefixes"), Num(1)))
					f.cmd("QUIT", 221)
				}
				emit(RunConv(f.caseOf("C17", segStream(rng, f.out, nil, (ei+site)%3, rawEOF))))
			}
		}
	}
}

// GenC01: what the backend reads depends on nothing but the octets sent after the 354 - not on the
// parameters of MAIL/RCPT, not on earlier transactions of the connection, not on the greeting.
func GenC01(rng *rand.Rand, thorough bool, emit func(*Sx)) {
	bodies := []string{
		"hello\r\n",
		"..leading dot\r\n.x\r\n...\r\n",
		"line one\r\n\r\nbare\nlf and bare\rcr\r\n",
		strings.Repeat("0123456789abcdef\r\n", 30),
		"",
		"\x00\xff binary\r\n",
	}
	mails := func(n int) []string {
		return []string{"", " SIZE=0", " SIZE=1", fmt.Sprintf(" SIZE=%d", n/2), fmt.Sprintf(" SIZE=%d", n-1), fmt.Sprintf(" SIZE=%d", n),
			fmt.Sprintf(" SIZE=%d", n+1), " SIZE=1000000", " BODY=7BIT", " BODY=8BITMIME", " body=8bitmime size=3", " SMTPUTF8", " RET=HDRS ENVID=e1",
			" AUTH=<>", " SIZE=2 BODY=7BIT SMTPUTF8 RET=FULL"}
	}
	rcpts := []string{"", " NOTIFY=NEVER", " ORCPT=rfc822;o@x NOTIFY=SUCCESS,FAILURE"}
	n := 0
	for bi, body := range bodies {
		wire := body + ".\r\n"
		want := string(unstuffed([]byte(body)))
		for mi, mp := range mails(len(want)) {
			if strings.Contains(mp, "=-") {
				continue // empty body: there is no size below it
			}
			for _, mode := range []string{"smtp", "lmtp", "lmtp-session", "helo"} {
				for _, limit := range []int64{0, int64(len(want)), int64(len(want)) + 7} {
					n++
					if !thorough && (n+bi)%4 != 0 {
						continue
					}
					if limit == 0 && len(want) == 0 && mi > 3 {
						continue
					}
					cfg := DefaultCfg()
					cfg.UTF8, cfg.DSN = true, true
					cfg.LMTP = mode == "lmtp" || mode == "lmtp-session"
					cfg.LMTPSession = mode == "lmtp-session"
					cfg.MaxBytes = limit
					if limit > 0 && strings.Contains(mp, "SIZE=1000000") {
						continue // refused with 552: not this property
					}
					if limit > 0 && strings.Contains(mp, fmt.Sprintf("SIZE=%d", len(want)+1)) {
						continue
					}
					f := newF(cfg)
					if mode == "helo" {
						if mp != "" {
							continue // parameters need EHLO? (they do not, but keep HELO cases plain)
						}
						f.cmd("HELO c.example", 250)
					} else {
						f.hello()
					}
					// an earlier transaction with other parameters and another body on the same connection
					if n%3 == 0 {
						f.cmd("MAIL FROM:<first@ok> SIZE=4", 250)
						f.cmd("RCPT TO:<r@ok>", 250)
						f.cmd("DATA", 354)
						earlier := "an earlier message, longer than declared\r\n"
						f.raw(earlier + ".\r\n")
						if limit > 0 && int64(len(earlier)) > limit {
							f.expect(552)
						} else {
							f.expect(250)
						}
					}
					f.cmd("MAIL FROM:<s@ok>"+mp, 250)
					f.cmd("RCPT TO:<r@ok>"+rcpts[n%len(rcpts)], 250)
					f.cmd("DATA", 354)
					f.raw(wire)
					f.expect(250)
					p := DefaultPlan()
					p.Sizes = [][]int{{4096}, {1}, {7}, {3, 1, 2}}[n%4]
					if cfg.LMTPSession {
						// a per-recipient backend that makes up its mind before it reads the message
						p.Status = []StatusCall{{Addr: "r@ok", Err: BNil}}
						p.Early = n%2 == 0
					}
					if n%3 == 0 {
						f.script.Data = []DataPlan{DefaultPlan(), p}
					} else {
						f.script.Data = []DataPlan{p}
					}
					f.add(L(A("expect-last-data"), XS(want), A("eof")))
					f.cmd("QUIT", 221)
					emit(RunConv(f.caseOf("C01", segStream(rng, f.out, f.cuts, n%5, rawEOF))))
				}
			}
		}
	}
}

// GenC06: the message size limit.
func GenC06(rng *rand.Rand, thorough bool, emit func(*Sx)) {
	limits := []int{2, 5, 10, 12, 50}
	if thorough {
		limits = []int{1, 2, 3, 4, 5, 6, 7, 8, 9, 10, 11, 12, 50}
	}
	sizesPool := [][]int{{4096}, {1}, {3}}
	for li, N := range limits {
		var sizes []int
		for s := N - 2; s <= N+2; s++ {
			if s >= 0 {
				sizes = append(sizes, s)
			}
		}
		sizes = append(sizes, 10*N)
		for si, s := range sizes {
			for _, lmtp := range []bool{false, true} {
				// ---- DATA ----
				if s == 0 || s >= 2 {
					for ri, rs := range append(append([][]int{}, sizesPool...), []int{ioCopyBuf}, []int{ioCopyBuf}) {
						if !thorough && (li+si+ri)%2 != 0 {
							continue
						}
						cfg := DefaultCfg()
						cfg.MaxBytes = int64(N)
						cfg.LMTP = lmtp
						f := newF(cfg)
						f.hello()
						f.cmd("MAIL FROM:<s@ok>", 250)
						f.cmd("RCPT TO:<r@ok>", 250)
						f.cmd("DATA", 354)
						body := ""
						if s >= 2 {
							body = strings.Repeat("m", s-2) + "\r\n"
						}
						f.raw(body)
						f.raw(".\r\n")
						p := DefaultPlan()
						p.Sizes = rs
						f.script.Data = []DataPlan{p}
						if s <= N {
							f.expect(250)
							f.add(L(A("expect-data"), XS(body), A("eof")))
						} else {
							f.expect(552)
							f.add(L(A("expect-data"), XS(body[:N]), A("toolarge")))
						}
						f.cmd("MAIL FROM:<after@ok>", 250)
						f.cmd("QUIT", 221)
						f.add(L(A("must-mail"), XS("after@ok")))
						emit(RunConv(f.caseOf("C06", segStream(rng, f.out, f.cuts, (li+si+ri)%4, rawEOF))))
					}
				}
				// ---- DATA, a backend that reads exactly as many octets as the message has (io.ReadFull of a
				// known size) or one fewer, and accepts: a message within the limit is accepted as if there were none
				if s >= 2 && s <= N {
					for _, stop := range []int{s, s - 1} {
						cfg := DefaultCfg()
						cfg.MaxBytes = int64(N)
						cfg.LMTP = lmtp
						f := newF(cfg)
						f.hello()
						f.cmd("MAIL FROM:<s@ok>", 250)
						f.cmd("RCPT TO:<r@ok>", 250)
						f.cmd("DATA", 354)
						body := strings.Repeat("m", s-2) + "\r\n"
						f.raw(body)
						f.raw(".\r\n")
						p := DefaultPlan()
						p.Sizes = []int{1} // (larger reads would overshoot the stop)
						p.Stop = int64(stop)
						f.script.Data = []DataPlan{p}
						f.expect(250)
						f.add(L(A("expect-data"), XS(body[:stop]), A("nil")))
						f.cmd("MAIL FROM:<after@ok>", 250)
						f.cmd("QUIT", 221)
						f.add(L(A("must-mail"), XS("after@ok")))
						emit(RunConv(f.caseOf("C06", segStream(rng, f.out, f.cuts, (li+si+stop)%4, rawEOF))))
					}
				}
				// ---- BDAT: all chunkings into at most 3 chunks for small s, a few for large ----
				payload := strings.Repeat("b", s)
				var cks [][]int
				if s <= 14 {
					for a := 0; a <= s; a++ {
						for b := a; b <= s; b++ {
							cks = append(cks, []int{a, b - a, s - b})
						}
					}
				} else if s > N {
					cks = [][]int{{s}, {N, s - N}, {N - 1, 1, s - N}, {1, s - 1}}
				} else {
					cks = [][]int{{s}, {1, s - 1}, {s / 2, s - s/2}, {s, 0}}
				}
				for ci, ck := range cks {
					if !thorough && (li+si+ci)%3 != 0 {
						continue
					}
					cfg := DefaultCfg()
					cfg.MaxBytes = int64(N)
					cfg.LMTP = lmtp
					f := newF(cfg)
					f.hello()
					f.cmd("MAIL FROM:<s@ok>", 250)
					f.cmd("RCPT TO:<r@ok>", 250)
					f.script.Data = []DataPlan{DefaultPlan()}
					received, open, rest := 0, true, payload
					for i, z := range ck {
						last := ""
						if i == len(ck)-1 {
							last = " LAST"
						}
						line := fmt.Sprintf("BDAT %d%s", z, last)
						switch {
						case !open:
							f.cmd(line, 502)
						case received+z > N:
							f.cmd(line, 552)
							open = false
						default:
							received += z
							f.cmd(line, 250)
						}
						f.cut()
						f.raw(rest[:z])
						rest = rest[z:]
					}
					if open {
						f.add(L(A("expect-del"), XS(payload)))
					}
					f.cmd("MAIL FROM:<after@ok>", 250)
					f.cmd("QUIT", 221)
					f.add(L(A("must-mail"), XS("after@ok")))
					emit(RunConv(f.caseOf("C06", segStream(rng, f.out, f.cuts, (li+si+ci)%4, rawEOF))))
				}
			}
		}
		// ---- declared chunk sizes that do not fit 32 / 63 / 64 bits, then a message over the limit ----
		for _, huge := range []string{"4294967296", "9223372036854775807", "9223372036854775808", "18446744073709551615", "18446744073709551616"} {
			for _, lmtp := range []bool{false, true} {
				cfg := DefaultCfg()
				cfg.MaxBytes = int64(N)
				cfg.LMTP = lmtp
				f := newF(cfg)
				f.hello()
				f.cmd("MAIL FROM:<s@ok>", 250)
				f.cmd("RCPT TO:<r@ok>", 250)
				f.script.Data = []DataPlan{DefaultPlan()}
				if huge == "4294967295" {
					// parseable and far over the limit: 552, transaction reset (no octets follow)
					f.cmd("BDAT "+huge, 552)
					f.cmd("MAIL FROM:<s@ok>", 250)
					f.cmd("RCPT TO:<r@ok>", 250)
				} else {
					f.cmd("BDAT "+huge, 501)
				}
				f.cmd(fmt.Sprintf("BDAT %d", N), 250)
				f.cut()
				f.raw(strings.Repeat("h", N))
				f.cmd(fmt.Sprintf("BDAT %d LAST", N), 552)
				f.cut()
				f.raw(strings.Repeat("i", N))
				f.cmd("MAIL FROM:<after@ok>", 250)
				f.cmd("QUIT", 221)
				f.add(L(A("must-mail"), XS("after@ok")))
				emit(RunConv(f.caseOf("C06", segStream(rng, f.out, f.cuts, li%2, rawEOF))))
			}
		}
		// ---- consecutive transactions: each message is measured on its own ----
		for _, via := range []string{"bdat-bdat", "bdat-data", "data-bdat", "rset-bdat", "data-dataover", "dataover-dataover", "data-data-dataover", "bdat-dataover", "dataover-data"} {
			for _, lmtp := range []bool{false, true} {
				cfg := DefaultCfg()
				cfg.MaxBytes = int64(N)
				cfg.LMTP = lmtp
				f := newF(cfg)
				f.hello()
				msg := func(kind string, last bool) {
					f.cmd("MAIL FROM:<s@ok>", 250)
					f.cmd("RCPT TO:<r@ok>", 250)
					if kind == "data" {
						if N < 2 {
							kind = "bdat"
						} else {
							f.cmd("DATA", 354)
							f.raw(strings.Repeat("d", N-2) + "\r\n.\r\n")
							f.expect(250)
							return
						}
					}
					if last {
						f.cmd(fmt.Sprintf("BDAT %d LAST", N), 250)
					} else {
						f.cmd(fmt.Sprintf("BDAT %d", N), 250)
					}
					f.cut()
					f.raw(strings.Repeat("t", N))
				}
				// a DATA message of N+3 octets: refused with 552 after exactly N octets were handed over,
				// however many messages the connection has already carried
				over := func() {
					f.cmd("MAIL FROM:<s@ok>", 250)
					f.cmd("RCPT TO:<r@ok>", 250)
					f.cmd("DATA", 354)
					body := strings.Repeat("o", N+1) + "\r\n"
					f.raw(body + ".\r\n")
					f.expect(552)
				}
				if strings.HasSuffix(via, "over") && N >= 2 {
					f.add(L(A("expect-last-data"), XS(strings.Repeat("o", N)), A("toolarge")))
				}
				if strings.Contains(via, "over") && N < 2 {
					continue
				}
				switch via {
				case "data-dataover":
					msg("data", true)
					over()
				case "dataover-dataover":
					over()
					over()
				case "data-data-dataover":
					msg("data", true)
					msg("data", true)
					over()
				case "bdat-dataover":
					msg("bdat", true)
					over()
				case "dataover-data":
					over()
					msg("data", true)
					f.add(L(A("expect-last-data"), XS(strings.Repeat("d", N-2)+"\r\n"), A("eof")))
				case "bdat-bdat":
					msg("bdat", true)
					msg("bdat", true)
				case "bdat-data":
					msg("bdat", true)
					msg("data", true)
				case "data-bdat":
					msg("data", true)
					msg("bdat", true)
				case "rset-bdat":
					msg("bdat", false)
					f.cmd("RSET", 250)
					msg("bdat", true)
				}
				f.cmd("QUIT", 221)
				emit(RunConv(f.caseOf("C06", segStream(rng, f.out, f.cuts, li%2, rawEOF))))
			}
		}
		// ---- the octets of a REFUSED chunk (no recipient yet / bad LAST keyword) do not count against the limit ----
		for _, why := range []string{"norcpt", "badlast", "norcpt-twice"} {
			for _, lmtp := range []bool{false, true} {
				for _, r := range []int{1, N, 3 * N} {
					cfg := DefaultCfg()
					cfg.MaxBytes = int64(N)
					cfg.LMTP = lmtp
					f := newF(cfg)
					f.hello()
					f.cmd("MAIL FROM:<s@ok>", 250)
					junk := strings.Repeat("j", r)
					switch why {
					case "norcpt", "norcpt-twice":
						f.cmd(fmt.Sprintf("BDAT %d", r), 502)
						f.cut()
						f.raw(junk)
						if why == "norcpt-twice" {
							f.cmd(fmt.Sprintf("BDAT %d LAST", r), 502)
							f.cut()
							f.raw(junk)
						}
						f.cmd("RCPT TO:<r@ok>", 250)
					case "badlast":
						f.cmd("RCPT TO:<r@ok>", 250)
						f.cmd(fmt.Sprintf("BDAT %d FIRST", r), 501)
						f.cut()
						f.raw(junk)
					}
					f.script.Data = []DataPlan{DefaultPlan()}
					f.cmd(fmt.Sprintf("BDAT %d LAST", N), 250)
					f.cut()
					f.raw(strings.Repeat("m", N))
					f.add(L(A("expect-del"), XS(strings.Repeat("m", N))))
					f.cmd("QUIT", 221)
					emit(RunConv(f.caseOf("C06", segStream(rng, f.out, f.cuts, li%2, rawEOF))))
				}
			}
		}
		// ---- SIZE= ----
		for _, v := range []string{fmt.Sprint(N - 1), fmt.Sprint(N), fmt.Sprint(N + 1), "4294967296", "9223372036854775807", "9223372036854775808", "99999999999999999999999"} {
			cfg := DefaultCfg()
			cfg.MaxBytes = int64(N)
			f := newF(cfg)
			f.hello()
			var big bool
			if len(v) > 9 {
				big = true
			} else {
				var x int
				fmt.Sscan(v, &x)
				big = x > N
			}
			if big {
				f.cmd("MAIL FROM:<sized@ok> SIZE="+v, 552)
				f.add(L(A("must-not-mail"), XS("sized@ok")))
			} else {
				f.cmd("MAIL FROM:<sized@ok> SIZE="+v, 250)
				f.add(L(A("must-mail"), XS("sized@ok")))
			}
			f.cmd("QUIT", 221)
			emit(RunConv(f.caseOf("C06", segStream(rng, f.out, f.cuts, 0, rawEOF))))
		}
	}
	// SIZE given more than once, the value that counts (the last one) above the limit: refused like a single one
	for _, N := range []int{50, 1000} {
		for _, tail := range []string{
			fmt.Sprintf("SIZE=%d SIZE=%d", N, N+1), fmt.Sprintf("SIZE=1 BODY=8BITMIME SIZE=%d", N+1), fmt.Sprintf("size=%d SIZE=%d", N-1, 10*N),
			fmt.Sprintf("SIZE=%d size=%d", N, N+1), fmt.Sprintf("SIZE=0 SIZE=0 SIZE=%d", N+1), fmt.Sprintf("SIZE=%d SIZE=99999999999999999999999", N)} {
			for _, lmtp := range []bool{false, true} {
				cfg := DefaultCfg()
				cfg.MaxBytes, cfg.LMTP = int64(N), lmtp
				f := newF(cfg)
				f.hello()
				f.cmd("MAIL FROM:<sized@ok> "+tail, 552)
				f.add(L(A("must-not-mail"), XS("sized@ok")))
				f.cmd("QUIT", 221)
				emit(RunConv(f.caseOf("C06", segStream(rng, f.out, f.cuts, 0, rawEOF))))
			}
		}
	}
	// no limit: large SIZE values are accepted
	for _, v := range []string{"0", "4294967296", "9223372036854775807"} {
		f := newF(DefaultCfg())
		f.hello()
		f.cmd("MAIL FROM:<sized@ok> SIZE="+v, 250)
		f.cmd("QUIT", 221)
		f.add(L(A("must-mail"), XS("sized@ok")))
		emit(RunConv(f.caseOf("C06", segStream(rng, f.out, f.cuts, 0, rawEOF))))
	}
	genC06Retry(rng, thorough, emit) // read failures inside the message, a backend that reads on (retry.go)
}

// GenC07: every cut point of DATA and BDAT conversations; abandoned transfers.
func GenC07(rng *rand.Rand, thorough bool, emit func(*Sx)) {
	terms := []Raw{{Kind: RawEOF}, {Kind: RawTimeout}, {Kind: RawErr}}
	for _, lmtp := range []bool{false, true} {
		for _, sess := range []bool{false, true} {
			if sess && !lmtp {
				continue
			}
			cfg := DefaultCfg()
			cfg.LMTP, cfg.LMTPSession = lmtp, sess
			// --- DATA ---
			pre := newF(cfg)
			pre.hello()
			pre.cmd("MAIL FROM:<s@ok>", 250)
			pre.cmd("RCPT TO:<r0@ok>", 250)
			pre.cmd("RCPT TO:<r1@ok>", 250)
			pre.cmd("DATA", 354)
			start := len(pre.out)
			msg := "line one\r\n..dotted\r\n\r\nlast line\r\n.\r\n"
			full := append(append([]byte(nil), pre.out...), msg...)
			for k := start; k < len(full); k++ {
				for ti, term := range terms {
					for _, seg := range []int{0, 2} {
						if !thorough && (k+ti+seg)%3 != 0 {
							continue
						}
						f := newF(cfg)
						f.codes = nil
						f.known = false
						f.add(L(A("forbid-eof")))
						f.add(L(A("max-250"), Num(4)))
						emit(RunConv(f.caseOf("C07", segStream(rng, full[:k], nil, seg, term))))
					}
				}
			}
			// --- BDAT ---
			pre = newF(cfg)
			pre.hello()
			pre.cmd("MAIL FROM:<s@ok>", 250)
			pre.cmd("RCPT TO:<r0@ok>", 250)
			pre.cmd("BDAT 5", 250)
			pre.raw("first")
			pre.cmd("BDAT 9 LAST")
			start = len(pre.out)
			full = append(append([]byte(nil), pre.out...), "last\r\n.\r\n"...)
			for k := start - 13; k < len(full); k++ {
				for ti, term := range terms {
					for _, seg := range []int{0, 2} {
						if !thorough && (k+ti+seg)%3 != 0 {
							continue
						}
						f := newF(cfg)
						f.known = false
						f.add(L(A("forbid-eof")))
						f.add(L(A("max-250"), Num(4)))
						emit(RunConv(f.caseOf("C07", segStream(rng, full[:k], nil, seg, term))))
					}
				}
			}
			// --- a LAST chunk whose declared size is huge; the connection is lost after a few octets ---
			for hi, huge := range []string{"2147483648", "4294967295", "4294967296", "9223372036854775807", "9223372036854775808", "18446744073709551615", "18446744073709551616"} {
				for _, first := range []bool{false, true} {
					for ti, term := range terms {
						if !thorough && (hi+ti)%2 != 0 && first {
							continue
						}
						f := newF(cfg)
						f.hello()
						f.cmd("MAIL FROM:<s@ok>", 250)
						f.cmd("RCPT TO:<r0@ok>", 250)
						n250 := int64(3)
						if first {
							f.cmd("BDAT 5", 250)
							f.raw("first")
							n250 = 4
						}
						f.known = false
						f.cmd("BDAT " + huge + " LAST")
						f.raw("only a few octets\r\n")
						f.add(L(A("forbid-eof")))
						f.add(L(A("max-250"), Num(n250)))
						emit(RunConv(f.caseOf("C07", segStream(rng, f.out, nil, hi%3, term))))
					}
				}
			}
			// --- a chunk refused for the size limit ends the transaction: an empty LAST chunk behind it completes nothing ---
			for _, firstOK := range []bool{false, true} {
				for ti, term := range terms {
					cfg := cfg
					cfg.MaxBytes = 5
					f := newF(cfg)
					f.hello()
					f.cmd("MAIL FROM:<s@ok>", 250)
					f.cmd("RCPT TO:<r0@ok>", 250)
					n250 := int64(3)
					if firstOK {
						f.cmd("BDAT 3", 250)
						f.raw("abc")
						n250 = 4
					}
					f.cmd("BDAT 9", 552)
					f.cut()
					f.raw("too large")
					f.cmd("BDAT 0 LAST", 502)
					f.cmd("BDAT 0 LAST", 502)
					if ti > 0 {
						f.known = false
					}
					f.add(L(A("forbid-eof")))
					f.add(L(A("max-250"), Num(n250)))
					emit(RunConv(f.caseOf("C07", segStream(rng, f.out, f.cuts, ti%3, term))))
				}
			}
			// --- the client abandons a chunked transfer (also: after a transaction that was completed
			// with BDAT ... LAST or with DATA on the same connection) ---
			for _, prior := range []string{"", "bdat", "data", "bdat-bdat", "atlimit"} {
				for ai, ab := range []string{"RSET", "QUIT", "EHLO again", "LHLO again", "NOOP", ""} {
					for ti, term := range terms {
						cfg := cfg
						if prior == "atlimit" {
							// the chunks received so far add up to exactly MaxMessageBytes
							cfg.MaxBytes = 5
						}
						if prior == "" && ti > 0 {
							continue
						}
						if !thorough && prior != "" && (ai+ti)%2 != 0 {
							continue
						}
						f := newF(cfg)
						f.hello()
						done := int64(0)
						for _, pk := range strings.Split(prior, "-") {
							switch pk {
							case "bdat":
								f.cmd("MAIL FROM:<p@ok>", 250)
								f.cmd("RCPT TO:<r0@ok>", 250)
								f.cmd("BDAT 3", 250)
								f.raw("abc")
								f.cmd("BDAT 2 LAST", 250)
								f.raw("de")
								done++
							case "data":
								f.cmd("MAIL FROM:<p@ok>", 250)
								f.cmd("RCPT TO:<r0@ok>", 250)
								f.cmd("DATA", 354)
								f.raw("complete\r\n.\r\n")
								f.expect(250)
								done++
							}
						}
						f.cmd("MAIL FROM:<s@ok>", 250)
						f.cmd("RCPT TO:<r0@ok>", 250)
						f.cmd("BDAT 5", 250)
						f.raw("first")
						f.known = false
						if ab != "" {
							f.cmd(ab)
						}
						// only the completed messages end with EOF; the abandoned one never does
						f.add(L(A("max-eof"), Num(done)))
						emit(RunConv(f.caseOf("C07", segStream(rng, f.out, nil, 0, term))))
					}
				}
			}
		}
	}
}

// GenC08: session life cycle under every cut point and close reason.
func GenC08(rng *rand.Rand, thorough bool, emit func(*Sx)) {
	convs := []func(f *fconv){
		func(f *fconv) {
			f.hello()
			f.cmd("MAIL FROM:<s@ok>")
			f.cmd("RCPT TO:<r@ok>")
			f.cmd("DATA")
			f.raw("hello\r\n.\r\n")
			f.cmd("QUIT")
		},
		func(f *fconv) {
			f.hello()
			f.cmd("MAIL FROM:<s@ok>")
			f.cmd("RCPT TO:<r@ok>")
			f.cmd("BDAT 3")
			f.raw("abc")
			f.cmd("BDAT 2 LAST")
			f.raw("de")
			f.hello()
			f.cmd("MAIL FROM:<s2@ok>")
			f.cmd("RSET")
			f.cmd("QUIT")
		},
		func(f *fconv) {
			f.hello()
			f.cmd("AUTH PLAIN AGEAYg==")
			f.cmd("MAIL FROM:<s@ok>")
			f.cmd("BDAT 3")
			f.cmd("RCPT TO:<r@ok>")
			f.cmd("BDAT 3")
			f.raw("abc")
		},
	}
	convs = append(convs, func(f *fconv) {
		f.hello()
		f.cmd("AUTH PLAIN")
		f.cmd("AGEAYg==")
		f.cmd("MAIL FROM:<s@ok>")
		f.cmd("RCPT TO:<r@ok>")
		f.cmd("QUIT")
	}, func(f *fconv) {
		f.hello()
		f.cmd("AUTH PLAIN")
		f.cmd("*")
		f.cmd("AUTH PLAIN")
		f.cmd("AGEAYg==")
		f.cmd("NOOP")
	})
	terms := []Raw{{Kind: RawEOF}, {Kind: RawTimeout}, {Kind: RawErr}}
	// one read fails (time-out or error) at a line boundary and the peer then goes on: whatever the
	// server does about the failure, nothing may run after a reply with which it gave up the connection
	for _, mk := range convs {
		for _, lmtp := range []bool{false, true} {
			cfg := DefaultCfg()
			cfg.LMTP = lmtp
			cfg.Insecure, cfg.HasAuth, cfg.Auth = true, true, []string{"PLAIN"}
			f := newF(cfg)
			mk(f)
			for k := 1; k < len(f.out); k++ {
				if f.out[k-1] != '\n' {
					continue
				}
				for ti, fault := range []Raw{{Kind: RawTimeout}, {Kind: RawErr}} {
					for _, twice := range []bool{false, true} {
						if !thorough && twice && (k+ti)%2 != 0 {
							continue
						}
						g := newF(cfg)
						g.known = false
						// every AUTH exchange asks for one continuation line (334) before it ends
						g.script.Auth = []AuthPlan{{Start: BNil, Steps: []SaslStep{{Challenge: []byte("c")}, {Done: true}}},
							{Start: BNil, Steps: []SaslStep{{Challenge: []byte("c")}, {Done: true}}}}
						raws := segStream(rng, f.out[:k], nil, (k+ti)%3, fault)
						if twice {
							raws = append(raws, fault)
						}
						raws = append(raws, segStream(rng, f.out[k:], nil, (k+ti)%2, rawEOF)...)
						emit(RunConv(g.caseOf("C08", raws)))
					}
				}
			}
		}
	}
	for ci, mk := range convs {
		for _, lmtp := range []bool{false, true} {
			cfg := DefaultCfg()
			cfg.LMTP = lmtp
			cfg.LMTPSession = lmtp && ci == 1
			cfg.Insecure, cfg.HasAuth, cfg.Auth = true, true, []string{"PLAIN"}
			f := newF(cfg)
			mk(f)
			for k := 0; k <= len(f.out); k++ {
				for ti, term := range terms {
					if !thorough && (k+ti)%3 != 0 {
						continue
					}
					g := newF(cfg)
					g.known = false
					emit(RunConv(g.caseOf("C08", segStream(rng, f.out[:k], nil, (k+ti)%3, term))))
				}
			}
		}
	}
	// a backend callback other than Data panics: the server gives up on the connection (421), logs the
	// session out exactly once, closes, and executes nothing that is buffered behind
	for _, lmtp := range []bool{false, true} {
		for _, where := range []string{"mail", "rcpt", "reset-rset", "reset-ehlo", "reset-data", "reset-bdat"} {
			for si, suf := range []string{"", "EHLO after.close\r\nMAIL FROM:<late@x>\r\n", "NOOP\r\nQUIT\r\n"} {
				cfg := DefaultCfg()
				cfg.LMTP = lmtp
				f := newF(cfg)
				f.hello()
				pa := map[string]int{}
				switch where {
				case "mail":
					pa["mail"] = 1
					f.cmd("MAIL FROM:<s@ok>", 421)
				case "rcpt":
					pa["rcpt"] = 1
					f.cmd("MAIL FROM:<s@ok>", 250)
					f.cmd("RCPT TO:<r@ok>", 421)
				case "reset-rset":
					pa["reset"] = 1
					f.cmd("MAIL FROM:<s@ok>", 250)
					f.cmd("RSET", 421)
				case "reset-ehlo":
					pa["reset"] = 1
					f.hello()
					f.codes[len(f.codes)-1] = 421
				case "reset-data":
					pa["reset"] = 1
					f.cmd("MAIL FROM:<s@ok>", 250)
					f.cmd("RCPT TO:<r@ok>", 250)
					f.cmd("DATA", 354)
					f.raw("hello\r\n.\r\n")
					f.expect(250, 421)
				case "reset-bdat":
					pa["reset"] = 1
					f.cmd("MAIL FROM:<s@ok>", 250)
					f.cmd("RCPT TO:<r@ok>", 250)
					f.cmd("BDAT 3 LAST", 250, 421)
					f.raw("abc")
				}
				f.raw(suf)
				f.add(L(A("nomodel")))
				f.add(L(A("must-not-mail"), XS("late@x")))
				f.add(L(A("expect-last"), Num(421)))
				f.add(L(A("one-logout")))
				cc := f.caseOf("C08", segStream(rng, f.out, f.cuts, si%3, rawEOF))
				cc.PanicAt = pa
				emit(RunConv(cc))
			}
		}
	}
	// server-initiated close with input already buffered behind it
	suffixes := []string{"", "EHLO after.close\r\nMAIL FROM:<late@x>\r\nRCPT TO:<late@x>\r\n", "RCPT TO:<late@x>\r\n", "NOOP\r\nQUIT\r\n"}
	for _, lmtp := range []bool{false, true} {
		for si, suf := range suffixes {
			for reason := 0; reason < 6; reason++ {
				for _, mid := range []bool{false, true} {
					for seg := 0; seg < 3; seg++ {
						if !thorough && (si+reason+seg)%2 != 0 {
							continue
						}
						cfg := DefaultCfg()
						cfg.LMTP = lmtp
						cfg.MaxLine = 100
						f := newF(cfg)
						f.hello()
						if mid {
							f.cmd("MAIL FROM:<s@ok>", 250)
							f.cmd("RCPT TO:<r@ok>", 250)
						}
						term := rawEOF
						switch reason {
						case 0:
							f.cmd("QUIT", 221)
						case 1:
							f.cmd("XXXX", 500)
							f.cmd("BOGUS", 501)
							f.cmd("X", 501)
							f.cmd("", 500, 500)
						case 2:
							// the limiter drops the whole raw read in which it trips: keep the earlier
							// commands in an earlier raw read so that their replies are determined
							f.cut()
							f.cmd("NOOP "+strings.Repeat("y", 150), 500)
						case 3:
							f.known = false
							term = Raw{Kind: RawTimeout}
						case 4:
							if !mid {
								continue
							}
							p := DefaultPlan()
							p.Panic = true
							f.script.Data = []DataPlan{p}
							f.cmd("DATA", 354)
							f.raw("boom\r\n.\r\n")
							if lmtp {
								f.expect(421)
							} else {
								f.expect(421)
							}
						case 5:
							if !mid {
								continue
							}
							f.cmd("BDAT 3", 250)
							f.raw("abc")
							f.cmd("QUIT", 221)
						}
						f.raw(suf)
						if reason == 3 && suf != "" {
							continue
						}
						f.add(L(A("must-not-mail"), XS("late@x")))
						emit(RunConv(f.caseOf("C08", segStream(rng, f.out, f.cuts, seg, term))))
					}
				}
			}
		}
	}
	genC08ServerClose(rng, thorough, emit) // Server.Close from a callback with commands buffered behind (closeat.go)
}

var c03Alphabet = []string{
	"HELO h", "EHLO h", "LHLO h", "EHLO", "ehlo h2",
	"MAIL FROM:<s@ok>", "MAIL FROM:<>", "MAIL FROM:<rej@ok>", "MAIL FROM:", "MAIL FROM:<s@ok> FOO=BAR", "MAIL TO:<s@ok>",
	"RCPT TO:<r@ok>", "RCPT TO:<r2@ok>", "RCPT TO:<rej@ok>", "RCPT TO:", "RCPT TO:<r@ok> FOO=1",
	"DATA", "DATA x", "BDAT 3", "BDAT 3 LAST", "BDAT 0 LAST", "BDAT x", "BDAT",
	"RSET", "NOOP", "VRFY x", "AUTH PLAIN AGEAYg==", "AUTH PLAIN", "AUTH", "STARTTLS", "QUIT", "XXXX", "", "HELP",
	"MAIL FROM:<s@ok> BODY=BINARYMIME",
}

func (f *fconv) c03cmd(sym string) {
	f.out = append(f.out, sym...)
	f.out = append(f.out, '\r', '\n')
	switch {
	case sym == "DATA":
		f.raw("NOOP\r\n.\r\n")
	case strings.HasPrefix(sym, "BDAT 3"):
		f.raw("abc")
	case sym == "AUTH PLAIN":
		f.raw("AGEAYg==\r\n")
	}
	if strings.HasPrefix(sym, "MAIL FROM:<rej@ok>") {
		f.script.Mail = append(f.script.Mail, rejectErr())
	} else if strings.HasPrefix(sym, "MAIL") {
		f.script.Mail = append(f.script.Mail, BNil)
	}
	if strings.HasPrefix(sym, "RCPT TO:<rej@ok>") {
		f.script.Rcpt = append(f.script.Rcpt, rejectErr())
	} else if strings.HasPrefix(sym, "RCPT") {
		f.script.Rcpt = append(f.script.Rcpt, BNil)
	}
}

// GenC03: command histories over the abstract alphabet.
func GenC03(rng *rand.Rand, thorough bool, emit func(*Sx)) {
	run := func(lmtp bool, maxr int, hist []string, dataRej bool) {
		cfg := DefaultCfg()
		cfg.LMTP = lmtp
		cfg.MaxRcpt = maxr
		cfg.BinaryMIME = true
		cfg.Insecure, cfg.HasAuth, cfg.Auth = true, true, []string{"PLAIN"}
		f := newF(cfg)
		f.known = false
		for _, s := range hist {
			f.c03cmd(s)
		}
		if dataRej {
			p := DefaultPlan()
			p.Ret = rejectErr()
			f.script.Data = []DataPlan{p, p, p}
		}
		// Mail/Rcpt scripts are consumed only by commands that reach the backend, so a
		// scripted rejection may hit a later command; the oracle does not depend on it.
		emit(RunConv(f.caseOf("C03", segStream(rng, f.out, nil, rng.Intn(4), rawEOF))))
	}
	// exhaustive: every history of length 2 (3 in the thorough tier) after each of a few prefixes
	prefixes := [][]string{{}, {"EHLO h"}, {"EHLO h", "MAIL FROM:<s@ok>"}, {"EHLO h", "MAIL FROM:<s@ok>", "RCPT TO:<r@ok>"},
		{"EHLO h", "MAIL FROM:<s@ok>", "RCPT TO:<r@ok>", "BDAT 3"}, {"EHLO h", "MAIL FROM:<s@ok>", "RCPT TO:<r@ok>", "RCPT TO:<r2@ok>"}}
	for pi, pre := range prefixes {
		for i, a := range c03Alphabet {
			for j, b := range c03Alphabet {
				if !thorough && (i+j+pi)%4 != 0 {
					continue
				}
				lmtp := (i+j)%3 == 0
				h := append(append([]string(nil), pre...), a, b)
				if lmtp {
					for k := range h {
						if h[k] == "EHLO h" {
							h[k] = "LHLO h"
						}
					}
				}
				run(lmtp, []int{0, 2}[(i+j+pi)%2], h, (i+j)%5 == 0)
			}
		}
	}
	// random long histories
	nr := 1500
	if thorough {
		nr = 30000
	}
	for i := 0; i < nr; i++ {
		lmtp := rng.Intn(3) == 0
		var h []string
		n := 3 + rng.Intn(30)
		for k := 0; k < n; k++ {
			s := c03Alphabet[rng.Intn(len(c03Alphabet))]
			// bias towards making progress
			if rng.Intn(3) == 0 {
				s = []string{"EHLO h", "MAIL FROM:<s@ok>", "RCPT TO:<r@ok>", "DATA", "BDAT 3 LAST", "RSET"}[rng.Intn(6)]
			}
			if lmtp && s == "EHLO h" {
				s = "LHLO h"
			}
			if s == "QUIT" && rng.Intn(3) != 0 {
				continue
			}
			h = append(h, s)
		}
		run(lmtp, []int{0, 2}[rng.Intn(2)], h, rng.Intn(4) == 0)
	}
}

// GenC19: hostile input.
func GenC19(rng *rand.Rand, thorough bool, emit func(*Sx)) {
	genBigRefusedChunk(rng, "C19", emit)
	// (a) line lengths around the limit, at several positions
	for _, L_ := range []int{60, 120, 500} {
		for pos := 0; pos < 3; pos++ {
			for d := -3; d <= 5; d++ {
				for _, verb := range []string{"NOOP ", "RCPT TO:<victim@y> ", "MAIL FROM:<victim@y> "} {
					for seg := 0; seg < 5; seg++ {
						if !thorough && (pos+d+seg+L_)%2 != 0 {
							continue
						}
						T := L_ + d // total octets including CRLF
						cfg := DefaultCfg()
						cfg.MaxLine = L_
						f := newF(cfg)
						if pos >= 1 {
							f.hello()
						}
						if pos >= 2 {
							f.cmd("MAIL FROM:<s@ok>", 250)
						}
						line := verb + strings.Repeat(" ", T-2-len(verb))
						normal := 250
						switch {
						case verb == "RCPT TO:<victim@y> " && pos < 2:
							normal = 502
						case verb == "MAIL FROM:<victim@y> " && pos < 1:
							normal = 502
						}
						switch {
						case T <= L_:
							f.cmd(line, normal)
							f.cmd("QUIT", 221)
						case T == L_+1:
							// within the property's one-octet slack: either outcome is allowed
							f.cmd(line)
							f.known = false
						default:
							f.cmd(line, 500)
							f.raw("MAIL FROM:<late@x>\r\n")
							f.add(L(A("must-not-mail"), XS("victim@y")))
							f.add(L(A("must-not-mail"), XS("late@x")))
							f.add(L(A("expect-last"), Num(500)))
							// the limiter drops the whole raw read in which it trips: commands sharing
							// that raw read with the long line get no reply (segmentation dependent)
							if seg != 1 && seg != 2 {
								f.known = false
							}
						}
						var raws []Raw
						if seg == 4 {
							// split inside the long line
							k := len(f.out) - len(line)/2 - 2
							if T > L_+1 {
								k = len(f.out) - len("MAIL FROM:<late@x>\r\n") - len(line)/2 - 2
							}
							raws = segStream(rng, f.out, []int{k}, 0, rawEOF)
						} else {
							raws = segStream(rng, f.out, nil, seg, rawEOF)
						}
						emit(RunConv(f.caseOf("C19", raws)))
					}
				}
			}
		}
	}
	// (b) an endless line
	for _, L_ := range []int{60, 2000} {
		cfg := DefaultCfg()
		cfg.MaxLine = L_
		f := newF(cfg)
		f.hello()
		f.cut()
		f.raw(strings.Repeat("A", 3*L_+100))
		f.expect(500)
		f.add(L(A("expect-last"), Num(500)))
		emit(RunConv(f.caseOf("C19", segStream(rng, f.out, nil, 3, rawEOF))))
	}
	// (b2) a refused BDAT whose chunk stalls (a read fails inside the discarded octets): the rest of the
	// chunk cannot be skipped, so the connection is closed after the refusal; neither the over-long line
	// nor the command behind it is looked at
	for _, kind := range []RawKind{RawTimeout, RawErr} {
		for _, pre := range []int{0, 1, 2} {
			cfg := DefaultCfg()
			cfg.MaxLine = 100
			f := newF(cfg)
			if pre >= 1 {
				f.hello()
			}
			if pre >= 2 {
				f.cmd("MAIL FROM:<s@ok>", 250) // no RCPT: BDAT is refused
			}
			f.cmd("BDAT 50", 502)
			f.raw("0123456789")
			k := len(f.out)
			f.cmd("NOOP " + strings.Repeat("z", 300))
			f.raw("MAIL FROM:<late@x>\r\n")
			f.add(L(A("must-not-mail"), XS("late@x")))
			f.add(L(A("expect-last"), Num(502)))
			raws := []Raw{{Kind: RawData, Data: append([]byte(nil), f.out[:k]...)}, {Kind: kind},
				{Kind: RawData, Data: append([]byte(nil), f.out[k:]...)}, rawEOF}
			emit(RunConv(f.caseOf("C19", raws)))
		}
	}
	// (b3) an over-long line where a SASL response (or initial response) is expected, arriving in two reads
	// the first of which is short, well-formed base64: nothing of it may reach the mechanism
	for _, L_ := range []int{60, 200} {
		for _, initial := range []bool{false, true} {
			for _, lmtp := range []bool{false, true} {
				cfg := DefaultCfg()
				cfg.MaxLine = L_
				cfg.LMTP = lmtp
				cfg.Insecure, cfg.HasAuth, cfg.Auth = true, true, []string{"PLAIN"}
				f := newF(cfg)
				f.hello()
				f.script.Auth = []AuthPlan{{Start: BNil, Steps: []SaslStep{{Challenge: []byte("c")}, {Done: true}}}}
				long := "dXNlcjpwYXNz" + strings.Repeat("QUJD", L_/2) + "\r\n"
				var k int
				if initial {
					f.raw("AUTH PLAIN ")
					k = len(f.out) + 12
					f.raw(long)
					f.expect(500)
					f.add(L(A("max-events"), A("auth"), Num(0)))
				} else {
					f.cmd("AUTH PLAIN", 334)
					f.cut()
					k = len(f.out) + 12
					f.raw(long)
					f.expect(500)
				}
				f.add(L(A("max-events"), A("authnext"), Num(map[bool]int64{true: 0, false: 1}[initial])))
				f.raw("MAIL FROM:<late@x>\r\n")
				f.add(L(A("must-not-mail"), XS("late@x")))
				f.add(L(A("expect-last"), Num(500)))
				f.cuts = append(f.cuts, k, k+len(long)-12)
				emit(RunConv(f.caseOf("C19", segStream(rng, f.out, f.cuts, 0, rawEOF))))
			}
		}
	}
	// (c) the error threshold
	bads := []struct {
		l string
		c int
	}{{"XXXX", 500}, {"BOGUS", 501}, {"X", 501}, {"", 500}, {"NOOP2 x", 501}, {"\x00\xff\x00\xff", 500}}
	goods := []struct {
		l string
		c int
	}{{"NOOP", 250}, {"MAIL FROM:<s@ok>", 250}, {"RCPT TO:<r@ok>", 250}, {"RSET", 250}, {"DATA x", 501}, {"HELP", 502}}
	nth := 400
	if thorough {
		nth = 5000
	}
	for i := 0; i < nth; i++ {
		f := newF(DefaultCfg())
		f.hello()
		nb := 0
		n := 4 + rng.Intn(8)
		closed := false
		haveMail := false
		for k := 0; k < n && !closed; k++ {
			if rng.Intn(2) == 0 {
				b := bads[rng.Intn(len(bads))]
				nb++
				if nb > 3 {
					f.cmd(b.l, b.c, 500)
					closed = true
				} else {
					f.cmd(b.l, b.c)
				}
			} else {
				g := goods[rng.Intn(len(goods))]
				c := g.c
				switch g.l {
				case "MAIL FROM:<s@ok>":
					haveMail = true
				case "RCPT TO:<r@ok>":
					if !haveMail {
						c = 502
					}
				case "RSET":
					haveMail = false
				}
				f.cmd(g.l, c)
			}
		}
		if closed {
			f.raw("MAIL FROM:<late@x>\r\n")
			f.add(L(A("must-not-mail"), XS("late@x")))
		} else {
			f.cmd("QUIT", 221)
		}
		emit(RunConv(f.caseOf("C19", segStream(rng, f.out, nil, rng.Intn(4), rawEOF))))
	}
	// (e) hostile parameter VALUES inside an open transaction on a server with every extension enabled: C0 and
	// C1 controls (raw, one and two octets), NUL, lone and overlong UTF-8, surrogates and huge code points in
	// \x{..} form, signs and overflows in numbers - whatever the reply, nothing may panic and NOOP is answered
	{
		hostile := []string{"\x00", "\x01", "\x7f", "\x80", "\x9f", "\xc2\x80", "\xc2\x85", "\xc2\x9f", "\xc2\xa0", "\xc2", "\xe2\x80", "\xc0\x80",
			"\xed\xa0\x80", "\xf4\x90\x80\x80", "\xef\xbf\xbf", "\\x{D800}", "\\x{110000}", "\\x{FFFFFFFFFFFFFFFFFFFF}", "\\x{}", "\\x{", "\\x", "\\",
			"+", "+0", "+G0", "+80", "-1", "99999999999999999999999", "0x10", "", "=", ";", "a;b;c", "<>", "<", "\"", "\t"}
		keysMail := []string{"SIZE=", "BODY=", "ENVID=", "AUTH=", "RET=", "AUTH=<", "ENVID=a", "MT-PRIORITY="}
		keysRcpt := []string{"ORCPT=utf-8;", "ORCPT=rfc822;", "ORCPT=utf-8;a", "ORCPT=", "NOTIFY=", "NOTIFY=SUCCESS,", "RRVS=", "RRVS=2014-04-03T23:01:00"}
		hn := 0
		for _, lmtp := range []bool{false, true} {
			for ki := 0; ki < len(keysMail)+len(keysRcpt); ki++ {
				for hi, h := range hostile {
					hn++
					if !thorough && lmtp && (hn+hi)%3 != 0 {
						continue
					}
					cfg := DefaultCfg()
					cfg.LMTP = lmtp
					cfg.UTF8, cfg.DSN, cfg.RRVS, cfg.BinaryMIME, cfg.RequireTLS = true, true, true, true, true
					f := newF(cfg)
					f.known = false
					f.hello()
					if ki < len(keysMail) {
						f.raw("MAIL FROM:<s@ok> " + keysMail[ki] + h + "\r\n")
					} else {
						f.raw("MAIL FROM:<s@ok>\r\n")
						f.raw("RCPT TO:<r@ok> " + keysRcpt[ki-len(keysMail)] + h + "\r\n")
						f.raw("RCPT TO:<r2@ok> " + keysRcpt[ki-len(keysMail)] + h + "@x NOTIFY=NEVER\r\n")
					}
					f.raw("NOOP\r\n")
					f.raw("QUIT\r\n")
					emit(RunConv(f.caseOf("C19", segStream(rng, f.out, nil, hn%4, rawEOF))))
				}
			}
		}
	}
	// (f) long UNBROKEN arguments well within the line limit, which the replies echo (greeting name, sender,
	// recipient - also in the per-recipient LMTP replies): accepted like short ones, nothing panics
	for _, lmtp := range []bool{false, true} {
		for _, n := range []int{300, 480, 505, 520, 700, 1200, 1900} {
			cfg := DefaultCfg()
			cfg.LMTP, cfg.LMTPSession = lmtp, lmtp && n%2 == 0
			f := newF(cfg)
			w := strings.Repeat("a", n)
			verb := "EHLO "
			if lmtp {
				verb = "LHLO "
			}
			f.cmd(verb+w, 250)
			f.cmd("MAIL FROM:<"+w+"@example.org>", 250)
			f.cmd("RCPT TO:<"+w+"@example.org>", 250)
			f.cmd("DATA", 354)
			f.raw("hi\r\n.\r\n")
			f.expect(250)
			f.cmd("NOOP", 250)
			f.cmd("QUIT", 221)
			emit(RunConv(f.caseOf("C19", segStream(rng, f.out, nil, n%2, rawEOF))))
		}
	}
	// (d) all short strings over a hostile alphabet as command lines, and random binary input
	alpha := []string{"\x00", "\r", "\n", " ", "A", ":", "<", "\xff", "\xc5\xbf"}
	maxLen := 3
	if thorough {
		maxLen = 4
	}
	var rec func(prefix string, depth int)
	idx := 0
	rec = func(prefix string, depth int) {
		if depth > 0 {
			idx++
			f := newF(DefaultCfg())
			f.known = false
			if idx%2 == 0 {
				f.hello()
			}
			f.raw(prefix)
			f.raw("\r\n")
			f.raw("NOOP\r\n")
			emit(RunConv(f.caseOf("C19", segStream(rng, f.out, nil, idx%4, rawEOF))))
		}
		if depth == maxLen {
			return
		}
		for _, a := range alpha {
			rec(prefix+a, depth+1)
		}
	}
	rec("", 0)
	nb := 500
	if thorough {
		nb = 10000
	}
	verbs := []string{"MAIL FROM:", "RCPT TO:", "EHLO ", "AUTH ", "BDAT ", "DATA", "STARTTLS", "VRFY ", "mail from:<", "RCPT TO:<\""}
	for i := 0; i < nb; i++ {
		cfg := randCfg(rng)
		f := newF(cfg)
		f.known = false
		if rng.Intn(2) == 0 {
			f.hello()
		}
		nl := 1 + rng.Intn(6)
		for k := 0; k < nl; k++ {
			if rng.Intn(2) == 0 {
				f.raw(verbs[rng.Intn(len(verbs))])
			}
			m := rng.Intn(30)
			for j := 0; j < m; j++ {
				if rng.Intn(3) == 0 {
					f.raw(alpha[rng.Intn(len(alpha))])
				} else {
					f.out = append(f.out, byte(rng.Intn(256)))
				}
			}
			f.raw("\r\n")
		}
		emit(RunConv(f.caseOf("C19", segStream(rng, f.out, nil, rng.Intn(5)%4, rawEOF))))
	}
}
