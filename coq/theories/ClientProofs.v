(* Proofs about Client.v (the go-smtp client): C15 (one command line per
   protocol step, only negotiated parameters), C18 (LMTP status callbacks),
   C16 (Close verdict, Close twice), C10 (STARTTLS: no downgrade, re-hello),
   C09 (client half of AUTH). *)
From Smtp Require Import Bytes GoStrings Utf8 Xtext Base64 Reply ClientReply Rfc3339 DotWriter Conn Client.
From Smtp Require Import Base64Proofs XtextProofs ReplyProofs.
Local Open Scope char_scope.

(* ================================================================== *)
(* 0. vocabulary                                                        *)
(* ================================================================== *)

(* no CR and no LF *)
Definition clean (l : bytes) : Prop := mem_byte CR l = false /\ mem_byte LF l = false.
(* additionally no SP: a single ESMTP parameter *)
Definition clean_sp (l : bytes) : Prop := clean l /\ mem_byte " " l = false.

(* the wire image of a list of lines *)
Definition lines (ls : list bytes) : bytes := flat_map (fun l => l ++ crlf) ls.

Lemma lines_app a b : lines (a ++ b) = lines a ++ lines b.
Proof. unfold lines. apply flat_map_app. Qed.

Lemma lines_one l : lines [l] = l ++ crlf.
Proof. unfold lines. cbn [flat_map]. apply app_nil_r. Qed.

Lemma clean_app a b : clean a -> clean b -> clean (a ++ b).
Proof. intros [A1 A2] [B1 B2]. split; rewrite mem_byte_app; [rewrite A1, B1|rewrite A2, B2]; reflexivity. Qed.

Lemma clean_app_inv a b : clean (a ++ b) -> clean a /\ clean b.
Proof.
  intros [H1 H2]. rewrite mem_byte_app in H1, H2.
  apply orb_false_iff in H1 as [? ?]. apply orb_false_iff in H2 as [? ?]. repeat split; assumption.
Qed.

Lemma clean_sp_clean l : clean_sp l -> clean l.
Proof. intros [H _]. exact H. Qed.

Lemma clean_sp_app a b : clean_sp a -> clean_sp b -> clean_sp (a ++ b).
Proof.
  intros [A A3] [B B3]. split; [apply clean_app; assumption|].
  rewrite mem_byte_app, A3, B3. reflexivity.
Qed.

Ltac clean_const := solve [vm_compute; split; reflexivity | vm_compute; repeat split; reflexivity].

Lemma valid_line_clean s : valid_line s = true <-> clean s.
Proof.
  unfold valid_line, clean. rewrite negb_true_iff, orb_false_iff. tauto.
Qed.

Lemma valid_line_false s : valid_line s = false -> ~ clean s.
Proof. intros H C. apply valid_line_clean in C. congruence. Qed.

(* the control part of the state: everything but the write side *)
Definition ctl (c : client) :=
  (c_lmtp c, c_local c, c_did_greet c, c_greet_err c, c_did_hello c, c_hello_err c, c_ext c,
   c_rcpts c, c_tls c, c_closed c, c_tls_in c, c_cbs c).

(* nothing that could still reach the wire is pending, and no dotWriter is
   open: the state between two API calls when the data writer is used
   according to its contract (Close before the next command, no Write after
   Close).  A writer whose sticky error is set never writes again. *)
Definition dot_shut (c : client) : Prop :=
  match c_dw c with Some d => d_open d = false | None => True end.

Definition quiet (c : client) : Prop :=
  c_werr c = true \/ (c_wbuf c = [] /\ dot_shut c).

(* projections through the setters *)
Ltac csimpl :=
  cbn [c_lmtp c_local c_did_greet c_greet_err c_did_hello c_hello_err c_ext c_rcpts c_tls
       c_closed c_werr c_in c_tls_in c_out c_wbuf c_dw c_cbs
       set_local set_greet set_did_hello set_hello_err set_ext set_rcpts set_closed set_werr
       set_in set_out_wbuf set_wbuf set_dw add_cb fst snd] in *.

(* ================================================================== *)
(* 1. bufio + connection                                                *)
(* ================================================================== *)

Lemma bufio_push_concat pending new :
  let '(fl, pend) := bufio_push pending new in fl ++ pend = pending ++ new.
Proof.
  unfold bufio_push. destruct (blen (pending ++ new) <=? 4096)%N; [reflexivity|].
  apply firstn_skipn.
Qed.

(* the connection accepts writes *)
Definition alive (c : client) : Prop := c_werr c = false /\ c_closed c = false.

(* the state after successfully writing [o] with nothing pending *)
Definition wrote (c : client) (o : bytes) : client := set_out_wbuf c (c_out c ++ o) [].

Lemma write_flush_alive c o :
  alive c -> c_wbuf c = [] ->
  bw_flush (bw_write c o) = (true, wrote c o).
Proof.
  intros [We Cl] Wb. unfold bw_write. rewrite We, Wb.
  pose proof (bufio_push_concat [] o) as P.
  destruct (bufio_push [] o) as [fl pend]. cbn [app] in P.
  destruct fl as [|x fl].
  - cbn [app] in P. subst pend. unfold bw_flush. csimpl. rewrite We.
    destruct o as [|y o].
    + unfold wrote. rewrite app_nil_r. destruct c; reflexivity.
    + rewrite Cl. reflexivity.
  - rewrite Cl. unfold bw_flush. csimpl. rewrite We.
    destruct pend as [|y pend].
    + rewrite app_nil_r in P. unfold wrote. rewrite P. reflexivity.
    + rewrite Cl. unfold wrote. csimpl. rewrite <- app_assoc, P. reflexivity.
Qed.

(* a dead writer: nothing reaches the wire, the state is untouched *)
Lemma write_flush_dead c o :
  c_werr c = true -> bw_flush (bw_write c o) = (false, c).
Proof. intros We. unfold bw_write, bw_flush. rewrite We. rewrite We. reflexivity. Qed.

(* the connection is closed: the writer dies *)
Lemma write_flush_closed c o :
  c_werr c = false -> c_closed c = true -> c_wbuf c = [] ->
  exists c', bw_flush (bw_write c (o ++ crlf)) = (false, c') /\ c_werr c' = true
             /\ c_out c' = c_out c /\ ctl c' = ctl c /\ c_in c' = c_in c /\ c_dw c' = c_dw c.
Proof.
  intros We Cl Wb. unfold bw_write. rewrite We, Wb.
  pose proof (bufio_push_concat [] (o ++ crlf)) as P.
  destruct (bufio_push [] (o ++ crlf)) as [fl pend]. cbn [app] in P.
  destruct fl as [|x fl].
  - cbn [app] in P. subst pend. unfold bw_flush. csimpl.
    rewrite We. destruct (o ++ crlf) as [|y r] eqn:E; [destruct o; discriminate|].
    rewrite Cl. eexists. split; [reflexivity|]. unfold ctl. csimpl. repeat split.
  - rewrite Cl. unfold bw_flush. csimpl. eexists. split; [reflexivity|]. unfold ctl. csimpl. repeat split.
Qed.

(* ================================================================== *)
(* 2. one protocol step writes at most its own line                     *)
(* ================================================================== *)

Lemma close_dot_shut c : dot_shut c -> close_dot c = c.
Proof.
  unfold dot_shut, close_dot. destruct (c_dw c) as [d|]; [|reflexivity].
  intros ->. reflexivity.
Qed.

Lemma close_dot_dead c :
  c_werr c = true ->
  c_werr (close_dot c) = true /\ c_out (close_dot c) = c_out c /\ ctl (close_dot c) = ctl c
  /\ c_in (close_dot c) = c_in c.
Proof.
  intros We. unfold close_dot. destruct (c_dw c) as [d|]; [|repeat split; assumption].
  destruct (d_open d); [|repeat split; assumption].
  rewrite write_flush_dead by (csimpl; exact We). csimpl. repeat split; assumption.
Qed.

Lemma printf_line_quiet c line :
  quiet c ->
  exists ok c', printf_line c line = (ok, c')
    /\ c_out c' = c_out c ++ (if ok then line ++ crlf else [])
    /\ quiet c' /\ ctl c' = ctl c /\ c_in c' = c_in c.
Proof.
  intros [We | [Wb Sh]].
  - destruct (close_dot_dead c We) as (We' & Ho & Hc & Hi).
    unfold printf_line. rewrite write_flush_dead by exact We'.
    exists false, (close_dot c). rewrite app_nil_r. repeat split; try assumption. left. exact We'.
  - unfold printf_line. rewrite close_dot_shut by exact Sh.
    destruct (c_werr c) eqn:We.
    + rewrite write_flush_dead by exact We. exists false, c. rewrite app_nil_r.
      repeat split. left. exact We.
    + destruct (c_closed c) eqn:Cl.
      * destruct (write_flush_closed c line We Cl Wb) as (c' & E & We' & Ho & Hc & Hi & Hd).
        exists false, c'. rewrite app_nil_r. repeat split; try assumption. left. exact We'.
      * rewrite write_flush_alive by (try split; assumption).
        exists true, (wrote c (line ++ crlf)). unfold wrote, ctl. csimpl. repeat split.
        right. csimpl. split; [reflexivity|exact Sh].
Qed.

(* [c'] extends the output of [c] by exactly the lines [ls]; the writer is
   quiet again; name and protocol flavour are unchanged *)
Definition ext_by (c c' : client) (ls : list bytes) : Prop :=
  c_out c' = c_out c ++ lines ls /\ quiet c' /\ c_local c' = c_local c /\ c_lmtp c' = c_lmtp c.

Lemma ext_by_refl c : quiet c -> ext_by c c [].
Proof. intros Q. unfold ext_by. cbn [lines flat_map]. rewrite app_nil_r. repeat split. exact Q. Qed.

Lemma ext_by_trans c c1 c2 a b : ext_by c c1 a -> ext_by c1 c2 b -> ext_by c c2 (a ++ b).
Proof.
  intros (O1 & _ & L1 & M1) (O2 & Q2 & L2 & M2). unfold ext_by.
  rewrite O2, O1, lines_app, app_assoc, L2, L1, M2, M1. repeat split. exact Q2.
Qed.

Lemma ctl_local c c' : ctl c' = ctl c -> c_local c' = c_local c /\ c_lmtp c' = c_lmtp c.
Proof. unfold ctl. intros H. inversion H. split; reflexivity. Qed.

(* a frame: [f] changes neither the write side nor name / flavour *)
Definition inert (c c' : client) : Prop :=
  c_out c' = c_out c /\ c_wbuf c' = c_wbuf c /\ c_werr c' = c_werr c /\ c_dw c' = c_dw c
  /\ c_local c' = c_local c /\ c_lmtp c' = c_lmtp c.

Lemma inert_quiet c c' : inert c c' -> quiet c -> quiet c'.
Proof.
  intros (_ & Wb & We & Dw & _) [Q | [Q1 Q2]]; [left; congruence|].
  right. split; [congruence|]. unfold dot_shut in *. rewrite Dw. exact Q2.
Qed.

Lemma ext_by_inert_r c c1 c2 ls : ext_by c c1 ls -> inert c1 c2 -> ext_by c c2 ls.
Proof.
  intros (O & Q & L & M) I. pose proof (inert_quiet _ _ I Q) as Q2.
  destruct I as (O2 & _ & _ & _ & L2 & M2). unfold ext_by. rewrite O2, L2, M2. tauto.
Qed.

Lemma ext_by_inert_l c c1 c2 ls : inert c c1 -> ext_by c1 c2 ls -> ext_by c c2 ls.
Proof.
  intros (O1 & _ & _ & _ & L1 & M1) (O & Q & L & M). unfold ext_by. rewrite O, O1, L, L1, M, M1. tauto.
Qed.

Ltac inert_tac := unfold inert; csimpl; repeat split; reflexivity.

(* Client.cmd: nothing, or exactly the line *)
Lemma c_cmd_ext c expect line r c' :
  quiet c -> c_cmd c expect line = (r, c') ->
  ext_by c c' [] \/ ext_by c c' [line].
Proof.
  intros Q E. unfold c_cmd in E.
  destruct (printf_line_quiet c line Q) as (ok & c1 & Ep & Ho & Q1 & Hc & Hi).
  rewrite Ep in E. destruct (ctl_local _ _ Hc) as [L M].
  destruct ok.
  - unfold c_read in E. destruct (client_read_response expect (c_in c1)) as [[[code msg] e] rest].
    injection E as _ <-. right. unfold ext_by. csimpl. rewrite lines_one. repeat split; try assumption.
  - injection E as _ <-. left. unfold ext_by. cbn [lines flat_map]. tauto.
Qed.

Lemma cmd_err_ext c expect line r c' :
  quiet c -> cmd_err c expect line = (r, c') ->
  ext_by c c' [] \/ ext_by c c' [line].
Proof.
  unfold cmd_err. intros Q E. destruct (c_cmd c expect line) as [[[code msg] e] c1] eqn:Ec.
  injection E as _ <-. eapply c_cmd_ext; eassumption.
Qed.

(* ---- greeting, EHLO, HELO, hello ---- *)

Lemma c_greet_inert c r c' : c_greet c = (r, c') -> inert c c'.
Proof.
  unfold c_greet. destruct (c_did_greet c).
  - intros E. injection E as _ <-. inert_tac.
  - unfold c_read. destruct (client_read_response 220 (c_in c)) as [[[code msg] e] rest].
    destruct e; intros E; injection E as _ <-; inert_tac.
Qed.

Definition hello_verb (c : client) : bytes := if c_lmtp c then bs "LHLO " else bs "EHLO ".

Lemma c_ehlo_ext c r c' :
  quiet c -> c_ehlo c = (r, c') ->
  ext_by c c' [] \/ ext_by c c' [hello_verb c ++ c_local c].
Proof.
  intros Q. unfold c_ehlo, hello_verb. cbv zeta.
  destruct (c_cmd c 250 _) as [[[code msg] e] c1] eqn:Ec.
  pose proof (c_cmd_ext _ _ _ _ _ Q Ec) as H.
  intros E. assert (I : inert c1 c').
  { destruct e; injection E as _ <-; inert_tac. }
  destruct H as [H|H]; [left|right]; eapply ext_by_inert_r; eassumption.
Qed.

Lemma c_helo_ext c r c' :
  quiet c -> c_helo c = (r, c') ->
  ext_by c c' [] \/ ext_by c c' [bs "HELO " ++ c_local c].
Proof.
  intros Q. unfold c_helo.
  destruct (c_cmd (set_ext c None) 250 (bs "HELO " ++ c_local c)) as [[[code msg] e] c1] eqn:Ec.
  intros E. injection E as _ <-.
  assert (I : inert c (set_ext c None)) by inert_tac.
  assert (Q' : quiet (set_ext c None)) by (eapply inert_quiet; eassumption).
  destruct (c_cmd_ext _ _ _ _ _ Q' Ec) as [H|H]; [left|right]; eapply ext_by_inert_l; eassumption.
Qed.

(* the lines hello() can write, for this client *)
Definition hello_line (c : client) (l : bytes) : Prop :=
  l = hello_verb c ++ c_local c \/ l = bs "HELO " ++ c_local c.

Lemma c_hello_ext c r c' :
  quiet c -> c_hello c = (r, c') ->
  exists ls, ext_by c c' ls /\ Forall (hello_line c) ls /\ (List.length ls <= 2)%nat.
Proof.
  intros Q. unfold c_hello. destruct (c_did_hello c).
  { intros E. injection E as _ <-. exists []. split; [apply ext_by_refl; exact Q|]. split; [constructor|cbn; lia]. }
  destruct (c_greet c) as [g c1] eqn:Eg. pose proof (c_greet_inert _ _ _ Eg) as I1.
  assert (Q1 : quiet c1) by (eapply inert_quiet; eassumption).
  destruct g; try (intros E; injection E as _ <-; exists []; split;
                   [eapply ext_by_inert_r; [apply ext_by_refl; exact Q|exact I1]|split; [constructor|cbn; lia]]).
  assert (I2 : inert c1 (set_did_hello c1 true)) by inert_tac.
  assert (Q2 : quiet (set_did_hello c1 true)) by (eapply inert_quiet; eassumption).
  destruct (c_ehlo (set_did_hello c1 true)) as [e c2] eqn:Ee.
  pose proof (c_ehlo_ext _ _ _ Q2 Ee) as He.
  assert (Hv : hello_verb (set_did_hello c1 true) ++ c_local (set_did_hello c1 true)
               = hello_verb c ++ c_local c).
  { unfold hello_verb. csimpl. destruct I1 as (_ & _ & _ & _ & -> & ->). reflexivity. }
  rewrite Hv in He.
  assert (He' : ext_by c c2 [] \/ ext_by c c2 [hello_verb c ++ c_local c]).
  { destruct He as [H|H]; [left|right]; (eapply ext_by_inert_l; [|eapply ext_by_inert_l; [|exact H]]; eassumption). }
  assert (Q3 : quiet c2) by (destruct He' as [H|H]; apply H).
  assert (Fin : forall c3, inert c2 c3 ->
     exists ls, ext_by c c3 ls /\ Forall (hello_line c) ls /\ (List.length ls <= 2)%nat).
  { intros c3 I3. destruct He' as [H|H].
    - exists []. split; [eapply ext_by_inert_r; eassumption|]. split; [constructor|cbn; lia].
    - eexists. split; [eapply ext_by_inert_r; eassumption|]. split; [|cbn; lia].
      constructor; [left; reflexivity|constructor]. }
  destruct e; try (intros E; injection E as _ <-; apply Fin; inert_tac).
  (* an SMTP error: fall back to HELO on 500 / 502 *)
  cbn [is_500_502].
  destruct ((code =? 500)%Z || (code =? 502)%Z); [|intros E; injection E as _ <-; apply Fin; inert_tac].
  destruct (c_helo c2) as [h c3] eqn:Eh. intros E. injection E as _ <-.
  pose proof (c_helo_ext _ _ _ Q3 Eh) as Hh.
  assert (Lc : c_local c2 = c_local c) by (destruct He' as [H|H]; apply H).
  rewrite Lc in Hh.
  assert (I4 : inert c3 (set_hello_err c3 h)) by inert_tac.
  destruct He' as [H1|H1], Hh as [H2|H2].
  - exists ([] ++ []). split; [eapply ext_by_inert_r; [eapply ext_by_trans; eassumption|exact I4]|].
    split; [constructor|cbn; lia].
  - exists ([] ++ [bs "HELO " ++ c_local c]). split; [eapply ext_by_inert_r; [eapply ext_by_trans; eassumption|exact I4]|].
    split; [|cbn; lia]. constructor; [right; reflexivity|constructor].
  - exists ([hello_verb c ++ c_local c] ++ []). split; [eapply ext_by_inert_r; [eapply ext_by_trans; eassumption|exact I4]|].
    split; [|cbn; lia]. constructor; [left; reflexivity|constructor].
  - exists ([hello_verb c ++ c_local c] ++ [bs "HELO " ++ c_local c]).
    split; [eapply ext_by_inert_r; [eapply ext_by_trans; eassumption|exact I4]|].
    split; [|cbn; lia]. constructor; [left; reflexivity|constructor; [right; reflexivity|constructor]].
Qed.

(* ================================================================== *)
(* 3. the ESMTP parameters are clean and negotiated                     *)
(* ================================================================== *)

Definition okch (c : ascii) : bool :=
  negb (Ascii.eqb CR c || Ascii.eqb LF c || Ascii.eqb " " c).

Lemma okch_clean_sp s : forallb okch s = true -> clean_sp s.
Proof.
  intros H. repeat split; eapply forallb_not_mem; try exact H; reflexivity.
Qed.

Lemma okch_of (P : ascii -> bool) :
  forallb (fun n => implb (P (n_byte n)) (okch (n_byte n))) (map N.of_nat (seq 0 256)) = true ->
  forall s, forallb P s = true -> clean_sp s.
Proof.
  intros H s Hs. apply okch_clean_sp. eapply forallb_impl; [|exact Hs].
  intros c Hc. pose proof (byte_enum (fun c => implb (P c) (okch c)) H c) as I.
  cbv beta in I. rewrite Hc in I. exact I.
Qed.

Lemma clean_sp_digits_dash s : forallb zch s = true -> clean_sp s.
Proof. apply okch_of. vm_compute. reflexivity. Qed.

Lemma clean_sp_dec_of_Z z : clean_sp (dec_of_Z z).
Proof. apply clean_sp_digits_dash, dec_of_Z_zch. Qed.

Lemma clean_sp_xtext s : clean_sp (encode_xtext s).
Proof. destruct (encode_xtext_no_crlf_sp s) as (A & B & C). repeat split; assumption. Qed.
Lemma clean_sp_utf8_xtext s : clean_sp (encode_utf8_addr_xtext s).
Proof. destruct (encode_utf8_addr_xtext_no_crlf_sp s) as (A & B & C). repeat split; assumption. Qed.
Lemma clean_sp_utf8_unitext s : clean_sp (encode_utf8_addr_unitext s).
Proof. destruct (encode_utf8_addr_unitext_no_crlf_sp s) as (A & B & C). repeat split; assumption. Qed.

Ltac clean_sp_const := solve [vm_compute; repeat split; reflexivity].

(* ---- RFC 3339 ---- *)

Definition timech (c : ascii) : bool :=
  is_digit c || Ascii.eqb c "-" || Ascii.eqb c ":" || Ascii.eqb c "T" || Ascii.eqb c "Z" || Ascii.eqb c "+".

Lemma forallb_repeat (P : ascii -> bool) x n : P x = true -> forallb P (repeat x n) = true.
Proof. intros H. induction n as [|n IH]; cbn [repeat forallb]; [reflexivity|]. rewrite H, IH. reflexivity. Qed.

Lemma append_int_timech x w : forallb timech (append_int x w) = true.
Proof.
  unfold append_int. rewrite !forallb_app. repeat (apply andb_true_iff; split).
  - destruct (x <? 0)%Z; reflexivity.
  - apply forallb_repeat. reflexivity.
  - eapply forallb_impl; [|apply dec_of_N_digits]. intros c Hc. unfold timech. rewrite Hc. reflexivity.
Qed.

Lemma format_rfc3339_timech t : forallb timech (format_rfc3339 t) = true.
Proof.
  unfold format_rfc3339. destruct (civil_from_days _) as [[y m] d].
  repeat (rewrite forallb_app || rewrite append_int_timech || cbn [forallb andb]).
  change (timech "-") with true. change (timech "T") with true. change (timech ":") with true.
  cbn [andb].
  destruct (rt_off t =? 0)%Z; [reflexivity|].
  destruct (Z.quot (rt_off t) 60 <? 0)%Z; cbn [forallb];
    repeat (rewrite forallb_app || rewrite append_int_timech || cbn [forallb andb]); reflexivity.
Qed.

Lemma clean_sp_rfc3339 t : clean_sp (format_rfc3339 t).
Proof.
  revert t. assert (H : forall s, forallb timech s = true -> clean_sp s).
  { apply okch_of. vm_compute. reflexivity. }
  intros t. apply H, format_rfc3339_timech.
Qed.

(* ---- NOTIFY ---- *)

Definition notify_const (v : bytes) : Prop :=
  v = bs "NEVER" \/ v = bs "DELAY" \/ v = bs "FAILURE" \/ v = bs "SUCCESS".

Lemma notify_ok_consts vals : notify_ok vals = true -> Forall notify_const vals.
Proof.
  unfold notify_ok. destruct vals as [|v0 r0]; [discriminate|].
  intros H. apply andb_true_iff in H as [H _]. apply andb_true_iff in H as [H _].
  apply Forall_forall. intros v Hv. rewrite forallb_forall in H. specialize (H v Hv).
  unfold notify_const. repeat (apply orb_true_iff in H as [H|H]);
    apply bytes_eqb_eq in H; tauto.
Qed.

Lemma clean_sp_notify vals : notify_ok vals = true -> clean_sp (join (bs ",") vals).
Proof.
  intros H. apply notify_ok_consts in H.
  assert (F : forall c, c = CR \/ c = LF \/ c = " " ->
              Forall (fun t => mem_byte c t = false) vals).
  { intros c Hc. eapply Forall_impl; [|exact H]. intros v Hv.
    destruct Hv as [->|[->|[->| ->]]]; destruct Hc as [->|[->| ->]]; reflexivity. }
  repeat split; apply mem_byte_join; try reflexivity; apply F; tauto.
Qed.

(* ---- what a parameter looks like and when it may appear ---- *)

(* keyword -> extension key that licenses it *)
Definition kw_table : list (bytes * bytes) :=
  [ (bs "BODY", bs "8BITMIME"); (bs "SIZE", bs "SIZE"); (bs "REQUIRETLS", bs "REQUIRETLS");
    (bs "SMTPUTF8", bs "SMTPUTF8"); (bs "RET", bs "DSN"); (bs "ENVID", bs "DSN");
    (bs "NOTIFY", bs "DSN"); (bs "ORCPT", bs "DSN"); (bs "AUTH", bs "AUTH"); (bs "RRVS", bs "RRVS") ].

Fixpoint kw_key (kw : bytes) (t : list (bytes * bytes)) : option bytes :=
  match t with
  | [] => None
  | (k, e) :: r => if bytes_eqb k kw then Some e else kw_key kw r
  end.

(* the extension key that licenses the parameter kw (a flag: v = []) or kw=v:
   the table's, except that BODY=BINARYMIME needs BINARYMIME *)
Definition ext_for (kw v : bytes) : option bytes :=
  if bytes_eqb kw (bs "BODY") && bytes_eqb v (bs "BINARYMIME") then Some (bs "BINARYMIME")
  else kw_key kw kw_table.

(* [p] is "KEYWORD" or "KEYWORD=value", KEYWORD in the table, the extension
   key that licenses it in [ext], and no CR / LF / SP anywhere in it *)
Definition param_ok (ext : option extmap) (p : bytes) : Prop :=
  clean_sp p /\
  exists kw k v, ext_for kw v = Some k /\ has_ext ext k = true /\
                 ((p = kw /\ v = []) \/ p = kw ++ "=" :: v).

Lemma param_ok_intro ext kw k v :
  ext_for kw v = Some k -> has_ext ext k = true -> clean_sp (kw ++ "=" :: v) ->
  param_ok ext (kw ++ "=" :: v).
Proof. intros I H C. split; [exact C|]. exists kw, k, v. tauto. Qed.

Lemma param_ok_flag ext kw k :
  ext_for kw [] = Some k -> has_ext ext k = true -> clean_sp kw -> param_ok ext kw.
Proof. intros I H C. split; [exact C|]. exists kw, k, []. tauto. Qed.

(* ext_for (bs "KW") v = Some (bs "KEY"), v possibly open (KW is not BODY then) *)
Ltac in_table :=
  unfold ext_for;
  match goal with
  | |- context [bytes_eqb (bs ?a) (bs "BODY")] =>
      let b := eval vm_compute in (bytes_eqb (bs a) (bs "BODY")) in
      change (bytes_eqb (bs a) (bs "BODY")) with b
  end; cbn [andb]; reflexivity.

Lemma clean_sp_cons_eq kw v :
  clean_sp kw -> clean_sp v -> clean_sp (kw ++ "=" :: v).
Proof.
  intros A B. apply clean_sp_app; [exact A|].
  change ("=" :: v) with (["="] ++ v). apply clean_sp_app; [clean_sp_const|exact B].
Qed.

Lemma mail_dsn_params_ok ext o ps :
  has_ext ext (key "DSN") = true ->
  mail_dsn_params o = inl ps -> Forall (param_ok ext) ps.
Proof.
  intros Hd. unfold mail_dsn_params.
  assert (R : forall p,
    (if bytes_eqb (mo_ret o) (bs "FULL") || bytes_eqb (mo_ret o) (bs "HDRS")
     then inl [bs "RET=" ++ mo_ret o]
     else match mo_ret o with [] => inl [] | _ :: _ => inr err_ret end) = inl p ->
    Forall (param_ok ext) p).
  { intros p. destruct (bytes_eqb (mo_ret o) (bs "FULL") || bytes_eqb (mo_ret o) (bs "HDRS")) eqn:E.
    - intros H. injection H as <-. constructor; [|constructor].
      change (bs "RET=" ++ mo_ret o) with (bs "RET" ++ "=" :: mo_ret o).
      apply (param_ok_intro ext (bs "RET") (bs "DSN")); [in_table|exact Hd|].
      apply clean_sp_cons_eq; [clean_sp_const|].
      apply orb_true_iff in E as [E|E]; apply bytes_eqb_eq in E; rewrite E; clean_sp_const.
    - destruct (mo_ret o); [|discriminate]. intros H. injection H as <-. constructor. }
  destruct (if bytes_eqb (mo_ret o) (bs "FULL") || bytes_eqb (mo_ret o) (bs "HDRS")
            then inl [bs "RET=" ++ mo_ret o]
            else match mo_ret o with [] => inl [] | _ :: _ => inr err_ret end) as [p|e] eqn:Er;
    [|discriminate].
  specialize (R p eq_refl).
  destruct (mo_envid o) as [|x r] eqn:Ee.
  - intros H. injection H as <-. exact R.
  - destruct (is_printable_ascii (x :: r)); [|discriminate].
    intros H. injection H as <-. apply Forall_app. split; [exact R|].
    constructor; [|constructor].
    change (bs "ENVID=" ++ encode_xtext (x :: r)) with (bs "ENVID" ++ "=" :: encode_xtext (x :: r)).
    apply (param_ok_intro ext (bs "ENVID") (bs "DSN")); [in_table|exact Hd|].
    apply clean_sp_cons_eq; [clean_sp_const|apply clean_sp_xtext].
Qed.

Lemma Forall_snoc {A} (P : A -> Prop) l x : Forall P l -> P x -> Forall P (l ++ [x]).
Proof. intros H Hx. apply Forall_app. split; [exact H|]. constructor; [exact Hx|constructor]. Qed.

Lemma clean_sp_auth_value a : clean_sp (auth_value a).
Proof. destruct a; [clean_sp_const|apply clean_sp_xtext]. Qed.

Lemma auth_param_ok ext a :
  has_ext ext (key "AUTH") = true -> param_ok ext (bs "AUTH=" ++ auth_value a).
Proof.
  intros Ea. change (bs "AUTH=" ++ auth_value a) with (bs "AUTH" ++ "=" :: auth_value a).
  apply (param_ok_intro ext (bs "AUTH") (bs "AUTH")); [in_table|exact Ea|].
  apply clean_sp_cons_eq; [clean_sp_const|apply clean_sp_auth_value].
Qed.

(* the DSN + AUTH tail of Mail, after the prefix [p4] *)
Lemma mail_tail_ok ext o p4 ps :
  Forall (param_ok ext) p4 ->
  match (if has_ext ext (key "DSN") then mail_dsn_params o else inl []) with
  | inr e => inr e
  | inl d =>
      inl (match mo_auth o with
           | Some a => if has_ext ext (key "AUTH")
                       then (p4 ++ d) ++ [bs "AUTH=" ++ auth_value a] else p4 ++ d
           | None => p4 ++ d
           end)
  end = inl ps ->
  Forall (param_ok ext) ps.
Proof.
  intros P4.
  assert (D : forall d, (if has_ext ext (key "DSN") then mail_dsn_params o else inl []) = inl d ->
                        Forall (param_ok ext) (p4 ++ d)).
  { intros d. destruct (has_ext ext (key "DSN")) eqn:Ed.
    - intros Em. apply Forall_app. split; [exact P4|]. eapply mail_dsn_params_ok; eassumption.
    - intros H. injection H as <-. rewrite app_nil_r. exact P4. }
  destruct (if has_ext ext (key "DSN") then mail_dsn_params o else inl []) as [d|e]; [|discriminate].
  specialize (D d eq_refl).
  destruct (mo_auth o) as [a|]; [|intros H; injection H as <-; exact D].
  destruct (has_ext ext (key "AUTH")) eqn:Ea; intros H; injection H as <-; [|exact D].
  apply Forall_snoc; [exact D|]. apply auth_param_ok. exact Ea.
Qed.

(* every parameter Mail renders is one clean token whose keyword the server
   offered in the EHLO reply [ext] *)
Lemma mail_body_param_ok ext opts p1 :
  mail_body_param ext opts = inl p1 -> Forall (param_ok ext) p1.
Proof.
  unfold mail_body_param.
  assert (P1 : Forall (param_ok ext) (if has_ext ext (key "8BITMIME") then [bs "BODY=8BITMIME"] else [])).
  { destruct (has_ext ext (key "8BITMIME")) eqn:E; [|constructor]. constructor; [|constructor].
    change (bs "BODY=8BITMIME") with (bs "BODY" ++ "=" :: bs "8BITMIME").
    apply (param_ok_intro ext (bs "BODY") (bs "8BITMIME")); [in_table|exact E|clean_sp_const]. }
  destruct opts as [o|]; [|intros H; injection H as <-; exact P1].
  destruct (mo_body o) as [|b0 bt] eqn:Eb; [intros H; injection H as <-; exact P1|].
  destruct (bytes_eqb (b0 :: bt) (bs "7BIT") || bytes_eqb (b0 :: bt) (bs "8BITMIME")) eqn:E8.
  - destruct (has_ext ext (key "8BITMIME")) eqn:E; [|discriminate].
    intros H. injection H as <-. constructor; [|constructor].
    change (bs "BODY=" ++ b0 :: bt) with (bs "BODY" ++ "=" :: b0 :: bt).
    apply orb_true_iff in E8 as [E8|E8]; apply bytes_eqb_eq in E8; rewrite E8;
      (apply (param_ok_intro ext (bs "BODY") (bs "8BITMIME")); [reflexivity|exact E|clean_sp_const]).
  - destruct (bytes_eqb (b0 :: bt) (bs "BINARYMIME")) eqn:Eb2; [|discriminate].
    destruct (has_ext ext (key "BINARYMIME")) eqn:E; [|discriminate].
    intros H. injection H as <-. constructor; [|constructor].
    change (bs "BODY=" ++ b0 :: bt) with (bs "BODY" ++ "=" :: b0 :: bt).
    apply bytes_eqb_eq in Eb2. rewrite Eb2.
    apply (param_ok_intro ext (bs "BODY") (bs "BINARYMIME")); [reflexivity|exact E|clean_sp_const].
Qed.

(* every parameter Mail renders is one clean token whose keyword the server
   offered in the EHLO reply [ext] *)
Lemma mail_params_ok ext opts ps :
  mail_params ext opts = inl ps -> Forall (param_ok ext) ps.
Proof.
  unfold mail_params.
  destruct (mail_body_param ext opts) as [p1|eb] eqn:Eb; [|discriminate].
  assert (P1 : Forall (param_ok ext) p1) by (eapply mail_body_param_ok; exact Eb).
  clear Eb.
  destruct opts as [o|]; [|intros H; injection H as <-; exact P1].
  assert (P2 : Forall (param_ok ext)
                 (if has_ext ext (key "SIZE") && negb (mo_size o =? 0)%Z
                  then p1 ++ [bs "SIZE=" ++ dec_of_Z (mo_size o)] else p1)).
  { destruct (has_ext ext (key "SIZE")) eqn:E; cbn [andb]; [|exact P1].
    destruct (negb (mo_size o =? 0)%Z); [|exact P1].
    apply Forall_snoc; [exact P1|].
    change (bs "SIZE=" ++ dec_of_Z (mo_size o)) with (bs "SIZE" ++ "=" :: dec_of_Z (mo_size o)).
    apply (param_ok_intro ext (bs "SIZE") (bs "SIZE")); [in_table|exact E|].
    apply clean_sp_cons_eq; [clean_sp_const|apply clean_sp_dec_of_Z]. }
  set (p2 := if has_ext ext (key "SIZE") && negb (mo_size o =? 0)%Z
             then p1 ++ [bs "SIZE=" ++ dec_of_Z (mo_size o)] else p1) in *. clearbody p2.
  destruct (mo_requiretls o && negb (has_ext ext (key "REQUIRETLS"))) eqn:E3; [discriminate|].
  assert (P3 : Forall (param_ok ext) (if mo_requiretls o then p2 ++ [bs "REQUIRETLS"] else p2)).
  { destruct (mo_requiretls o); [|exact P2]. cbn [andb] in E3. apply negb_false_iff in E3.
    apply Forall_snoc; [exact P2|].
    apply (param_ok_flag ext (bs "REQUIRETLS") (bs "REQUIRETLS")); [reflexivity|exact E3|clean_sp_const]. }
  set (p3 := if mo_requiretls o then p2 ++ [bs "REQUIRETLS"] else p2) in *. clearbody p3.
  destruct (mo_utf8 o && negb (has_ext ext (key "SMTPUTF8"))) eqn:E4; [discriminate|].
  assert (P4 : Forall (param_ok ext) (if mo_utf8 o then p3 ++ [bs "SMTPUTF8"] else p3)).
  { destruct (mo_utf8 o); [|exact P3]. cbn [andb] in E4. apply negb_false_iff in E4.
    apply Forall_snoc; [exact P3|].
    apply (param_ok_flag ext (bs "SMTPUTF8") (bs "SMTPUTF8")); [reflexivity|exact E4|clean_sp_const]. }
  set (p4 := if mo_utf8 o then p3 ++ [bs "SMTPUTF8"] else p3) in *. clearbody p4.
  apply mail_tail_ok. exact P4.
Qed.

(* the local errors of the BODY parameter *)
Definition body_err (e : bytes) : Prop := e = err_8bitmime \/ e = err_binarymime \/ e = err_body.

Lemma mail_body_param_err ext opts e : mail_body_param ext opts = inr e -> body_err e.
Proof.
  unfold mail_body_param, body_err. destruct opts as [o|]; [|discriminate].
  destruct (mo_body o) as [|b0 bt]; [discriminate|].
  destruct (bytes_eqb (b0 :: bt) (bs "7BIT") || bytes_eqb (b0 :: bt) (bs "8BITMIME")).
  - destruct (has_ext ext (key "8BITMIME")); [discriminate|]. intros H. injection H as <-. tauto.
  - destruct (bytes_eqb (b0 :: bt) (bs "BINARYMIME")).
    + destruct (has_ext ext (key "BINARYMIME")); [discriminate|]. intros H. injection H as <-. tauto.
    + intros H. injection H as <-. tauto.
Qed.

(* Body = 7BIT / 8BITMIME without 8BITMIME offered, Body = BINARYMIME without
   BINARYMIME offered, any other non-empty Body: a local error *)
Definition body_refused (ext : option extmap) (o : mail_opts) : Prop :=
  ((mo_body o = bs "7BIT" \/ mo_body o = bs "8BITMIME") /\ has_ext ext (key "8BITMIME") = false)
  \/ (mo_body o = bs "BINARYMIME" /\ has_ext ext (key "BINARYMIME") = false)
  \/ (mo_body o <> [] /\ mo_body o <> bs "7BIT" /\ mo_body o <> bs "8BITMIME"
      /\ mo_body o <> bs "BINARYMIME").

Lemma mail_params_body ext o :
  body_refused ext o ->
  exists e, mail_params ext (Some o) = inr e
            /\ ((mo_body o = bs "7BIT" \/ mo_body o = bs "8BITMIME") -> e = err_8bitmime)
            /\ (mo_body o = bs "BINARYMIME" -> e = err_binarymime)
            /\ (mo_body o <> bs "7BIT" -> mo_body o <> bs "8BITMIME" -> mo_body o <> bs "BINARYMIME"
                -> e = err_body).
Proof.
  unfold body_refused, mail_params, mail_body_param.
  intros [[[E|E] H]|[[E H]|(N0 & N1 & N2 & N3)]].
  - rewrite E, H. eexists. split; [reflexivity|]. repeat split; try reflexivity; intros; try discriminate; congruence.
  - rewrite E, H. eexists. split; [reflexivity|]. repeat split; try reflexivity; intros; try discriminate; congruence.
  - rewrite E, H. eexists. split; [reflexivity|].
    split; [intros [X|X]; discriminate X|]. split; [reflexivity|]. intros _ _ X. exfalso. apply X. reflexivity.
  - destruct (mo_body o) as [|b0 bt] eqn:Eb; [congruence|].
    destruct (bytes_eqb (b0 :: bt) (bs "7BIT")) eqn:E1; [apply bytes_eqb_eq in E1; congruence|].
    destruct (bytes_eqb (b0 :: bt) (bs "8BITMIME")) eqn:E2; [apply bytes_eqb_eq in E2; congruence|].
    destruct (bytes_eqb (b0 :: bt) (bs "BINARYMIME")) eqn:E3; [apply bytes_eqb_eq in E3; congruence|].
    cbn [orb]. eexists. split; [reflexivity|].
    split; [intros [X|X]; congruence|]. split; [intros X; congruence|]. intros _ _ _. reflexivity.
Qed.

(* RequireTLS / UTF8 requested but not offered: a local error, not a silent drop *)
Lemma mail_params_requiretls ext o :
  mo_requiretls o = true -> has_ext ext (key "REQUIRETLS") = false ->
  exists e, mail_params ext (Some o) = inr e /\ (body_err e \/ e = err_requiretls).
Proof.
  intros A B. unfold mail_params.
  destruct (mail_body_param ext (Some o)) as [p1|e] eqn:Eb.
  - rewrite A, B. eexists. split; [reflexivity|tauto].
  - exists e. split; [reflexivity|]. left. eapply mail_body_param_err; exact Eb.
Qed.

Lemma mail_params_smtputf8 ext o :
  mo_utf8 o = true -> has_ext ext (key "SMTPUTF8") = false ->
  exists e, mail_params ext (Some o) = inr e
            /\ (body_err e \/ e = err_requiretls \/ e = err_smtputf8).
Proof.
  intros A B. unfold mail_params.
  destruct (mail_body_param ext (Some o)) as [p1|e] eqn:Eb.
  - rewrite A, B.
    destruct (mo_requiretls o && negb (has_ext ext (key "REQUIRETLS"))).
    + exists err_requiretls. tauto.
    + exists err_smtputf8. cbn [andb negb]. tauto.
  - exists e. split; [reflexivity|]. left. eapply mail_body_param_err; exact Eb.
Qed.

Lemma rcpt_dsn_params_ok ext o ps :
  has_ext ext (key "DSN") = true ->
  rcpt_dsn_params ext o = inl ps -> Forall (param_ok ext) ps.
Proof.
  intros Hd. unfold rcpt_dsn_params.
  set (nt := match ro_notify o with
             | [] => inl []
             | _ :: _ => if notify_ok (ro_notify o)
                         then inl [bs "NOTIFY=" ++ join (bs ",") (ro_notify o)]
                         else inr err_notify
             end).
  assert (N : forall p, nt = inl p -> Forall (param_ok ext) p).
  { intros p. unfold nt. destruct (ro_notify o) as [|x r] eqn:En.
    - intros H. injection H as <-. constructor.
    - destruct (notify_ok (x :: r)) eqn:Ok; [|discriminate].
      intros H. injection H as <-. constructor; [|constructor].
      change (bs "NOTIFY=" ++ join (bs ",") (x :: r)) with (bs "NOTIFY" ++ "=" :: join (bs ",") (x :: r)).
      apply (param_ok_intro ext (bs "NOTIFY") (bs "DSN")); [in_table|exact Hd|].
      apply clean_sp_cons_eq; [clean_sp_const|exact (clean_sp_notify _ Ok)]. }
  destruct nt as [p|e]; [|discriminate]. specialize (N p eq_refl).
  destruct (ro_orcpt o) as [|x r] eqn:Eo.
  - intros H. injection H as <-. exact N.
  - destruct (bytes_eqb (ro_orcpt_type o) (bs "RFC822")).
    + destruct (is_printable_ascii (x :: r)); [|discriminate].
      intros H. injection H as <-. apply Forall_snoc; [exact N|].
      change (bs "ORCPT=RFC822;" ++ encode_xtext (x :: r))
        with (bs "ORCPT" ++ "=" :: (bs "RFC822;" ++ encode_xtext (x :: r))).
      apply (param_ok_intro ext (bs "ORCPT") (bs "DSN")); [in_table|exact Hd|].
      apply clean_sp_cons_eq; [clean_sp_const|].
      apply (clean_sp_app (bs "RFC822;")); [clean_sp_const|apply clean_sp_xtext].
    + destruct (bytes_eqb (ro_orcpt_type o) (bs "UTF-8")); [|discriminate].
      intros H. injection H as <-. apply Forall_snoc; [exact N|].
      match goal with |- context [if ?b then _ else _] => destruct b end.
      * refine (param_ok_intro ext (bs "ORCPT") (bs "DSN")
                  (bs "UTF-8;" ++ encode_utf8_addr_unitext (x :: r)) _ Hd _); [in_table|].
        apply clean_sp_cons_eq; [clean_sp_const|].
        apply (clean_sp_app (bs "UTF-8;")); [clean_sp_const|apply clean_sp_utf8_unitext].
      * refine (param_ok_intro ext (bs "ORCPT") (bs "DSN")
                  (bs "UTF-8;" ++ encode_utf8_addr_xtext (x :: r)) _ Hd _); [in_table|].
        apply clean_sp_cons_eq; [clean_sp_const|].
        apply (clean_sp_app (bs "UTF-8;")); [clean_sp_const|apply clean_sp_utf8_xtext].
Qed.

Lemma rcpt_params_ok ext opts ps :
  rcpt_params ext opts = inl ps -> Forall (param_ok ext) ps.
Proof.
  unfold rcpt_params. destruct opts as [o|]; [|intros H; injection H as <-; constructor].
  assert (D : forall d, (if has_ext ext (key "DSN") then rcpt_dsn_params ext o else inl []) = inl d ->
                        Forall (param_ok ext) d).
  { intros d. destruct (has_ext ext (key "DSN")) eqn:Ed.
    - apply rcpt_dsn_params_ok. exact Ed.
    - intros H. injection H as <-. constructor. }
  destruct (if has_ext ext (key "DSN") then rcpt_dsn_params ext o else inl []) as [d|e]; [|discriminate].
  specialize (D d eq_refl).
  destruct (ro_rrvs o) as [t|]; [|intros H; injection H as <-; exact D].
  destruct (has_ext ext (key "RRVS")) eqn:Er; cbn [andb]; [|intros H; injection H as <-; exact D].
  destruct (negb (rt_is_zero t)); intros H; injection H as <-; [|exact D].
  apply Forall_snoc; [exact D|].
  change (bs "RRVS=" ++ format_rfc3339 t) with (bs "RRVS" ++ "=" :: format_rfc3339 t).
  apply (param_ok_intro ext (bs "RRVS") (bs "RRVS")); [in_table|exact Er|].
  apply clean_sp_cons_eq; [clean_sp_const|apply clean_sp_rfc3339].
Qed.

Lemma render_params_clean ext ps : Forall (param_ok ext) ps -> clean (render_params ps).
Proof.
  induction 1 as [|p r [Hp _] _ IH]; [clean_const|].
  unfold render_params. cbn [flat_map]. change (" " :: p) with ([" "] ++ p).
  rewrite <- app_assoc. apply clean_app; [clean_const|]. apply clean_app; [apply Hp|exact IH].
Qed.

Lemma mail_line_clean ext from ps :
  clean from -> Forall (param_ok ext) ps -> clean (mail_line from ps).
Proof.
  intros F P. unfold mail_line. apply clean_app; [clean_const|]. apply clean_app; [exact F|].
  apply clean_app; [clean_const|]. eapply render_params_clean; exact P.
Qed.

Lemma rcpt_line_clean ext to ps :
  clean to -> Forall (param_ok ext) ps -> clean (rcpt_line to ps).
Proof.
  intros F P. unfold rcpt_line. apply clean_app; [clean_const|]. apply clean_app; [exact F|].
  apply clean_app; [clean_const|]. eapply render_params_clean; exact P.
Qed.

(* ================================================================== *)
(* 4. C15: every method, every argument                                 *)
(* ================================================================== *)

Definition at_most (line : bytes) (own : list bytes) : Prop := own = [] \/ own = [line].

Lemma ext_le c c' line :
  ext_by c c' [] \/ ext_by c c' [line] -> exists own, ext_by c c' own /\ at_most line own.
Proof. intros [H|H]; eexists; (split; [exact H|]); [left|right]; reflexivity. Qed.

Lemma with_hello_ext c k r c' (S : list bytes -> Prop) :
  quiet c -> with_hello c k = (r, c') ->
  (forall c1 r1 c2, quiet c1 -> c_local c1 = c_local c -> c_lmtp c1 = c_lmtp c ->
                    k c1 = (r1, c2) -> exists own, ext_by c1 c2 own /\ S own) ->
  S [] ->
  exists hl own, ext_by c c' (hl ++ own) /\ Forall (hello_line c) hl /\ (List.length hl <= 2)%nat /\ S own.
Proof.
  intros Q E K S0. unfold with_hello in E. destruct (c_hello c) as [h c1] eqn:Eh.
  destruct (c_hello_ext _ _ _ Q Eh) as (hl & X & F & Ln).
  assert (Stop : c' = c1 -> exists hl own, ext_by c c' (hl ++ own) /\ Forall (hello_line c) hl
                                    /\ (List.length hl <= 2)%nat /\ S own).
  { intros ->. exists hl, []. rewrite app_nil_r. tauto. }
  destruct h; try (injection E as _ <-; apply Stop; reflexivity).
  destruct X as (O & Q1 & L & M).
  destruct (K c1 r c' Q1 L M E) as (own & X2 & So).
  exists hl, own. split; [|tauto]. eapply ext_by_trans; [|exact X2]. unfold ext_by. tauto.
Qed.

(* ---- the individual methods ---- *)

Lemma c_verify_ext c addr r c' :
  quiet c -> clean addr -> c_verify c addr = (r, c') ->
  exists hl own, ext_by c c' (hl ++ own) /\ Forall (hello_line c) hl /\ (List.length hl <= 2)%nat
                 /\ at_most (bs "VRFY " ++ addr) own.
Proof.
  intros Q C. unfold c_verify. apply valid_line_clean in C. rewrite C. cbn [negb].
  intros E. eapply with_hello_ext; try eassumption; [|left; reflexivity].
  intros c1 r1 c2 Q1 _ _ E1. cbv beta in E1. apply ext_le. eapply cmd_err_ext; eassumption.
Qed.

Lemma c_noop_ext c r c' :
  quiet c -> c_noop c = (r, c') ->
  exists hl own, ext_by c c' (hl ++ own) /\ Forall (hello_line c) hl /\ (List.length hl <= 2)%nat
                 /\ at_most (bs "NOOP") own.
Proof.
  intros Q E. eapply with_hello_ext; try eassumption; [|left; reflexivity].
  intros c1 r1 c2 Q1 _ _ E1. cbv beta in E1. apply ext_le. eapply cmd_err_ext; eassumption.
Qed.

Lemma c_reset_ext c r c' :
  quiet c -> c_reset c = (r, c') ->
  exists hl own, ext_by c c' (hl ++ own) /\ Forall (hello_line c) hl /\ (List.length hl <= 2)%nat
                 /\ at_most (bs "RSET") own.
Proof.
  intros Q E. eapply with_hello_ext; try eassumption; [|left; reflexivity].
  intros c1 r1 c2 Q1 _ _ E1. unfold c_reset_step in E1.
  destruct (cmd_err c1 250 (bs "RSET")) as [e c3] eqn:Ec.
  pose proof (cmd_err_ext _ _ _ _ _ Q1 Ec) as H. apply ext_le.
  assert (I : inert c3 c2) by (destruct e; injection E1 as _ <-; inert_tac).
  destruct H as [H|H]; [left|right]; eapply ext_by_inert_r; eassumption.
Qed.

Lemma c_quit_ext c r c' :
  quiet c -> c_quit c = (r, c') ->
  exists hl own, ext_by c c' (hl ++ own) /\ Forall (hello_line c) hl /\ (List.length hl <= 2)%nat
                 /\ at_most (bs "QUIT") own.
Proof.
  intros Q E. eapply with_hello_ext; try eassumption; [|left; reflexivity].
  intros c1 r1 c2 Q1 _ _ E1. unfold c_quit_step in E1.
  destruct (cmd_err c1 221 (bs "QUIT")) as [e c3] eqn:Ec.
  pose proof (cmd_err_ext _ _ _ _ _ Q1 Ec) as H. apply ext_le.
  assert (I : inert c3 c2) by (destruct e; injection E1 as _ <-; inert_tac).
  destruct H as [H|H]; [left|right]; eapply ext_by_inert_r; eassumption.
Qed.

Lemma c_extension_ext c name x c' :
  quiet c -> c_extension c name = (x, c') ->
  exists hl, ext_by c c' hl /\ Forall (hello_line c) hl /\ (List.length hl <= 2)%nat.
Proof.
  intros Q. unfold c_extension. destruct (c_hello c) as [h c1] eqn:Eh.
  pose proof (c_hello_ext _ _ _ Q Eh) as H.
  intros E. assert (c' = c1).
  { destruct h; try (injection E as _ <-; reflexivity).
    destruct (c_ext c1) as [m|]; [destruct (ext_get (to_upper name) m)|]; injection E as _ <-; reflexivity. }
  subst c'. exact H.
Qed.

Lemma c_hello_api_ext c name r c' :
  quiet c -> clean name -> c_hello_api c name = (r, c') ->
  exists hl, c_out c' = c_out c ++ lines hl /\ quiet c'
             /\ (c_local c' = c_local c \/ c_local c' = name) /\ c_lmtp c' = c_lmtp c
             /\ Forall (hello_line (set_local c name)) hl /\ (List.length hl <= 2)%nat.
Proof.
  intros Q C. unfold c_hello_api. apply valid_line_clean in C. rewrite C. cbn [negb].
  destruct (c_did_hello c).
  - intros E. injection E as _ <-. exists []. cbn [lines flat_map]. rewrite app_nil_r.
    repeat split; try tauto. constructor. cbn; lia.
  - intros E. assert (I : inert c (set_local c name) -> False \/ True) by tauto.
    assert (Q' : quiet (set_local c name)).
    { destruct Q as [Q|[Q1 Q2]]; [left; exact Q|right; split; [exact Q1|exact Q2]]. }
    destruct (c_hello_ext _ _ _ Q' E) as (hl & (O & Q2 & L & M) & F & Ln).
    exists hl. csimpl. repeat split; try assumption. right. exact L.
Qed.

(* Mail after hello: a local error with nothing written, or at most the one
   MAIL line whose parameters are all negotiated *)
Lemma c_mail_step_ext from opts c r c' :
  quiet c -> c_mail_step from opts c = (r, c') ->
  (exists e, mail_params (c_ext c) opts = inr e /\ r = RLocal e /\ ext_by c c' [])
  \/ (exists ps own, mail_params (c_ext c) opts = inl ps /\ ext_by c c' own
                     /\ at_most (mail_line from ps) own).
Proof.
  intros Q. unfold c_mail_step.
  assert (I : inert c (set_rcpts c [])) by inert_tac.
  assert (Q' : quiet (set_rcpts c [])) by (eapply inert_quiet; eassumption).
  change (c_ext (set_rcpts c [])) with (c_ext c).
  destruct (mail_params (c_ext c) opts) as [ps|e] eqn:Ep.
  - intros E. right. exists ps. destruct (ext_le _ _ _ (cmd_err_ext _ _ _ _ _ Q' E)) as (own & X & A).
    exists own. split; [reflexivity|]. split; [|exact A]. eapply ext_by_inert_l; eassumption.
  - intros E. injection E as <- <-. left. exists e. split; [reflexivity|]. split; [reflexivity|].
    eapply ext_by_inert_r; [apply ext_by_refl; exact Q|exact I].
Qed.

Lemma c_rcpt_ext c to opts r c' :
  quiet c -> clean to -> c_rcpt c to opts = (r, c') ->
  (exists e, rcpt_params (c_ext c) opts = inr e /\ r = RLocal e /\ c' = c)
  \/ (exists ps own, rcpt_params (c_ext c) opts = inl ps /\ ext_by c c' own
                     /\ at_most (rcpt_line to ps) own).
Proof.
  intros Q C. unfold c_rcpt. apply valid_line_clean in C. rewrite C. cbn [negb].
  destruct (rcpt_params (c_ext c) opts) as [ps|e] eqn:Ep.
  - destruct (cmd_err c 25 (rcpt_line to ps)) as [e1 c1] eqn:Ec. intros E. right. exists ps.
    destruct (ext_le _ _ _ (cmd_err_ext _ _ _ _ _ Q Ec)) as (own & X & A).
    exists own. split; [reflexivity|]. split; [|exact A].
    assert (I : inert c1 c') by (destruct e1; injection E as _ <-; inert_tac).
    eapply ext_by_inert_r; eassumption.
  - intros E. injection E as <- <-. left. exists e. repeat split.
Qed.

Lemma close_dot_quiet c : quiet c -> inert c (close_dot c) \/ c_werr c = true.
Proof.
  intros [We|[Wb Sh]]; [right; exact We|]. left. rewrite close_dot_shut by exact Sh. inert_tac.
Qed.

(* opening the data writer leaves the write side as it is (the writer is new,
   so the state is not quiet any more: a data writer is open) *)
Lemma c_data_ext c r c' :
  quiet c -> c_data c = (r, c') ->
  exists own, c_out c' = c_out c ++ lines own /\ at_most (bs "DATA") own
              /\ c_local c' = c_local c /\ c_lmtp c' = c_lmtp c
              /\ (r <> RNil -> quiet c').
Proof.
  intros Q. unfold c_data. destruct (cmd_err c 354 (bs "DATA")) as [e c1] eqn:Ec.
  destruct (ext_le _ _ _ (cmd_err_ext _ _ _ _ _ Q Ec)) as (own & (O & Q1 & L & M) & A).
  intros E. exists own.
  assert (Fail : e <> RNil -> (r, c') = (e, c1) ->
          c_out c' = c_out c ++ lines own /\ at_most (bs "DATA") own
          /\ c_local c' = c_local c /\ c_lmtp c' = c_lmtp c /\ (r <> RNil -> quiet c')).
  { intros _ X. injection X as -> ->. tauto. }
  destruct e; try (apply Fail; [discriminate|congruence]).
  injection E as <- <-. unfold open_writer.
  destruct (close_dot_quiet c1 Q1) as [(O2 & _ & _ & _ & L2 & M2)|We].
  - csimpl. rewrite O2, L2, M2. repeat split; try assumption; try congruence; intros X; exfalso; apply X; reflexivity.
  - destruct (close_dot_dead c1 We) as (_ & O2 & Hc & _). destruct (ctl_local _ _ Hc) as [L2 M2].
    csimpl. rewrite O2, L2, M2. repeat split; try assumption; try congruence; intros X; exfalso; apply X; reflexivity.
Qed.

Lemma c_lmtp_data_ext c cb r c' :
  quiet c -> c_lmtp_data c cb = (r, c') ->
  exists own, c_out c' = c_out c ++ lines own /\ at_most (bs "DATA") own
              /\ c_local c' = c_local c /\ c_lmtp c' = c_lmtp c
              /\ (r <> RNil -> quiet c').
Proof.
  intros Q. unfold c_lmtp_data. destruct (c_lmtp c) eqn:El; cbn [negb].
  2:{ intros E. injection E as <- <-. exists []. cbn [lines flat_map]. rewrite app_nil_r.
      repeat split; try tauto. left. reflexivity. }
  destruct (cmd_err c 354 (bs "DATA")) as [e c1] eqn:Ec.
  destruct (ext_le _ _ _ (cmd_err_ext _ _ _ _ _ Q Ec)) as (own & (O & Q1 & L & M) & A).
  intros E. exists own.
  assert (Fail : e <> RNil -> (r, c') = (e, c1) ->
          c_out c' = c_out c ++ lines own /\ at_most (bs "DATA") own
          /\ c_local c' = c_local c /\ c_lmtp c' = true /\ (r <> RNil -> quiet c')).
  { intros _ X. injection X as -> ->. rewrite M. tauto. }
  destruct e; try (apply Fail; [discriminate|congruence]).
  injection E as <- <-. unfold open_writer.
  destruct (close_dot_quiet c1 Q1) as [(O2 & _ & _ & _ & L2 & M2)|We].
  - csimpl. rewrite O2, L2, M2. repeat split; try assumption; try congruence; intros X; exfalso; apply X; reflexivity.
  - destruct (close_dot_dead c1 We) as (_ & O2 & Hc & _). destruct (ctl_local _ _ Hc) as [L2 M2].
    csimpl. rewrite O2, L2, M2. repeat split; try assumption; try congruence; intros X; exfalso; apply X; reflexivity.
Qed.

Definition mail_own (from : bytes) (own : list bytes) : Prop :=
  own = [] \/ exists ext ps, own = [mail_line from ps] /\ Forall (param_ok ext) ps.
Definition rcpt_own (to : bytes) (own : list bytes) : Prop :=
  own = [] \/ exists ext ps, own = [rcpt_line to ps] /\ Forall (param_ok ext) ps.

Lemma c_mail_ext c from opts r c' :
  quiet c -> clean from -> c_mail c from opts = (r, c') ->
  exists hl own, ext_by c c' (hl ++ own) /\ Forall (hello_line c) hl /\ (List.length hl <= 2)%nat
                 /\ mail_own from own.
Proof.
  intros Q C. unfold c_mail. apply valid_line_clean in C. rewrite C. cbn [negb].
  intros E. eapply with_hello_ext; try eassumption; [|left; reflexivity].
  intros c1 r1 c2 Q1 _ _ E1.
  destruct (c_mail_step_ext _ _ _ _ _ Q1 E1) as [(e & _ & _ & X)|(ps & own & Ep & X & A)].
  - exists []. split; [exact X|left; reflexivity].
  - exists own. split; [exact X|]. destruct A as [->| ->]; [left; reflexivity|].
    right. exists (c_ext c1), ps. split; [reflexivity|]. eapply mail_params_ok; exact Ep.
Qed.

(* ---- AUTH ---- *)

Definition auth_reply_line (l : bytes) : Prop := l = bs "*" \/ exists x, l = b64_encode x.

Lemma auth_reply_line_clean l : auth_reply_line l -> clean l.
Proof.
  intros [->|[x ->]]; [clean_const|]. destruct (b64_encode_no_crlf x) as [A B]. split; assumption.
Qed.

Lemma auth_abort_ext c :
  quiet c -> exists own, ext_by c (auth_abort c) own /\ at_most (bs "*") own.
Proof.
  intros Q. unfold auth_abort. destruct (c_cmd c 501 (bs "*")) as [x c1] eqn:E.
  apply ext_le. eapply c_cmd_ext; eassumption.
Qed.

Lemma auth_loop_ext steps : forall c code msg64 got r got' c',
  quiet c -> auth_loop steps c code msg64 got = (r, got', c') ->
  exists own, ext_by c c' own /\ Forall auth_reply_line own
              /\ (List.length own <= S (List.length steps))%nat.
Proof.
  assert (Ab : forall c n, quiet c -> exists own, ext_by c (auth_abort c) own /\ Forall auth_reply_line own
                              /\ (List.length own <= S n)%nat).
  { intros c n Q. destruct (auth_abort_ext c Q) as (own & X & [->| ->]).
    - exists []. split; [exact X|]. split; [constructor|cbn; lia].
    - eexists. split; [exact X|]. split; [|cbn; lia]. constructor; [left; reflexivity|constructor]. }
  induction steps as [|s steps IH]; intros c code msg64 got r got' c' Q E.
  - cbn [auth_loop] in E. destruct (code =? 334)%Z.
    + destruct (b64_decode msg64); injection E as _ _ <-; apply Ab; exact Q.
    + destruct (code =? 235)%Z.
      * injection E as _ _ <-. exists []. split; [apply ext_by_refl; exact Q|]. split; [constructor|cbn; lia].
      * destruct (to_smtp_err code msg64) as [[c0 ec] m]. injection E as _ _ <-. apply Ab; exact Q.
  - cbn [auth_loop] in E. destruct (code =? 334)%Z.
    + destruct (b64_decode msg64) as [msg|]; [|injection E as _ _ <-; apply Ab; exact Q].
      destruct s as [[x|]|t].
      * destruct (c_cmd c 0 (b64_encode x)) as [[[code' msg'] e] c1] eqn:Ec.
        destruct (ext_le _ _ _ (c_cmd_ext _ _ _ _ _ Q Ec)) as (o1 & X1 & A1).
        assert (F1 : Forall auth_reply_line o1).
        { destruct A1 as [->| ->]; [constructor|]. constructor; [right; eexists; reflexivity|constructor]. }
        assert (L1 : (List.length o1 <= 1)%nat) by (destruct A1 as [->| ->]; cbn; lia).
        assert (Stop : c' = c1 -> exists own, ext_by c c' own /\ Forall auth_reply_line own
                                      /\ (List.length own <= S (List.length (CResp (Some x) :: steps)))%nat).
        { intros ->. exists o1. split; [exact X1|]. split; [exact F1|cbn [List.length]; lia]. }
        destruct e; try (injection E as _ _ <-; apply Stop; reflexivity).
        assert (Q1 : quiet c1) by apply X1.
        destruct (IH _ _ _ _ _ _ _ Q1 E) as (o2 & X2 & F2 & L2).
        exists (o1 ++ o2). split; [eapply ext_by_trans; eassumption|].
        split; [apply Forall_app; tauto|]. rewrite app_length. cbn [List.length]. lia.
      * injection E as _ _ <-. exists []. split; [apply ext_by_refl; exact Q|]. split; [constructor|cbn; lia].
      * injection E as _ _ <-. apply Ab; exact Q.
    + destruct (code =? 235)%Z.
      * injection E as _ _ <-. exists []. split; [apply ext_by_refl; exact Q|]. split; [constructor|cbn; lia].
      * destruct (to_smtp_err code msg64) as [[c0 ec] m]. injection E as _ _ <-. apply Ab; exact Q.
Qed.

Definition auth_own (s : cscript) (own : list bytes) : Prop :=
  own = [] \/ exists rest, own = auth_line s :: rest /\ Forall auth_reply_line rest
                           /\ (List.length rest <= S (List.length (cs_steps s)))%nat.

(* when nothing was written the command failed with an I/O error *)
Lemma c_cmd_ext_strong c expect line r c' :
  quiet c -> c_cmd c expect line = (r, c') ->
  (ext_by c c' [] /\ r = (0%Z, [], RIo)) \/ ext_by c c' [line].
Proof.
  intros Q E. unfold c_cmd in E.
  destruct (printf_line_quiet c line Q) as (ok & c1 & Ep & Ho & Q1 & Hc & Hi).
  rewrite Ep in E. destruct (ctl_local _ _ Hc) as [L M].
  destruct ok.
  - unfold c_read in E. destruct (client_read_response expect (c_in c1)) as [[[code msg] e] rest].
    injection E as _ <-. right. unfold ext_by. csimpl. rewrite lines_one. repeat split; try assumption.
  - injection E as <- <-. left. split; [|reflexivity]. unfold ext_by. cbn [lines flat_map]. tauto.
Qed.

Lemma c_auth_ext c s r got c' :
  quiet c -> c_auth c s = (r, got, c') ->
  exists hl own, ext_by c c' (hl ++ own) /\ Forall (hello_line c) hl /\ (List.length hl <= 2)%nat
                 /\ auth_own s own.
Proof.
  intros Q. unfold c_auth. destruct (c_hello c) as [h c1] eqn:Eh.
  destruct (c_hello_ext _ _ _ Q Eh) as (hl & X & F & Ln).
  assert (Stop : c' = c1 -> exists hl own, ext_by c c' (hl ++ own) /\ Forall (hello_line c) hl
                                    /\ (List.length hl <= 2)%nat /\ auth_own s own).
  { intros ->. exists hl, []. rewrite app_nil_r. split; [exact X|]. split; [exact F|]. split; [exact Ln|left; reflexivity]. }
  intros E. destruct h; try (injection E as _ _ <-; apply Stop; reflexivity).
  assert (Q1 : quiet c1) by apply X.
  unfold c_auth_step in E. destruct (cs_start_err s); [injection E as _ _ <-; apply Stop; reflexivity|].
  destruct (c_cmd c1 0 (auth_line s)) as [[[code msg64] e] c2] eqn:Ec.
  destruct (c_cmd_ext_strong _ _ _ _ _ Q1 Ec) as [[X1 Er]|X1].
  - (* the AUTH line could not be written: I/O error, the loop is not entered *)
    injection Er as _ _ ->. injection E as _ _ <-.
    exists hl, []. split; [eapply ext_by_trans; eassumption|].
    split; [exact F|]. split; [exact Ln|left; reflexivity].
  - assert (Q2 : quiet c2) by apply X1.
    assert (exists o2, ext_by c2 c' o2 /\ Forall auth_reply_line o2
                       /\ (List.length o2 <= S (List.length (cs_steps s)))%nat) as (o2 & X2 & F2 & L2).
    { destruct e; try (injection E as _ _ <-; exists []; split; [apply ext_by_refl; exact Q2|split; [constructor|cbn; lia]]).
      eapply auth_loop_ext; eassumption. }
    exists hl, ([auth_line s] ++ o2). split.
    + eapply ext_by_trans; [exact X|]. eapply ext_by_trans; eassumption.
    + split; [exact F|]. split; [exact Ln|]. right. exists o2. repeat split; assumption.
Qed.

(* strings.TrimSpace only removes octets *)
Lemma In_skipn {A} (x : A) n l : In x (skipn n l) -> In x l.
Proof.
  revert l. induction n as [|n IH]; intros l H; [exact H|].
  destruct l as [|y l]; [exact H|]. right. apply IH. exact H.
Qed.

Lemma trim_left_f_In x fuel s : In x (trim_left_f fuel s) -> In x s.
Proof.
  revert s. induction fuel as [|f IH]; intros s H; [exact H|].
  cbn [trim_left_f] in H. destruct (space_len s); [exact H|].
  apply IH in H. eapply In_skipn; exact H.
Qed.

Lemma trim_right_f_In x fuel s : In x (trim_right_f fuel s) -> In x s.
Proof.
  revert s. induction fuel as [|f IH]; intros s H; [exact H|].
  cbn [trim_right_f] in H. destruct (space_len_rev s); [exact H|].
  apply IH in H. eapply In_skipn; exact H.
Qed.

Lemma trim_space_In x s : In x (trim_space s) -> In x s.
Proof.
  unfold trim_space, trim_right_space, trim_left_space. intros H.
  apply in_rev in H. apply trim_right_f_In in H. apply in_rev in H.
  eapply trim_left_f_In; exact H.
Qed.

Lemma mem_byte_true_In c s : mem_byte c s = true <-> In c s.
Proof. apply Base64Proofs.mem_byte_In. Qed.

Lemma clean_trim_space s : clean s -> clean (trim_space s).
Proof.
  intros [A B]. split.
  - destruct (mem_byte CR (trim_space s)) eqn:E; [|reflexivity].
    apply mem_byte_true_In, trim_space_In, mem_byte_true_In in E. congruence.
  - destruct (mem_byte LF (trim_space s)) eqn:E; [|reflexivity].
    apply mem_byte_true_In, trim_space_In, mem_byte_true_In in E. congruence.
Qed.

Lemma clean_b64 x : clean (b64_encode x).
Proof. destruct (b64_encode_no_crlf x) as [A B]. split; assumption. Qed.

Lemma auth_line_clean s : clean (cs_mech s) -> clean (auth_line s).
Proof.
  intros M. unfold auth_line. apply clean_trim_space.
  apply clean_app; [clean_const|]. apply clean_app; [exact M|].
  assert (R : clean match cs_ir s with
                    | Some [] => bs "="
                    | Some ((_ :: _) as ir) => b64_encode ir
                    | None => []
                    end).
  { destruct (cs_ir s) as [[|a ir]|]; [clean_const|apply clean_b64|clean_const]. }
  apply (clean_app [" "]); [clean_const|exact R].
Qed.

(* ---- the statement ---- *)

(* the argument checked by validateLine *)
Definition line_arg (k : call) : option bytes :=
  match k with
  | KHello n => Some n | KVerify a => Some a | KMail f _ => Some f | KRcpt t _ => Some t
  | _ => None
  end.

(* the methods of C15: all but the data writer's Write / Close, the composite
   SendMail and the constructor NewClientStartTLS (see C10).  For Auth the
   mechanism NAME (supplied by the sasl.Client implementation) must not
   contain CR or LF: Auth does not check it. *)
Definition cmd_call (k : call) : Prop :=
  match k with
  | KWrite _ | KClose | KSendMail _ _ _ | KStartTLS => False
  | KAuth s => clean (cs_mech s)
  | _ => True
  end.

Definition says_hello (k : call) : bool :=
  match k with KRcpt _ _ | KData | KLmtpData _ => false | _ => true end.

(* the method's own protocol steps *)
Definition own_shape (k : call) (own : list bytes) : Prop :=
  match k with
  | KHello _ | KExtension _ => own = []
  | KVerify a => at_most (bs "VRFY " ++ a) own
  | KMail f _ => mail_own f own
  | KRcpt t _ => rcpt_own t own
  | KData | KLmtpData _ => at_most (bs "DATA") own
  | KReset => at_most (bs "RSET") own
  | KNoop => at_most (bs "NOOP") own
  | KQuit => at_most (bs "QUIT") own
  | KAuth s => auth_own s own
  | _ => True
  end.

Definition hello_client (c : client) (k : call) : client :=
  match k with KHello n => set_local c n | _ => c end.

Lemma hello_line_clean c l : clean (c_local c) -> hello_line c l -> clean l.
Proof.
  intros C [->| ->]; apply clean_app; try exact C; try clean_const.
  unfold hello_verb. destruct (c_lmtp c); clean_const.
Qed.

Lemma at_most_clean line own : clean line -> at_most line own -> Forall clean own.
Proof. intros C [->| ->]; [constructor|]. constructor; [exact C|constructor]. Qed.

Lemma own_shape_clean k own :
  cmd_call k -> (forall a, line_arg k = Some a -> clean a) -> own_shape k own -> Forall clean own.
Proof.
  intros Ck Ca. destruct k; cbn [own_shape cmd_call line_arg] in *; try contradiction.
  - intros ->. constructor.
  - apply at_most_clean. apply clean_app; [clean_const|]. apply Ca. reflexivity.
  - intros [->|(ext & ps & -> & P)]; [constructor|]. constructor; [|constructor].
    eapply mail_line_clean; [apply Ca; reflexivity|exact P].
  - intros [->|(ext & ps & -> & P)]; [constructor|]. constructor; [|constructor].
    eapply rcpt_line_clean; [apply Ca; reflexivity|exact P].
  - apply at_most_clean. clean_const.
  - apply at_most_clean. clean_const.
  - apply at_most_clean. clean_const.
  - apply at_most_clean. clean_const.
  - apply at_most_clean. clean_const.
  - intros [->|(rest & -> & F & _)]; [constructor|]. constructor; [apply auth_line_clean; exact Ck|].
    eapply Forall_impl; [|exact F]. apply auth_reply_line_clean.
  - intros ->. constructor.
Qed.

(* C15, first half.  For EVERY client state in which no data writer is open
   and nothing is pending in the write buffer, EVERY method of the list and
   ALL argument values (all octet strings, all option records, every SASL
   script): the octets the call puts on the wire are exactly the lines
   [hl ++ own], one per protocol step, each WITHOUT CR or LF inside:
   [hl] - at most two hello lines (EHLO/LHLO name, HELO name; none for Rcpt,
   Data, LMTPData, which never say hello), [own] - the method's own step(s):
   nothing or exactly its command line carrying the argument verbatim (for
   Auth: the AUTH line, then one base64 line or "*" per further step). *)
Theorem C15_one_line c k :
  quiet c -> clean (c_local c) -> cmd_call k ->
  (forall a, line_arg k = Some a -> clean a) ->
  exists hl own,
    c_out (snd (run_call c k)) = c_out c ++ lines (hl ++ own)
    /\ Forall clean (hl ++ own)
    /\ Forall (hello_line (hello_client c k)) hl /\ (List.length hl <= 2)%nat
    /\ (says_hello k = false -> hl = [])
    /\ own_shape k own.
Proof.
  intros Q CL Ck Ca.
  assert (Fin : forall c' hl own,
    snd (run_call c k) = c' ->
    c_out c' = c_out c ++ lines (hl ++ own) ->
    Forall (hello_line (hello_client c k)) hl -> (List.length hl <= 2)%nat ->
    (says_hello k = false -> hl = []) -> own_shape k own ->
    clean (c_local (hello_client c k)) ->
    exists hl own,
      c_out (snd (run_call c k)) = c_out c ++ lines (hl ++ own)
      /\ Forall clean (hl ++ own)
      /\ Forall (hello_line (hello_client c k)) hl /\ (List.length hl <= 2)%nat
      /\ (says_hello k = false -> hl = [])
      /\ own_shape k own).
  { intros c' hl own <- O F Ln Sh Os Cl. exists hl, own. repeat split; try assumption.
    apply Forall_app. split.
    - eapply Forall_impl; [|exact F]. intros l. apply hello_line_clean. exact Cl.
    - eapply own_shape_clean; eassumption. }
  destruct k; cbn [cmd_call] in Ck; try contradiction.
  - (* Hello *)
    destruct (c_hello_api c name) as [r c'] eqn:E.
    destruct (c_hello_api_ext c name r c' Q (Ca _ eq_refl) E) as (hl & O & _ & _ & _ & F & Ln).
    apply (Fin c' hl []); [cbn [run_call ret]; rewrite E; reflexivity|..]; cbn [hello_client says_hello own_shape]; try assumption; try reflexivity; try discriminate.
    + rewrite app_nil_r. exact O.
    + csimpl. apply Ca. reflexivity.
  - (* Verify *)
    destruct (c_verify c addr) as [r c'] eqn:E.
    destruct (c_verify_ext c addr r c' Q (Ca _ eq_refl) E) as (hl & own & (O & _) & F & Ln & A).
    apply (Fin c' hl own); [cbn [run_call ret]; rewrite E; reflexivity|..]; cbn [hello_client says_hello own_shape]; try assumption; discriminate.
  - (* Mail *)
    destruct (c_mail c from opts) as [r c'] eqn:E.
    destruct (c_mail_ext c from opts r c' Q (Ca _ eq_refl) E) as (hl & own & (O & _) & F & Ln & A).
    apply (Fin c' hl own); [cbn [run_call ret]; rewrite E; reflexivity|..]; cbn [hello_client says_hello own_shape]; try assumption; discriminate.
  - (* Rcpt *)
    destruct (c_rcpt c to opts) as [r c'] eqn:E.
    destruct (c_rcpt_ext c to opts r c' Q (Ca _ eq_refl) E) as [(e & Ep & _ & Hc)|(ps & own & Ep & (O & _) & A)].
    + subst c'. apply (Fin c [] []).
      * cbn [run_call ret]. rewrite E. reflexivity.
      * cbn [app lines flat_map]. rewrite app_nil_r. reflexivity.
      * apply Forall_nil.
      * cbn; lia.
      * reflexivity.
      * left. reflexivity.
      * exact CL.
    + apply (Fin c' [] own); [cbn [run_call ret]; rewrite E; reflexivity|..]; cbn [hello_client says_hello own_shape app]; try assumption;
        try reflexivity; try apply Forall_nil; try (cbn; lia).
      destruct A as [->| ->]; [left; reflexivity|]. right. exists (c_ext c), ps.
      split; [reflexivity|]. eapply rcpt_params_ok; exact Ep.
  - (* Data *)
    destruct (c_data c) as [r c'] eqn:E.
    destruct (c_data_ext c r c' Q E) as (own & O & A & _).
    apply (Fin c' [] own); [cbn [run_call ret]; rewrite E; reflexivity|..]; cbn [hello_client says_hello own_shape app]; try assumption;
      try reflexivity; try apply Forall_nil; try (cbn; lia).
  - (* LMTPData *)
    destruct (c_lmtp_data c cb) as [r c'] eqn:E.
    destruct (c_lmtp_data_ext c cb r c' Q E) as (own & O & A & _).
    apply (Fin c' [] own); [cbn [run_call ret]; rewrite E; reflexivity|..]; cbn [hello_client says_hello own_shape app]; try assumption;
      try reflexivity; try apply Forall_nil; try (cbn; lia).
  - (* Reset *)
    destruct (c_reset c) as [r c'] eqn:E.
    destruct (c_reset_ext c r c' Q E) as (hl & own & (O & _) & F & Ln & A).
    apply (Fin c' hl own); [cbn [run_call ret]; rewrite E; reflexivity|..]; cbn [hello_client says_hello own_shape]; try assumption; discriminate.
  - (* Noop *)
    destruct (c_noop c) as [r c'] eqn:E.
    destruct (c_noop_ext c r c' Q E) as (hl & own & (O & _) & F & Ln & A).
    apply (Fin c' hl own); [cbn [run_call ret]; rewrite E; reflexivity|..]; cbn [hello_client says_hello own_shape]; try assumption; discriminate.
  - (* Quit *)
    destruct (c_quit c) as [r c'] eqn:E.
    destruct (c_quit_ext c r c' Q E) as (hl & own & (O & _) & F & Ln & A).
    apply (Fin c' hl own); [cbn [run_call ret]; rewrite E; reflexivity|..]; cbn [hello_client says_hello own_shape]; try assumption; discriminate.
  - (* Auth *)
    destruct (c_auth c s) as [[r got] c'] eqn:E.
    destruct (c_auth_ext c s r got c' Q E) as (hl & own & (O & _) & F & Ln & A).
    apply (Fin c' hl own); [cbn [run_call ret]; rewrite E; reflexivity|..]; cbn [hello_client says_hello own_shape]; try assumption; discriminate.
  - (* Extension *)
    destruct (c_extension c name) as [x c'] eqn:E.
    destruct (c_extension_ext c name x c' Q E) as (hl & (O & _) & F & Ln).
    apply (Fin c' hl []); [cbn [run_call ret]; rewrite E; reflexivity|..]; cbn [hello_client says_hello own_shape]; try assumption; try reflexivity; try discriminate.
    rewrite app_nil_r. exact O.
Qed.

(* an argument that cannot be sent on one line: a local error, the state
   (in particular the output) untouched *)
Theorem C15_invalid_argument c k a :
  line_arg k = Some a -> ~ clean a ->
  run_call c k = (mkR (RLocal err_line) None [], c).
Proof.
  intros La Nc.
  assert (V : valid_line a = false).
  { destruct (valid_line a) eqn:E; [|reflexivity]. exfalso. apply Nc. apply valid_line_clean. exact E. }
  destruct k; cbn [line_arg] in La; try discriminate; injection La as ->; cbn [run_call ret].
  - unfold c_hello_api. rewrite V. reflexivity.
  - unfold c_verify. rewrite V. reflexivity.
  - unfold c_mail. rewrite V. reflexivity.
  - unfold c_rcpt. rewrite V. reflexivity.
Qed.

(* ---- C15, second half: only negotiated parameters ---- *)

(* the keyword of one EHLO reply line: up to the first SP *)
Definition ext_key (line : bytes) : bytes :=
  match cut_byte " " line with Some (k, _) => k | None => line end.

(* the lines of an EHLO reply text that announce extensions: all but the first *)
Definition ext_lines (msg : bytes) : list bytes := tl (split_byte LF msg).

Lemma ext_get_fold k l : forall m,
  (exists v, ext_get k (fold_left ext_line l m) = Some v)
  <-> (In k (map ext_key l) \/ exists v, ext_get k m = Some v).
Proof.
  induction l as [|x l IH]; intros m; cbn [fold_left map In].
  - split; [intros H; right; exact H|intros [[]|H]; exact H].
  - rewrite IH. unfold ext_line, ext_key.
    destruct (cut_byte " " x) as [[kx vx]|]; cbn [ext_get];
      (destruct (bytes_eqb k kx) eqn:E || destruct (bytes_eqb k x) eqn:E).
    + apply bytes_eqb_eq in E. subst kx. split; [intros _; left; left; reflexivity|intros _; right; eauto].
    + assert (kx <> k) by (intros ->; rewrite bytes_eqb_refl in E; discriminate). tauto.
    + apply bytes_eqb_eq in E. subst x. split; [intros _; left; left; reflexivity|intros _; right; eauto].
    + assert (x <> k) by (intros ->; rewrite bytes_eqb_refl in E; discriminate). tauto.
Qed.

(* an extension key is "in ext" iff it is the keyword of one of the
   extension lines of the EHLO reply the map was parsed from *)
Lemma has_ext_parse_ext msg k :
  has_ext (Some (parse_ext msg)) k = true <-> In k (map ext_key (ext_lines msg)).
Proof.
  unfold has_ext, parse_ext, ext_lines.
  destruct (split_byte LF msg) as [|l0 [|l1 r]]; cbn [tl map In ext_get]; try (split; [discriminate|tauto]).
  pose proof (ext_get_fold k (l1 :: r) []) as H. cbn [ext_get] in H.
  destruct (ext_get k (fold_left ext_line (l1 :: r) [])) as [v|].
  - split; [intros _|reflexivity]. destruct H as [H _]. destruct (H (ex_intro _ v eq_refl)) as [I|[v' X]]; [exact I|discriminate].
  - split; [discriminate|]. intros I. destruct H as [_ H]. destruct (H (or_introl I)) as [v X]. discriminate.
Qed.

(* ehlo(): on success ext is the parse of THIS reply *)
Lemma c_ehlo_parsed c c' :
  c_ehlo c = (RNil, c') ->
  exists c1 code msg rest,
    printf_line c (hello_verb c ++ c_local c) = (true, c1)
    /\ client_read_response 250 (c_in c1) = ((code, msg, CNil), rest)
    /\ c_ext c' = Some (parse_ext msg) /\ c_in c' = rest.
Proof.
  unfold c_ehlo, hello_verb, c_cmd. cbv zeta.
  destruct (printf_line c _) as [ok c1] eqn:Ep. destruct ok.
  - unfold c_read. destruct (client_read_response 250 (c_in c1)) as [[[code msg] e] rest] eqn:Er.
    destruct e; cbn [res_of_cerr]; intros E; try discriminate. injection E as <-.
    exists c1, code, msg, rest. csimpl. repeat split. exact Er.
  - intros E. discriminate.
Qed.

(* C15, second half.  Mail (after the lazy hello) and Rcpt, for ALL option
   records and ALL states: either a local error - and then not one octet is
   written - or at most the one command line, in which every parameter is a
   clean token "KEYWORD[=value]" whose extension key is in [c_ext], the map
   parsed from the most recent EHLO reply (c_ehlo_parsed, has_ext_parse_ext).
   A requested RequireTLS / UTF8 that was not offered is such a local error. *)
Theorem C15_only_negotiated_mail from opts c r c' :
  quiet c -> c_mail_step from opts c = (r, c') ->
  (exists e, mail_params (c_ext c) opts = inr e /\ r = RLocal e /\ c_out c' = c_out c)
  \/ (exists ps own, c_out c' = c_out c ++ lines own /\ at_most (mail_line from ps) own
                     /\ Forall (param_ok (c_ext c)) ps).
Proof.
  intros Q E. destruct (c_mail_step_ext _ _ _ _ _ Q E) as [(e & Ep & -> & (O & _))|(ps & own & Ep & (O & _) & A)].
  - left. exists e. cbn [lines flat_map] in O. rewrite app_nil_r in O. tauto.
  - right. exists ps, own. repeat split; try assumption. eapply mail_params_ok; exact Ep.
Qed.

Theorem C15_only_negotiated_rcpt c to opts r c' :
  quiet c -> clean to -> c_rcpt c to opts = (r, c') ->
  (exists e, rcpt_params (c_ext c) opts = inr e /\ r = RLocal e /\ c' = c)
  \/ (exists ps own, c_out c' = c_out c ++ lines own /\ at_most (rcpt_line to ps) own
                     /\ Forall (param_ok (c_ext c)) ps).
Proof.
  intros Q C E. destruct (c_rcpt_ext _ _ _ _ _ Q C E) as [H|(ps & own & Ep & (O & _) & A)]; [left; exact H|].
  right. exists ps, own. repeat split; try assumption. eapply rcpt_params_ok; exact Ep.
Qed.

Theorem C15_requested_not_offered from o c :
  body_refused (c_ext c) o
  \/ (mo_requiretls o = true /\ has_ext (c_ext c) (key "REQUIRETLS") = false)
  \/ (mo_utf8 o = true /\ has_ext (c_ext c) (key "SMTPUTF8") = false) ->
  exists e, c_mail_step from (Some o) c = (RLocal e, set_rcpts c [])
            /\ (body_err e \/ e = err_requiretls \/ e = err_smtputf8).
Proof.
  intros H. unfold c_mail_step. change (c_ext (set_rcpts c [])) with (c_ext c).
  destruct H as [Hb|[[A B]|[A B]]].
  - destruct (mail_params_body _ _ Hb) as (e & -> & H1 & H2 & H3). exists e. split; [reflexivity|]. left.
    unfold body_err.
    destruct Hb as [[E _]|[[E _]|(_ & N1 & N2 & N3)]];
      [left; exact (H1 E)|right; left; exact (H2 E)|right; right; exact (H3 N1 N2 N3)].
  - destruct (mail_params_requiretls _ _ A B) as (e & -> & He). exists e. tauto.
  - destruct (mail_params_smtputf8 _ _ A B) as (e & -> & He). exists e. tauto.
Qed.

(* the BODY refusals one by one: which error each gives *)
Theorem C15_body_not_offered from o c :
  body_refused (c_ext c) o ->
  exists e, c_mail_step from (Some o) c = (RLocal e, set_rcpts c [])
            /\ ((mo_body o = bs "7BIT" \/ mo_body o = bs "8BITMIME") -> e = err_8bitmime)
            /\ (mo_body o = bs "BINARYMIME" -> e = err_binarymime)
            /\ (mo_body o <> bs "7BIT" -> mo_body o <> bs "8BITMIME" -> mo_body o <> bs "BINARYMIME"
                -> e = err_body).
Proof.
  intros Hb. unfold c_mail_step. change (c_ext (set_rcpts c [])) with (c_ext c).
  destruct (mail_params_body _ _ Hb) as (e & -> & He). exists e. split; [reflexivity|exact He].
Qed.

(* what param_ok says about BODY: BODY=BINARYMIME only with BINARYMIME offered,
   every other BODY value only with 8BITMIME offered *)
Lemma kw_key_in kw t k : kw_key kw t = Some k -> In (kw, k) t.
Proof.
  induction t as [|[a e] t IH]; cbn [kw_key]; [discriminate|].
  destruct (bytes_eqb a kw) eqn:E.
  - intros H. injection H as <-. apply bytes_eqb_eq in E. subst a. now left.
  - intros H. right. exact (IH H).
Qed.

Theorem C15_body_param_licensed ext v :
  param_ok ext (bs "BODY" ++ "=" :: v) ->
  if bytes_eqb v (bs "BINARYMIME") then has_ext ext (bs "BINARYMIME") = true
  else has_ext ext (bs "8BITMIME") = true.
Proof.
  intros (_ & kw & k & v' & He & Hx & Hp).
  assert (Hkw : kw = bs "BODY" /\ v' = v).
  { unfold ext_for in He. destruct (bytes_eqb kw (bs "BODY")) eqn:Eb.
    - apply bytes_eqb_eq in Eb. subst kw. split; [reflexivity|].
      destruct Hp as [[Hp _]|Hp]; cbv in Hp; [discriminate Hp|]. now injection Hp as <-.
    - exfalso. cbn [andb] in He. apply kw_key_in in He. cbn [kw_table In] in He.
      decompose [or] He; try contradiction;
        match goal with X : (_, _) = (kw, k) |- _ => injection X as <- <- end;
        try (cbv in Eb; discriminate Eb);
        (destruct Hp as [[Hp _]|Hp]; cbv in Hp; discriminate Hp). }
  destruct Hkw as [-> ->]. unfold ext_for in He.
  change (bytes_eqb (bs "BODY") (bs "BODY")) with true in He. cbn [andb] in He.
  destruct (bytes_eqb v (bs "BINARYMIME")); injection He as <-; exact Hx.
Qed.

(* Mail = validateLine, hello(), then the step above on the state hello left *)
Lemma c_mail_unfold c from opts :
  clean from -> c_mail c from opts = with_hello c (c_mail_step from opts).
Proof. intros C. unfold c_mail. apply valid_line_clean in C. rewrite C. reflexivity. Qed.

(* ---- the invariant is kept ---- *)

Lemma bw_flush_quiet c ok c' :
  bw_flush c = (ok, c') -> c_werr c' = true \/ c_wbuf c' = [].
Proof.
  unfold bw_flush. destruct (c_werr c) eqn:We.
  - intros E. injection E as _ <-. left. exact We.
  - destruct (c_wbuf c) eqn:Wb.
    + intros E. injection E as _ <-. right. exact Wb.
    + destruct (c_closed c); intros E; injection E as _ <-; csimpl; [left|right]; reflexivity.
Qed.

Lemma lmtp_replies_inert rcpts cb : forall c first r c',
  lmtp_replies rcpts cb c first = (r, c') ->
  c_out c' = c_out c /\ c_wbuf c' = c_wbuf c /\ c_werr c' = c_werr c /\ c_dw c' = c_dw c
  /\ c_local c' = c_local c /\ c_lmtp c' = c_lmtp c /\ c_rcpts c' = c_rcpts c.
Proof.
  induction rcpts as [|x rs IH]; intros c first r c' E; cbn [lmtp_replies] in E.
  - injection E as _ <-. repeat split.
  - unfold c_read in E. destruct (client_read_response 250 (c_in c)) as [[[code msg] e] rest].
    destruct e; try (injection E as _ <-; csimpl; repeat split).
    + destruct cb; apply IH in E; csimpl; exact E.
    + destruct cb; apply IH in E; csimpl; exact E.
Qed.

Lemma bw_write_frame c o :
  c_dw (bw_write c o) = c_dw c /\ ctl (bw_write c o) = ctl c /\ c_in (bw_write c o) = c_in c.
Proof.
  unfold bw_write, ctl. destruct (c_werr c); [repeat split|].
  destruct (bufio_push (c_wbuf c) o) as [fl pend]. destruct fl; [csimpl; repeat split|].
  destruct (c_closed c) eqn:Cl; csimpl; rewrite ?Cl; repeat split.
Qed.

Lemma bw_flush_frame c ok c' :
  bw_flush c = (ok, c') -> c_dw c' = c_dw c /\ ctl c' = ctl c /\ c_in c' = c_in c.
Proof.
  unfold bw_flush, ctl. destruct (c_werr c); [intros E; injection E as _ <-; repeat split|].
  destruct (c_wbuf c); [intros E; injection E as _ <-; repeat split|].
  destruct (c_closed c) eqn:Cl; intros E; injection E as _ <-; csimpl; rewrite ?Cl; repeat split.
Qed.

(* Close of an unclosed data writer makes the state quiet again *)
Lemma dw_close_quiet c d r c' :
  c_dw c = Some d -> d_closed d = false -> dw_close c = (r, c') ->
  quiet c' /\ c_local c' = c_local c.
Proof.
  intros Hd Hc. unfold dw_close. rewrite Hd, Hc.
  destruct (bw_flush _) as [ok c2] eqn:Ef.
  pose proof (bw_flush_quiet _ _ _ Ef) as Qf.
  assert (Fr : c_dw c2 = Some (mkDW (d_st d) true (d_cb d) false) /\ c_local c2 = c_local c).
  { destruct (bw_flush_frame _ _ _ Ef) as (D1 & C1 & _).
    match type of Ef with bw_flush (bw_write ?x ?o) = _ =>
      destruct (bw_write_frame x o) as (D2 & C2 & _) end.
    rewrite D1, D2. destruct (ctl_local _ _ C1) as [L1 _]. destruct (ctl_local _ _ C2) as [L2 _].
    rewrite L1, L2. csimpl. split; reflexivity. }
  destruct Fr as [Fd Fl].
  assert (Q2 : quiet c2).
  { destruct Qf as [W|W]; [left; exact W|right]. split; [exact W|]. unfold dot_shut. rewrite Fd. reflexivity. }
  destruct ok; cbn [negb].
  - destruct (c_lmtp c2).
    + intros E. pose proof (lmtp_replies_inert _ _ _ _ _ _ E) as (O & Wb & We & Dw & L & M & _).
      split; [|congruence]. eapply inert_quiet; [|exact Q2]. unfold inert. repeat split; assumption.
    + unfold c_read. destruct (client_read_response 250 (c_in c2)) as [[[code msg] e] rest].
      intros E. injection E as _ <-. csimpl. split; [|exact Fl].
      eapply inert_quiet; [|exact Q2]. inert_tac.
  - intros E. injection E as _ <-. split; assumption.
Qed.

(* ================================================================== *)
(* 5. C16: Close twice, Close verdict                                   *)
(* ================================================================== *)

Lemma dw_close_marks c d r c' :
  c_dw c = Some d -> d_closed d = false -> dw_close c = (r, c') ->
  c_dw c' = Some (mkDW (d_st d) true (d_cb d) false).
Proof.
  intros Hd Hc. unfold dw_close. rewrite Hd, Hc.
  destruct (bw_flush _) as [ok c2] eqn:Ef.
  assert (Fd : c_dw c2 = Some (mkDW (d_st d) true (d_cb d) false)).
  { destruct (bw_flush_frame _ _ _ Ef) as (D1 & _).
    match type of Ef with bw_flush (bw_write ?x ?o) = _ =>
      destruct (bw_write_frame x o) as (D2 & _) end.
    rewrite D1, D2. reflexivity. }
  destruct ok; cbn [negb].
  - destruct (c_lmtp c2).
    + intros E. apply lmtp_replies_inert in E as (_ & _ & _ & Dw & _). congruence.
    + unfold c_read. destruct (client_read_response 250 (c_in c2)) as [[[code msg] e] rest].
      intros E. injection E as _ <-. exact Fd.
  - intros E. injection E as _ <-. exact Fd.
Qed.

(* C16: after ANY Close (whatever it returned: nil, the server's refusal, an
   I/O error, "closed twice") a further Close returns the local error
   "smtp: data writer closed twice" and leaves the whole state - in
   particular the octets written - untouched: no second exchange. *)
Theorem C16_close_twice c r c1 :
  (exists d, c_dw c = Some d) -> dw_close c = (r, c1) ->
  dw_close c1 = (RLocal err_closed_twice, c1) /\ c_out (snd (dw_close c1)) = c_out c1.
Proof.
  intros [d Hd] E.
  assert (H : dw_close c1 = (RLocal err_closed_twice, c1)).
  { destruct (d_closed d) eqn:Hc.
    - unfold dw_close in E. rewrite Hd, Hc in E. injection E as _ <-.
      unfold dw_close. rewrite Hd, Hc. reflexivity.
    - pose proof (dw_close_marks _ _ _ _ Hd Hc E) as M.
      unfold dw_close. rewrite M. reflexivity. }
  rewrite H. split; reflexivity.
Qed.

(* the stream [s] begins with replies that readResponse(250) returns as the
   verdicts [vs] (nil for a 250, the SMTPError otherwise), followed by [rest] *)
Inductive serves250 : bytes -> list result -> bytes -> Prop :=
| S250_nil s : serves250 s [] s
| S250_ok s code msg s1 vs rest :
    client_read_response 250 s = ((code, msg, CNil), s1) ->
    serves250 s1 vs rest -> serves250 s (RNil :: vs) rest
| S250_err s code msg c ec m s1 vs rest :
    client_read_response 250 s = ((code, msg, CSmtp c ec m), s1) ->
    serves250 s1 vs rest -> serves250 s (RSmtp c ec m :: vs) rest.

(* the first negative verdict, nil if there is none *)
Fixpoint first_neg (first : result) (vs : list result) : result :=
  match vs with
  | [] => first
  | v :: r => first_neg (if is_nil first then v else first) r
  end.

(* everything but the unread input and the callback log is unchanged *)
Definition keeps (c c' : client) : Prop :=
  c_lmtp c' = c_lmtp c /\ c_local c' = c_local c /\ c_did_greet c' = c_did_greet c
  /\ c_greet_err c' = c_greet_err c /\ c_did_hello c' = c_did_hello c
  /\ c_hello_err c' = c_hello_err c /\ c_ext c' = c_ext c /\ c_rcpts c' = c_rcpts c
  /\ c_tls c' = c_tls c /\ c_closed c' = c_closed c /\ c_werr c' = c_werr c
  /\ c_tls_in c' = c_tls_in c /\ c_out c' = c_out c /\ c_wbuf c' = c_wbuf c /\ c_dw c' = c_dw c.

Lemma keeps_refl c : keeps c c.
Proof. unfold keeps. repeat split. Qed.

(* the LMTP reply loop: exactly one reply per entry of [rcpts] is consumed;
   with a callback each is reported with its recipient, in order; without,
   the first negative one becomes Close's error *)
Lemma lmtp_replies_spec rcpts cb : forall vs c first rest,
  serves250 (c_in c) vs rest -> List.length vs = List.length rcpts ->
  exists c', lmtp_replies rcpts cb c first = ((if cb then first else first_neg first vs), c')
    /\ c_in c' = rest
    /\ c_cbs c' = c_cbs c ++ (if cb then combine rcpts vs else [])
    /\ keeps c c'.
Proof.
  induction rcpts as [|a rs IH]; intros vs c first rest S L.
  - destruct vs; [|discriminate]. inversion S; subst. exists c. cbn [lmtp_replies first_neg combine].
    destruct cb; rewrite app_nil_r; repeat split.
  - destruct vs as [|v vs]; [discriminate|]. cbn [List.length] in L. injection L as L.
    cbn [lmtp_replies]. unfold c_read.
    inversion S as [|s code msg s1 vs' rest' Hr S'|s code msg c0 ec m s1 vs' rest' Hr S']; subst;
      rewrite Hr.
    + destruct cb.
      * destruct (IH vs (add_cb (set_in c s1) a RNil) first rest) as (c' & E & I & Cb & K);
          [exact S'|exact L|].
        exists c'. rewrite E. csimpl. rewrite Cb. cbn [combine]. rewrite <- app_assoc. cbn [app].
        repeat split; try assumption; apply K.
      * destruct (IH vs (set_in c s1) first rest) as (c' & E & I & Cb & K);
          [exact S'|exact L|].
        exists c'. rewrite E. csimpl. cbn [first_neg].
        replace (if is_nil first then RNil else first) with first by (destruct first; reflexivity).
        repeat split; try assumption; apply K.
    + destruct cb.
      * destruct (IH vs (add_cb (set_in c s1) a (RSmtp c0 ec m)) first rest)
          as (c' & E & I & Cb & K); [exact S'|exact L|].
        exists c'. rewrite E. csimpl. rewrite Cb. cbn [combine]. rewrite <- app_assoc. cbn [app].
        repeat split; try assumption; apply K.
      * destruct (IH vs (set_in c s1) (if is_nil first then RSmtp c0 ec m else first) rest)
          as (c' & E & I & Cb & K); [exact S'|exact L|].
        exists c'. rewrite E. csimpl. cbn [first_neg]. repeat split; try assumption; apply K.
Qed.

(* ================================================================== *)
(* 6. C18 / C16: transactions on a working connection                   *)
(* ================================================================== *)

(* the connection works, nothing is pending, no data writer is open *)
Definition io_ready (c : client) : Prop := alive c /\ c_wbuf c = [] /\ dot_shut c.
(* hello() has succeeded *)
Definition hello_done (c : client) : Prop := c_did_hello c = true /\ c_hello_err c = RNil.

(* readResponse(expect) on [s] yields the error value [e], leaving [s'] *)
Definition reads (s : bytes) (expect : Z) (e : cerr) (s' : bytes) : Prop :=
  exists code msg, client_read_response expect s = ((code, msg, e), s').

Lemma printf_line_ready c line :
  io_ready c -> printf_line c line = (true, wrote c (line ++ crlf)).
Proof.
  intros (A & Wb & Sh). unfold printf_line. rewrite close_dot_shut by exact Sh.
  apply write_flush_alive; assumption.
Qed.

Lemma cmd_err_ready c expect line e rest :
  io_ready c -> reads (c_in c) expect e rest ->
  cmd_err c expect line = (res_of_cerr e, set_in (wrote c (line ++ crlf)) rest).
Proof.
  intros R (code & msg & Hr). unfold cmd_err, c_cmd. rewrite printf_line_ready by exact R.
  unfold c_read. change (c_in (wrote c (line ++ crlf))) with (c_in c). rewrite Hr. reflexivity.
Qed.

Lemma io_ready_step c o rest : io_ready c -> io_ready (set_in (wrote c o) rest).
Proof. intros (A & Wb & Sh). unfold io_ready, alive, dot_shut, wrote in *. csimpl. tauto. Qed.

Lemma c_hello_done c : hello_done c -> c_hello c = (RNil, c).
Proof. intros [A B]. unfold c_hello. rewrite A, B. reflexivity. Qed.

(* Mail(from, nil) *)
Lemma c_mail_ready c from e rest :
  io_ready c -> hello_done c -> clean from -> reads (c_in c) 250 e rest ->
  exists c', c_mail c from None = (res_of_cerr e, c')
    /\ io_ready c' /\ hello_done c' /\ c_in c' = rest /\ c_rcpts c' = []
    /\ c_cbs c' = c_cbs c /\ c_lmtp c' = c_lmtp c.
Proof.
  intros R H C Hr. rewrite c_mail_unfold by exact C. unfold with_hello.
  rewrite c_hello_done by exact H. unfold c_mail_step.
  change (c_ext (set_rcpts c [])) with (c_ext c). cbn [mail_params mail_body_param].
  assert (R' : io_ready (set_rcpts c [])) by exact R.
  rewrite (cmd_err_ready _ _ _ e rest R') by exact Hr.
  eexists. split; [reflexivity|]. split; [apply io_ready_step; exact R'|].
  unfold hello_done in *. csimpl. repeat split; tauto.
Qed.

(* Rcpt(to, nil): the recipient is recorded iff the reply is positive *)
Lemma c_rcpt_ready c to e rest :
  io_ready c -> clean to -> reads (c_in c) 25 e rest ->
  exists c', c_rcpt c to None = (res_of_cerr e, c')
    /\ io_ready c' /\ (hello_done c -> hello_done c') /\ c_in c' = rest
    /\ c_rcpts c' = (match e with CNil => c_rcpts c ++ [to] | _ => c_rcpts c end)
    /\ c_cbs c' = c_cbs c /\ c_lmtp c' = c_lmtp c.
Proof.
  intros R C Hr. unfold c_rcpt. apply valid_line_clean in C. rewrite C. cbn [negb rcpt_params].
  rewrite (cmd_err_ready _ _ _ e rest R) by exact Hr.
  destruct R as ((We & Cl) & Wb & Sh).
  destruct e; cbn [res_of_cerr]; eexists; (split; [reflexivity|]);
    unfold io_ready, alive, dot_shut, hello_done, wrote in *; csimpl; repeat split; tauto.
Qed.

(* Data / LMTPData answered 354: a fresh data writer *)
Lemma c_lmtp_data_ready c cb rest :
  io_ready c -> c_lmtp c = true -> reads (c_in c) 354 CNil rest ->
  exists c', c_lmtp_data c cb = (RNil, c')
    /\ alive c' /\ c_wbuf c' = [] /\ c_dw c' = Some (mkDW WBegin false cb true)
    /\ (hello_done c -> hello_done c') /\ c_in c' = rest /\ c_rcpts c' = c_rcpts c
    /\ c_cbs c' = c_cbs c /\ c_lmtp c' = true.
Proof.
  intros R L Hr. unfold c_lmtp_data. rewrite L. cbn [negb].
  rewrite (cmd_err_ready _ _ _ CNil rest R) by exact Hr. cbn [res_of_cerr].
  pose proof (io_ready_step c (bs "DATA" ++ crlf) rest R) as (A2 & W2 & S2).
  eexists. split; [reflexivity|]. unfold open_writer. rewrite close_dot_shut by exact S2.
  unfold hello_done, alive in *. csimpl. repeat split; tauto.
Qed.

Lemma c_data_ready c rest :
  io_ready c -> reads (c_in c) 354 CNil rest ->
  exists c', c_data c = (RNil, c')
    /\ alive c' /\ c_wbuf c' = [] /\ c_dw c' = Some (mkDW WBegin false false true)
    /\ (hello_done c -> hello_done c') /\ c_in c' = rest /\ c_rcpts c' = c_rcpts c
    /\ c_cbs c' = c_cbs c /\ c_lmtp c' = c_lmtp c.
Proof.
  intros R Hr. unfold c_data.
  rewrite (cmd_err_ready _ _ _ CNil rest R) by exact Hr. cbn [res_of_cerr].
  pose proof (io_ready_step c (bs "DATA" ++ crlf) rest R) as (A2 & W2 & S2).
  eexists. split; [reflexivity|]. unfold open_writer. rewrite close_dot_shut by exact S2.
  unfold hello_done, alive in *. csimpl. repeat split; tauto.
Qed.

(* the state while a data writer is open on a working connection *)
Definition writing (c : client) (cb : bool) : Prop :=
  alive c /\ exists st, c_dw c = Some (mkDW st false cb true).

Lemma bw_write_alive c o : alive c -> alive (bw_write c o).
Proof.
  intros [We Cl]. unfold bw_write, alive. rewrite We.
  destruct (bufio_push (c_wbuf c) o) as [fl pend]. destruct fl; [csimpl; tauto|].
  rewrite Cl. csimpl. tauto.
Qed.

Lemma ctl_fields c c' :
  ctl c' = ctl c ->
  c_lmtp c' = c_lmtp c /\ c_did_hello c' = c_did_hello c /\ c_hello_err c' = c_hello_err c
  /\ c_rcpts c' = c_rcpts c /\ c_cbs c' = c_cbs c /\ c_closed c' = c_closed c.
Proof. unfold ctl. intros H. inversion H. repeat split; reflexivity. Qed.

(* Write(part) on an open writer *)
Lemma dw_write_writing c cb part :
  writing c cb ->
  writing (snd (dw_write c part)) cb
  /\ c_in (snd (dw_write c part)) = c_in c /\ c_rcpts (snd (dw_write c part)) = c_rcpts c
  /\ c_cbs (snd (dw_write c part)) = c_cbs c /\ c_lmtp (snd (dw_write c part)) = c_lmtp c
  /\ (hello_done c -> hello_done (snd (dw_write c part))).
Proof.
  intros (A & st & Hd). unfold dw_write. rewrite Hd. cbn [d_st d_closed d_cb d_open].
  destruct (DotWriter.dw_write st part) as [st' o].
  set (c0 := set_dw c (Some (mkDW st' false cb true))).
  assert (A0 : alive c0) by exact A.
  pose proof (bw_write_alive c0 o A0) as A1.
  destruct (bw_write_frame c0 o) as (D & Ct & I).
  destruct (ctl_fields _ _ Ct) as (L & Dh & He & Rc & Cb & _).
  assert (X : forall r : result, writing (snd (r, bw_write c0 o)) cb
    /\ c_in (snd (r, bw_write c0 o)) = c_in c /\ c_rcpts (snd (r, bw_write c0 o)) = c_rcpts c
    /\ c_cbs (snd (r, bw_write c0 o)) = c_cbs c /\ c_lmtp (snd (r, bw_write c0 o)) = c_lmtp c
    /\ (hello_done c -> hello_done (snd (r, bw_write c0 o)))).
  { intros r. cbn [snd]. split; [split; [exact A1|exists st'; rewrite D; reflexivity]|].
    unfold hello_done. rewrite I, Rc, Cb, L, Dh, He. repeat split; tauto. }
  destruct part; apply X.
Qed.

Fixpoint writes (c : client) (parts : list bytes) : client :=
  match parts with
  | [] => c
  | p :: r => writes (snd (dw_write c p)) r
  end.

Lemma writes_writing parts : forall c cb,
  writing c cb ->
  writing (writes c parts) cb
  /\ c_in (writes c parts) = c_in c /\ c_rcpts (writes c parts) = c_rcpts c
  /\ c_cbs (writes c parts) = c_cbs c /\ c_lmtp (writes c parts) = c_lmtp c
  /\ (hello_done c -> hello_done (writes c parts)).
Proof.
  induction parts as [|p r IH]; intros c cb W; cbn [writes]; [split; [exact W|]; split; [reflexivity|]; split; [reflexivity|]; split; [reflexivity|]; split; [reflexivity|]; intros X; exact X|].
  destruct (dw_write_writing c cb p W) as (W1 & I1 & R1 & C1 & L1 & H1).
  destruct (IH _ _ W1) as (W2 & I2 & R2 & C2 & L2 & H2).
  split; [exact W2|]. split; [congruence|]. split; [congruence|]. split; [congruence|].
  split; [congruence|]. intros X. apply H2, H1, X.
Qed.

Lemma bw_flush_alive c :
  alive c -> exists c', bw_flush c = (true, c') /\ alive c' /\ c_wbuf c' = [].
Proof.
  intros [We Cl]. unfold bw_flush. rewrite We. destruct (c_wbuf c) eqn:Wb.
  - exists c. repeat split; assumption.
  - rewrite Cl. eexists. split; [reflexivity|]. unfold alive. csimpl. tauto.
Qed.

(* Close on a working connection: LMTP *)
Lemma dw_close_lmtp c cb vs rest :
  writing c cb -> c_lmtp c = true ->
  serves250 (c_in c) vs rest -> List.length vs = List.length (c_rcpts c) ->
  exists c', dw_close c = ((if cb then RNil else first_neg RNil vs), c')
    /\ io_ready c' /\ c_in c' = rest
    /\ c_cbs c' = c_cbs c ++ (if cb then combine (c_rcpts c) vs else [])
    /\ c_rcpts c' = c_rcpts c /\ c_lmtp c' = true /\ (hello_done c -> hello_done c').
Proof.
  intros (A & st & Hd) L S Ln. unfold dw_close. rewrite Hd. cbn [d_closed d_st d_cb].
  set (c1 := set_dw c (Some (mkDW st true cb false))).
  assert (A1 : alive (bw_write c1 (DotWriter.dw_close st))) by (apply bw_write_alive; exact A).
  destruct (bw_flush_alive _ A1) as (c2 & Ef & A2 & W2). rewrite Ef. cbn [negb].
  destruct (bw_flush_frame _ _ _ Ef) as (D2 & Ct2 & I2).
  destruct (bw_write_frame c1 (DotWriter.dw_close st)) as (D1 & Ct1 & I1).
  destruct (ctl_fields _ _ Ct2) as (L2 & Dh2 & He2 & Rc2 & Cb2 & _).
  destruct (ctl_fields _ _ Ct1) as (L1 & Dh1 & He1 & Rc1 & Cb1 & _).
  assert (Lc2 : c_lmtp c2 = true) by (rewrite L2, L1; exact L). rewrite Lc2.
  assert (Rc : c_rcpts c2 = c_rcpts c) by (rewrite Rc2, Rc1; reflexivity). rewrite Rc.
  assert (Ic : c_in c2 = c_in c) by (rewrite I2, I1; reflexivity).
  rewrite <- Ic in S.
  destruct (lmtp_replies_spec (c_rcpts c) cb vs c2 RNil rest S Ln) as (c' & E & I & Cb & K).
  exists c'. rewrite E. split; [reflexivity|].
  destruct K as (K1 & K2 & K3 & K4 & K5 & K6 & K7 & K8 & K9 & K10 & K11 & K12 & K13 & K14 & K15).
  split.
  { unfold io_ready, alive, dot_shut. rewrite K11, K10, K14, K15, D2, D1. destruct A2. unfold c1. csimpl. tauto. }
  split; [exact I|]. split; [rewrite Cb, Cb2, Cb1; reflexivity|].
  split; [congruence|]. split; [congruence|].
  unfold hello_done. rewrite K5, K6, Dh2, He2, Dh1, He1. tauto.
Qed.

(* Close on a working connection: SMTP (one final reply) *)
Lemma dw_close_smtp c cb e rest :
  writing c cb -> c_lmtp c = false -> reads (c_in c) 250 e rest ->
  exists c', dw_close c = (res_of_cerr e, c')
    /\ io_ready c' /\ c_in c' = rest /\ c_cbs c' = c_cbs c /\ c_rcpts c' = c_rcpts c
    /\ c_lmtp c' = false /\ (hello_done c -> hello_done c').
Proof.
  intros (A & st & Hd) L (code & msg & Hr). unfold dw_close. rewrite Hd. cbn [d_closed d_st d_cb].
  set (c1 := set_dw c (Some (mkDW st true cb false))).
  assert (A1 : alive (bw_write c1 (DotWriter.dw_close st))) by (apply bw_write_alive; exact A).
  destruct (bw_flush_alive _ A1) as (c2 & Ef & A2 & W2). rewrite Ef. cbn [negb].
  destruct (bw_flush_frame _ _ _ Ef) as (D2 & Ct2 & I2).
  destruct (bw_write_frame c1 (DotWriter.dw_close st)) as (D1 & Ct1 & I1).
  destruct (ctl_fields _ _ Ct2) as (L2 & Dh2 & He2 & Rc2 & Cb2 & _).
  destruct (ctl_fields _ _ Ct1) as (L1 & Dh1 & He1 & Rc1 & Cb1 & _).
  assert (Lc2 : c_lmtp c2 = false) by (rewrite L2, L1; exact L). rewrite Lc2.
  unfold c_read. rewrite I2, I1. change (c_in c1) with (c_in c). rewrite Hr.
  eexists. split; [reflexivity|]. unfold io_ready, alive, dot_shut, hello_done in *. csimpl.
  rewrite D2, D1, Lc2, Cb2, Cb1, Rc2, Rc1, Dh2, Dh1, He2, He1. csimpl. repeat split; tauto.
Qed.

(* ---- transactions ---- *)

(* one transaction as the server sees it: sender, recipients each with the
   outcome of its RCPT as the client will read it (CNil: accepted), the body
   in Write-call portions, and the per-recipient verdicts after the final dot *)
Record txn := mkT {
  t_from : bytes;
  t_rcpts : list (bytes * cerr);
  t_parts : list bytes;
  t_verdicts : list result
}.

Definition rcpt_accepted (p : bytes * cerr) : bool :=
  match snd p with CNil => true | _ => false end.
Definition accepted_of (rs : list (bytes * cerr)) : list bytes := map fst (filter rcpt_accepted rs).
Definition accepted (t : txn) : list bytes := accepted_of (t_rcpts t).

(* the server's part of the stream: one reply per RCPT ... *)
Fixpoint rcpts_stream (rs : list (bytes * cerr)) (s s' : bytes) : Prop :=
  match rs with
  | [] => s = s'
  | (_, e) :: r => exists s1, reads s 25 e s1 /\ rcpts_stream r s1 s'
  end.

(* ... inside: 250 for MAIL, the RCPT replies, 354 for DATA, then exactly one
   well-formed reply per ACCEPTED recipient *)
Definition txn_stream (t : txn) (s s' : bytes) : Prop :=
  exists s1 s2 s3,
    reads s 250 CNil s1 /\ rcpts_stream (t_rcpts t) s1 s2 /\ reads s2 354 CNil s3
    /\ serves250 s3 (t_verdicts t) s'.

Definition txn_ok (t : txn) : Prop :=
  clean (t_from t) /\ Forall (fun p => clean (fst p)) (t_rcpts t)
  /\ List.length (t_verdicts t) = List.length (accepted t).

Definition rcpt_each (c : client) (addrs : list bytes) : client :=
  fold_left (fun c a => snd (c_rcpt c a None)) addrs c.

(* Mail; Rcpt for every recipient (refused ones included); LMTPData(cb);
   Write per portion; Close *)
Definition run_txn (cb : bool) (c : client) (t : txn) : result * client :=
  let c1 := snd (c_mail c (t_from t) None) in
  let c2 := rcpt_each c1 (map fst (t_rcpts t)) in
  let c3 := snd (c_lmtp_data c2 cb) in
  dw_close (writes c3 (t_parts t)).

Definition lmtp_ready (c : client) : Prop := io_ready c /\ hello_done c /\ c_lmtp c = true.

Lemma rcpt_each_ready rs : forall c s',
  io_ready c -> hello_done c -> Forall (fun p => clean (fst p)) rs ->
  rcpts_stream rs (c_in c) s' ->
  let c' := rcpt_each c (map fst rs) in
  io_ready c' /\ hello_done c' /\ c_in c' = s' /\ c_rcpts c' = c_rcpts c ++ accepted_of rs
  /\ c_cbs c' = c_cbs c /\ c_lmtp c' = c_lmtp c.
Proof.
  induction rs as [|[a e] r IH]; intros c s' R H F S; cbn [rcpts_stream] in S.
  - subst s'. cbn [map rcpt_each fold_left accepted_of filter]. rewrite app_nil_r.
    split; [exact R|]. split; [exact H|]. repeat split.
  - destruct S as (s1 & Hr & S). inversion F as [|? ? Fa Fr]; subst. cbn [fst] in Fa.
    destruct (c_rcpt_ready c a e s1 R Fa Hr) as (c1 & E & R1 & H1 & I1 & Rc1 & Cb1 & L1).
    cbn [map fst rcpt_each fold_left]. rewrite E. cbn [snd].
    rewrite <- I1 in S. specialize (IH c1 s' R1 (H1 H) Fr S).
    cbv zeta in IH. unfold rcpt_each in IH. destruct IH as (R2 & H2 & I2 & Rc2 & Cb2 & L2).
    cbv zeta. split; [exact R2|]. split; [exact H2|]. split; [exact I2|]. split; [|split; congruence].
    rewrite Rc2, Rc1. unfold accepted_of. cbn [filter rcpt_accepted snd].
    destruct e; cbn [map fst]; rewrite <- ?app_assoc; reflexivity.
Qed.

(* one transaction *)
Lemma run_txn_spec cb c t s' :
  lmtp_ready c -> txn_ok t -> txn_stream t (c_in c) s' ->
  exists c', run_txn cb c t = ((if cb then RNil else first_neg RNil (t_verdicts t)), c')
    /\ lmtp_ready c' /\ c_in c' = s'
    /\ c_cbs c' = c_cbs c ++ (if cb then combine (accepted t) (t_verdicts t) else []).
Proof.
  intros (R & H & L) (Cf & Cr & Ln) (s1 & s2 & s3 & Hm & Hrs & Hd & Hv).
  unfold run_txn.
  destruct (c_mail_ready c (t_from t) CNil s1 R H Cf Hm) as (c1 & E1 & R1 & H1 & I1 & Rc1 & Cb1 & L1).
  rewrite E1. cbn [snd].
  rewrite <- I1 in Hrs.
  pose proof (rcpt_each_ready (t_rcpts t) c1 s2 R1 H1 Cr Hrs) as X. cbv zeta in X.
  destruct X as (R2 & H2 & I2 & Rc2 & Cb2 & L2).
  set (c2 := rcpt_each c1 (map fst (t_rcpts t))) in *.
  rewrite <- I2 in Hd.
  assert (Lc2 : c_lmtp c2 = true) by congruence.
  destruct (c_lmtp_data_ready c2 cb s3 R2 Lc2 Hd) as (c3 & E3 & A3 & W3 & D3 & H3 & I3 & Rc3 & Cb3 & L3).
  rewrite E3. cbn [snd].
  assert (Wr : writing c3 cb) by (split; [exact A3|exists WBegin; exact D3]).
  destruct (writes_writing (t_parts t) c3 cb Wr) as (W4 & I4 & Rc4 & Cb4 & L4 & H4).
  set (c4 := writes c3 (t_parts t)) in *.
  assert (Rc : c_rcpts c4 = accepted t).
  { rewrite Rc4, Rc3, Rc2, Rc1. reflexivity. }
  assert (Hv4 : serves250 (c_in c4) (t_verdicts t) s') by (rewrite I4, I3; exact Hv).
  assert (Ln4 : List.length (t_verdicts t) = List.length (c_rcpts c4)) by (rewrite Rc; exact Ln).
  assert (Lc4 : c_lmtp c4 = true) by congruence.
  destruct (dw_close_lmtp c4 cb (t_verdicts t) s' W4 Lc4 Hv4 Ln4) as (c5 & E5 & R5 & I5 & Cb5 & Rc5 & L5 & H5).
  exists c5. rewrite E5. split; [reflexivity|]. split; [|split; [exact I5|]].
  - split; [exact R5|]. split; [apply H5, H4, H3, H2|exact L5].
  - rewrite Cb5, Rc, Cb4, Cb3, Cb2, Cb1. reflexivity.
Qed.

(* consecutive transactions on one client *)
Fixpoint run_txns (cb : bool) (c : client) (ts : list txn) : list result * client :=
  match ts with
  | [] => ([], c)
  | t :: r =>
      let '(x, c1) := run_txn cb c t in
      let '(xs, c2) := run_txns cb c1 r in (x :: xs, c2)
  end.

Fixpoint txns_stream (ts : list txn) (s s' : bytes) : Prop :=
  match ts with
  | [] => s = s'
  | t :: r => exists s1, txn_stream t s s1 /\ txns_stream r s1 s'
  end.

(* C18.  For EVERY sequence of LMTP transactions on one client (any number,
   the second and later ones included), every recipient list with arbitrary
   accept / refuse at RCPT, every partition of the body into Write calls and
   every per-recipient verdict vector, provided the server's stream consists
   of well-formed replies, one per RCPT and - after the final dot - exactly
   one per recipient ACCEPTED IN THAT TRANSACTION, followed by anything
   ([rest], e.g. the next command's reply):
   - with a status callback, Close of transaction t invokes it exactly once
     per recipient accepted in t, in RCPT order, with that recipient's own
     reply (RNil for a 250), and returns nil;
   - without a callback, Close returns the first negative per-recipient
     reply (nil only if all are 250) and invokes nothing;
   - after the last Close the unread input is exactly [rest]: every Close
     consumed exactly its replies - it neither ate the next command's reply
     nor waited for replies that were never due;
   - the client is ready for the next transaction. *)
Theorem C18_callbacks cb ts : forall c rest,
  lmtp_ready c -> Forall txn_ok ts -> txns_stream ts (c_in c) rest ->
  exists c',
    run_txns cb c ts
    = (map (fun t => if cb then RNil else first_neg RNil (t_verdicts t)) ts, c')
    /\ c_cbs c' = c_cbs c ++ (if cb then flat_map (fun t => combine (accepted t) (t_verdicts t)) ts else [])
    /\ c_in c' = rest /\ lmtp_ready c'.
Proof.
  induction ts as [|t r IH]; intros c rest R F S; cbn [txns_stream] in S.
  - subst rest. exists c. cbn [run_txns map flat_map].
    split; [reflexivity|]. split; [destruct cb; rewrite app_nil_r; reflexivity|]. split; [reflexivity|exact R].
  - destruct S as (s1 & St & Sr). inversion F as [|? ? Ft Fr]; subst.
    destruct (run_txn_spec cb c t s1 R Ft St) as (c1 & E1 & R1 & I1 & Cb1).
    rewrite <- I1 in Sr. destruct (IH c1 rest R1 Fr Sr) as (c2 & E2 & Cb2 & I2 & R2).
    exists c2. cbn [run_txns]. rewrite E1, E2. cbn [map]. split; [reflexivity|].
    split; [|split; assumption]. rewrite Cb2, Cb1. cbn [flat_map].
    destruct cb; rewrite <- ?app_assoc, ?app_nil_r; reflexivity.
Qed.

(* what "the first negative reply" is *)
Lemma first_neg_nil vs : first_neg RNil vs = RNil <-> Forall (fun v => v = RNil) vs.
Proof.
  induction vs as [|v r IH]; cbn [first_neg is_nil]; [split; [constructor|reflexivity]|].
  destruct v.
  - rewrite IH. split; [intros H; constructor; [reflexivity|exact H]|intros H; inversion H; assumption].
  - split; [|intros H; inversion H; discriminate].
    assert (X : forall l, first_neg (RSmtp code ec msg) l = RSmtp code ec msg)
      by (induction l; cbn [first_neg is_nil]; auto). rewrite X. discriminate.
  - split; [|intros H; inversion H; discriminate].
    assert (X : forall l, first_neg (RLocal text) l = RLocal text)
      by (induction l; cbn [first_neg is_nil]; auto). rewrite X. discriminate.
  - split; [|intros H; inversion H; discriminate].
    assert (X : forall l, first_neg RIo l = RIo) by (induction l; cbn [first_neg is_nil]; auto).
    rewrite X. discriminate.
Qed.

Lemma first_neg_first pre code ec msg post :
  Forall (fun v => v = RNil) pre ->
  first_neg RNil (pre ++ RSmtp code ec msg :: post) = RSmtp code ec msg.
Proof.
  induction 1 as [|v r -> _ IH]; cbn [app first_neg is_nil]; [|exact IH].
  induction post; cbn [first_neg is_nil]; auto.
Qed.

(* C18, no callback: a negative per-recipient reply is not lost *)
Corollary C18_no_callback c t s' pre code ec msg post :
  lmtp_ready c -> txn_ok t -> txn_stream t (c_in c) s' ->
  t_verdicts t = pre ++ RSmtp code ec msg :: post -> Forall (fun v => v = RNil) pre ->
  fst (run_txn false c t) = RSmtp code ec msg.
Proof.
  intros R F S Ev Fp. destruct (run_txn_spec false c t s' R F S) as (c' & E & _).
  rewrite E. cbn [fst]. rewrite Ev. apply first_neg_first. exact Fp.
Qed.

(* ---- C16: the verdict of Close ---- *)

(* SMTP: Close returns exactly what the final reply is: nil for a 250, the
   SMTPError otherwise; the reply is consumed and nothing more *)
Theorem C16_close_verdict_smtp c cb e rest :
  writing c cb -> c_lmtp c = false -> reads (c_in c) 250 e rest ->
  fst (dw_close c) = res_of_cerr e /\ c_in (snd (dw_close c)) = rest.
Proof.
  intros W L Hr. destruct (dw_close_smtp c cb e rest W L Hr) as (c' & E & _ & I & _).
  rewrite E. split; [reflexivity|exact I].
Qed.

(* LMTP without callback: nil iff every per-recipient reply is a 250, else
   the first negative one *)
Theorem C16_close_verdict_lmtp c vs rest :
  writing c false -> c_lmtp c = true ->
  serves250 (c_in c) vs rest -> List.length vs = List.length (c_rcpts c) ->
  fst (dw_close c) = first_neg RNil vs
  /\ (fst (dw_close c) = RNil <-> Forall (fun v => v = RNil) vs)
  /\ c_in (snd (dw_close c)) = rest.
Proof.
  intros W L S Ln. destruct (dw_close_lmtp c false vs rest W L S Ln) as (c' & E & _ & I & _).
  rewrite E. cbn [fst snd]. split; [reflexivity|]. split; [apply first_neg_nil|exact I].
Qed.

(* ---- the stream hypotheses are satisfiable: replies rendered by the server ---- *)

(* what the client makes of a per-recipient status the go-smtp server renders
   with writeResponse(dataErrorToStatus(e)) *)
Definition verdict_of (e : berr) : result :=
  match e with
  | BNil => RNil
  | BSmtp c ec m => RSmtp c (default_ec c ec) m
  | BPlain m => RSmtp 554 (5, 0, 0)%Z (bs "Error: transaction failed: " ++ m)
  end.

Definition status_ok (e : berr) : Prop :=
  match e with
  | BSmtp c ec m => (400 <= c <= 599)%Z /\ ec_eqb ec no_ec = false /\ ec_int ec
  | _ => True
  end.

(* the per-recipient replies emitted by the server (Lmtp.v / C13) are a
   stream in the sense of [serves250] *)
Lemma serves250_data_replies statuses rest :
  Forall status_ok statuses ->
  serves250 (flat_map data_reply statuses ++ rest) (map verdict_of statuses) rest.
Proof.
  induction 1 as [|e r He _ IH]; cbn [flat_map map app]; [constructor|].
  rewrite <- app_assoc. destruct e as [|c ec m|m]; cbn [verdict_of status_ok] in *.
  - eapply S250_ok; [|exact IH].
    change (data_reply BNil) with (write_response 250 (2, 0, 0)%Z [bs "OK: queued"]).
    rewrite (roundtrip_response 250 (2, 0, 0)%Z (bs "OK: queued") 250); [reflexivity|lia|reflexivity|].
    cbn. unfold int_ok, int_min, int_max. lia.
  - destruct He as (Hc & Hn & Hi).
    eapply S250_err; [|exact IH].
    apply (C17_roundtrip c ec m 250); try assumption.
    apply expect_mismatch_4xx5xx; [exact Hc|lia].
  - eapply S250_err; [|exact IH].
    apply (C17_generic m 250). reflexivity.
Qed.

(* a reply rendered by writeResponse, as read with any expectCode *)
Lemma reads_rendered code ec msg expect rest :
  (100 <= code <= 999)%Z ->
  ec_eqb (default_ec code ec) no_ec = false -> ec_int (default_ec code ec) ->
  reads (write_response code ec [msg] ++ rest) expect
        (if expect_mismatch expect code then CSmtp code (default_ec code ec) msg else CNil) rest.
Proof.
  intros Hc Hn Hi. eexists. eexists. apply roundtrip_response; assumption.
Qed.

(* non-vacuity of C18_callbacks: two consecutive LMTP transactions on one
   client (the second with a recipient refused at RCPT), verdicts mixed *)
Definition ex18_t1 : txn :=
  mkT (bs "s1@x") [(bs "a@x", CNil); (bs "b@x", CNil)] [bs "hello"; [LF]]
      [RNil; RSmtp 550 (5, 1, 1)%Z (bs "no such user")].
Definition ex18_t2 : txn :=
  mkT (bs "s2@x") [(bs "c@x", CSmtp 550 (5, 1, 1)%Z (bs "refused")); (bs "d@x", CNil)] [bs ".x"]
      [RSmtp 451 (4, 3, 0)%Z (bs "later")].
Definition ex18_txns_wire : bytes :=
  bs "250 2.1.0 ok" ++ crlf ++ bs "250 2.1.5 ok" ++ crlf ++ bs "250 2.1.5 ok" ++ crlf ++
  bs "354 go" ++ crlf ++ bs "250 2.0.0 delivered" ++ crlf ++ bs "550 5.1.1 no such user" ++ crlf ++
  bs "250 2.1.0 ok" ++ crlf ++ bs "550 5.1.1 refused" ++ crlf ++ bs "250 2.1.5 ok" ++ crlf ++
  bs "354 go" ++ crlf ++ bs "451 4.3.0 later" ++ crlf.
Definition ex18_rest : bytes := bs "250 2.0.0 reply to the next command" ++ crlf.
Definition ex18_client : client :=
  snd (c_noop (new_client true
         (bs "220 hi" ++ crlf ++ bs "250-srv" ++ crlf ++ bs "250 PIPELINING" ++ crlf ++
          bs "250 ok" ++ crlf ++ ex18_txns_wire ++ ex18_rest) None)).

Example ex18_hypotheses :
  lmtp_ready ex18_client /\ Forall txn_ok [ex18_t1; ex18_t2]
  /\ txns_stream [ex18_t1; ex18_t2] (c_in ex18_client) ex18_rest.
Proof.
  split; [vm_compute; repeat split; reflexivity|].
  split; [repeat constructor; vm_compute; reflexivity|].
  cbn [txns_stream].
  eexists. split.
  { unfold txn_stream. do 3 eexists. split; [do 2 eexists; vm_compute; reflexivity|].
    split; [cbn [rcpts_stream ex18_t1 t_rcpts]; eexists; split; [do 2 eexists; vm_compute; reflexivity|];
            eexists; split; [do 2 eexists; vm_compute; reflexivity|reflexivity]|].
    split; [do 2 eexists; vm_compute; reflexivity|].
    cbn [ex18_t1 t_verdicts].
    eapply S250_ok; [vm_compute; reflexivity|].
    eapply S250_err; [vm_compute; reflexivity|]. apply S250_nil. }
  eexists. split; [|reflexivity].
  unfold txn_stream. do 3 eexists. split; [do 2 eexists; vm_compute; reflexivity|].
  split; [cbn [rcpts_stream ex18_t2 t_rcpts]; eexists; split; [do 2 eexists; vm_compute; reflexivity|];
          eexists; split; [do 2 eexists; vm_compute; reflexivity|reflexivity]|].
  split; [do 2 eexists; vm_compute; reflexivity|].
  cbn [ex18_t2 t_verdicts].
  eapply S250_err; [vm_compute; reflexivity|]. apply S250_nil.
Qed.

Example ex18_conclusion :
  let '(rs, c') := run_txns true ex18_client [ex18_t1; ex18_t2] in
  rs = [RNil; RNil]
  /\ c_cbs c' = [(bs "a@x", RNil); (bs "b@x", RSmtp 550 (5, 1, 1)%Z (bs "no such user"));
                 (bs "d@x", RSmtp 451 (4, 3, 0)%Z (bs "later"))]
  /\ c_in c' = ex18_rest
  /\ fst (run_txns false ex18_client [ex18_t1; ex18_t2])
     = [RSmtp 550 (5, 1, 1)%Z (bs "no such user"); RSmtp 451 (4, 3, 0)%Z (bs "later")].
Proof. vm_compute. repeat split. Qed.

(* ================================================================== *)
(* 7. C10 (client half): STARTTLS                                       *)
(* ================================================================== *)

Lemma c_hello_RNil_done c c' : c_hello c = (RNil, c') -> hello_done c'.
Proof.
  unfold c_hello, hello_done. destruct (c_did_hello c) eqn:Dh.
  - intros E. injection E as E <-. tauto.
  - destruct (c_greet c) as [g c1]. destruct g; try discriminate.
    destruct (c_ehlo (set_did_hello c1 true)) as [e c2] eqn:Ee.
    assert (Dh2 : c_did_hello c2 = true).
    { revert Ee. unfold c_ehlo, c_cmd. cbv zeta. destruct (printf_line _ _) as [ok c3] eqn:Ep.
      pose proof (printf_line_quiet) as _.
      assert (D3 : c_did_hello c3 = true).
      { revert Ep. unfold printf_line. intros Ep.
        destruct (bw_flush_frame _ _ _ Ep) as (_ & Ct & _).
        match type of Ep with bw_flush (bw_write ?x ?o) = _ => destruct (bw_write_frame x o) as (_ & Ct2 & _) end.
        destruct (ctl_fields _ _ Ct) as (_ & A & _). destruct (ctl_fields _ _ Ct2) as (_ & B & _).
        rewrite A, B. unfold close_dot. destruct (c_dw (set_did_hello c1 true)) as [d|]; [|reflexivity].
        destruct (d_open d); [|reflexivity].
        match goal with |- c_did_hello (snd (bw_flush (bw_write ?x ?o))) = _ =>
          destruct (bw_flush (bw_write x o)) as [ok' c4] eqn:Ef;
          destruct (bw_flush_frame _ _ _ Ef) as (_ & Ct3 & _);
          destruct (bw_write_frame x o) as (_ & Ct4 & _) end.
        destruct (ctl_fields _ _ Ct3) as (_ & A3 & _). destruct (ctl_fields _ _ Ct4) as (_ & A4 & _).
        cbn [snd]. rewrite A3, A4. reflexivity. }
      destruct ok.
      - unfold c_read. destruct (client_read_response 250 (c_in c3)) as [[[code msg] e0] rest].
        destruct e0; cbn [res_of_cerr]; intros E; injection E as _ <-; csimpl; exact D3.
      - intros E. injection E as _ <-. exact D3. }
    destruct e.
    + intros E. injection E as E <-. tauto.
    + cbn [is_500_502]. destruct ((code =? 500)%Z || (code =? 502)%Z); [|discriminate].
      destruct (c_helo c2) as [h c3] eqn:Eh. intros E. injection E as -> <-. csimpl.
      split; [|reflexivity].
      revert Eh. unfold c_helo, c_cmd. destruct (printf_line _ _) as [ok c4] eqn:Ep.
      assert (D4 : c_did_hello c4 = true).
      { revert Ep. unfold printf_line. intros Ep.
        destruct (bw_flush_frame _ _ _ Ep) as (_ & Ct & _).
        match type of Ep with bw_flush (bw_write ?x ?o) = _ => destruct (bw_write_frame x o) as (_ & Ct2 & _) end.
        destruct (ctl_fields _ _ Ct) as (_ & A & _). destruct (ctl_fields _ _ Ct2) as (_ & B & _).
        rewrite A, B. unfold close_dot. destruct (c_dw (set_ext c2 None)) as [d|]; [|exact Dh2].
        destruct (d_open d); [|exact Dh2].
        match goal with |- c_did_hello (snd (bw_flush (bw_write ?x ?o))) = _ =>
          destruct (bw_flush (bw_write x o)) as [ok' c5] eqn:Ef;
          destruct (bw_flush_frame _ _ _ Ef) as (_ & Ct3 & _);
          destruct (bw_write_frame x o) as (_ & Ct4 & _) end.
        destruct (ctl_fields _ _ Ct3) as (_ & A3 & _). destruct (ctl_fields _ _ Ct4) as (_ & A4 & _).
        cbn [snd]. rewrite A3, A4. exact Dh2. }
      destruct ok.
      * unfold c_read. destruct (client_read_response 250 (c_in c4)) as [[[code' msg'] e0] rest].
        intros E. injection E as _ <-. csimpl. exact D4.
      * intros E. injection E as _ <-. exact D4.
    + cbn [is_500_502]. discriminate.
    + cbn [is_500_502]. discriminate.
Qed.

Lemma close_dot_ctl c : ctl (close_dot c) = ctl c /\ c_in (close_dot c) = c_in c.
Proof.
  unfold close_dot. destruct (c_dw c) as [d|]; [|split; reflexivity].
  destruct (d_open d); [|split; reflexivity].
  match goal with |- ctl (snd (bw_flush (bw_write ?x ?o))) = _ /\ _ =>
    destruct (bw_flush (bw_write x o)) as [ok c1] eqn:Ef;
    destruct (bw_flush_frame _ _ _ Ef) as (_ & Ct & I);
    destruct (bw_write_frame x o) as (_ & Ct2 & I2) end.
  cbn [snd]. rewrite Ct, Ct2, I, I2. split; reflexivity.
Qed.

Lemma printf_line_ctl c line ok c' :
  printf_line c line = (ok, c') -> ctl c' = ctl c /\ c_in c' = c_in c.
Proof.
  unfold printf_line. intros Ep.
  destruct (bw_flush_frame _ _ _ Ep) as (_ & Ct & I).
  match type of Ep with bw_flush (bw_write ?x ?o) = _ => destruct (bw_write_frame x o) as (_ & Ct2 & I2) end.
  destruct (close_dot_ctl c) as [Ct3 I3]. rewrite Ct, Ct2, Ct3, I, I2, I3. split; reflexivity.
Qed.

Lemma c_cmd_ctl c expect line r c' : c_cmd c expect line = (r, c') -> ctl c' = ctl c.
Proof.
  unfold c_cmd. destruct (printf_line c line) as [ok c1] eqn:Ep.
  destruct (printf_line_ctl _ _ _ _ Ep) as [Ct _]. destruct ok.
  - unfold c_read. destruct (client_read_response expect (c_in c1)) as [[[code msg] e] rest].
    intros E. injection E as _ <-. exact Ct.
  - intros E. injection E as _ <-. exact Ct.
Qed.

(* readResponse(220) without error means the reply code IS 220 *)
Lemma cerr_nil_tp e : cerr_of_tp e = CNil -> e = TPNone.
Proof.
  destruct e; cbn [cerr_of_tp]; try discriminate; [reflexivity|].
  destruct (to_smtp_err code msg) as [[a b] d]. discriminate.
Qed.

Lemma parse_code_line_ok line expect code cont m :
  parse_code_line line expect = (code, cont, m, TPNone) -> expect_mismatch expect code = false.
Proof.
  unfold parse_code_line. destruct line as [|a [|b [|c [|d m0]]]]; try discriminate.
  destruct (Ascii.eqb d " " || Ascii.eqb d "-"); [|discriminate].
  destruct (atoi [a; b; c]) as [z|]; [|discriminate].
  destruct (z <? 100)%Z; [discriminate|].
  destruct (expect_mismatch expect z) eqn:E; [discriminate|].
  intros H. injection H as <- _ _. exact E.
Qed.

Lemma read_ok_expected expect s code msg rest :
  client_read_response expect s = ((code, msg, CNil), rest) -> expect_mismatch expect code = false.
Proof.
  unfold client_read_response. destruct (read_response expect s) as [[[c0 m0] e0] r0] eqn:Er.
  intros H. injection H as <- <- He <-. apply cerr_nil_tp in He. subst e0.
  revert Er. unfold read_response. destruct (read_line s) as [[line rest']|]; [|discriminate].
  destruct (parse_code_line line expect) as [[[c1 cont] m1] e1] eqn:Ep. destruct cont.
  - destruct (read_more _ c1 m1 rest') as [[m' r']|]; [|discriminate].
    intros H. injection H as <- _ He _.
    destruct e1; cbn [tp_is_err andb] in He; try discriminate;
      try (destruct m'; cbn [negb] in He; discriminate).
    eapply parse_code_line_ok; exact Ep.
  - intros H. injection H as <- _ -> _. eapply parse_code_line_ok; exact Ep.
Qed.

Lemma expect_220 code : expect_mismatch 220 code = false -> code = 220%Z.
Proof.
  assert (E : expect_mismatch 220 code = negb (code =? 220)%Z) by reflexivity.
  rewrite E. intros H. apply negb_false_iff, Z.eqb_eq in H. exact H.
Qed.

Definition tls_line (c : client) (l : bytes) : Prop := hello_line c l \/ l = bs "STARTTLS".

Lemma hello_line_same c c1 l :
  c_local c1 = c_local c -> c_lmtp c1 = c_lmtp c -> hello_line c1 l -> hello_line c l.
Proof. unfold hello_line, hello_verb. intros -> ->. tauto. Qed.

Lemma cmd_err_tls c expect line r c' : cmd_err c expect line = (r, c') -> c_tls c' = c_tls c.
Proof.
  unfold cmd_err. destruct (c_cmd c expect line) as [[[cd mg] e0] c3] eqn:Ec.
  apply c_cmd_ctl in Ec. unfold ctl in Ec. inversion Ec. intros E. injection E as _ <-. congruence.
Qed.

(* hello never touches the tls flag *)
Lemma c_hello_tls c r c' : c_hello c = (r, c') -> c_tls c' = c_tls c.
Proof.
  unfold c_hello. destruct (c_did_hello c); [intros E; injection E as _ <-; reflexivity|].
  destruct (c_greet c) as [g c0] eqn:Eg.
  assert (T0 : c_tls c0 = c_tls c).
  { revert Eg. unfold c_greet. destruct (c_did_greet c); [intros E; injection E as _ <-; reflexivity|].
    unfold c_read. destruct (client_read_response 220 (c_in c)) as [[[cd mg] e] rest].
    destruct e; intros E; injection E as _ <-; reflexivity. }
  destruct g; try (intros E; injection E as _ <-; exact T0).
  destruct (c_ehlo (set_did_hello c0 true)) as [e c2] eqn:Ee.
  assert (T2 : c_tls c2 = c_tls c).
  { revert Ee. unfold c_ehlo. cbv zeta. destruct (c_cmd _ 250 _) as [[[cd mg] e0] c3] eqn:Ec.
    apply c_cmd_ctl in Ec. unfold ctl in Ec. inversion Ec as [[A1 A2 A3 A4 A5 A6 A7 A8 A9 A10 A11 A12]].
    destruct e0; intros E; injection E as _ <-; csimpl; congruence. }
  destruct e; try (intros E; injection E as _ <-; csimpl; exact T2).
  cbn [is_500_502]. destruct ((code =? 500)%Z || (code =? 502)%Z); [|intros E; injection E as _ <-; csimpl; exact T2].
  destruct (c_helo c2) as [h0 c3] eqn:Eh0. intros E. injection E as _ <-. csimpl.
  revert Eh0. unfold c_helo. destruct (c_cmd _ 250 _) as [[[cd mg] e0] c4] eqn:Ec.
  apply c_cmd_ctl in Ec. unfold ctl in Ec. inversion Ec. intros E. injection E as _ <-. congruence.
Qed.

(* Client.startTLS *)
Lemma c_starttls_ext c r c' :
  quiet c -> c_starttls c = (r, c') ->
  exists ls, c_out c' = c_out c ++ lines ls /\ Forall (tls_line c) ls
    /\ (r <> RNil -> c_tls c' = c_tls c)
    /\ (r = RNil -> c_tls c' = true /\ c_did_hello c' = false /\ quiet c').
Proof.
  intros Q. unfold c_starttls, with_hello. destruct (c_hello c) as [h c1] eqn:Eh.
  destruct (c_hello_ext _ _ _ Q Eh) as (hl & (O1 & Q1 & L1 & M1) & F1 & _).
  pose proof (c_hello_tls _ _ _ Eh) as T1.
  assert (Fh : Forall (tls_line c) hl) by (eapply Forall_impl; [|exact F1]; intros l Hl; left; exact Hl).
  assert (Stop : forall e, e <> RNil -> (r, c') = (e, c1) ->
    exists ls, c_out c' = c_out c ++ lines ls /\ Forall (tls_line c) ls
      /\ (r <> RNil -> c_tls c' = c_tls c)
      /\ (r = RNil -> c_tls c' = true /\ c_did_hello c' = false /\ quiet c')).
  { intros e Ne X. injection X as -> ->. exists hl. repeat split; try assumption; congruence. }
  destruct h; try (intros E; eapply Stop; [|symmetry; exact E]; discriminate).
  destruct (cmd_err c1 220 (bs "STARTTLS")) as [e c2] eqn:Ec.
  destruct (ext_le _ _ _ (cmd_err_ext _ _ _ _ _ Q1 Ec)) as (own & (O2 & Q2 & L2 & M2) & A).
  assert (T2 : c_tls c2 = c_tls c) by (rewrite (cmd_err_tls _ _ _ _ _ Ec); exact T1).
  assert (Fo : Forall (tls_line c) own).
  { destruct A as [->| ->]; [constructor|]. constructor; [right; reflexivity|constructor]. }
  intros E. exists (hl ++ own).
  assert (O : c_out c2 = c_out c ++ lines (hl ++ own)) by (rewrite O2, O1, lines_app, app_assoc; reflexivity).
  destruct e; injection E as <- <-.
  - (* 220: the switch *)
    split; [exact O|]. split; [apply Forall_app; tauto|]. split; [congruence|]. intros _.
    unfold switch_to_tls. csimpl. repeat split. right. csimpl. split; reflexivity.
  - split; [exact O|]. split; [apply Forall_app; tauto|]. split; [intros _; exact T2|discriminate].
  - split; [exact O|]. split; [apply Forall_app; tauto|]. split; [intros _; exact T2|discriminate].
  - split; [exact O|]. split; [apply Forall_app; tauto|]. split; [intros _; exact T2|discriminate].
Qed.

Lemma to_upper_starttls : to_upper (bs "STARTTLS") = bs "STARTTLS".
Proof. vm_compute. reflexivity. Qed.

Lemma c_extension_done c name :
  hello_done c ->
  c_extension c name = ((match c_ext c with
                         | Some m => match ext_get (to_upper name) m with
                                     | Some v => (true, v) | None => (false, []) end
                         | None => (false, [])
                         end), c).
Proof.
  intros H. unfold c_extension. rewrite c_hello_done by exact H.
  destruct (c_ext c) as [m|]; [destruct (ext_get (to_upper name) m)|]; reflexivity.
Qed.

(* C10, client: no downgrade.  For ALL server streams and all states: what
   initStartTLS (NewClientStartTLS / DialStartTLS) writes is a sequence of
   complete lines, each of them a hello line or "STARTTLS" - never MAIL, RCPT,
   AUTH, DATA or content; on any error the connection is still the plaintext
   one (and NewClientStartTLS closes it and returns no client); on success the
   client has switched and forgotten that it said hello. *)
Theorem C10_client_no_downgrade c r c' :
  quiet c -> c_init_starttls c = (r, c') ->
  exists ls, c_out c' = c_out c ++ lines ls /\ Forall (tls_line c) ls
    /\ (r <> RNil -> c_tls c' = c_tls c)
    /\ (r = RNil -> c_tls c' = true /\ c_did_hello c' = false).
Proof.
  intros Q. unfold c_init_starttls. destruct (c_hello c) as [h c1] eqn:Eh.
  destruct (c_hello_ext _ _ _ Q Eh) as (hl & (O1 & Q1 & L1 & M1) & F1 & _).
  pose proof (c_hello_tls _ _ _ Eh) as T1.
  assert (Fh : Forall (tls_line c) hl) by (eapply Forall_impl; [|exact F1]; intros l Hl; left; exact Hl).
  assert (Stop : forall e, e <> RNil -> (r, c') = (e, c1) ->
    exists ls, c_out c' = c_out c ++ lines ls /\ Forall (tls_line c) ls
      /\ (r <> RNil -> c_tls c' = c_tls c)
      /\ (r = RNil -> c_tls c' = true /\ c_did_hello c' = false)).
  { intros e Ne X. injection X as -> ->. exists hl. repeat split; try assumption; congruence. }
  destruct h; try (intros E; eapply Stop; [|symmetry; exact E]; discriminate).
  pose proof (c_hello_RNil_done _ _ Eh) as Hd.
  rewrite c_extension_done by exact Hd.
  destruct (match c_ext c1 with
            | Some m => match ext_get (to_upper (bs "STARTTLS")) m with
                        | Some v => (true, v) | None => (false, []) end
            | None => (false, [])
            end) as [ok v]. destruct ok.
  - intros E. destruct (c_starttls_ext c1 r c' Q1 E) as (ls & O2 & F2 & T2 & S2).
    exists (hl ++ ls). split; [rewrite O2, O1, lines_app, app_assoc; reflexivity|].
    split.
    { apply Forall_app. split; [exact Fh|]. eapply Forall_impl; [|exact F2].
      intros l [Hl| ->]; [left; eapply hello_line_same; eassumption|right; reflexivity]. }
    split; [intros Hr; rewrite (T2 Hr); exact T1|].
    intros Hr. destruct (S2 Hr) as (A & B & _). tauto.
  - intros E. eapply Stop; [|symmetry; exact E]. discriminate.
Qed.

(* C10, client: initStartTLS succeeds ONLY IF the hello succeeded, STARTTLS is
   a key of the EHLO reply and the reply to STARTTLS carried code 220; in
   every other case (not offered: no STARTTLS line is even written; any other
   reply, a malformed reply, end of stream) it returns an error - see
   C10_client_no_downgrade for what was written. *)
Theorem C10_client_needs_offer_and_220 c c' :
  c_init_starttls c = (RNil, c') ->
  exists c1 c2 code msg,
    c_hello c = (RNil, c1)
    /\ has_ext (c_ext c1) (bs "STARTTLS") = true
    /\ c_cmd c1 220 (bs "STARTTLS") = ((code, msg, RNil), c2) /\ code = 220%Z
    /\ c' = switch_to_tls c2.
Proof.
  unfold c_init_starttls. destruct (c_hello c) as [h c1] eqn:Eh. destruct h; try discriminate.
  pose proof (c_hello_RNil_done _ _ Eh) as Hd.
  rewrite c_extension_done by exact Hd. rewrite to_upper_starttls.
  assert (Hx : has_ext (c_ext c1) (bs "STARTTLS")
               = fst (match c_ext c1 with
                      | Some m => match ext_get (bs "STARTTLS") m with
                                  | Some v => (true, v) | None => (false, []) end
                      | None => (false, [])
                      end)).
  { unfold has_ext. destruct (c_ext c1) as [m|]; [destruct (ext_get (bs "STARTTLS") m)|]; reflexivity. }
  destruct (match c_ext c1 with
            | Some m => match ext_get (bs "STARTTLS") m with
                        | Some v => (true, v) | None => (false, []) end
            | None => (false, [])
            end) as [ok v]. cbn [fst] in Hx. destruct ok; [|discriminate].
  unfold c_starttls, with_hello. rewrite c_hello_done by exact Hd.
  unfold cmd_err. destruct (c_cmd c1 220 (bs "STARTTLS")) as [[[code msg] e] c2] eqn:Ec.
  destruct e; try discriminate. intros E. injection E as <-.
  exists c1, c2, code, msg. repeat split; try assumption.
  (* the code *)
  revert Ec. unfold c_cmd. destruct (printf_line c1 (bs "STARTTLS")) as [ok c3]. destruct ok; [|discriminate].
  unfold c_read. destruct (client_read_response 220 (c_in c3)) as [[[cd mg] e0] rest] eqn:Er.
  intros E. injection E as -> _ He _. destruct e0; try discriminate.
  apply expect_220. eapply read_ok_expected. exact Er.
Qed.

Theorem C10_client_not_offered c c1 :
  c_hello c = (RNil, c1) -> has_ext (c_ext c1) (bs "STARTTLS") = false ->
  c_init_starttls c = (RLocal err_no_starttls, c1).
Proof.
  intros Eh Hx. unfold c_init_starttls. rewrite Eh.
  pose proof (c_hello_RNil_done _ _ Eh) as Hd.
  rewrite c_extension_done by exact Hd. rewrite to_upper_starttls.
  unfold has_ext in Hx. destruct (c_ext c1) as [m|]; [|reflexivity].
  destruct (ext_get (bs "STARTTLS") m); [discriminate|reflexivity].
Qed.

(* the plaintext input that was still unread - buffered behind the 220 in the
   same segment, or not yet received - plays no role after the switch *)
Lemma switch_drops_plaintext c x : switch_to_tls (set_in c x) = switch_to_tls c.
Proof. reflexivity. Qed.

Lemma switch_state c :
  c_tls (switch_to_tls c) = true /\ c_did_hello (switch_to_tls c) = false
  /\ c_did_greet (switch_to_tls c) = c_did_greet c /\ c_greet_err (switch_to_tls c) = c_greet_err c
  /\ c_in (switch_to_tls c) = match c_tls_in c with Some s => s | None => [] end
  /\ c_out (switch_to_tls c) = c_out c.
Proof. repeat split. Qed.

(* C10, client: re-hello.  After a successful startTLS the client is in TLS
   mode with didHello = false (C10_client_no_downgrade) and reads only the TLS
   application stream.  Hence the next method that needs hello() - Mail, Auth,
   Extension, ... - first sends EHLO on the new stream, and [ext], against
   which every parameter decision is made (C15_only_negotiated_mail, _rcpt), is the
   parse of the reply read FROM THAT STREAM (or nil after a HELO fallback):
   nothing learned in plaintext is trusted. *)
Theorem C10_client_rehello c c3 :
  c_did_hello c = false -> c_did_greet c = true ->
  c_hello c = (RNil, c3) ->
  c_ext c3 = None
  \/ exists c1 code msg rest,
       printf_line (set_did_hello c true) (hello_verb c ++ c_local c) = (true, c1)
       /\ client_read_response 250 (c_in c) = ((code, msg, CNil), rest)
       /\ c_ext c3 = Some (parse_ext msg).
Proof.
  intros Dh Dg. unfold c_hello. rewrite Dh. unfold c_greet. rewrite Dg.
  destruct (c_greet_err c); try discriminate.
  destruct (c_ehlo (set_did_hello c true)) as [e c2] eqn:Ee.
  destruct e.
  - intros E. injection E as _ <-. right.
    destruct (c_ehlo_parsed _ _ Ee) as (c1 & code & msg & rest & Ep & Er & Ex & _).
    exists c1, code, msg, rest. split; [exact Ep|]. split; [|exact Ex].
    destruct (printf_line_ctl _ _ _ _ Ep) as [_ I]. rewrite I in Er. exact Er.
  - cbn [is_500_502]. destruct ((code =? 500)%Z || (code =? 502)%Z); [|discriminate].
    destruct (c_helo c2) as [h c4] eqn:Eh. intros E. injection E as -> <-. left. csimpl.
    revert Eh. unfold c_helo. destruct (c_cmd (set_ext c2 None) 250 _) as [[[cd mg] e0] c5] eqn:Ec.
    apply c_cmd_ctl in Ec. unfold ctl in Ec. inversion Ec. intros E. injection E as _ <-. congruence.
  - cbn [is_500_502]. discriminate.
  - cbn [is_500_502]. discriminate.
Qed.

(* non-vacuity: a server that offers STARTTLS and answers 220, with injected
   plaintext replies behind the 220; the TLS session then offers other
   extensions *)
Example ex10_rehello :
  let plain := bs "220 hi" ++ crlf ++ bs "250-srv" ++ crlf ++ bs "250-STARTTLS" ++ crlf ++
               bs "250 SIZE 1" ++ crlf ++ bs "220 go" ++ crlf ++
               bs "250-injected" ++ crlf ++ bs "250 AUTH PLAIN" ++ crlf in
  let tlsin := bs "250-srv" ++ crlf ++ bs "250 DSN" ++ crlf ++ bs "250 ok" ++ crlf in
  let '(r, c1) := c_init_starttls (new_client false plain (Some tlsin)) in
  let '(x, c2) := c_extension c1 (bs "AUTH") in
  let '(r2, c3) := c_mail c2 (bs "a@b") (Some (mkMO [] 5 false false (bs "FULL") [] None)) in
  (r, c_tls c1, c_did_hello c1, c_did_greet c1, x, r2,
   skipn (List.length (c_out c1)) (c_out c3))
  = (RNil, true, false, true, (false, []), RNil,
     bs "EHLO localhost" ++ crlf ++ bs "MAIL FROM:<a@b> RET=FULL" ++ crlf).
Proof. vm_compute. reflexivity. Qed.

Example ex10_refused :
  let plain := bs "220 hi" ++ crlf ++ bs "250-srv" ++ crlf ++ bs "250 STARTTLS" ++ crlf ++
               bs "454 4.7.0 no" ++ crlf ++ bs "250 ok" ++ crlf in
  let '(r, c1) := c_new_starttls (new_client false plain (Some [])) in
  (r, c_tls c1, c_closed c1, c_out c1)
  = (RSmtp 454 (4, 7, 0)%Z (bs "no"), false, true,
     bs "EHLO localhost" ++ crlf ++ bs "STARTTLS" ++ crlf).
Proof. vm_compute. reflexivity. Qed.

(* ================================================================== *)
(* 8. C09 (client half): Auth over an ideal wire                        *)
(* ================================================================== *)

(* one command of the AUTH exchange followed by the rest of the loop *)
Definition auth_from (c : client) (line : bytes) (steps : list cstep) (got : list bytes)
  : result * list bytes * client :=
  let '((code, msg64, e), c1) := c_cmd c 0 line in
  match e with
  | RNil => auth_loop steps c1 code msg64 got
  | _ => (e, got, c1)
  end.

Lemma c_auth_step_from s c :
  cs_start_err s = None -> c_auth_step s c = auth_from c (auth_line s) (cs_steps s) [].
Proof. intros H. unfold c_auth_step, auth_from. rewrite H. reflexivity. Qed.

Lemma auth_loop_resp r steps c msg64 ch got :
  b64_decode msg64 = Some ch ->
  auth_loop (CResp (Some r) :: steps) c 334 msg64 got = auth_from c (b64_encode r) steps (got ++ [ch]).
Proof. intros H. cbn [auth_loop]. change (334 =? 334)%Z with true. cbv iota. rewrite H. reflexivity. Qed.

(* the state after a command line was written and its reply consumed *)
Definition next (c : client) (line rest : bytes) : client := set_in (wrote c (line ++ crlf)) rest.

Lemma c_cmd_ready c expect line code msg e rest :
  io_ready c -> client_read_response expect (c_in c) = ((code, msg, e), rest) ->
  c_cmd c expect line = ((code, msg, res_of_cerr e), next c line rest).
Proof.
  intros R Hr. unfold c_cmd. rewrite printf_line_ready by exact R.
  unfold c_read. change (c_in (wrote c (line ++ crlf))) with (c_in c). rewrite Hr. reflexivity.
Qed.

Lemma next_facts c line rest :
  io_ready c ->
  io_ready (next c line rest) /\ c_in (next c line rest) = rest
  /\ c_out (next c line rest) = c_out c ++ line ++ crlf
  /\ (hello_done c -> hello_done (next c line rest)).
Proof.
  intros R. split; [apply io_ready_step; exact R|]. unfold next, wrote, hello_done. csimpl. tauto.
Qed.

(* a reply read with expectCode 0 (what Auth uses): never an error *)
Definition reads0 (s : bytes) (code : Z) (msg : bytes) (s' : bytes) : Prop :=
  client_read_response 0 s = ((code, msg, CNil), s').

(* the server sends the challenges [chs], each as a 334 reply whose text is
   base64 for it *)
Fixpoint serves334 (chs : list bytes) (s s' : bytes) : Prop :=
  match chs with
  | [] => s = s'
  | ch :: r => exists m s1, reads0 s 334 m s1 /\ b64_decode m = Some ch /\ serves334 r s1 s'
  end.

Definition resp_step (p : bytes * bytes) : cstep := CResp (Some (snd p)).

(* n rounds (challenge_i, response_i): the loop comes back to its entry with
   exactly the responses written and exactly the challenges handed over *)
Lemma auth_rounds rounds : forall c line got steps' sN,
  io_ready c -> serves334 (map fst rounds) (c_in c) sN ->
  exists cN lineN,
    auth_from c line (map resp_step rounds ++ steps') got
    = auth_from cN lineN steps' (got ++ map fst rounds)
    /\ io_ready cN /\ c_in cN = sN
    /\ c_out cN ++ lineN ++ crlf
       = c_out c ++ lines (line :: map (fun p => b64_encode (snd p)) rounds)
    /\ (hello_done c -> hello_done cN).
Proof.
  induction rounds as [|[ch r] rounds IH]; intros c line got steps' sN R S.
  - cbn [map serves334] in S. subst sN. exists c, line. cbn [map app]. rewrite app_nil_r, lines_one.
    split; [reflexivity|]. split; [exact R|]. split; [reflexivity|]. split; [reflexivity|]. intros X; exact X.
  - cbn [map fst serves334] in S. destruct S as (m & s1 & Hr & Hd & S).
    destruct (next_facts c line s1 R) as (R1 & I1 & O1 & H1).
    rewrite <- I1 in S.
    destruct (IH (next c line s1) (b64_encode r) (got ++ [ch]) steps' sN R1 S)
      as (cN & lineN & E & RN & IN & ON & HN).
    exists cN, lineN. split.
    + cbn [map app resp_step snd]. unfold auth_from at 1.
      rewrite (c_cmd_ready c 0 line 334 m CNil s1 R Hr). cbn [res_of_cerr].
      change (resp_step (ch, r)) with (CResp (Some r)).
      rewrite (auth_loop_resp _ _ _ _ ch _ Hd). rewrite E, <- app_assoc. reflexivity.
    + split; [exact RN|]. split; [exact IN|]. split; [|tauto].
      rewrite ON, O1. cbn [map snd]. unfold lines. cbn [flat_map]. rewrite <- !app_assoc. reflexivity.
Qed.

(* the three ways the exchange ends *)
Lemma auth_end_ok c line steps got msg s' :
  io_ready c -> reads0 (c_in c) 235 msg s' ->
  auth_from c line steps got = (RNil, got, next c line s').
Proof.
  intros R Hr. unfold auth_from. rewrite (c_cmd_ready c 0 line 235 msg CNil s' R Hr). cbn [res_of_cerr].
  destruct steps; reflexivity.
Qed.

Lemma auth_abort_ready c e rest :
  io_ready c -> reads (c_in c) 501 e rest -> auth_abort c = next c (bs "*") rest.
Proof.
  intros R (code & msg & Hr). unfold auth_abort. rewrite (c_cmd_ready c 501 (bs "*") code msg e rest R Hr).
  reflexivity.
Qed.

Lemma auth_end_fail c line steps got code msg s1 e2 s2 :
  io_ready c -> reads0 (c_in c) code msg s1 -> code <> 334%Z -> code <> 235%Z ->
  reads s1 501 e2 s2 ->
  auth_from c line steps got
  = (let '(a, b, d) := to_smtp_err code msg in RSmtp a b d, got, next (next c line s1) (bs "*") s2).
Proof.
  intros R Hr N1 N2 Ha. unfold auth_from. rewrite (c_cmd_ready c 0 line code msg CNil s1 R Hr).
  cbn [res_of_cerr]. destruct (next_facts c line s1 R) as (R1 & I1 & _).
  assert (X : forall st, auth_loop st (next c line s1) code msg got
              = (let '(a, b, d) := to_smtp_err code msg in RSmtp a b d, got, next (next c line s1) (bs "*") s2)).
  { intros st. rewrite <- I1 in Ha.
    destruct st; cbn [auth_loop];
      (destruct (code =? 334)%Z eqn:E1; [apply Z.eqb_eq in E1; contradiction|]);
      (destruct (code =? 235)%Z eqn:E2; [apply Z.eqb_eq in E2; contradiction|]);
      destruct (to_smtp_err code msg) as [[a b] d]; rewrite (auth_abort_ready _ e2 s2 R1 Ha); reflexivity. }
  apply X.
Qed.

Lemma auth_end_mech_error c line t steps got m ch s1 e2 s2 :
  io_ready c -> reads0 (c_in c) 334 m s1 -> b64_decode m = Some ch ->
  reads s1 501 e2 s2 ->
  auth_from c line (CErr t :: steps) got
  = (RLocal t, got ++ [ch], next (next c line s1) (bs "*") s2).
Proof.
  intros R Hr Hd Ha. unfold auth_from. rewrite (c_cmd_ready c 0 line 334 m CNil s1 R Hr).
  cbn [res_of_cerr auth_loop]. change (334 =? 334)%Z with true. cbv iota. rewrite Hd.
  destruct (next_facts c line s1 R) as (R1 & I1 & _). rewrite <- I1 in Ha.
  rewrite (auth_abort_ready _ e2 s2 R1 Ha). reflexivity.
Qed.

Definition b64_lines (rounds : list (bytes * bytes)) : list bytes :=
  map (fun p => b64_encode (snd p)) rounds.

(* C09, client half.  Auth over an ideal wire, for every client script and
   every server behaviour of the following shape: n >= 0 rounds in which the
   server sends a challenge ch_i (as "334 base64(ch_i)") and the mechanism
   answers r_i - any octet strings, empty and binary included - and then one
   of three endings.  In all of them:
   - the lines written are exactly "AUTH mech [base64(ir) | =]", then
     base64(r_i) per round (and nothing else until the ending);
   - the mechanism's Next receives exactly the challenges, i.e. the
     base64-decoding of the 334 texts, in order;
   and
   (a) final 235: Auth returns nil;
   (b) a final reply other than 334 / 235 (535, ...): Auth returns exactly
       that reply as SMTPError (and sends "*", as the pinned test
       TestAuthFailed requires, consuming the reply to it);
   (c) the mechanism fails on a challenge: exactly one "*" line is written,
       its reply consumed, the mechanism's error returned;
   and afterwards the client is in command mode (io_ready, hello_done: the
   next method writes its command and reads the next reply - cmd_err_ready). *)
Theorem C09_client_faithful c s rounds steps' sN :
  io_ready c -> hello_done c -> cs_start_err s = None ->
  cs_steps s = map resp_step rounds ++ steps' ->
  serves334 (map fst rounds) (c_in c) sN ->
  let sent := auth_line s :: b64_lines rounds in
  let got := map fst rounds in
  (forall msg s', reads0 sN 235 msg s' ->
     exists c', c_auth c s = (RNil, got, c')
       /\ c_out c' = c_out c ++ lines sent /\ c_in c' = s' /\ io_ready c' /\ hello_done c')
  /\ (forall code msg s1 e2 s2,
        reads0 sN code msg s1 -> code <> 334%Z -> code <> 235%Z -> reads s1 501 e2 s2 ->
        exists c', c_auth c s = (let '(a, b, d) := to_smtp_err code msg in RSmtp a b d, got, c')
          /\ c_out c' = c_out c ++ lines (sent ++ [bs "*"]) /\ c_in c' = s2
          /\ io_ready c' /\ hello_done c')
  /\ (forall t rest' m ch s1 e2 s2,
        steps' = CErr t :: rest' -> reads0 sN 334 m s1 -> b64_decode m = Some ch ->
        reads s1 501 e2 s2 ->
        exists c', c_auth c s = (RLocal t, got ++ [ch], c')
          /\ c_out c' = c_out c ++ lines (sent ++ [bs "*"]) /\ c_in c' = s2
          /\ io_ready c' /\ hello_done c').
Proof.
  intros R H Hs Hst S. cbv zeta.
  assert (Ea : c_auth c s = auth_from c (auth_line s) (map resp_step rounds ++ steps') []).
  { unfold c_auth. rewrite c_hello_done by exact H. rewrite c_auth_step_from by exact Hs.
    rewrite Hst. reflexivity. }
  destruct (auth_rounds rounds c (auth_line s) [] steps' sN R S) as (cN & lineN & E & RN & IN & ON & HN).
  cbn [app] in E. rewrite Ea, E. clear Ea E.
  fold (b64_lines rounds) in ON.
  split; [|split].
  - intros msg s' Hr. rewrite <- IN in Hr.
    rewrite (auth_end_ok cN lineN steps' _ msg s' RN Hr).
    destruct (next_facts cN lineN s' RN) as (R1 & I1 & O1 & H1).
    eexists. split; [reflexivity|]. split; [rewrite O1, ON; reflexivity|].
    split; [exact I1|]. split; [exact R1|apply H1, HN, H].
  - intros code msg s1 e2 s2 Hr N1 N2 Ha. rewrite <- IN in Hr.
    rewrite (auth_end_fail cN lineN steps' _ code msg s1 e2 s2 RN Hr N1 N2 Ha).
    destruct (next_facts cN lineN s1 RN) as (R1 & I1 & O1 & H1).
    destruct (next_facts _ (bs "*") s2 R1) as (R2 & I2 & O2 & H2).
    eexists. split; [reflexivity|]. split.
    { rewrite O2, O1, ON, lines_app, lines_one, <- app_assoc. reflexivity. }
    split; [exact I2|]. split; [exact R2|apply H2, H1, HN, H].
  - intros t rest' m ch s1 e2 s2 -> Hr Hd Ha. rewrite <- IN in Hr.
    rewrite (auth_end_mech_error cN lineN t rest' _ m ch s1 e2 s2 RN Hr Hd Ha).
    destruct (next_facts cN lineN s1 RN) as (R1 & I1 & O1 & H1).
    destruct (next_facts _ (bs "*") s2 R1) as (R2 & I2 & O2 & H2).
    eexists. split; [reflexivity|]. split.
    { rewrite O2, O1, ON, lines_app, lines_one, <- app_assoc. reflexivity. }
    split; [exact I2|]. split; [exact R2|apply H2, H1, HN, H].
Qed.

(* the hypotheses are satisfiable: a single-line reply "code text CRLF" *)
Lemma reads0_wire code text rest :
  (100 <= code <= 999)%Z -> mem_byte LF text = false ->
  reads0 (dec_of_Z code ++ " " :: text ++ crlf ++ rest) code text rest.
Proof.
  intros Hc Ht. unfold reads0, client_read_response, read_response.
  assert (E : dec_of_Z code ++ " " :: text ++ crlf ++ rest
              = (dec_of_Z code ++ " " :: text) ++ crlf ++ rest).
  { rewrite <- app_assoc. reflexivity. }
  rewrite E. rewrite read_line_crlf.
  - rewrite parse_code_line_code by (try assumption; left; reflexivity).
    change (Ascii.eqb " " "-") with false. cbv iota. rewrite expect_mismatch_0. reflexivity.
  - rewrite mem_byte_app. cbn [mem_byte]. rewrite Ht.
    rewrite (forallb_not_mem zch LF (dec_of_Z code) (dec_of_Z_zch code) eq_refl). reflexivity.
Qed.

(* the server's challenges as go-smtp writes them: "334 " base64(challenge).
   The mechanism gets back exactly the challenge: b64_decode_encode. *)
Lemma serves334_wire chs rest :
  serves334 chs (flat_map (fun ch => bs "334 " ++ b64_encode ch ++ crlf) chs ++ rest) rest.
Proof.
  induction chs as [|ch r IH]; cbn [flat_map serves334 app]; [reflexivity|].
  exists (b64_encode ch), (flat_map (fun ch => bs "334 " ++ b64_encode ch ++ crlf) r ++ rest).
  split; [|split; [apply b64_decode_encode|exact IH]].
  pose proof (reads0_wire 334 (b64_encode ch)
                (flat_map (fun ch => bs "334 " ++ b64_encode ch ++ crlf) r ++ rest)
                ltac:(lia) (proj2 (b64_encode_no_crlf ch))) as H.
  rewrite <- !app_assoc. exact H.
Qed.

(* non-vacuity of C09_client_faithful: a two-round mechanism with an empty
   and a binary response, initial response "=", success *)
Example ex09 :
  let s := mkCS (bs "X") (Some []) None [CResp (Some []); CResp (Some [NUL; CR; LF; n_byte 255])] in
  let stream := bs "220 hi" ++ crlf ++ bs "250 srv" ++ crlf ++
                bs "334 " ++ b64_encode (bs "one") ++ crlf ++ bs "334 " ++ crlf ++
                bs "235 2.7.0 ok" ++ crlf ++ bs "250 next" ++ crlf in
  let '(r, got, c') := c_auth (new_client false stream None) s in
  (r, got, c_out c', c_in c')
  = (RNil, [bs "one"; []],
     bs "EHLO localhost" ++ crlf ++ bs "AUTH X =" ++ crlf ++ crlf ++ bs "AA0K/w==" ++ crlf,
     bs "250 next" ++ crlf).
Proof. vm_compute. reflexivity. Qed.

(* ... and a mechanism error after one round: one "*", then command mode *)
Example ex09_abort :
  let s := mkCS (bs "X") None None [CResp (Some (bs "r1")); CErr (bs "boom")] in
  let stream := bs "220 hi" ++ crlf ++ bs "250 srv" ++ crlf ++
                bs "334 " ++ b64_encode (bs "c1") ++ crlf ++ bs "334 " ++ b64_encode (bs "c2") ++ crlf ++
                bs "501 5.0.0 cancelled" ++ crlf ++ bs "250 next" ++ crlf in
  let '(r, got, c') := c_auth (new_client false stream None) s in
  let '(r2, c2) := c_noop c' in
  (r, got, skipn 16 (c_out c2), r2)
  = (RLocal (bs "boom"), [bs "c1"; bs "c2"],
     bs "AUTH X" ++ crlf ++ bs "cjE=" ++ crlf ++ bs "*" ++ crlf ++ bs "NOOP" ++ crlf, RNil).
Proof. vm_compute. reflexivity. Qed.

(* non-vacuity of C15: the initial state satisfies the hypotheses, and a
   hostile option value stays on one line *)
Example ex15_hypotheses lmtp s t : quiet (new_client lmtp s t) /\ clean (c_local (new_client lmtp s t)).
Proof. split; [right; split; reflexivity|clean_const]. Qed.

Example ex15_hostile :
  let stream := bs "220 hi" ++ crlf ++ bs "250-srv" ++ crlf ++ bs "250-DSN" ++ crlf ++
                bs "250 AUTH X" ++ crlf ++ bs "250 ok" ++ crlf in
  let evil := bs "x" ++ crlf ++ bs "RSET" in
  let '(r, c') := c_mail (new_client false stream None) (bs "a@b")
                    (Some (mkMO [] 0 false false [] [] (Some evil))) in
  (r, c_out c') = (RNil, bs "EHLO localhost" ++ crlf ++ bs "MAIL FROM:<a@b> AUTH=x+0D+0ARSET" ++ crlf).
Proof. vm_compute. reflexivity. Qed.

(* the hypotheses of C15_one_line are an invariant of the API: every command
   method re-establishes them (Data / LMTPData open a data writer when they
   succeed; its Close re-establishes them: dw_close_quiet) *)
Theorem C15_invariant c k :
  quiet c -> clean (c_local c) -> cmd_call k ->
  (forall a, line_arg k = Some a -> clean a) ->
  clean (c_local (snd (run_call c k)))
  /\ (match k with
      | KData | KLmtpData _ => r_err (fst (run_call c k)) <> RNil -> quiet (snd (run_call c k))
      | _ => quiet (snd (run_call c k))
      end).
Proof.
  intros Q CL Ck Ca. destruct k; cbn [cmd_call] in Ck; try contradiction; cbn [run_call ret].
  - destruct (c_hello_api c name) as [r c'] eqn:E. cbn [ret fst snd].
    destruct (c_hello_api_ext c name r c' Q (Ca _ eq_refl) E) as (hl & _ & Q' & [L|L] & _).
    + split; [rewrite L; exact CL|exact Q'].
    + split; [rewrite L; apply Ca; reflexivity|exact Q'].
  - destruct (c_verify c addr) as [r c'] eqn:E. cbn [ret fst snd].
    destruct (c_verify_ext c addr r c' Q (Ca _ eq_refl) E) as (hl & own & (_ & Q' & L & _) & _).
    split; [rewrite L; exact CL|exact Q'].
  - destruct (c_mail c from opts) as [r c'] eqn:E. cbn [ret fst snd].
    destruct (c_mail_ext c from opts r c' Q (Ca _ eq_refl) E) as (hl & own & (_ & Q' & L & _) & _).
    split; [rewrite L; exact CL|exact Q'].
  - destruct (c_rcpt c to opts) as [r c'] eqn:E. cbn [ret fst snd].
    destruct (c_rcpt_ext c to opts r c' Q (Ca _ eq_refl) E) as [(e & _ & _ & ->)|(ps & own & _ & (_ & Q' & L & _) & _)].
    + split; assumption.
    + split; [rewrite L; exact CL|exact Q'].
  - destruct (c_data c) as [r c'] eqn:E. cbn [ret fst snd r_err].
    destruct (c_data_ext c r c' Q E) as (own & _ & _ & L & _ & Q').
    split; [rewrite L; exact CL|exact Q'].
  - destruct (c_lmtp_data c cb) as [r c'] eqn:E. cbn [ret fst snd r_err].
    destruct (c_lmtp_data_ext c cb r c' Q E) as (own & _ & _ & L & _ & Q').
    split; [rewrite L; exact CL|exact Q'].
  - destruct (c_reset c) as [r c'] eqn:E. cbn [ret fst snd].
    destruct (c_reset_ext c r c' Q E) as (hl & own & (_ & Q' & L & _) & _).
    split; [rewrite L; exact CL|exact Q'].
  - destruct (c_noop c) as [r c'] eqn:E. cbn [ret fst snd].
    destruct (c_noop_ext c r c' Q E) as (hl & own & (_ & Q' & L & _) & _).
    split; [rewrite L; exact CL|exact Q'].
  - destruct (c_quit c) as [r c'] eqn:E. cbn [ret fst snd].
    destruct (c_quit_ext c r c' Q E) as (hl & own & (_ & Q' & L & _) & _).
    split; [rewrite L; exact CL|exact Q'].
  - destruct (c_auth c s) as [[r got] c'] eqn:E. cbn [ret fst snd].
    destruct (c_auth_ext c s r got c' Q E) as (hl & own & (_ & Q' & L & _) & _).
    split; [rewrite L; exact CL|exact Q'].
  - destruct (c_extension c name) as [x c'] eqn:E. cbn [ret fst snd].
    destruct (c_extension_ext c name x c' Q E) as (hl & (_ & Q' & L & _) & _).
    split; [rewrite L; exact CL|exact Q'].
Qed.

Print Assumptions C15_invariant.
Print Assumptions C15_one_line.
Print Assumptions C15_invalid_argument.
Print Assumptions C15_only_negotiated_mail.
Print Assumptions C15_only_negotiated_rcpt.
Print Assumptions C15_requested_not_offered.
Print Assumptions C15_body_not_offered.
Print Assumptions C15_body_param_licensed.
Print Assumptions C18_callbacks.
Print Assumptions C18_no_callback.
Print Assumptions C16_close_twice.
Print Assumptions C16_close_verdict_smtp.
Print Assumptions C16_close_verdict_lmtp.
Print Assumptions C10_client_no_downgrade.
Print Assumptions C10_client_needs_offer_and_220.
Print Assumptions C10_client_not_offered.
Print Assumptions C10_client_rehello.
Print Assumptions C09_client_faithful.
