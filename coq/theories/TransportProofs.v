(* Lemmas about the transport: on a schedule on which the line limiter stays
   quiet, the consumer sees exactly the concatenated stream. *)
From Smtp Require Import Bytes Transport.
Local Open Scope N_scope.

Lemma lim_ok_zero cur rs : lim_ok 0 cur rs = true.
Proof. destruct rs as [|[c d|e] r]; reflexivity. Qed.

Lemma lim_scan_bound limit cur d cur' :
  lim_scan limit cur d = (false, cur') -> cur <= limit -> cur' <= limit.
Proof.
  revert cur; induction d as [|c r IH]; intros cur H Hc; cbn in H.
  - inversion H; subst; exact Hc.
  - destruct (limit <? (if Ascii.eqb c LF then 0 else cur) + 1) eqn:E; [discriminate|].
    apply N.ltb_ge in E. eapply IH; eauto.
Qed.

Lemma too_long_b_false_iff limit cur :
  too_long_b limit cur = false <-> (limit = 0 \/ cur <= limit).
Proof.
  unfold too_long_b. split.
  - intros H. apply andb_false_iff in H as [H|H].
    + left. apply N.ltb_ge in H. lia.
    + right. apply N.ltb_ge in H. exact H.
  - intros [H|H].
    + subst. reflexivity.
    + apply andb_false_iff. right. apply N.ltb_ge. exact H.
Qed.

Lemma tstream_set_buf t b : tstream (set_buf t b) = b ++ raws_bytes (t_raw t).
Proof. reflexivity. Qed.

(* ReadByte on a transparent transport with a non-empty future stream *)
Lemma read_byte_cons t c s :
  transparent t -> tstream t = c :: s ->
  exists t', t_read_byte t = (inl c, t') /\ tstream t' = s /\ transparent t' /\
             tterm t' = tterm t /\ t_limit t' = t_limit t.
Proof.
  intros (Hcl & Htl & Hok) Hs. unfold t_read_byte, tstream in *.
  destruct (t_buf t) as [|x b] eqn:Eb.
  - cbn in Hs. destruct (t_raw t) as [|[c0 d|e] r] eqn:Er; cbn in Hs; try discriminate.
    inversion Hs; subst c0 s; clear Hs.
    unfold raw_read. rewrite Htl, Hcl, Er.
    destruct (t_limit t =? 0) eqn:El.
    + eexists. split; [reflexivity|]. cbn.
      split; [reflexivity|]. split; [|split; [unfold tterm; cbn; rewrite Er; reflexivity|reflexivity]].
      unfold transparent; cbn. split; [exact Hcl|]. split; [exact Htl|].
      apply N.eqb_eq in El. rewrite El. apply lim_ok_zero.
    + cbn [lim_ok] in Hok. rewrite El in Hok.
      destruct (lim_scan (t_limit t) (t_cur t) (c :: d)) as [tr cur'] eqn:Esc.
      destruct tr; [discriminate|].
      eexists. split; [reflexivity|]. cbn.
      split; [reflexivity|]. split; [|split; [unfold tterm; cbn; rewrite Er; reflexivity|reflexivity]].
      unfold transparent; cbn. split; [exact Hcl|]. split; [|exact Hok].
      unfold too_long in *; cbn. apply too_long_b_false_iff.
      apply too_long_b_false_iff in Htl. destruct Htl as [Htl|Htl].
      * apply N.eqb_neq in El. contradiction.
      * right. eapply lim_scan_bound; eauto.
  - cbn in Hs. inversion Hs; subst x s.
    eexists. split; [reflexivity|]. cbn.
    split; [reflexivity|]. split; [|split; reflexivity].
    unfold transparent; cbn. auto.
Qed.

(* ReadByte when the future stream is empty: the schedule's failure *)
Lemma read_byte_nil t :
  transparent t -> tstream t = [] ->
  exists t', t_read_byte t = (inr (tterm t), t') /\ t_buf t' = [] /\ t_limit t' = t_limit t.
Proof.
  intros (Hcl & Htl & Hok) Hs. unfold t_read_byte, tstream, tterm in *.
  destruct (t_buf t) as [|x b] eqn:Eb; [|discriminate].
  cbn in Hs. unfold raw_read. rewrite Htl, Hcl.
  destruct (t_raw t) as [|[c0 d|e] r] eqn:Er; cbn in Hs; try discriminate.
  - eexists; split; [reflexivity|]. split; [exact Eb|reflexivity].
  - eexists; split; [reflexivity|]. split; [cbn; exact Eb|reflexivity].
Qed.

Lemma unread_stream c t : tstream (t_unread_byte c t) = c :: tstream t.
Proof. reflexivity. Qed.

Lemma unread_transparent c t : transparent t -> transparent (t_unread_byte c t).
Proof. intros (A & B & C). repeat split; assumption. Qed.

Lemma unread_term c t : tterm (t_unread_byte c t) = tterm t.
Proof. reflexivity. Qed.

Lemma transparent_b_spec t : transparent_b t = true <-> transparent t.
Proof.
  unfold transparent_b, transparent. split.
  - intros H. apply andb_true_iff in H as [H H3]. apply andb_true_iff in H as [H1 H2].
    apply negb_true_iff in H1, H2. auto.
  - intros (A & B & C). rewrite A, B, C. reflexivity.
Qed.
