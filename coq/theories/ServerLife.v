(* ServerLife.v - executable model of the life cycle of smtp.Server
   (server.go: Serve's accept loop with back-off, Close, Shutdown).

   One listener, one running Serve.  The operations are the events a test
   driver (harness/genlife.go) can script, each run to quiescence:

     OAccept AConn   Accept returns a connection: wg.Add(1), go handleConn
     ORegister k     the handler goroutine of connection k takes s.locker and
                     registers the connection in s.conns (then greets) - or,
                     if s.done is closed, closes the connection and returns
     OAccept ATemp   Accept fails with a net.Error whose Temporary() is true:
                     Serve sleeps tempDelay and retries
     OAccept APerm   Accept fails with any other error: Serve returns it
     OClose          s.Close()
     OShutdown       s.Shutdown(ctx) is called (it may block)
     OFinish k       the peer of connection k disconnects: its handler ends
     OExpire         the context of the blocked Shutdown expires

   The listener's Close may return an error (field lis_err, a parameter of
   the run: e.g. the application has closed the listener itself).  Close and
   Shutdown remember the first such error, carry on - Close closes every
   registered connection, Shutdown waits for the handlers - and return it at
   the end (RListenerErr) in place of nil.

   Modelled as written: tempDelay is NOT reset by a successful Accept; the
   `select <-s.done` test comes before the Temporary() test; Shutdown waits
   for the handlers (s.wg), not for s.conns.

   Close closes the connections that are registered in s.conns.  A
   connection whose handler has been spawned but has not registered it yet
   (state CSpawned: the window between Accept's return and
   `s.locker.Lock(); s.conns[c] = ...` in handleConn) is not in s.conns; its
   handler tests s.done under s.locker BEFORE registering and, when Close or
   Shutdown has begun, closes the connection and returns without greeting it
   (ORegister on a state whose `done` is set: CClosedByServer; the handler's
   deferred wg.Done() can release a blocked Shutdown).  Before the repair of
   DESIGN F28 that connection was registered and served on a closed server.

   Close/Shutdown are atomic steps here.  That is what the code implements
   since the repair of DESIGN F21: the test of s.done and close(s.done) are
   done while holding s.locker, which Close keeps until it has closed the
   listeners and the registered connections (Shutdown: the listeners), and
   which handleConn takes to test s.done and register - so every
   registration is entirely before or entirely after a Close, and of two
   concurrent Close/Shutdown calls exactly one finds s.done open. *)
From Coq Require Import List Arith NArith Bool Lia.
Import ListNotations.
Local Open Scope N_scope.

Inductive accept_res := AConn | ATemp | APerm.
Inductive op :=
| OAccept (r : accept_res) | ORegister (k : nat) | OClose | OShutdown | OFinish (k : nat) | OExpire.

(* return values: nil, ErrServerClosed, ctx.Err(), the Accept error, the
   error the listener's Close returned *)
Inductive ret := RNil | RServerClosed | RCtxErr | RAcceptErr | RListenerErr.

(* spawned (handler not yet registered) / registered and served / closed by
   the server (Server.Close, or its own handler finding s.done closed) /
   ended because the peer left *)
Inductive cstate := CSpawned | COpen | CClosedByServer | CFinished.

Inductive obs :=
| BSkip                 (* not applicable: Serve has returned / nothing pending *)
| BAccepted             (* a handler runs for the new connection *)
| BDelay (d : N)        (* Serve slept d milliseconds and called Accept again *)
| BServeRet (r : ret)   (* Serve returned r *)
| BRet (r : ret)        (* the Close / Shutdown call returned r *)
| BPending              (* the Shutdown call blocks *)
| BShutdownRet (r : ret)(* the blocked Shutdown call returned r *)
| BNone.                (* nothing observable besides the state change *)

Record st := mkSt {
  serving : bool;             (* Serve is running *)
  serve_ret : option ret;     (* what Serve returned *)
  done : bool;                (* s.done is closed *)
  lis_closed : bool;          (* the listener has been closed *)
  delay : N;                  (* tempDelay, milliseconds *)
  sleeps : list N;            (* the sleeps Serve performed, in order *)
  conns : list cstate;        (* the accepted connections, in order *)
  sd_pending : bool;          (* a Shutdown call is blocked *)
  lis_err : bool              (* the listener's Close returns an error (a fixed
                                 parameter of a run: no operation changes it) *)
}.

(* Serve(l) has been called and sits in Accept; e: the listener's Close will
   return an error *)
Definition init_e (e : bool) : st := mkSt true None false false 0 [] [] false e.
Definition init : st := init_e false.

(* what the first Close / Shutdown returns when it is not cut short by the
   context: "any error returned from closing the server's underlying
   listener(s)" - the error is remembered, everything else is done as without
   it (Close goes on to close the connections, Shutdown goes on to wait) *)
Definition ok_ret (s : st) : ret := if lis_err s then RListenerErr else RNil.

Definition next_delay (d : N) : N :=
  if d =? 0 then 5 else N.min (2 * d) 1000.

(* counted by s.wg: the handler goroutine exists and has not returned *)
Definition is_open (c : cstate) : bool := match c with COpen | CSpawned => true | _ => false end.
Definition open_count (s : st) : nat := List.length (filter is_open (conns s)).
Definition close_all (l : list cstate) : list cstate :=
  map (fun c => match c with COpen => CClosedByServer | c => c end) l.

Fixpoint set_nth (k : nat) (v : cstate) (l : list cstate) : list cstate :=
  match l, k with
  | [], _ => []
  | _ :: r, O => v :: r
  | c :: r, S k' => c :: set_nth k' v r
  end.

(* Serve's reaction to closing the listener: Accept fails, done is closed,
   Serve returns nil *)
Definition stop_serve (s : st) : bool * option ret :=
  if serving s then (false, Some RNil) else (false, serve_ret s).

Definition step (s : st) (o : op) : st * obs :=
  match o with
  | OAccept r =>
      if serving s && negb (lis_closed s) then
        match r with
        | AConn =>
            (mkSt true (serve_ret s) (done s) (lis_closed s) (delay s) (sleeps s)
                  (conns s ++ [CSpawned]) (sd_pending s) (lis_err s), BAccepted)
        | ATemp =>
            if done s then
              (mkSt false (Some RNil) (done s) (lis_closed s) (delay s) (sleeps s)
                    (conns s) (sd_pending s) (lis_err s), BServeRet RNil)
            else
              let d := next_delay (delay s) in
              (mkSt true (serve_ret s) (done s) (lis_closed s) d (sleeps s ++ [d])
                    (conns s) (sd_pending s) (lis_err s), BDelay d)
        | APerm =>
            let r := if done s then RNil else RAcceptErr in
            (mkSt false (Some r) (done s) (lis_closed s) (delay s) (sleeps s)
                  (conns s) (sd_pending s) (lis_err s), BServeRet r)
        end
      else (s, BSkip)
  | ORegister k =>
      match nth_error (conns s) k with
      | Some CSpawned =>
          if done s then
            (* the server is closed: the handler ends the connection
               unregistered and ungreeted, and returns (wg.Done) *)
            let cs := set_nth k CClosedByServer (conns s) in
            let s' := mkSt (serving s) (serve_ret s) (done s) (lis_closed s) (delay s)
                           (sleeps s) cs (sd_pending s) (lis_err s) in
            if sd_pending s && (open_count s' =? 0)%nat then
              (mkSt (serving s) (serve_ret s) (done s) (lis_closed s) (delay s)
                    (sleeps s) cs false (lis_err s), BShutdownRet (ok_ret s))
            else (s', BNone)
          else
            (mkSt (serving s) (serve_ret s) (done s) (lis_closed s) (delay s) (sleeps s)
                  (set_nth k COpen (conns s)) (sd_pending s) (lis_err s), BNone)
      | _ => (s, BSkip)
      end
  | OClose =>
      if done s then (s, BRet RServerClosed)
      else
        let '(sv, sr) := stop_serve s in
        (mkSt sv sr true true (delay s) (sleeps s) (close_all (conns s)) (sd_pending s) (lis_err s),
         BRet (ok_ret s))
  | OShutdown =>
      if done s then (s, BRet RServerClosed)
      else
        let '(sv, sr) := stop_serve s in
        if (open_count s =? 0)%nat then
          (mkSt sv sr true true (delay s) (sleeps s) (conns s) false (lis_err s), BRet (ok_ret s))
        else
          (mkSt sv sr true true (delay s) (sleeps s) (conns s) true (lis_err s), BPending)
  | OFinish k =>
      match nth_error (conns s) k with
      | Some COpen =>
          let cs := set_nth k CFinished (conns s) in
          let s' := mkSt (serving s) (serve_ret s) (done s) (lis_closed s) (delay s)
                         (sleeps s) cs (sd_pending s) (lis_err s) in
          if sd_pending s && (open_count s' =? 0)%nat then
            (mkSt (serving s) (serve_ret s) (done s) (lis_closed s) (delay s)
                  (sleeps s) cs false (lis_err s), BShutdownRet (ok_ret s))
          else (s', BNone)
      | _ => (s, BSkip)
      end
  | OExpire =>
      if sd_pending s then
        (mkSt (serving s) (serve_ret s) (done s) (lis_closed s) (delay s) (sleeps s)
              (conns s) false (lis_err s), BShutdownRet RCtxErr)
      else (s, BSkip)
  end.

Fixpoint run (s : st) (l : list op) : st * list obs :=
  match l with
  | [] => (s, [])
  | o :: r =>
      let '(s1, b) := step s o in
      let '(s2, bs) := run s1 r in
      (s2, b :: bs)
  end.

Definition run_st (s : st) (l : list op) : st := fst (run s l).

(* the delays of n consecutive temporary errors, starting from tempDelay d *)
Fixpoint delays_from (d : N) (n : nat) : list N :=
  match n with
  | O => []
  | S n' => next_delay d :: delays_from (next_delay d) n'
  end.
