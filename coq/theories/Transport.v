(* The byte transport under the server: net.Conn raw reads -> lineLimitReader
   -> bufio.Reader, restricted to the operations go-smtp uses.

   The network schedule is explicit: [t_raw] is the list of results the
   future calls of net.Conn.Read will return (as logged by the harness'
   scriptConn, i.e. after truncation to the requested length).  Nothing here
   depends on buffer capacities. *)
From Smtp Require Import Bytes.
Local Open Scope N_scope.

Inductive terr := TEof | TTooLong | TTimeout | TNetErr | TClosed.

Definition terr_eqb (a b : terr) : bool :=
  match a, b with
  | TEof, TEof | TTooLong, TTooLong | TTimeout, TTimeout
  | TNetErr, TNetErr | TClosed, TClosed => true
  | _, _ => false
  end.

(* one result of net.Conn.Read: a non-empty chunk, or a failure *)
Inductive raw := RData (c : ascii) (d : bytes) | RFail (e : terr).

Record transport := mkT {
  t_buf : bytes;        (* octets buffered in bufio.Reader, not yet consumed *)
  t_raw : list raw;     (* results of the future raw reads *)
  t_cur : N;            (* lineLimitReader.curLineLength *)
  t_limit : N;          (* lineLimitReader.LineLimit, 0 = no limit *)
  t_closed : bool       (* the server closed the socket *)
}.

Definition set_buf (t : transport) (b : bytes) : transport :=
  mkT b (t_raw t) (t_cur t) (t_limit t) (t_closed t).
Definition set_raw_cur (t : transport) (r : list raw) (cur : N) : transport :=
  mkT (t_buf t) r cur (t_limit t) (t_closed t).
Definition set_limit (t : transport) (l : N) : transport :=
  mkT (t_buf t) (t_raw t) (t_cur t) l (t_closed t).
Definition set_closed (t : transport) : transport :=
  mkT (t_buf t) (t_raw t) (t_cur t) (t_limit t) true.

(* lineLimitReader.Read's scan of one chunk: (tripped, curLineLength after) *)
Fixpoint lim_scan (limit cur : N) (d : bytes) : bool * N :=
  match d with
  | [] => (false, cur)
  | c :: r =>
      let cur1 := (if Ascii.eqb c LF then 0 else cur) + 1 in
      if limit <? cur1 then (true, cur1) else lim_scan limit cur1 r
  end.

(* lineLimitReader.tooLong *)
Definition too_long_b (limit cur : N) : bool := (0 <? limit) && (limit <? cur).
Definition too_long (t : transport) : bool := too_long_b (t_limit t) (t_cur t).

(* one lineLimitReader.Read on top of net.Conn.Read *)
Definition raw_read (t : transport) : (bytes + terr) * transport :=
  if too_long t then (inr TTooLong, t)
  else if t_closed t then (inr TClosed, t)
  else match t_raw t with
       | [] => (inr TEof, t)
       | RFail e :: r => (inr e, set_raw_cur t r (t_cur t))
       | RData c d :: r =>
           if t_limit t =? 0 then (inl (c :: d), set_raw_cur t r (t_cur t))
           else let '(tr, cur') := lim_scan (t_limit t) (t_cur t) (c :: d) in
                if tr then (inr TTooLong, set_raw_cur t r cur')
                else (inl (c :: d), set_raw_cur t r cur')
       end.

(* bufio.Reader.ReadByte *)
Definition t_read_byte (t : transport) : (ascii + terr) * transport :=
  match t_buf t with
  | c :: b => (inl c, set_buf t b)
  | [] =>
      match raw_read t with
      | (inl (c :: d), t') => (inl c, set_buf t' d)
      | (inl [], t') => (inr TNetErr, t')  (* unreachable: chunks are non-empty *)
      | (inr e, t') => (inr e, t')
      end
  end.

(* bufio.Reader.UnreadByte after a successful ReadByte of c *)
Definition t_unread_byte (c : ascii) (t : transport) : transport :=
  set_buf t (c :: t_buf t).

(* bufio.ReadLine drops a final LF or CRLF of the slice it returns; [l] here is
   the line without its LF *)
Definition drop_cr (l : bytes) : bytes :=
  match rev l with
  | c :: r => if Ascii.eqb c CR then rev r else l
  | [] => l
  end.

Definition partial_or_err (buf : bytes) (e : terr) : bytes + terr :=
  match buf with [] => inr e | _ => inl buf end.

(* textproto.Reader.ReadLine when the buffer [buf] holds no LF: pull raw
   results until an LF arrives or a read fails.  A failure with a non-empty
   partial line returns that partial line (bufio swallows the error). *)
Fixpoint rl_go (limit : N) (closed : bool) (raws : list raw) (cur : N) (buf : bytes)
  : (bytes + terr) * (bytes * list raw * N) :=
  if too_long_b limit cur then (partial_or_err buf TTooLong, ([], raws, cur))
  else if closed then (partial_or_err buf TClosed, ([], raws, cur))
  else match raws with
       | [] => (partial_or_err buf TEof, ([], [], cur))
       | RFail e :: r => (partial_or_err buf e, ([], r, cur))
       | RData c d :: r =>
           let '(tr, cur') :=
             if limit =? 0 then (false, cur) else lim_scan limit cur (c :: d) in
           if tr then (partial_or_err buf TTooLong, ([], r, cur'))
           else match cut_byte LF (c :: d) with
                | Some (l, rest) => (inl (drop_cr (buf ++ l)), (rest, r, cur'))
                | None => rl_go limit closed r cur' (buf ++ c :: d)
                end
       end.

Definition t_read_line (t : transport) : (bytes + terr) * transport :=
  match cut_byte LF (t_buf t) with
  | Some (l, rest) => (inl (drop_cr l), set_buf t rest)
  | None =>
      let '(res, (b, r, cur)) :=
        rl_go (t_limit t) (t_closed t) (t_raw t) (t_cur t) (t_buf t) in
      (res, mkT b r cur (t_limit t) (t_closed t))
  end.

(* io.Copy(dst, io.LimitReader(bufio.Reader, n)): consume up to n octets.
   Result: octets obtained, the error that stopped the copy early (None when
   all n octets were obtained; Some TEof when the source ended: io.Copy itself
   reports no error then), transport after. *)
Fixpoint cp_go (limit : N) (closed : bool) (raws : list raw) (cur : N) (n : N) (acc : bytes)
  : bytes * option terr * (bytes * list raw * N) :=
  if n =? 0 then (acc, None, ([], raws, cur))
  else if too_long_b limit cur then (acc, Some TTooLong, ([], raws, cur))
  else if closed then (acc, Some TClosed, ([], raws, cur))
  else match raws with
       | [] => (acc, Some TEof, ([], [], cur))
       | RFail e :: r => (acc, Some e, ([], r, cur))
       | RData c d :: r =>
           let '(tr, cur') :=
             if limit =? 0 then (false, cur) else lim_scan limit cur (c :: d) in
           if tr then (acc, Some TTooLong, ([], r, cur'))
           else let '(a, b, m) := take_N n (c :: d) in
                if m =? 0 then (acc ++ a, None, (b, r, cur'))
                else cp_go limit closed r cur' m (acc ++ a)
       end.

Definition t_copy_n (n : N) (t : transport) : bytes * option terr * transport :=
  let '(a, b, m) := take_N n (t_buf t) in
  if m =? 0 then (a, None, set_buf t b)
  else
    let '(got, e, (b', r, cur)) :=
      cp_go (t_limit t) (t_closed t) (t_raw t) (t_cur t) m a in
    (got, e, mkT b' r cur (t_limit t) (t_closed t)).

(* ---- views used by the theorems ---- *)

(* the octets the raw schedule delivers before its first failure, and that
   failure (the end of the script is an EOF) *)
Fixpoint raws_bytes (rs : list raw) : bytes :=
  match rs with
  | [] => []
  | RData c d :: r => c :: d ++ raws_bytes r
  | RFail _ :: _ => []
  end.

Fixpoint raws_term (rs : list raw) : terr :=
  match rs with
  | [] => TEof
  | RData _ _ :: r => raws_term r
  | RFail e :: _ => e
  end.

Fixpoint raws_after (rs : list raw) : list raw :=
  match rs with
  | [] => []
  | RData _ _ :: r => raws_after r
  | RFail _ :: r => r
  end.

(* limiter never trips on this schedule *)
Fixpoint lim_ok (limit cur : N) (rs : list raw) : bool :=
  match rs with
  | [] => true
  | RFail _ :: _ => true
  | RData c d :: r =>
      if limit =? 0 then true
      else let '(tr, cur') := lim_scan limit cur (c :: d) in
           if tr then false else lim_ok limit cur' r
  end.


(* what a consumer will see on a transport whose limiter stays quiet *)
Definition tstream (t : transport) : bytes := t_buf t ++ raws_bytes (t_raw t).
Definition tterm (t : transport) : terr := raws_term (t_raw t).
Definition transparent (t : transport) : Prop :=
  t_closed t = false /\ too_long t = false /\ lim_ok (t_limit t) (t_cur t) (t_raw t) = true.
Definition transparent_b (t : transport) : bool :=
  negb (t_closed t) && negb (too_long t) && lim_ok (t_limit t) (t_cur t) (t_raw t).
