#!/bin/bash
# confirm_seed.sh <srcdir with patch.diff demo_test.go NOTES.md> <seed-id> <property>
# Confirms in a scratch worktree: suite passes with patch, demo fails with patch, demo passes without.
set -u
src=$1; id=$2; prop=$3
export GOFLAGS=-mod=mod GOPROXY=off GOSUMDB=off GOTOOLCHAIN=local
wt=/tmp/confirm-$id
git -C /repo worktree remove --force $wt >/dev/null 2>&1
git -C /repo worktree add -q --detach $wt HEAD || exit 2
cd $wt
res_apply=fail; res_suite=fail; res_demo_with=unknown; res_demo_without=unknown
if git apply $src/patch.diff 2>/tmp/confirm-$id.err; then res_apply=ok; fi
if [ $res_apply = ok ]; then
  if go build ./... >/dev/null 2>&1 && go test -vet=off -count=1 . >/tmp/confirm-$id.suite 2>&1; then res_suite=pass; fi
  cp $src/demo_test.go zz_demo_test.go
  pkg=$(grep -m1 '^package' zz_demo_test.go | awk '{print $2}')
  if go test -vet=off -count=1 -run 'Demo|ZZ|Zz' . >/tmp/confirm-$id.with 2>&1; then res_demo_with=pass; else res_demo_with=fail; fi
  git checkout -q -- .
  if go test -vet=off -count=1 -run 'Demo|ZZ|Zz' . >/tmp/confirm-$id.without 2>&1; then res_demo_without=pass; else res_demo_without=fail; fi
fi
cd /
git -C /repo worktree remove --force $wt >/dev/null 2>&1
echo "$id prop=$prop apply=$res_apply suite_with_patch=$res_suite demo_with_patch=$res_demo_with demo_without_patch=$res_demo_without"
if [ $res_apply = ok ] && [ $res_suite = pass ] && [ $res_demo_with = fail ] && [ $res_demo_without = pass ]; then
  mkdir -p /verif/seeded/$id
  cp $src/patch.diff /verif/seeded/$id/patch.diff
  cp $src/demo_test.go /verif/seeded/$id/demo_test.go
  cp $src/NOTES.md /verif/seeded/$id/NOTES.md
  exit 0
fi
exit 1
