(* Every trace of the server model is accepted by the monitor automaton of
   Order.v: refinement proof with an abstraction function from connection
   states to monitor states, one lemma per handler, induction on the fuel of
   the command loop. *)
From Smtp Require Import Bytes GoStrings Transport DataReader Parse Xtext Base64 Reply Rfc3339 Lmtp Conn Order OrderStrict.

(* ---------- abstraction ---------- *)

Definition is_some {A} (o : option A) : bool := match o with Some _ => true | None => false end.

Definition running (o : option bdat) : bool :=
  match o with
  | Some b => match bd_done b with None => true | Some _ => false end
  | None => false
  end.

Definition mk_abs (cl se tl fr : bool) (rc : list bytes) (bd : option bdat) (da mr po : bool) : smon :=
  (mkM cl se tl fr (List.length rc) (is_some bd) (running bd) mr po (da && se), false).

Definition absx (c : conn) (must_reset panic_ok : bool) : smon :=
  mk_abs (c_closed c) (c_session c) (c_tls c) (c_from c) (c_rcpts c) (c_bdat c) (c_did_auth c)
         must_reset panic_ok.

(* the invariant that holds between two commands *)
Definition Inv (c : conn) : Prop :=
  (c_closed c = false -> c_session c = false ->
     c_helo c = [] /\ c_from c = false /\ c_rcpts c = [] /\ c_did_auth c = false)
  /\ (c_session c = false -> c_bdat c = None)
  /\ (c_closed c = true -> c_session c = false).

Definition R (c : conn) (m : smon) : Prop :=
  if c_closed c then m_closed (fst m) = true /\ m_session (fst m) = false /\ m_running (fst m) = false
  else exists po, m = absx c false po.

Definition is_wire (e : event) : bool := match e with EWire _ => true | _ => false end.

Section WithCfg.
Variable cfg : config.

Definition Step (c c' : conn) (ev : list event) : Prop :=
  exists m', smon_run cfg (absx c false false) ev = Some m' /\ R c' m' /\ Inv c'.

Definition Good (c : conn) (r : hres) : Prop := Step c (fst r) (snd r).

Lemma mon_run_wires m l :
  forallb is_wire l = true -> m_closed (fst m) = false -> smon_run cfg m l = Some m.
Proof.
  intros Hw Hc. destruct m as [m ml]. cbn [fst] in Hc. induction l as [|e l IH]; [reflexivity|].
  cbn in Hw. apply andb_true_iff in Hw as [He Hl].
  destruct e; try discriminate. cbn. rewrite Hc. cbn. apply IH, Hl.
Qed.

Lemma status_reply_wire a e : is_wire (status_reply a e) = true.
Proof. unfold status_reply. destruct (data_error_to_status e) as [[? ?] ?]. reflexivity. Qed.

Lemma forallb_map_status_reply (f : bytes -> berr) l :
  forallb is_wire (map (fun a => status_reply a (f a)) l) = true.
Proof. induction l; cbn; [reflexivity|]. rewrite status_reply_wire. exact IHl. Qed.

Lemma forallb_map_status_reply2 (l : list (bytes * berr)) :
  forallb is_wire (map (fun '(a, e) => status_reply a e) l) = true.
Proof. induction l as [|[a e] l IH]; cbn; [reflexivity|]. rewrite status_reply_wire. exact IH. Qed.

(* ---------- the delivery of a chunked transfer ---------- *)

Lemma run_bd_finish cl se tl fr rc da mr po b term :
  bd_done b = None ->
  smon_run cfg (mk_abs cl se tl fr rc (Some b) da mr po) (snd (bd_finish b term))
  = Some (mk_abs cl se tl fr rc (Some (fst (bd_finish b term))) da mr (po || bd_panics b))
  /\ bd_done (fst (bd_finish b term)) <> None.
Proof.
  intros Hd. unfold bd_finish, mk_abs. cbn. rewrite Hd. cbn. split; [reflexivity|discriminate].
Qed.

Lemma run_bd_end cl se tl fr rc da mr po b term :
  exists po',
    smon_run cfg (mk_abs cl se tl fr rc (Some b) da mr po) (snd (bd_end b term))
    = Some (mk_abs cl se tl fr rc (Some (fst (bd_end b term))) da mr po')
    /\ bd_done (fst (bd_end b term)) <> None.
Proof.
  unfold bd_end. destruct (bd_done b) eqn:Hd.
  - exists po. cbn. rewrite Hd. split; [reflexivity|discriminate].
  - exists (po || bd_panics b). apply run_bd_finish, Hd.
Qed.

Lemma run_bd_feed cl se tl fr rc da mr po b chunk :
  exists po',
    smon_run cfg (mk_abs cl se tl fr rc (Some b) da mr po) (snd (fst (bd_feed b chunk)))
    = Some (mk_abs cl se tl fr rc (Some (fst (fst (bd_feed b chunk)))) da mr po').
Proof.
  unfold bd_feed. destruct chunk as [|x chunk]; [exists po; reflexivity|].
  destruct (bd_done b) eqn:Hd; [exists po; reflexivity|].
  destruct (dp_stop (bd_plan b)) as [k|].
  2:{ exists po. cbn. unfold mk_abs. cbn. rewrite Hd. reflexivity. }
  destruct (take_N _ _) as [[a ?] ?].
  destruct (_ <? _)%N.
  { exists po. cbn. unfold mk_abs. cbn. rewrite Hd. reflexivity. }
  set (b1 := mkBD _ _ _ _ _).
  assert (H1 : bd_done b1 = None) by reflexivity.
  assert (Hm : mk_abs cl se tl fr rc (Some b) da mr po = mk_abs cl se tl fr rc (Some b1) da mr po).
  { unfold mk_abs. cbn. rewrite Hd. reflexivity. }
  rewrite Hm.
  pose proof (run_bd_finish cl se tl fr rc da mr po b1 None H1) as [Hr _].
  destruct (bd_finish b1 None) as [b2 ev] eqn:Hf. cbn [fst snd] in *.
  exists (po || bd_panics b1).
  destruct (_ =? _)%N; cbn [fst snd]; exact Hr.
Qed.

Lemma run_bd_new tl rc da po p sp :
  rc <> [] ->
  exists po',
    smon_run cfg (mk_abs false true tl true rc None da false po) (snd (bd_new p rc sp))
    = Some (mk_abs false true tl true rc (Some (fst (bd_new p rc sp))) da false po').
Proof.
  intros Hrc. destruct rc as [|r0 rc]; [congruence|].
  unfold bd_new.
  set (b := mkBD _ _ _ _ _).
  assert (Hd : bd_done b = None) by reflexivity.
  assert (H0 : smon_run cfg (mk_abs false true tl true (r0 :: rc) None da false po) [EBdatStart]
               = Some (mk_abs false true tl true (r0 :: rc) (Some b) da false po)) by reflexivity.
  destruct (dp_stop p) as [[|k]|].
  - pose proof (run_bd_finish false true tl true (r0 :: rc) da false po b None Hd) as [Hr _].
    destruct (bd_finish b None) as [b' ev] eqn:Hf. cbn [fst snd] in *.
    exists (po || bd_panics b).
    change (EBdatStart :: ev) with ([EBdatStart] ++ ev). rewrite smon_run_app, H0. exact Hr.
  - exists po. exact H0.
  - exists po. exact H0.
Qed.

(* ---------- reset and Close in closed form ---------- *)

Definition abort_ev (bd : option bdat) : list event :=
  match bd with Some b => snd (bd_end b RDataReset) | None => [] end.
Definition abort_bd (bd : option bdat) : option bdat :=
  match bd with Some b => Some (fst (bd_end b RDataReset)) | None => None end.

Definition reset_c (c : conn) : conn :=
  mkC (c_t c) (c_phases c) (c_be c) (c_helo c) (c_session c) (c_errs c) (c_binarymime c) false []
      (c_did_auth c) (c_closed c) (c_tls c) None 0%Z.
Definition reset_ev (c : conn) : list event :=
  abort_ev (c_bdat c) ++ (if c_session c then [EReset] else []).

Lemma do_reset_eq c : do_reset c = (reset_c c, reset_ev c).
Proof.
  unfold do_reset, reset_c, reset_ev, abort_ev. destruct c as [t ph be h se er bm fr rc da cl tl bd rv].
  cbn. destruct bd as [b|]; [destruct (bd_end b RDataReset)|]; reflexivity.
Qed.

Definition close_c (c : conn) : conn :=
  mkC (set_closed (c_t c)) (c_phases c) (c_be c) (c_helo c) false (c_errs c) (c_binarymime c)
      (c_from c) (c_rcpts c) (c_did_auth c) true (c_tls c) None (c_received c).
Definition close_ev (c : conn) : list event :=
  abort_ev (c_bdat c) ++ (if c_session c then [ELogout] else []) ++ [EClose].

Lemma do_close_eq c : do_close c = (close_c c, close_ev c).
Proof.
  unfold do_close, close_c, close_ev, abort_ev. destruct c as [t ph be h se er bm fr rc da cl tl bd rv].
  cbn. destruct bd as [b|]; [destruct (bd_end b RDataReset)|]; reflexivity.
Qed.

Lemma running_abort bd : running (abort_bd bd) = false.
Proof.
  destruct bd as [b|]; [|reflexivity]. cbn. unfold bd_end.
  destruct (bd_done b) eqn:Hd; cbn; [rewrite Hd; reflexivity|reflexivity].
Qed.

Lemma run_abort cl se tl fr rc da mr po bd :
  exists po',
    smon_run cfg (mk_abs cl se tl fr rc bd da mr po) (abort_ev bd)
    = Some (mk_abs cl se tl fr rc (abort_bd bd) da mr po').
Proof.
  destruct bd as [b|]; [|exists po; reflexivity].
  destruct (run_bd_end cl se tl fr rc da mr po b RDataReset) as [po' [H _]].
  exists po'. exact H.
Qed.

(* reset of an open connection with a live session *)
Lemma run_reset_sess tl fr rc da mr po bd :
  exists po',
    smon_run cfg (mk_abs false true tl fr rc bd da mr po) (abort_ev bd ++ [EReset])
    = Some (mk_abs false true tl false [] None da false po').
Proof.
  destruct (run_abort false true tl fr rc da mr po bd) as [po' H].
  exists po'. rewrite smon_run_app, H. unfold mk_abs. rewrite running_abort. cbn.
  unfold clear_tx. cbn. destruct da; reflexivity.
Qed.

(* Close of an open connection: the result is a closed monitor state *)
Lemma run_close tl fr rc da mr po bd se :
  (se = false -> bd = None) ->
  exists m',
    smon_run cfg (mk_abs false se tl fr rc bd da mr po)
            (abort_ev bd ++ (if se then [ELogout] else []) ++ [EClose]) = Some m'
    /\ m_closed (fst m') = true /\ m_session (fst m') = false /\ m_running (fst m') = false.
Proof.
  intros Hbd.
  destruct (run_abort false se tl fr rc da mr po bd) as [po' H].
  rewrite smon_run_app, H.
  destruct se.
  - unfold mk_abs. rewrite running_abort. cbn. eexists; split; [reflexivity|]. cbn.
    repeat split; reflexivity.
  - rewrite (Hbd eq_refl). cbn. eexists; split; [reflexivity|]. cbn. repeat split; reflexivity.
Qed.


(* ---------- tactics ---------- *)

Ltac cs :=
  cbn [c_t c_phases c_be c_helo c_session c_errs c_binarymime c_from c_rcpts c_did_auth c_closed
       c_tls c_bdat c_received upd_t upd_be upd_helo upd_session upd_errs upd_binarymime upd_from
       upd_rcpts upd_did_auth upd_bdat upd_received fst snd] in *.

Ltac gen_wires :=
  unfold reply, reply_err, syntax_mail, syntax_rcpt;
  repeat match goal with
         | |- context [EWire ?x] =>
             tryif is_var x then fail else (let w := fresh "w" in generalize x; intro w)
         end.

Lemma good_same c c' ev :
  forallb is_wire ev = true -> c_closed c = false -> Inv c' ->
  absx c' false false = absx c false false -> c_closed c' = false -> Good c (c', ev).
Proof.
  intros Hw Hc HI Ha Hc'. unfold Good, Step. cbn [fst snd].
  exists (absx c false false). split.
  - apply mon_run_wires; [exact Hw|exact Hc].
  - split; [|exact HI]. unfold R. rewrite Hc'. exists false. symmetry. exact Ha.
Qed.

(* a leaf whose events are replies only and whose state differs from the
   initial one in fields the abstraction does not look at *)
Ltac wire_leaf HI :=
  apply good_same; [reflexivity|reflexivity|exact HI|reflexivity|reflexivity].

Ltac start c HI Hc :=
  destruct c as [t ph be h se er bm fr rc da cl tl bd rv];
  unfold Inv in HI; cs; subst cl.

(* ---------- MAIL ---------- *)

Lemma berr_is_nil_false r : r <> BNil -> berr_is_nil r = false.
Proof. destruct r; [congruence|reflexivity|reflexivity]. Qed.

Lemma handle_mail_ok c arg : Inv c -> c_closed c = false -> Good c (handle_mail cfg c arg).
Proof.
  intros HI Hc. start c HI Hc. unfold handle_mail. cs.
  destruct h as [|h0 h]; [wire_leaf HI|].
  destruct bd as [b|]; [wire_leaf HI|].
  destruct (cut_prefix_fold arg (bs "FROM:")) as [a|]; [|wire_leaf HI].
  destruct (parse_reverse_path (trim_space a)) as [[from rest]|]; [|wire_leaf HI].
  destruct (parse_args rest) as [args|]; [|wire_leaf HI].
  destruct (mail_params cfg (sort_kv args) mo_zero false) as [[opts bm']|[[[code ec] msg] bm']];
    [|wire_leaf HI].
  cs.
  assert (Hse : se = true).
  { destruct se; [reflexivity|]. destruct HI as [H1 _]. destruct (H1 eq_refl eq_refl) as [H _]. discriminate. }
  subst se. cbn [negb]. unfold pop_mail. cs. destruct (pop BNil (be_mail be)) as [r rest']. cs.
  unfold Good, Step. cs.
  destruct r as [|code ec msg|msg]; gen_wires; unfold absx, mk_abs; cbn;
    (eexists; split; [reflexivity|]; split;
      [unfold R; cbn; eexists; unfold absx, mk_abs; cbn; try rewrite orb_true_r; try rewrite orb_false_r; reflexivity
      |unfold Inv; cbn; repeat split; intros; congruence]).
Qed.


Ltac mrun := unfold absx, mk_abs; cbn; unfold clear_tx, set_closed_m; cbn.
Ltac r_open :=
  unfold R; cbn; eexists; unfold absx, mk_abs; cbn;
  repeat rewrite ?orb_true_r, ?orb_false_r, ?andb_true_r, ?andb_false_r; reflexivity.
Ltac r_closed := unfold R; cbn; repeat split; reflexivity.
Ltac inv_tac := unfold Inv; cbn; repeat split; intros; congruence.

Ltac get_session HI se :=
  let H := fresh "Hse" in
  assert (H : se = true) by
    (destruct se; [reflexivity|]; destruct HI as [?H1 _];
     destruct (H1 eq_refl eq_refl) as (? & ? & ? & ?); congruence);
  subst se.

(* ---------- RCPT ---------- *)

Lemma rcpt_limit_ok (n : nat) :
  (0 <? cf_max_rcpt cfg)%N && (cf_max_rcpt cfg <=? N.of_nat n)%N = false ->
  (cf_max_rcpt cfg =? 0)%N || (N.of_nat n <? cf_max_rcpt cfg)%N = true.
Proof.
  intros H. apply orb_true_iff. apply andb_false_iff in H as [H|H].
  - left. apply N.ltb_ge in H. apply N.eqb_eq. lia.
  - right. apply N.leb_gt in H. apply N.ltb_lt. exact H.
Qed.

Lemma step_rcpt tl rc da po to o r :
  (cf_max_rcpt cfg =? 0)%N || (N.of_nat (List.length rc) <? cf_max_rcpt cfg)%N = true ->
  smon_step cfg (mk_abs false true tl true rc None da false po) (ERcpt to o r)
  = Some (mkM false true tl true (if berr_is_nil r then S (List.length rc) else List.length rc)
              false false false po (da && true), false).
Proof.
  intros H. unfold smon_step, mk_abs. cbn [fst snd strict_bad m_must_reset orb next_ml].
  unfold mon_step. cbn [m_closed m_session m_from m_transfer m_nrcpt]. rewrite H. reflexivity.
Qed.

Lemma handle_rcpt_ok c arg : Inv c -> c_closed c = false -> Good c (handle_rcpt cfg c arg).
Proof.
  intros HI Hc. start c HI Hc. unfold handle_rcpt. cs.
  destruct fr; cbn [negb]; [|wire_leaf HI].
  destruct bd as [b|]; [wire_leaf HI|].
  destruct (cut_prefix_fold arg (bs "TO:")) as [a|]; [|wire_leaf HI].
  destruct (parse_path (trim_space a)) as [[rcpt rest]|]; [|wire_leaf HI].
  destruct ((0 <? cf_max_rcpt cfg)%N && (cf_max_rcpt cfg <=? N.of_nat (List.length rc))%N) eqn:Hlim;
    [wire_leaf HI|].
  destruct (parse_args rest) as [args|]; [|wire_leaf HI].
  destruct (rcpt_params cfg (sort_kv args) ro_zero) as [opts|[[code ec] msg]]; [|wire_leaf HI].
  get_session HI se. cbn [negb]. unfold pop_rcpt. cs. destruct (pop BNil (be_rcpt be)) as [r rest']. cs.
  apply rcpt_limit_ok in Hlim.
  unfold Good, Step. cs.
  destruct r as [|code ec msg|msg]; gen_wires; unfold absx; cs; cbn [smon_run];
    rewrite (step_rcpt _ _ _ _ _ _ _ Hlim); cbn;
    (eexists; split; [reflexivity|]; split;
      [unfold R; cbn; eexists; unfold absx, mk_abs; cbn; rewrite ?app_length; cbn; rewrite ?Nat.add_1_r; reflexivity
      |inv_tac]).
Qed.

(* ---------- DATA ---------- *)

Lemma smon_run_app_wires m l r :
  forallb is_wire l = true -> m_closed (fst m) = false -> smon_run cfg m (l ++ r) = smon_run cfg m r.
Proof. intros Hw Hc. rewrite smon_run_app, (mon_run_wires m l Hw Hc). reflexivity. Qed.

Lemma handle_data_ok c arg : Inv c -> c_closed c = false -> Good c (handle_data cfg c arg).
Proof.
  intros HI Hc. start c HI Hc. unfold handle_data. cs.
  destruct arg as [|a0 arg]; [|wire_leaf HI].
  destruct bd as [b|]; [wire_leaf HI|].
  destruct bm; [wire_leaf HI|].
  destruct fr; cbn [negb orb]; [|wire_leaf HI].
  destruct rc as [|r0 rc]; [wire_leaf HI|].
  get_session HI se. cbn [negb].
  unfold pop_data. cs. destruct (pop dp_default (be_data be)) as [p rest]. cs.
  destruct (call_data p (new_data_reader (cf_max_bytes cfg)) t) as [[[[got term] ret] d1] t1].
  rewrite !do_reset_eq.
  destruct (cf_lmtp cfg); cbn [negb]; [destruct (cf_lmtp_session cfg); cbn [negb]|].
  - (* LMTP, per-recipient statuses *)
    destruct (lmtp_statuses (r0 :: rc) (dp_status p) ret (dp_panic p)) as [sts panicked].
    pose proof (forallb_map_status_reply2 sts) as Hw.
    set (replies := map _ sts) in *. clearbody replies.
    destruct panicked.
    + rewrite do_close_eq. cbv beta iota. rewrite do_reset_eq.
      unfold Good, Step, reset_c, reset_ev, close_c, close_ev, abort_ev. cs. gen_wires.
      mrun. rewrite smon_run_app_wires by (exact Hw || reflexivity). mrun.
      eexists; split; [reflexivity|]. split; [r_closed|inv_tac].
    + destruct (dr_drain d1 t1) as [[de ?] t2]. unfold close_unless. destruct (drained de).
      * cbv beta iota. rewrite do_reset_eq.
        unfold Good, Step, reset_c, reset_ev, abort_ev. cs. gen_wires.
        mrun. rewrite smon_run_app_wires by (exact Hw || reflexivity). mrun.
        eexists; split; [reflexivity|]. split; [r_open|inv_tac].
      * (* the end of the message was not reached: Close *)
        rewrite do_close_eq. cbv beta iota. rewrite do_reset_eq.
        unfold Good, Step, reset_c, reset_ev, close_c, close_ev, abort_ev. cs. gen_wires.
        mrun. rewrite smon_run_app_wires by (exact Hw || reflexivity). mrun.
        eexists; split; [reflexivity|]. split; [r_closed|inv_tac].
  - (* LMTP, one status for everybody *)
    destruct (dp_panic p).
    + rewrite do_close_eq.
      unfold Good, Step, reset_c, reset_ev, close_c, close_ev, abort_ev. cs. gen_wires.
      mrun.
      eexists; split; [reflexivity|]. split; [r_closed|inv_tac].
    + destruct (dr_drain d1 t1) as [[de ?] t2].
      pose proof (forallb_map_status_reply (fun _ => ret) (r0 :: rc)) as Hw.
      set (replies := map _ (r0 :: rc)) in *. clearbody replies.
      unfold close_unless. destruct (drained de).
      * cbv beta iota. rewrite do_reset_eq.
        unfold Good, Step, reset_c, reset_ev, abort_ev. cs. gen_wires.
        mrun. rewrite smon_run_app_wires by (exact Hw || reflexivity). mrun.
        eexists; split; [reflexivity|]. split; [r_open|inv_tac].
      * rewrite do_close_eq. cbv beta iota. rewrite do_reset_eq.
        unfold Good, Step, reset_c, reset_ev, close_c, close_ev, abort_ev. cs. gen_wires.
        mrun. rewrite smon_run_app_wires by (exact Hw || reflexivity). mrun.
        eexists; split; [reflexivity|]. split; [r_closed|inv_tac].
  - (* SMTP *)
    destruct (dp_panic p).
    + rewrite do_close_eq.
      unfold Good, Step, reset_c, reset_ev, close_c, close_ev, abort_ev. cs. gen_wires.
      mrun.
      eexists; split; [reflexivity|]. split; [r_closed|inv_tac].
    + destruct (dr_drain d1 t1) as [[de ?] t2]. destruct (data_error_to_status ret) as [[code ec] msg].
      unfold close_unless. destruct (drained de).
      * cbv beta iota. rewrite do_reset_eq.
        unfold Good, Step, reset_c, reset_ev, abort_ev. cs. gen_wires.
        mrun.
        eexists; split; [reflexivity|]. split; [r_open|inv_tac].
      * rewrite do_close_eq. cbv beta iota. rewrite do_reset_eq.
        unfold Good, Step, reset_c, reset_ev, close_c, close_ev, abort_ev. cs. gen_wires.
        mrun.
        eexists; split; [reflexivity|]. split; [r_closed|inv_tac].
Qed.


Ltac fin_open := eexists; split; [reflexivity|]; split; [r_open|inv_tac].
Ltac fin_closed := eexists; split; [reflexivity|]; split; [r_closed|inv_tac].

Ltac no_session HI :=
  let H := fresh "Hns" in let H' := fresh "Hnb" in
  destruct HI as [H HI]; destruct (H eq_refl eq_refl) as (? & ? & ? & ?);
  destruct HI as [H' HI]; specialize (H' eq_refl); subst.

(* ---------- EHLO / HELO / LHLO ---------- *)

Lemma handle_greet_ok c enh arg : Inv c -> c_closed c = false -> Good c (handle_greet cfg c enh arg).
Proof.
  intros HI Hc. start c HI Hc. unfold handle_greet. cs.
  destruct (parse_hello_argument arg) as [domain|]; [|wire_leaf HI]. cs.
  destruct se.
  - rewrite do_reset_eq. cbn [negb]. unfold reset_c, reset_ev. cs.
    destruct (run_reset_sess tl fr rc da false false bd) as [po' Hr].
    unfold Good, Step.
    destruct enh; cbn [negb]; cs; gen_wires; unfold absx; cs; rewrite smon_run_app, Hr; mrun; fin_open.
  - no_session HI. destruct (pop BNil (be_ns be)) as [r rest]. cs.
    unfold Good, Step.
    destruct r as [|code ec msg|msg]; cbn [negb]; [destruct enh; cbn [negb]| |]; cs; gen_wires;
      destruct tl; mrun; fin_open.
Qed.

(* ---------- AUTH ---------- *)

Definition is_auth_ev (e : event) : bool :=
  match e with EWire _ | EAuthNext _ _ _ _ => true | _ => false end.

Lemma mon_run_auth_evs m l :
  forallb is_auth_ev l = true ->
  m_closed (fst m) = false -> m_session (fst m) = true -> m_authed (fst m) = false ->
  m_tls (fst m) || cf_insecure_auth cfg = true -> m_must_reset (fst m) = false -> snd m = false ->
  smon_run cfg m l = Some m.
Proof.
  intros Hl Hc Hs Ha Ht Hmr Hml. destruct m as [m ml]. cbn [fst snd] in *. subst ml.
  induction l as [|e l IH]; [reflexivity|].
  cbn in Hl. apply andb_true_iff in Hl as [He Hl].
  destruct e; try discriminate; cbn [smon_run]; unfold smon_step; cbn;
    rewrite ?Hmr; cbn; rewrite ?Hc, ?Hs, ?Ha, ?Ht; cbn; apply IH, Hl.
Qed.

Lemma conn_read_line_c c :
  snd (conn_read_line c) = upd_t c (c_t (snd (conn_read_line c))).
Proof.
  unfold conn_read_line. destruct (t_read_line (c_t c)) as [r t'].
  destruct r; [destruct (too_long t')|]; reflexivity.
Qed.

Lemma auth_loop_spec steps : forall c resp,
  fst (fst (auth_loop steps c resp)) = upd_t c (c_t (fst (fst (auth_loop steps c resp))))
  /\ forallb is_auth_ev (snd (fst (auth_loop steps c resp))) = true.
Proof.
  induction steps as [|[ch done err] rest IH]; intros c resp; cbn [auth_loop].
  - split; [destruct c; reflexivity|reflexivity].
  - destruct err; [|split; [destruct c; reflexivity|reflexivity]..].
    destruct done; [split; [destruct c; reflexivity|reflexivity]|].
    pose proof (conn_read_line_c c) as Hc1.
    destruct (conn_read_line c) as [[line|e] c1]; cbn [snd] in Hc1.
    2:{ cbn [fst snd]. split; [rewrite Hc1 at 1; reflexivity|reflexivity]. }
    destruct (bytes_eqb line (bs "*")).
    { cbn [fst snd]. split; [rewrite Hc1 at 1; reflexivity|reflexivity]. }
    destruct (decode_sasl_response line) as [r|].
    2:{ cbn [fst snd]. split; [rewrite Hc1 at 1; reflexivity|reflexivity]. }
    specialize (IH c1 (Some r)). destruct (auth_loop rest c1 (Some r)) as [[c2 ev] ok].
    cbn [fst snd] in *. destruct IH as [IH1 IH2]. split.
    + rewrite IH1 at 1. rewrite Hc1. reflexivity.
    + exact IH2.
Qed.

Lemma handle_auth_ok c arg : Inv c -> c_closed c = false -> Good c (handle_auth cfg c arg).
Proof.
  intros HI Hc. start c HI Hc. unfold handle_auth. cs.
  destruct h as [|h0 h]; [wire_leaf HI|].
  destruct da; [wire_leaf HI|].
  destruct (fields arg) as [|m more]; [wire_leaf HI|].
  unfold auth_allowed. cs.
  destruct (tl || cf_insecure_auth cfg) eqn:Hallow; cbn [negb]; [|wire_leaf HI].
  assert (Hir : forall ir : option (option bytes),
    Good (mkC t ph be (h0 :: h) se er bm fr rc false false tl bd rv)
      match ir with
      | None => (mkC t ph be (h0 :: h) se er bm fr rc false false tl bd rv,
                 [reply 454 (4, 7, 0)%Z (bs "Invalid base64 data")])
      | Some ir =>
          match cf_auth cfg with
          | None => (mkC t ph be (h0 :: h) se er bm fr rc false false tl bd rv,
                     [reply_err 454 (4, 7, 0)%Z err_auth_unknown_mechanism])
          | Some _ =>
              let '(p, c1) := pop_auth (mkC t ph be (h0 :: h) se er bm fr rc false false tl bd rv) in
              match ap_start p with
              | BNil =>
                  let '(c2, ev, ok) := auth_loop (ap_steps p) c1 ir in
                  if ok then
                    (upd_did_auth c2 true,
                     EAuth (to_upper m) BNil :: ev
                       ++ [reply 235 (2, 0, 0)%Z (bs "Authentication succeeded"); EAuthOk])
                  else (c2, EAuth (to_upper m) BNil :: ev)
              | e => (c1, [EAuth (to_upper m) e; reply_err 454 (4, 7, 0)%Z e])
              end
          end
      end).
  { intros [ir|]; [|wire_leaf HI].
    destruct (cf_auth cfg) as [mechs|]; [|wire_leaf HI].
    get_session HI se.
    unfold pop_auth. cs. destruct (pop ap_default (be_auth be)) as [p rest]. cs.
    destruct (ap_start p) as [|code ec msg|msg].
    2,3: unfold Good, Step; cs; gen_wires; mrun; rewrite Hallow; mrun; fin_open.
    match goal with |- context [auth_loop ?s ?c ?r] =>
      pose proof (auth_loop_spec s c r) as [Hc2 Hev]; destruct (auth_loop s c r) as [[c2 ev] ok] end.
    cbn [fst snd] in Hc2, Hev. cs. rewrite Hc2. clear Hc2. generalize (c_t c2). intros t2.
    unfold Good, Step.
    destruct ok; cs; gen_wires; mrun; rewrite Hallow; mrun.
    - rewrite smon_run_app, (mon_run_auth_evs (_, _) ev Hev) by (try reflexivity; exact Hallow).
      mrun. fin_open.
    - rewrite (mon_run_auth_evs (_, _) ev Hev) by (try reflexivity; exact Hallow). fin_open. }
  destruct more as [|x more]; [exact (Hir (Some None))|].
  destruct (decode_sasl_response x) as [r|]; [exact (Hir (Some (Some r)))|exact (Hir None)].
Qed.


(* ---------- STARTTLS ---------- *)

Lemma handle_starttls_ok c : Inv c -> c_closed c = false -> Good c (handle_starttls cfg c).
Proof.
  intros HI Hc. start c HI Hc. unfold handle_starttls. cs.
  destruct tl; [wire_leaf HI|].
  destruct (cf_tls_config cfg) eqn:Htc; cbn [negb]; [|wire_leaf HI].
  assert (Hfail : forall t', Good (mkC t ph be h se er bm fr rc da false false bd rv)
            (mkC t' ph be h se er bm fr rc da false false bd rv,
             [reply 220 (2, 0, 0)%Z (bs "Ready to start TLS"); ETlsStart false;
              reply 550 (5, 0, 0)%Z (bs "Handshake error")])).
  { intros t'. unfold Good, Step. cs. gen_wires. mrun. rewrite Htc. mrun.
    eexists; split; [reflexivity|]. split; [r_open|exact HI]. }
  destruct (t_raw t) as [|r0 rs]; [destruct ph as [|p phs]|]; [apply Hfail| |apply Hfail].
  rewrite do_reset_eq. unfold reset_c, reset_ev. cs.
  unfold Good, Step. cs. gen_wires.
  destruct se.
  - destruct bd as [b|].
    + unfold abort_ev, bd_end. destruct (bd_done b) eqn:Hd; cs; mrun; rewrite Htc, ?Hd; mrun; fin_open.
    + mrun. rewrite Htc. mrun. fin_open.
  - no_session HI. mrun. rewrite Htc. mrun. fin_open.
Qed.

(* ---------- protocolError, Close ---------- *)

Lemma good_close c ev0 :
  Inv c -> c_closed c = false -> forallb is_wire ev0 = true ->
  Good c (close_c c, ev0 ++ close_ev c).
Proof.
  intros HI Hc Hw. start c HI Hc. unfold Good, Step, close_c, close_ev. cs.
  destruct (run_close tl fr rc da false false bd se) as [m' [Hm Hm']].
  { destruct HI as [_ [H _]]. exact H. }
  exists m'. split.
  - rewrite smon_run_app_wires by (exact Hw || reflexivity). unfold absx. cs. exact Hm.
  - split; [exact Hm'|inv_tac].
Qed.

Lemma protocol_error_ok c code ec msg :
  Inv c -> c_closed c = false -> Good c (protocol_error c code ec msg).
Proof.
  intros HI Hc. unfold protocol_error.
  destruct (err_threshold <? c_errs (upd_errs c (c_errs c + 1)))%N.
  - rewrite do_close_eq.
    match goal with |- Good _ (?c', ?l ++ ?r) => change (Good c (c', l ++ r)) end.
    pose proof (good_close (upd_errs c (c_errs c + 1)) 
                  [reply code ec msg; reply 500 (5, 5, 1)%Z (bs "Too many errors. Quiting now")]) as H.
    destruct c. apply H; [exact HI|exact Hc|reflexivity].
  - destruct c. cs. subst. wire_leaf HI.
Qed.


(* ---------- BDAT ---------- *)

(* discardChunk in closed form: the transport behind the octets that could be
   read, and whether the declared size was not reached (then: Close) *)
Definition discard_t (c : conn) (size : N) : transport :=
  set_limit (snd (t_copy_n size (set_limit (c_t c) 0))) (cf_max_line cfg).
Definition discard_short (c : conn) (size : N) : bool :=
  is_some (snd (fst (t_copy_n size (set_limit (c_t c) 0)))).

Lemma discard_chunk_eq c size :
  discard_chunk cfg c size
  = if discard_short c size
    then (close_c (upd_t c (discard_t c size)), close_ev (upd_t c (discard_t c size)))
    else (upd_t c (discard_t c size), []).
Proof.
  unfold discard_chunk, discard_short, discard_t, close_unless.
  destruct (t_copy_n size (set_limit (c_t c) 0)) as [[? [e|]] t1]; cbn [fst snd is_some].
  - apply do_close_eq.
  - reflexivity.
Qed.

Lemma close_ev_upd_t c t' : close_ev (upd_t c t') = close_ev c.
Proof. destruct c; reflexivity. Qed.

(* Close after the transport moved on *)
Lemma good_close_t c t' ev0 :
  Inv c -> c_closed c = false -> forallb is_wire ev0 = true ->
  Good c (close_c (upd_t c t'), ev0 ++ close_ev (upd_t c t')).
Proof.
  intros HI Hc Hw. pose proof (good_close (upd_t c t') ev0) as H.
  destruct c. apply H; [exact HI|exact Hc|exact Hw].
Qed.

(* a refused chunk: the reply, then discardChunk *)
Lemma good_refused c size w :
  Inv c -> c_closed c = false ->
  Good c (let '(c1, ev1) := discard_chunk cfg c size in (c1, EWire w :: ev1)).
Proof.
  intros HI Hc. rewrite discard_chunk_eq. destruct (discard_short c size).
  - apply (good_close_t c (discard_t c size) [EWire w]); [exact HI|exact Hc|reflexivity].
  - generalize (discard_t c size). intros t'. destruct c. cs. subst. wire_leaf HI.
Qed.

Lemma bdat_lmtp_replies_wires b e :
  forallb is_wire (fst (bdat_lmtp_replies cfg b e)) = true.
Proof.
  unfold bdat_lmtp_replies.
  match goal with |- context [let '(sts, panicked) := ?X in _] => destruct X as [sts panicked] end.
  cbn [fst]. apply forallb_map_status_reply2.
Qed.

Lemma run_seq m1 ev1 m2 ev2 r :
  smon_run cfg m1 ev1 = Some m2 -> smon_run cfg m2 ev2 = r -> smon_run cfg m1 (ev1 ++ ev2) = r.
Proof. intros H1 H2. rewrite smon_run_app, H1. exact H2. Qed.

Ltac simp_cond :=
  match goal with
  | |- Good ?c (if ?b then ?X else ?Y) =>
      let b' := eval cbn in b in
      match b' with
      | true => change (Good c X)
      | false => change (Good c Y)
      end
  end.

Definition Reach (m : smon) (ev : list event) (P : smon -> Prop) : Prop :=
  exists m', smon_run cfg m ev = Some m' /\ P m'.

Lemma good_reach c c' ev :
  Reach (absx c false false) ev (fun m' => R c' m' /\ Inv c') -> Good c (c', ev).
Proof. intros H. exact H. Qed.

Lemma reach_seq m1 ev1 m2 ev2 P :
  smon_run cfg m1 ev1 = Some m2 -> Reach m2 ev2 P -> Reach m1 (ev1 ++ ev2) P.
Proof. intros H1 [m' [H2 HP]]. exists m'. split; [|exact HP]. rewrite smon_run_app, H1. exact H2. Qed.

Lemma reach_wires m ev1 ev2 P :
  forallb is_wire ev1 = true -> m_closed (fst m) = false -> Reach m ev2 P -> Reach m (ev1 ++ ev2) P.
Proof. intros Hw Hc. apply reach_seq. apply mon_run_wires; assumption. Qed.

Lemma reach_nil m (P : smon -> Prop) : P m -> Reach m [] P.
Proof. intros H. exists m. split; [reflexivity|exact H]. Qed.

Lemma reach_end m ev m' (P : smon -> Prop) : smon_run cfg m ev = Some m' -> P m' -> Reach m ev P.
Proof. intros H HP. exists m'. split; assumption. Qed.

Lemma reach_reset tl fr rc da mr po bd (P : smon -> Prop) :
  (forall po', P (mk_abs false true tl false [] None da false po')) ->
  Reach (mk_abs false true tl fr rc bd da mr po) (abort_ev bd ++ [EReset]) P.
Proof.
  intros HP. destruct (run_reset_sess tl fr rc da mr po bd) as [po' H].
  exists (mk_abs false true tl false [] None da false po'). split; [exact H|apply HP].
Qed.

Lemma reach_close tl fr rc da mr po bd se (P : smon -> Prop) :
  (se = false -> bd = None) ->
  (forall m', m_closed (fst m') = true -> m_session (fst m') = false -> m_running (fst m') = false -> P m') ->
  Reach (mk_abs false se tl fr rc bd da mr po)
        (abort_ev bd ++ (if se then [ELogout] else []) ++ [EClose]) P.
Proof.
  intros Hbd HP. destruct (run_close tl fr rc da mr po bd se Hbd) as [m' [H [H1 [H2 H3]]]].
  exists m'. split; [exact H|apply HP; assumption].
Qed.

Lemma reach_wire_cons m w l P :
  m_closed (fst m) = false -> Reach m l P -> Reach m (EWire w :: l) P.
Proof.
  intros Hc [m' [H HP]]. exists m'. split; [|exact HP]. destruct m as [m ml]. cbn in *. rewrite Hc. exact H.
Qed.

Ltac chain := repeat first
  [ eapply reach_seq; [eassumption|]
  | apply reach_wire_cons; [reflexivity|]
  | apply reach_wires; [assumption|reflexivity|] ].

Ltac fin_reset := intros ?po; split; [r_open|inv_tac].
Ltac fin_close :=
  let m' := fresh "m'" in
  intros m' ? ? ?; split; [unfold R; cbn; repeat split; assumption|inv_tac].

Lemma handle_bdat_ok c arg : Inv c -> c_closed c = false -> Good c (handle_bdat cfg c arg).
Proof.
  intros HI Hc. start c HI Hc. unfold handle_bdat. cs.
  destruct (fields arg) as [|a0 more]; [wire_leaf HI|].
  match goal with
  | |- Good ?c (match more with [] => ?B | _ :: _ => _ end) => assert (Hbody : Good c B)
  end.
  2:{ destruct more as [|a1 [|a2 more]]; [exact Hbody|exact Hbody|wire_leaf HI]. }
  destruct (parse_uint 32 a0) as [size| |]; [|wire_leaf HI|wire_leaf HI].
  destruct fr; [|simp_cond; apply good_refused; [exact HI|reflexivity]].
  destruct rc as [|r0 rc]; simp_cond; [apply good_refused; [exact HI|reflexivity]|].
  match goal with
  | |- Good _ (match ?lo with None => _ | Some _ => _ end) => destruct lo as [last|]
  end.
  2:{ apply good_refused; [exact HI|reflexivity]. }
  get_session HI se.
  destruct (negb (cf_max_bytes cfg =? 0)%Z && (cf_max_bytes cfg <? rv + Z.of_N size)%Z).
  { rewrite discard_chunk_eq.
    match goal with |- context [discard_t ?c ?s] => generalize (discard_t c s); intros t' end.
    match goal with |- context [discard_short ?c ?s] => destruct (discard_short c s) end.
    - (* the chunk could not be skipped: Close, then the reset of a closed connection *)
      cbv beta iota. rewrite do_reset_eq. unfold close_c, close_ev, reset_c, reset_ev; cs.
      change (abort_ev None) with (@nil event).
      apply good_reach; unfold absx; cs; gen_wires; rewrite <- ?app_assoc; cbn [app]; chain.
      apply (reach_close tl true (r0 :: rc) da false false bd true); [discriminate|fin_close].
    - cbv beta iota. rewrite do_reset_eq; cs; unfold reset_c, reset_ev; cs.
      destruct (run_reset_sess tl true (r0 :: rc) da false false bd) as [po' Hr].
      unfold Good, Step; cs; gen_wires; unfold absx; cs. change ([] ++ ?l) with l.
      rewrite smon_run_app_wires by reflexivity; rewrite Hr; fin_open. }
  simp_cond.
  (* start the delivery if there is none *)
  assert (H0 : exists b0 ev0 be0 po0,
    match bd with
    | Some b => (b, [], mkC t ph be h true er bm true (r0 :: rc) da false tl bd rv)
    | None =>
        let '(p, c1) := pop_data (mkC t ph be h true er bm true (r0 :: rc) da false tl bd rv) in
        let status_panic :=
          cf_lmtp cfg && cf_lmtp_session cfg
          && snd (run_statuses (dp_status p) (mk_collector (c_rcpts c1))) in
        let '(b, ev) := bd_new p (c_rcpts c1) status_panic in
        (b, ev, c1)
    end = (b0, ev0, mkC t ph be0 h true er bm true (r0 :: rc) da false tl bd rv)
    /\ smon_run cfg (mk_abs false true tl true (r0 :: rc) bd da false false) ev0
       = Some (mk_abs false true tl true (r0 :: rc) (Some b0) da false po0)).
  { destruct bd as [b|].
    - exists b, [], be, false. split; reflexivity.
    - unfold pop_data. cs. destruct (pop dp_default (be_data be)) as [p rest]. cs.
      match goal with |- context [bd_new p (r0 :: rc) ?sp] =>
        destruct (run_bd_new tl (r0 :: rc) da false p sp) as [po0 Hn]; [discriminate|];
        destruct (bd_new p (r0 :: rc) sp) as [b0 ev0] end.
      cbn [fst snd] in Hn. eexists b0, ev0, _, po0. split; [reflexivity|exact Hn]. }
  destruct H0 as (b0 & ev0 & be0 & po0 & Heq & H0).
  cbv zeta in Heq. rewrite Heq. clear Heq. cs.
  destruct (t_copy_n size (set_limit t 0)) as [[chunk cerr] t1].
  destruct (run_bd_feed false true tl true (r0 :: rc) da false po0 b0 chunk) as [po1 H1].
  destruct (bd_feed b0 chunk) as [[b1 ev1] werr]. cbn [fst snd] in H1.
  destruct werr as [e|]; [destruct cerr as [te|]|destruct cerr as [te|]].
  1,2: cbv beta iota zeta.
  3: (cbv beta iota zeta; destruct (t_copy_n (size - blen chunk) t1) as [[dg [de|]] t1d]; cbv beta iota zeta).
  (* 1: write error, chunk short; 2: write error, chunk read; 3: read error, discard short;
     4: read error, discard complete; 5: the chunk was copied completely *)
  1-4: destruct (last && cf_lmtp cfg).
  1,3,5,7: match goal with
       | H : smon_run _ _ _ = Some (mk_abs _ _ ?tl _ ?rcs (Some ?b1) ?da _ ?po1) |- context [bd_end ?b1 ?pe] =>
         destruct (run_bd_end false true tl true rcs da false po1 b1 pe) as [po2 [H2 Hd2]];
         destruct (bd_end b1 pe) as [b2 ev2] end;
       cbn [fst snd] in H2, Hd2;
       match goal with |- context [bdat_lmtp_replies _ ?b2 ?e] =>
         pose proof (bdat_lmtp_replies_wires b2 e) as Hw;
         destruct (bdat_lmtp_replies cfg b2 e) as [rs pk] end;
       cbn [fst] in Hw; cs.
  (* (the selected goals now come first) *)
  5-8: match goal with |- context [data_error_to_status ?e] =>
         destruct (data_error_to_status e) as [[code ec] msg] end; cs.
  1,2,5,6: match goal with |- context [bd_panics ?b || _] => destruct (bd_panics b) end.
  1-12: cbn [orb]; cbv beta iota.
  1-12: rewrite ?do_close_eq; cs; rewrite ?do_reset_eq; unfold close_c, close_ev, reset_c, reset_ev; cs.
  1-12: change (abort_ev None) with (@nil event).
  1-12: apply good_reach; unfold absx; cs; gen_wires; rewrite <- ?app_assoc; cbn [app]; chain.
  1-12: first
    [ apply reach_reset; fin_reset
    | match goal with
      | |- Reach (mk_abs _ _ ?tl _ ?rc ?bd ?da ?mr ?po) _ _ =>
          apply (reach_close tl true rc da mr po bd true); [discriminate|fin_close]
      end ].
  (* the chunk was copied completely *)
  destruct last; simp_cond.
  2:{ cs. apply good_reach; unfold absx; cs; gen_wires; chain.
      apply reach_end with (m' := mk_abs false true tl true (r0 :: rc) (Some b1) da false po1).
      - apply mon_run_wires; reflexivity.
      - split; [r_open|inv_tac]. }
  destruct (run_bd_end false true tl true (r0 :: rc) da false po1 b1 REOF) as [po2 [H2 Hd2]].
  destruct (bd_end b1 REOF) as [b2 ev2]. cbn [fst snd] in H2, Hd2.
  destruct (cf_lmtp cfg).
  - match goal with |- context [bdat_lmtp_replies _ ?b2 ?e] =>
      pose proof (bdat_lmtp_replies_wires b2 e) as Hw;
      destruct (bdat_lmtp_replies cfg b2 e) as [rs pk] end.
    cbn [fst] in Hw. destruct pk.
    all: rewrite ?do_close_eq; cs; rewrite ?do_reset_eq; unfold close_c, close_ev, reset_c, reset_ev; cs.
    all: apply good_reach; unfold absx; cs; gen_wires; rewrite <- ?app_assoc; cbn [app]; chain.
    + apply (reach_close tl true (r0 :: rc) da false po2 (Some b2) true); [discriminate|fin_close].
    + apply reach_reset; fin_reset.
  - match goal with |- context [data_error_to_status ?e] =>
      destruct (data_error_to_status e) as [[code ec] msg] end.
    destruct (bd_panics b2).
    all: rewrite ?do_close_eq; cs; rewrite ?do_reset_eq; unfold close_c, close_ev, reset_c, reset_ev; cs.
    all: apply good_reach; unfold absx; cs; gen_wires; rewrite <- ?app_assoc; cbn [app]; chain.
    + apply (reach_close tl true (r0 :: rc) da false po2 (Some b2) true); [discriminate|fin_close].
    + apply reach_reset; fin_reset.
Qed.


(* ---------- dispatch ---------- *)

Lemma handle_ok c cmd arg : Inv c -> c_closed c = false -> Good c (handle cfg c cmd arg).
Proof.
  intros HI Hc. unfold handle.
  destruct cmd as [|c0 cmd]; [apply protocol_error_ok; assumption|].
  set (CMD := to_upper (c0 :: cmd)). clearbody CMD.
  assert (Hwire : forall w, Good c (c, [EWire w])).
  { intros w. apply good_same; [reflexivity|exact Hc|exact HI|reflexivity|exact Hc]. }
  repeat match goal with
         | |- Good _ (if ?b then _ else _) => destruct b
         end;
    try (apply Hwire);
    try (apply handle_greet_ok; assumption);
    try (apply handle_mail_ok; assumption);
    try (apply handle_rcpt_ok; assumption);
    try (apply handle_bdat_ok; assumption);
    try (apply handle_data_ok; assumption);
    try (apply handle_auth_ok; assumption);
    try (apply handle_starttls_ok; assumption);
    try (apply protocol_error_ok; assumption).
  - (* RSET *)
    rewrite do_reset_eq. start c HI Hc. unfold reset_c, reset_ev. cs.
    apply good_reach. unfold absx. cs. gen_wires.
    destruct se.
    + destruct (run_reset_sess tl fr rc da false false bd) as [po' Hr].
      eapply reach_seq; [exact Hr|]. chain. apply reach_nil. split; [r_open|inv_tac].
    + no_session HI. cbn [abort_ev app]. chain. apply reach_nil. split; [r_open|inv_tac].
  - (* QUIT *)
    rewrite do_close_eq.
    change (Good c (close_c c, [reply 221 (2, 0, 0)%Z (bs "Bye")] ++ close_ev c)).
    apply good_close; [exact HI|exact Hc|reflexivity].
Qed.


(* ---------- the command loop ---------- *)

Lemma final_close_ok c mr po :
  Inv c -> c_closed c = false ->
  smon_run cfg (absx c mr po) (final_close c) <> None.
Proof.
  intros HI Hc. unfold final_close. rewrite do_close_eq. cbn [snd]. unfold close_ev.
  start c HI Hc. unfold absx. cs.
  destruct (run_close tl fr rc da mr po bd se) as [m' [Hm _]].
  { destruct HI as [_ [H _]]. exact H. }
  rewrite Hm. discriminate.
Qed.

Lemma Inv_upd_t c t : Inv c -> Inv (upd_t c t).
Proof. intros H. exact H. Qed.

Lemma serve_loop_ok fuel : forall c m,
  R c m -> Inv c -> smon_run cfg m (serve_loop fuel cfg c) <> None.
Proof.
  induction fuel as [|f IH]; intros c m HR HI; cbn [serve_loop]; [discriminate|].
  unfold R in HR. destruct (c_closed c) eqn:Hc.
  - (* the connection has been closed: only the deferred Close is left *)
    destruct HR as (Hm1 & Hm2 & Hm3).
    unfold final_close. rewrite do_close_eq. cbn [snd]. unfold close_ev.
    destruct HI as (_ & Hb & Hcl). specialize (Hcl Hc). rewrite (Hb Hcl), Hcl.
    cbn. rewrite Hm2, Hm3. cbn. discriminate.
  - destruct HR as [po Hm]. subst m.
    pose proof (conn_read_line_c c) as Hc1.
    destruct (conn_read_line c) as [[line|e] c1]; cbn [snd] in Hc1.
    + (* a command line *)
      assert (Hcmd : smon_step cfg (absx c false po) (ECmd line) = Some (absx c1 false false)).
      { rewrite Hc1. unfold absx, mk_abs. cs. cbn. rewrite Hc. reflexivity. }
      cbn [smon_run]. rewrite Hcmd.
      assert (HI1 : Inv c1) by (rewrite Hc1; exact HI).
      assert (Hcl1 : c_closed c1 = false) by (rewrite Hc1; exact Hc).
      assert (Hstep : forall r : hres, Good c1 r ->
                smon_run cfg (absx c1 false false) (snd r ++ serve_loop f cfg (fst r)) <> None).
      { intros [c2 ev] (m' & Hrun & HR' & HI'). cbn [fst snd] in *.
        rewrite smon_run_app, Hrun. apply IH; assumption. }
      destruct (parse_cmd line) as [[cmd arg]|].
      * pose proof (Hstep _ (handle_ok c1 cmd arg HI1 Hcl1)) as H.
        destruct (handle cfg c1 cmd arg) as [c2 ev]. exact H.
      * pose proof (Hstep _ (protocol_error_ok c1 501 (5, 5, 2)%Z (bs "Bad command") HI1 Hcl1)) as H.
        destruct (protocol_error c1 501 (5, 5, 2)%Z (bs "Bad command")) as [c2 ev]. exact H.
    + (* the read failed *)
      assert (HI1 : Inv c1) by (rewrite Hc1; exact HI).
      assert (Hcl1 : c_closed c1 = false) by (rewrite Hc1; exact Hc).
      assert (Ha : absx c false po = absx c1 false po) by (rewrite Hc1; reflexivity).
      rewrite Ha.
      assert (Hw : forall w, smon_run cfg (absx c1 false po) (EWire w :: final_close c1) <> None).
      { intros w. change (EWire w :: final_close c1) with ([EWire w] ++ final_close c1).
        rewrite smon_run_app_wires; [apply final_close_ok; assumption|reflexivity|exact Hcl1]. }
      destruct e; try apply Hw; apply final_close_ok; assumption.
Qed.

Theorem serve_accepted_strict_cfg fuel be phases :
  smon_run cfg (smon_init (cf_implicit_tls cfg)) (serve fuel cfg be phases) <> None.
Proof.
  unfold serve, greeting.
  cbn [smon_run]. unfold smon_step, smon_init.
  cbn [fst snd strict_bad mon_step mon_init m_closed negb guard next_ml].
  apply serve_loop_ok.
  - unfold R, init_conn. destruct phases as [|p r]; cbn; exists false; reflexivity.
  - unfold Inv, init_conn. destruct phases as [|p r]; cbn; repeat split; intros; congruence.
Qed.

End WithCfg.

(* the strict monitor accepts every trace of the model *)
Theorem serve_accepted_strict : forall fuel cfg be phases,
  smon_run cfg (smon_init (cf_implicit_tls cfg)) (serve fuel cfg be phases) <> None.
Proof. intros fuel cfg be phases. apply serve_accepted_strict_cfg. Qed.
Print Assumptions serve_accepted_strict.

(* hence so does the monitor of Order.v *)
Theorem serve_accepted : forall fuel cfg be phases,
  mon_run cfg (mon_init (cf_implicit_tls cfg)) (serve fuel cfg be phases) <> None.
Proof.
  intros fuel cfg be phases H.
  destruct (smon_run cfg (smon_init (cf_implicit_tls cfg)) (serve fuel cfg be phases)) as [s'|] eqn:E.
  - apply smon_run_mon_run in E. cbn [fst smon_init] in E. congruence.
  - exact (serve_accepted_strict fuel cfg be phases E).
Qed.
Print Assumptions serve_accepted.

(* ---------- the trace ends with the closing of the connection ---------- *)

Lemma final_close_ends c : exists tr', final_close c = tr' ++ [EClose].
Proof.
  unfold final_close. rewrite do_close_eq. cbn [snd]. unfold close_ev.
  eexists. rewrite app_assoc. reflexivity.
Qed.

Lemma serve_loop_ends cfg fuel : forall c,
  In EOutOfFuel (serve_loop fuel cfg c) \/ exists tr', serve_loop fuel cfg c = tr' ++ [EClose].
Proof.
  induction fuel as [|f IH]; intros c; cbn [serve_loop]; [left; left; reflexivity|].
  assert (Hcons : forall e l, (exists tr', l = tr' ++ [EClose]) -> exists tr', e :: l = tr' ++ [EClose]).
  { intros e l [tr' ->]. exists (e :: tr'). reflexivity. }
  assert (Happ : forall (ev : list event) c2,
             In EOutOfFuel (ev ++ serve_loop f cfg c2)
             \/ exists tr', ev ++ serve_loop f cfg c2 = tr' ++ [EClose]).
  { intros ev c2. destruct (IH c2) as [H|[tr' H]].
    - left. apply in_or_app. right. exact H.
    - right. exists (ev ++ tr'). rewrite H, app_assoc. reflexivity. }
  destruct (c_closed c); [right; apply final_close_ends|].
  destruct (conn_read_line c) as [[line|e] c1].
  - assert (Hc : forall l, (In EOutOfFuel l \/ exists tr', l = tr' ++ [EClose]) ->
                 In EOutOfFuel (ECmd line :: l) \/ exists tr', ECmd line :: l = tr' ++ [EClose]).
    { intros l [H|H]; [left; right; exact H|right; apply Hcons, H]. }
    apply Hc. destruct (parse_cmd line) as [[cmd arg]|].
    + destruct (handle cfg c1 cmd arg) as [c2 ev]. apply Happ.
    + destruct (protocol_error c1 501 (5, 5, 2)%Z (bs "Bad command")) as [c2 ev]. apply Happ.
  - right. destruct e; try (apply Hcons); apply final_close_ends.
Qed.

Theorem serve_ends_with_close fuel cfg be phases :
  ~ In EOutOfFuel (serve fuel cfg be phases) ->
  exists tr', serve fuel cfg be phases = tr' ++ [EClose].
Proof.
  intros Hn. unfold serve in *.
  destruct (serve_loop_ends cfg fuel (init_conn cfg be phases)) as [H|[tr' H]].
  - exfalso. apply Hn. right. exact H.
  - exists (greeting cfg :: tr'). rewrite H. reflexivity.
Qed.

(* ---------- C10: the state after a successful STARTTLS ---------- *)

(* The handshake succeeds exactly when the peer starts it right after the
   STARTTLS line; the resulting state is the initial one with TLS on: the
   buffered plaintext is dropped with the old transport, the greeting name, the
   session, the authentication and the envelope are forgotten, an open chunked
   transfer is gone. *)
Theorem starttls_state_erased cfg c :
  In (ETlsStart true) (snd (handle_starttls cfg c)) ->
  exists ph phs,
    c_phases c = ph :: phs /\ t_raw (c_t c) = [] /\ c_tls c = false /\ cf_tls_config cfg = true
    /\ fst (handle_starttls cfg c)
       = mkC (mkT [] ph 0 (cf_max_line cfg) false) phs (c_be c) [] false (c_errs c) (c_binarymime c)
             false [] false (c_closed c) true None 0%Z.
Proof.
  unfold handle_starttls.
  destruct (c_tls c) eqn:Htls; [cbn; intros [H|[]]; discriminate|].
  destruct (cf_tls_config cfg) eqn:Hcfg; cbn [negb]; [|cbn; intros [H|[]]; discriminate].
  destruct (t_raw (c_t c)) as [|r0 rs] eqn:Hraw.
  2:{ cbn. intros [H|[H|[H|[]]]]; discriminate. }
  destruct (c_phases c) as [|ph phs] eqn:Hph.
  { cbn. intros [H|[H|[H|[]]]]; discriminate. }
  intros _. exists ph, phs. rewrite do_reset_eq. cbn [fst]. unfold reset_c. cbn.
  repeat split; reflexivity.
Qed.
