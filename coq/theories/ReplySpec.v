(* A strict recogniser of RFC 5321 section 4.2 replies, written from the
   grammar and independent of the renderer in Reply.v:

     Reply-line = *( Reply-code "-" [ textstring ] CRLF )
                    Reply-code SP [ textstring ] CRLF
     textstring = 1*(%d09 / %d32-126)
     Reply-code = three digits, the first in 2..5

   The whole octet string must be exactly one reply: every line ends in CRLF,
   no CR or LF occurs anywhere else, every line carries the same code, '-'
   follows the code on all lines but the last and SP on the last.  (The
   grammar's second digit 0..5 is not enforced: the statement is about
   arbitrary backend codes 200..599.  A final line without SP is not
   accepted: go-smtp never writes one.)

   [reply_ec_class_ok]: every line's text starts with an RFC 2034/3463
   enhanced code "c.s.d " whose class digit is the first digit of the reply
   code. *)
From Smtp Require Import Bytes.
Local Open Scope char_scope.

(* the CRLF-terminated lines of s; None if s has a bare CR, a bare LF or an
   unterminated tail *)
Fixpoint crlf_lines (s : bytes) : option (list bytes) :=
  match s with
  | [] => Some []
  | c :: t =>
      if Ascii.eqb c LF then None
      else if Ascii.eqb c CR then
        match t with
        | d :: r => if Ascii.eqb d LF then option_map (cons []) (crlf_lines r) else None
        | [] => None
        end
      else match crlf_lines t with
           | Some (l :: ls) => Some ((c :: l) :: ls)
           | _ => None
           end
  end.

Definition text_octet (c : ascii) : bool := Ascii.eqb c HT || in_range 32 126 c.

Definition code_ok (code : bytes) : bool :=
  match code with
  | [a; b; c] => in_range 50 53 a && is_digit b && is_digit c
  | _ => false
  end.

Definition line_ok (code : bytes) (sep : ascii) (l : bytes) : bool :=
  match l with
  | a :: b :: c :: d :: text =>
      bytes_eqb [a; b; c] code && Ascii.eqb d sep && forallb text_octet text
  | _ => false
  end.

Fixpoint lines_wf (code : bytes) (ls : list bytes) : bool :=
  match ls with
  | [] => false
  | l :: r =>
      match r with
      | [] => line_ok code " " l
      | _ :: _ => line_ok code "-" l && lines_wf code r
      end
  end.

Definition reply_code_of (ls : list bytes) : bytes :=
  match ls with
  | (a :: b :: c :: _) :: _ => [a; b; c]
  | _ => []
  end.

Definition reply_wf (s : bytes) : bool :=
  match crlf_lines s with
  | Some ls => code_ok (reply_code_of ls) && lines_wf (reply_code_of ls) ls
  | None => false
  end.

(* ---- enhanced status code at the head of every line ---- *)

(* 1*DIGIT followed by the octet [stop]; returns what follows the stop octet *)
Fixpoint digits_then (stop : ascii) (seen : bool) (s : bytes) : option bytes :=
  match s with
  | [] => None
  | c :: t =>
      if is_digit c then digits_then stop true t
      else if Ascii.eqb c stop && seen then Some t
      else None
  end.

(* text = class "." subject "." detail SP ..., class = the given digit *)
Definition starts_with_ec (class : ascii) (text : bytes) : bool :=
  match text with
  | c :: d :: t =>
      Ascii.eqb c class && Ascii.eqb d "." &&
      match digits_then "." false t with
      | Some t' => match digits_then " " false t' with Some _ => true | None => false end
      | None => false
      end
  | _ => false
  end.

Definition line_ec_ok (l : bytes) : bool :=
  match l with
  | a :: _ :: _ :: _ :: text => starts_with_ec a text
  | _ => false
  end.

Definition reply_ec_class_ok (s : bytes) : bool :=
  match crlf_lines s with
  | Some (l :: ls) => forallb line_ec_ok (l :: ls)
  | _ => false
  end.

Example reply_wf_ex1 :
  reply_wf (bs "550-5.1.1 one" ++ crlf ++ bs "550 5.1.1 two" ++ crlf) = true
  /\ reply_ec_class_ok (bs "550-5.1.1 one" ++ crlf ++ bs "550 5.1.1 two" ++ crlf) = true.
Proof. split; vm_compute; reflexivity. Qed.

Example reply_wf_neg :
  reply_wf (bs "550 a" ++ [LF]) = false /\                        (* bare LF *)
  reply_wf (bs "550 a" ++ [CR] ++ bs "b" ++ crlf) = false /\      (* bare CR *)
  reply_wf (bs "550-a" ++ crlf ++ bs "551 b" ++ crlf) = false /\  (* codes differ *)
  reply_wf (bs "550-a" ++ crlf) = false /\                        (* no final line *)
  reply_wf (bs "550 a" ++ crlf ++ bs "550 b" ++ crlf) = false /\  (* two replies *)
  reply_wf (bs "55 a" ++ crlf) = false /\
  reply_wf (bs "650 a" ++ crlf) = false /\
  reply_wf (bs "550 a" ++ [NUL] ++ crlf) = false /\
  reply_wf [] = false /\
  reply_ec_class_ok (bs "550 4.1.1 a" ++ crlf) = false /\        (* class differs *)
  reply_ec_class_ok (bs "550-5.1.1 a" ++ crlf ++ bs "550 b" ++ crlf) = false.
Proof. vm_compute. repeat split; reflexivity. Qed.
