(* Reference integration of the C13 oracle (CheckLmtp.v) into the `conv`
   cases: it looks ONLY at the inputs of the case (configuration, backend
   script, the generator's description of the conversation's shape) and at
   the RECORDED events of the implementation - never at the server model.

   DATA transfers are judged exactly, in any `conv` case without BDAT
   deliveries: the accepted recipients are the recorded Rcpt callbacks that
   returned nil since the last Reset/Logout, the k-th recorded Data callback
   took the k-th scripted plan, and the final response is the next recorded
   write.

   BDAT transfers are judged only in cases GenLmtp produced (they carry
   `(origin lmtp (chunks n))`: one transaction, n BDAT commands, the last one
   LAST, one delivery): the recording does not show which write answers which
   command, so the final response is taken to be the tail of the last write
   before the first Reset/Logout that follows an accepted recipient.  The
   value handed to fillRemaining is the recorded return value of the
   delivery, or io.ErrClosedPipe when the backend returned nil without
   reading the LAST chunk completely (the copy then fails with that error).
   If there are several chunks and the backend stops reading early, the copy
   of a chunk before the LAST one may fail: that is answered by a single reply
   (not a final response in the sense of C13) and ends the transaction. *)
From Smtp Require Import Bytes Sx Reply LmtpSpec CheckLmtp CheckBase Conn CheckConv.

Inductive oev :=
| OW (b : bytes)
| ORcpt (a : bytes) (accepted : bool)
| OData (ret : berr) (panicked : bool)
| OReset
| OOther.

Definition dec_oev (x : sx) : oev :=
  match x with
  | SL [t] => if sx_is "reset" t || sx_is "logout" t then OReset else OOther
  | SL [t; w] =>
      if sx_is "w" t then match sx_bytes w with Some b => OW b | None => OOther end else OOther
  | SL [t; a; _; e] =>
      if sx_is "rcpt" t then
        match sx_bytes a, dec_berr e with
        | Some a, Some BNil => ORcpt a true
        | Some a, Some _ => ORcpt a false
        | _, _ => OOther
        end
      else OOther
  | SL [t; _; _; r; p] =>
      if sx_is "data" t || sx_is "del" t then
        match dec_berr r, sx_bool p with
        | Some r, Some p => OData r p
        | _, _ => OOther
        end
      else OOther
  | _ => OOther
  end.

(* the next write, unless another callback comes first *)
Fixpoint next_wire (evs : list oev) : option bytes :=
  match evs with
  | OW b :: _ => Some b
  | (OReset | OOther) :: r => next_wire r
  | _ => None
  end.

Definition pop_plan (ps : list data_plan) : data_plan * list data_plan :=
  match ps with p :: r => (p, r) | [] => (dp_default, []) end.

(* DATA: true = every final response is allowed by C13 *)
Fixpoint walk_data (sess : bool) (evs : list oev) (rcpts : list bytes) (plans : list data_plan) : bool :=
  match evs with
  | [] => true
  | ORcpt a true :: r => walk_data sess r (rcpts ++ [a]) plans
  | OReset :: r => walk_data sess r [] plans
  | OData ret _ :: r =>
      let '(p, plans') := pop_plan plans in
      match next_wire r with
      | Some w => lmtp_oracle_wire sess rcpts (dp_status p) ret (dp_panic p) w
      | None => false     (* no final response at all *)
      end && walk_data sess r rcpts plans'
  | _ :: r => walk_data sess r rcpts plans
  end.

(* BDAT: the recipients and the last write at the first Reset/Logout that
   follows an accepted recipient *)
Fixpoint bdat_final (evs : list oev) (rcpts : list bytes) (lastw : bytes) : option (list bytes * bytes) :=
  match evs with
  | [] => None
  | ORcpt a true :: r => bdat_final r (rcpts ++ [a]) lastw
  | OW b :: r => bdat_final r rcpts b
  | OReset :: r => match rcpts with [] => bdat_final r [] lastw | _ => Some (rcpts, lastw) end
  | _ :: r => bdat_final r rcpts lastw
  end.

Definition err_closed_pipe : berr := BPlain (bs "io: read/write on closed pipe").

Definition is_data_ev (e : oev) : bool := match e with OData _ _ => true | _ => false end.

(* the single reply to a BDAT chunk (not LAST) whose copy failed *)
Definition single_reply (e : berr) : bytes :=
  let '(code, ec, msg) := data_error_to_status e in write_response code ec [msg].

(* (number of final responses judged, recorded behaviour violates C13).
   [lmtp_shape = Some chunks]: the conversation was produced by GenLmtp (one
   transaction transferred with that many BDAT commands, the last one LAST) *)
Definition lmtp_obs_judge (cfg : config) (be : backend) (lmtp_shape : option nat) (obs : list sx)
  : list bytes * bool :=
  if negb (cf_lmtp cfg) then ([], false) else
  match assoc1 "events" obs, assoc1 "deliveries" obs with
  | Some (SL evs), Some (SL dels) =>
      let oevs := map dec_oev evs in
      let sess := cf_lmtp_session cfg in
      match dels with
      | [] =>
          if existsb is_data_ev oevs
          then ([bs "c13-oracle-data"], negb (walk_data sess oevs [] (be_data be)))
          else ([], false)
      | [d] =>
          match lmtp_shape with
          | None => ([], false)
          | Some chunks =>
              if existsb is_data_ev oevs then ([], false) else
              match dec_oev d, bdat_final oevs [] [] with
              | OData ret _, Some (rcpts, w) =>
                  let '(p, _) := pop_plan (be_data be) in
                  let fills := ret :: match ret with BNil => [err_closed_pipe] | _ => [] end in
                  let per_rcpt :=
                    existsb (fun r => lmtp_oracle_tail sess rcpts (dp_status p) r (dp_panic p) w) fills in
                  (* a chunk before the LAST one can only fail if the backend stops reading *)
                  let early_single :=
                    (1 <? chunks)%nat
                    && match dp_stop p with Some _ => true | None => false end
                    && match wire_replies w with
                       | Some gs => existsb (fun r => list_bytes_eqb (lastn 1 gs) [single_reply r])
                                            (if dp_panic p then [err_panic] else fills)
                       | None => false
                       end in
                  ([bs "c13-oracle-bdat"], negb (per_rcpt || early_single))
              | _, _ => ([], false)
              end
          end
      | _ => ([], false)
      end
  | _, _ => ([], false)
  end.

Definition lmtp_shape_of (args : list sx) : option nat :=
  match assoc "origin" args with
  | Some (o :: meta) =>
      if sx_is "lmtp" o then
        match assoc1 "chunks" meta with
        | Some n => sx_nat n
        | None => None
        end
      else None
  | _ => None
  end.

Definition with_lmtp_viol (args : list sx) (v : verdict) : verdict :=
  match assoc "cfg" args, assoc "be" args, assoc "obs" args with
  | Some cfga, Some bea, Some obs =>
      match dec_cfg cfga, dec_backend bea with
      | Some cfg, Some be =>
          let '(tags, bad) := lmtp_obs_judge cfg be (lmtp_shape_of args) obs in
          (* a conversation during which the application called Server.Close ends where that call
             found it: the attribution clause of C13 does not apply to the transaction it cut *)
          let cut := existsb (fun e => match e with SL [t] => sx_is "srvclose" t | _ => false end)
                       (match assoc1 "events" obs with Some (SL l) => l | _ => [] end) in
          mkV (v_ok v) (v_agree v) (v_model v)
              (v_viol v ++ (if bad && negb cut then [bs "C13"] else [])) (v_kf v) (v_tags v ++ tags)
      | _, _ => v
      end
  | _, _, _ => v
  end.
