(* parse.go: parseCmd, parseArgs, parseHelloArgument, cutPrefixFold and the
   RFC 5321 path parser. *)
From Smtp Require Import Bytes GoStrings.
Local Open Scope char_scope.

(* cutPrefixFold(s, prefix) for an ASCII prefix without S or K *)
Definition cut_prefix_fold (s p : bytes) : option bytes :=
  if (List.length s <? List.length p)%nat then None
  else if equal_fold (firstn (List.length p) s) p then Some (skipn (List.length p) s)
  else None.

(* parseCmd: Some (cmd, arg) or None for an error *)
Definition parse_cmd (line0 : bytes) : option (bytes * bytes) :=
  let line := trim_right_crlf line0 in
  let l := List.length line in
  if has_prefix (to_upper line) (bs "STARTTLS") then Some (bs "STARTTLS", [])
  else if (l =? 0)%nat then Some ([], [])
  else if (l <? 4)%nat then None
  else if (l =? 4)%nat then Some (to_upper line, [])
  else if (l =? 5)%nat then None
  else if negb (Ascii.eqb (nth 4 line " ") " ") then None
  else Some (to_upper (firstn 4 line), trim_space (skipn 5 line)).

(* parseArgs: association list key -> value in order of first occurrence of
   the key, a later duplicate overwriting the value (map semantics).  Keys are
   upper-cased ASCII-only (upperASCII); "KEY=" is an error, so an empty value
   in the result always stands for a bare "KEY". *)
Fixpoint assoc_set (k v : bytes) (m : list (bytes * bytes)) : list (bytes * bytes) :=
  match m with
  | [] => [(k, v)]
  | (k', v') :: r => if bytes_eqb k k' then (k, v) :: r else (k', v') :: assoc_set k v r
  end.

Fixpoint parse_args_go (fs : list bytes) (m : list (bytes * bytes)) : option (list (bytes * bytes)) :=
  match fs with
  | [] => Some m
  | a :: r =>
      match split_byte "=" a with
      | [k; v] =>
          match v with
          | [] => None                       (* "KEY=": an esmtp-value is never empty *)
          | _ => parse_args_go r (assoc_set (to_upper_ascii k) v m)
          end
      | [k] => parse_args_go r (assoc_set (to_upper_ascii k) [] m)
      | _ => None
      end
  end.

Definition parse_args (s : bytes) : option (list (bytes * bytes)) :=
  parse_args_go (fields s) [].

(* parseHelloArgument *)
Definition parse_hello_argument (arg : bytes) : option bytes :=
  let domain := match cut_byte " " arg with Some (a, _) => a | None => arg end in
  match domain with [] => None | _ => Some domain end.

(* ---- parser ---- *)

Definition dot_string_special (c : ascii) : bool :=
  mem_byte c (bs "()<>[]:;\,""") || Ascii.eqb c " " || Ascii.eqb c HT.

(* quoted-string body, after the opening quote: (content, rest) *)
Fixpoint quoted_go (s : bytes) (acc : bytes) : option (bytes * bytes) :=
  match s with
  | [] => None
  | c :: t =>
      if Ascii.eqb c "\" then
        match t with
        | d :: t' => quoted_go t' (d :: acc)
        | [] => None
        end
      else if Ascii.eqb c """" then Some (rev acc, t)
      else quoted_go t (c :: acc)
  end.

(* dot-string: up to '@' or the end; a special character is an error *)
Fixpoint dot_string_go (s : bytes) (acc : bytes) : option (bytes * bytes) :=
  match s with
  | [] => Some (rev acc, [])
  | c :: t =>
      if Ascii.eqb c "@" then Some (rev acc, s)
      else if dot_string_special c then None
      else dot_string_go t (c :: acc)
  end.

Definition parse_local_part (s : bytes) : option (bytes * bytes) :=
  match s with
  | c :: t => if Ascii.eqb c """" then quoted_go t [] else dot_string_go s []
  | [] => dot_string_go s []
  end.

(* domain: any octets up to SP, HT or '>' *)
Fixpoint domain_go (s : bytes) (acc : bytes) : bytes * bytes :=
  match s with
  | [] => (rev acc, [])
  | c :: t =>
      if Ascii.eqb c " " || Ascii.eqb c HT || Ascii.eqb c ">" then (rev acc, s)
      else domain_go t (c :: acc)
  end.

(* parser.parseMailbox: Some (mailbox, rest) *)
Definition parse_mailbox (s : bytes) : option (bytes * bytes) :=
  match parse_local_part s with
  | None => None
  | Some ([], _) => None
  | Some (lp, r) =>
      match r with
      | c :: r' =>
          if Ascii.eqb c "@" then
            let '(dom, rest) := domain_go r' [] in
            (* strings.HasSuffix(sb.String(), "@"): the domain is empty, or
               ends in '@' *)
            if has_suffix (lp ++ "@" :: dom) (bs "@") then None
            else Some (lp ++ "@" :: dom, rest)
          else None
      | [] => None
      end
  end.

(* parser.parsePath *)
Definition parse_path (s : bytes) : option (bytes * bytes) :=
  let '(bracket, s1) :=
    match s with
    | c :: t => if Ascii.eqb c "<" then (true, t) else (false, s)
    | [] => (false, s)
    end in
  let s2 :=
    match s1 with
    | c :: t =>
        if Ascii.eqb c "@" then
          match cut_byte ":" t with
          | Some (_, r) => Some r
          | None => None
          end
        else Some s1
    | [] => Some s1
    end in
  match s2 with
  | None => None
  | Some s2 =>
      match parse_mailbox s2 with
      | None => None
      | Some (mbox, r) =>
          if bracket then
            match r with
            | c :: r' => if Ascii.eqb c ">" then Some (mbox, r') else None
            | [] => None
            end
          else Some (mbox, r)
      end
  end.

(* parser.parseReversePath *)
Definition parse_reverse_path (s : bytes) : option (bytes * bytes) :=
  if has_prefix s (bs "<>") then Some ([], skipn 2 s) else parse_path s.
