(* Extraction of the executable model + correspondence checks to OCaml.
   ExtrOcamlBasic only: bool, option, list, prod, unit, sumbool map to OCaml's;
   nat, N, Z, positive, ascii stay the extracted inductive types.  No Extract
   Constant / Extract Inductive of our own. *)
From Coq Require Extraction ExtrOcamlBasic.
From Smtp Require Import Check.
Extraction Language OCaml.
Extraction "model.ml" run_line.
