#!/usr/bin/env python3
"""showcase.py FILE N : print case line N of a .cases file with hex octet strings made readable"""
import sys,re
n=int(sys.argv[2])
for i,l in enumerate(open(sys.argv[1]),1):
    if i==n:
        def unhex(m):
            try: return 'x"'+bytes.fromhex(m.group(1)).decode('latin1').replace('\r','\\r').replace('\n','\\n')+'"'
            except Exception: return m.group(0)
        print(re.sub(r'\bx([0-9a-f]*)\b',unhex,l))
