(* kind life: the life cycle of the real smtp.Server (harness/genlife.go)
   against the model ServerLife.v, and against property C20's text.

   (life (ops conn temp perm close shutdown wclose wshutdown (finish n<k>) expire ...)
         (obs (skip)|(accepted)|(delay n<ms>)|(serveret r)|(ret r)|(pending)|
              (sdret r)|(none)|(timeout) ...)
         (serve running|nil|err|other) (conns open|closed|finished ...)
         (accepts n<calls>)
         [(liserr once|always)])    the scripted listener's Close returns an error
                                    (the first time / every time it is called);
                                    r: nil closed ctx err liserr *)
From Coq Require Import List Arith NArith Bool String.
From Smtp Require Import Bytes Sx CheckBase ServerLife.
Import ListNotations.
Local Open Scope N_scope.

(* observed: a model observation, or something the model never produces *)
Inductive oobs := OB (b : obs) | OTimeout | OOther.

(* a harness operation: `conn` hands a connection to Accept AND waits for the
   greeting, i.e. for the handler to have registered the connection;
   `wclose` / `wshutdown` run Close / Shutdown with a connection in the window
   between Accept's return and its handler's registration (the scripted
   listener hands the connection over from inside its Close, which the server
   calls under s.locker after closing s.done; the handler registers when
   Close / Shutdown has released s.locker) *)
Inductive hop := HConn | HOp (o : op) | HCloseW | HShutdownW.

Definition dec_op (x : sx) : option hop :=
  match x with
  | SL [t; k] => if sx_is "finish" t then option_map (fun k => HOp (OFinish k)) (sx_nat k) else None
  | _ =>
      if sx_is "conn" x then Some HConn
      else if sx_is "temp" x then Some (HOp (OAccept ATemp))
      else if sx_is "perm" x then Some (HOp (OAccept APerm))
      else if sx_is "close" x then Some (HOp OClose)
      else if sx_is "shutdown" x then Some (HOp OShutdown)
      else if sx_is "expire" x then Some (HOp OExpire)
      else if sx_is "wclose" x then Some HCloseW
      else if sx_is "wshutdown" x then Some HShutdownW
      else None
  end.


Definition step_h (s : st) (h : hop) : st * obs :=
  match h with
  | HConn =>
      let '(s1, b) := step s (OAccept AConn) in
      match b with
      | BAccepted => (fst (step s1 (ORegister (List.length (ServerLife.conns s)))), BAccepted)
      | _ => (s1, b)
      end
  | HOp o => step s o
  | HCloseW =>
      (* Accept returns the connection (if Serve still accepts), Close runs,
         then the handler gets s.locker *)
      let s1 := fst (step s (OAccept AConn)) in
      let '(s2, b) := step s1 OClose in
      (fst (step s2 (ORegister (List.length (ServerLife.conns s)))), b)
  | HShutdownW =>
      let s1 := fst (step s (OAccept AConn)) in
      let '(s2, b) := step s1 OShutdown in
      let '(s3, b3) := step s2 (ORegister (List.length (ServerLife.conns s))) in
      (* the call blocks until the handler of the window connection has
         returned; seen from outside it just returns *)
      (s3, match b, b3 with BPending, BShutdownRet r => BRet r | _, _ => b end)
  end.

(* was the window of a wclose / wshutdown actually arranged (tags only) *)
Fixpoint count_windows (s : st) (l : list hop) : nat :=
  match l with
  | [] => O
  | h :: r =>
      ((match h with
        | HCloseW | HShutdownW => if serving s && negb (lis_closed s) then 1 else 0
        | _ => 0
        end) + count_windows (fst (step_h s h)) r)%nat
  end.

Fixpoint run_h (s : st) (l : list hop) : st * list obs :=
  match l with
  | [] => (s, [])
  | h :: r =>
      let '(s1, b) := step_h s h in
      let '(s2, bs) := run_h s1 r in
      (s2, b :: bs)
  end.

Definition dec_ret (x : sx) : option ret :=
  if sx_is "nil" x then Some RNil
  else if sx_is "closed" x then Some RServerClosed
  else if sx_is "ctx" x then Some RCtxErr
  else if sx_is "err" x then Some RAcceptErr
  else if sx_is "liserr" x then Some RListenerErr
  else None.

Definition dec_obs (x : sx) : option oobs :=
  match x with
  | SL [t] =>
      if sx_is "skip" t then Some (OB BSkip)
      else if sx_is "accepted" t then Some (OB BAccepted)
      else if sx_is "pending" t then Some (OB BPending)
      else if sx_is "none" t then Some (OB BNone)
      else if sx_is "timeout" t then Some OTimeout
      else None
  | SL [t; a] =>
      if sx_is "delay" t then option_map (fun d => OB (BDelay d)) (sx_N a)
      else if sx_is "serveret" t then
        Some (match dec_ret a with Some r => OB (BServeRet r) | None => OOther end)
      else if sx_is "ret" t then
        Some (match dec_ret a with Some r => OB (BRet r) | None => OOther end)
      else if sx_is "sdret" t then
        Some (match dec_ret a with Some r => OB (BShutdownRet r) | None => OOther end)
      else None
  | _ => None
  end.

Definition ret_eqb (a b : ret) : bool :=
  match a, b with
  | RNil, RNil | RServerClosed, RServerClosed | RCtxErr, RCtxErr | RAcceptErr, RAcceptErr
  | RListenerErr, RListenerErr => true
  | _, _ => false
  end.

(* how much longer than the nominal delay the observed gap between the
   failing Accept and the next Accept call may be (scheduling, timer) *)
Definition delay_slack : N := 3000.

Definition obs_agree (m : obs) (o : oobs) : bool :=
  match m, o with
  | BSkip, OB BSkip | BAccepted, OB BAccepted | BPending, OB BPending | BNone, OB BNone => true
  | BDelay d, OB (BDelay d') => (d <=? d') && (d' <=? d + delay_slack)
  | BServeRet r, OB (BServeRet r') => ret_eqb r r'
  | BRet r, OB (BRet r') => ret_eqb r r'
  | BShutdownRet r, OB (BShutdownRet r') => ret_eqb r r'
  | _, _ => false
  end.

Fixpoint all_agree (ms : list obs) (os : list oobs) : bool :=
  match ms, os with
  | [], [] => true
  | m :: ms', o :: os' => obs_agree m o && all_agree ms' os'
  | _, _ => false
  end.

Definition show_ret (r : ret) : sx :=
  XT (match r with RNil => "nil" | RServerClosed => "closed" | RCtxErr => "ctx" | RAcceptErr => "err"
              | RListenerErr => "liserr" end).

Definition show_obs (b : obs) : sx :=
  match b with
  | BSkip => SL [XT "skip"] | BAccepted => SL [XT "accepted"]
  | BDelay d => SL [XT "delay"; XN d]
  | BServeRet r => SL [XT "serveret"; show_ret r]
  | BRet r => SL [XT "ret"; show_ret r]
  | BPending => SL [XT "pending"]
  | BShutdownRet r => SL [XT "sdret"; show_ret r]
  | BNone => SL [XT "none"]
  end.

Definition show_serve (s : st) : sx :=
  if serving s then XT "running"
  else match serve_ret s with
       | Some r => show_ret r
       | None => XT "running"
       end.

Definition show_conn (c : cstate) : sx :=
  XT (match c with CSpawned => "spawned" | COpen => "open" | CClosedByServer => "closed"
              | CFinished => "finished" end).

(* ---- the property oracle: C20's text on the OBSERVED behaviour only ---- *)

Record mon := mkMon {
  m_stopped : bool;     (* a Close / Shutdown call has been made *)
  m_closed : bool;      (* the first Close call has been made (whatever it returned) *)
  m_gone : bool;        (* Serve has been seen to return, or must have *)
  m_conns : list bool;  (* accepted connections: still active? *)
  m_pending : bool;     (* a Shutdown call blocks *)
  m_bad : bool
}.

Definition m_open (m : mon) : nat := List.length (filter (fun b => b) (m_conns m)).

Fixpoint set_false (k : nat) (l : list bool) : list bool :=
  match l, k with
  | [], _ => []
  | _ :: r, O => false :: r
  | b :: r, S k' => b :: set_false k' r
  end.

Definition is_ob (o : oobs) (b : obs) : bool :=
  match o, b with
  | OB BSkip, BSkip | OB BAccepted, BAccepted | OB BPending, BPending | OB BNone, BNone => true
  | OB (BServeRet r), BServeRet r' => ret_eqb r r'
  | OB (BRet r), BRet r' => ret_eqb r r'
  | OB (BShutdownRet r), BShutdownRet r' => ret_eqb r r'
  | _, _ => false
  end.

Definition flag (m : mon) (ok : bool) : mon :=
  mkMon (m_stopped m) (m_closed m) (m_gone m) (m_conns m) (m_pending m) (m_bad m || negb ok).

(* e: the listener's Close returns an error (an INPUT of the case: the
   harness scripted it).  Then the first Close / Shutdown must return that
   error ("returns any error returned from closing the server's underlying
   listener(s)") - and must still do everything else: Close ends every
   connection, Shutdown waits for the active ones. *)
Definition okr (e : bool) : ret := if e then RListenerErr else RNil.

Definition mon_op (e : bool) (m : mon) (o : op) (b : oobs) : mon :=
  match b with
  | OTimeout | OOther => flag m false   (* something hung, or an unknown error came back *)
  | _ =>
  match o with
  | ORegister _ => flag m false   (* not a harness operation *)
  | OAccept r =>
      if m_stopped m then
        (* stops accepting: nothing may be accepted or slept on any more *)
        flag m (is_ob b BSkip)
      else if m_gone m then flag m (is_ob b BSkip)
      else
        match r with
        | AConn =>
            let m' := mkMon (m_stopped m) (m_closed m) (m_gone m) (m_conns m ++ [true]) (m_pending m) (m_bad m) in
            flag m' (is_ob b BAccepted)
        | ATemp =>
            (* Serve survives: it sleeps (at least 5 ms) and calls Accept again *)
            flag m (match b with OB (BDelay d) => (5 <=? d) && (d <=? 1000 + delay_slack) | _ => false end)
        | APerm =>
            let m' := mkMon (m_stopped m) (m_closed m) true (m_conns m) (m_pending m) (m_bad m) in
            flag m' (is_ob b (BServeRet RAcceptErr))
        end
  | OClose =>
      if m_stopped m then flag m (is_ob b (BRet RServerClosed))
      else
        (* Close ends every connection; Serve returns (checked at the end) *)
        let m' := mkMon true true true (map (fun _ => false) (m_conns m)) false (m_bad m) in
        flag m' (is_ob b (BRet (okr e)))
  | OShutdown =>
      if m_stopped m then flag m (is_ob b (BRet RServerClosed))
      else if (m_open m =? 0)%nat then
        flag (mkMon true (m_closed m) true (m_conns m) false (m_bad m)) (is_ob b (BRet (okr e)))
      else
        flag (mkMon true (m_closed m) true (m_conns m) true (m_bad m)) (is_ob b BPending)
  | OFinish k =>
      match nth_error (m_conns m) k with
      | Some true =>
          let cs := set_false k (m_conns m) in
          let m' := mkMon (m_stopped m) (m_closed m) (m_gone m) cs (m_pending m) (m_bad m) in
          if m_pending m then
            if (m_open m' =? 0)%nat then
              flag (mkMon (m_stopped m) (m_closed m) (m_gone m) cs false (m_bad m))
                   (is_ob b (BShutdownRet (okr e)))
            else flag m' (is_ob b BNone)
          else flag m' (is_ob b BNone)
      | _ => flag m (is_ob b BSkip)
      end
  | OExpire =>
      if m_pending m then
        flag (mkMon (m_stopped m) (m_closed m) (m_gone m) (m_conns m) false (m_bad m))
             (is_ob b (BShutdownRet RCtxErr))
      else flag m (is_ob b BSkip)
  end
  end.

(* a connection accepted while Close / Shutdown is under way must be ended by
   the server (Close "ends every connection", Shutdown "stops accepting"): it
   enters the monitor as not active; mon_final checks it was not left open *)
Definition mon_window (m : mon) : mon :=
  if m_stopped m || m_gone m then m   (* Serve accepts nothing: no window *)
  else mkMon (m_stopped m) (m_closed m) (m_gone m) (m_conns m ++ [false]) (m_pending m) (m_bad m).

Definition mon_step (e : bool) (m : mon) (h : hop) (b : oobs) : mon :=
  match h with
  | HConn => mon_op e m (OAccept AConn) b
  | HOp o => mon_op e m o b
  | HCloseW => mon_op e (mon_window m) OClose b
  | HShutdownW => mon_op e (mon_window m) OShutdown b
  end.

Fixpoint mon_run (e : bool) (m : mon) (ops : list hop) (bs : list oobs) : mon :=
  match ops, bs with
  | o :: ops', b :: bs' => mon_run e (mon_step e m o b) ops' bs'
  | [], [] => m
  | _, _ => flag m false
  end.

Definition mon_init : mon := mkMon false false false [] false false.

Fixpoint ended_not_open (active : list bool) (conns : list sx) : bool :=
  match active, conns with
  | a :: ar, c :: cr => (a || negb (sx_is "open" c)) && ended_not_open ar cr
  | _, _ => true
  end.

(* final check: after Close/Shutdown Serve has returned nil; after a
   permanent error it returned that error; after Close no connection is
   still open; a connection that has ended (peer left, closed by Close,
   accepted during Close / Shutdown) is not open; otherwise Serve is still
   running *)
Definition mon_final (m : mon) (serve : sx) (conns : list sx) : bool :=
  (if m_stopped m then
     sx_is "nil" serve || sx_is "err" serve     (* err: it had already returned *)
   else if m_gone m then sx_is "err" serve
   else sx_is "running" serve) &&
  (if m_closed m then forallb (fun c => negb (sx_is "open" c)) conns else true) &&
  ended_not_open (m_conns m) conns.

Fixpoint count_delays (bs : list oobs) : nat :=
  match bs with
  | OB (BDelay _) :: r => S (count_delays r)
  | _ :: r => count_delays r
  | [] => O
  end.

Definition has_ob (bs : list oobs) (b : obs) : bool := existsb (fun o => is_ob o b) bs.

Definition check_life (args : list sx) : verdict :=
  match assoc "ops" args, assoc "obs" args, assoc1 "serve" args, assoc "conns" args with
  | Some opsx, Some obsx, Some serve, Some conns =>
      match map_opt dec_op opsx, map_opt dec_obs obsx with
      | Some ops, Some obl =>
          let e := match assoc1 "liserr" args with Some _ => true | None => false end in
          let '(s, ms) := run_h (init_e e) ops in
          let model := SL [SL (XT "obs" :: map show_obs ms); SL [XT "serve"; show_serve s];
                           SL (XT "conns" :: map show_conn (ServerLife.conns s))] in
          let agree :=
            all_agree ms obl && sx_eqb (show_serve s) serve &&
            sx_eqb (SL (map show_conn (ServerLife.conns s))) (SL conns) in
          let m := mon_run e mon_init ops obl in
          let ok := negb (m_bad m) && mon_final m serve conns in
          let tags :=
            (if has_ob obl (BRet RNil) then [bs "stop"] else []) ++
            (if has_ob obl (BRet RServerClosed) then [bs "second-call"] else []) ++
            (if has_ob obl BPending then [bs "shutdown-blocks"] else []) ++
            (if has_ob obl (BShutdownRet RNil) then [bs "shutdown-nil"] else []) ++
            (if has_ob obl (BShutdownRet RCtxErr) then [bs "shutdown-ctx"] else []) ++
            (if has_ob obl (BServeRet RAcceptErr) then [bs "perm-error"] else []) ++
            (if (0 <? count_delays obl)%nat then [bs "temp-error"] else []) ++
            (if (9 <=? count_delays obl)%nat then [bs "backoff-cap"] else []) ++
            (if existsb (fun c => sx_is "closed" c) conns then [bs "conn-closed-by-close"] else []) ++
            (if (0 <? count_windows (init_e e) ops)%nat then [bs "accept-window"] else []) ++
            (if e then [bs "listener-close-fails"] else []) ++
            (if has_ob obl (BRet RListenerErr) then [bs "listener-error-returned"] else []) ++
            (if has_ob obl (BShutdownRet RListenerErr) then [bs "listener-error-after-wait"] else []) ++
            (if e && has_ob obl (BRet RListenerErr) && existsb (fun c => sx_is "closed" c) conns
             then [bs "listener-error-conns-closed"] else []) in
          mkV true agree model (if ok then [] else [bs "C20"]) [] tags
      | _, _ => bad_case
      end
  | _, _, _, _ => bad_case
  end.
