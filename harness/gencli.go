package harness

import (
	"testing/iotest"
	"crypto/tls"
	"encoding/base64"
	"errors"
	"fmt"
	"io"
	"math/rand"
	"net"
	"net/textproto"
	"strings"
	"time"

	"bytes"

	smtp "github.com/emersion/go-smtp"
)

// Case kind "cli": the real go-smtp CLIENT driven through its exported API
// against a pre-scripted fake server (ScriptConn: Read serves the scripted
// octet stream in segments and never looks at what the client writes, Write
// records the octets).
//
//	(cli (lmtp t|f) (stream x) (cuts (n ..)) (focus atom)
//	     (calls (CALL ..)) (obs (OBS ..)))
//
//	CALL ::= (hello x) | (verify x) | (mail x MOPTS ANN*) | (rcpt x ROPTS ANN*)
//	       | (data) | (lmtpdata t|f) | (write x) | (close ANN*) | (reset) | (noop) | (quit)
//	       | (auth xMECH IR STARTERR (STEP ..)) | (ext x) | (sendmail x (x ..) x)
//	       | (starttls ANN*)
//	MOPTS ::= nil | (o zSIZE bRTLS bUTF8 xRET xENVID AUTH xBODY)     AUTH ::= nil | x
//	ROPTS ::= nil | (o (xNOTIFY ..) xTYPE xORCPT RRVS)               RRVS ::= nil | (t zUNIX zOFF)
//	IR, STARTERR ::= nil | x       STEP ::= (r x) | (rnil) | (e x)
//	ANN  ::= (adv (xKEY ..))   keys of the EHLO reply in force (stated by the generator)
//	       | (verd (RES ..))   the scripted per-recipient (LMTP) / final (SMTP) replies of this Close
//	       | (exp nostarttls|refused|accepted)
//	OBS  ::= (o (w (x ..)) (tlsrec t|f) (r RES) (cbs ((x RES) ..)) [(xt t|f x)] [(got (x ..))])
//	RES  ::= nil | (smtp z z z z x) | (local x) | (io) | (panic x)
//
// w: the plaintext octets of every conn.Write made during the call, one x per
// Write (in the TLS phase: up to the first TLS record, whose presence is
// reported by tlsrec).

type scriptErr string

func (e scriptErr) Error() string { return string(e) }

type saslStep struct {
	resp  []byte
	isNil bool
	err   string
	isErr bool
}

type saslScript struct {
	mech     string
	ir       []byte // nil: no initial response
	startErr string
	hasStart bool
	steps    []saslStep
	i        int
	got      [][]byte
}

func (s *saslScript) Start() (string, []byte, error) {
	if s.hasStart {
		return "", nil, scriptErr(s.startErr)
	}
	return s.mech, s.ir, nil
}

func (s *saslScript) Next(ch []byte) ([]byte, error) {
	s.got = append(s.got, append([]byte{}, ch...))
	if s.i >= len(s.steps) {
		return nil, scriptErr("verif: sasl script exhausted")
	}
	st := s.steps[s.i]
	s.i++
	if st.isErr {
		return nil, scriptErr(st.err)
	}
	if st.isNil {
		return nil, nil
	}
	return append([]byte{}, st.resp...), nil
}

type cliCall struct {
	kind  string
	s     string
	mopts *smtp.MailOptions
	ropts *smtp.RcptOptions
	cb    bool
	tos   []string
	body  []byte
	auth  *saslScript
	ann   []*Sx
}

var sendmailCounter int

type cliCase struct {
	lmtp      bool
	tlsStream []byte // non-nil: the scripted server completes a real TLS handshake after its 220 and then sends this
	stream    []byte
	cuts   []int
	focus  string
	calls  []cliCall
}

func cliRes(err error) *Sx {
	if err == nil {
		return A("nil")
	}
	switch e := err.(type) {
	case *smtp.SMTPError:
		return L(A("smtp"), ZNum(e.Code), ZNum(e.EnhancedCode[0]), ZNum(e.EnhancedCode[1]), ZNum(e.EnhancedCode[2]), XS(e.Message))
	case textproto.ProtocolError:
		return L(A("local"), XS(string(e)))
	case base64.CorruptInputError:
		return L(A("local"), XS("base64"))
	case scriptErr:
		return L(A("local"), XS(string(e)))
	}
	if err == io.EOF || errors.Is(err, net.ErrClosed) {
		return L(A("io"))
	}
	if strings.HasPrefix(err.Error(), "smtp: ") {
		return L(A("local"), XS(err.Error()))
	}
	// TLS handshake errors and anything else coming from the connection
	return L(A("io"))
}

// num64 writes any int64 (including the minimum) in the n/m notation.
func num64(n int64) *Sx {
	if n < 0 {
		return A(fmt.Sprintf("m%d", uint64(-n)))
	}
	return A(fmt.Sprintf("n%d", n))
}

func mailOptsSx(o *smtp.MailOptions) *Sx {
	if o == nil {
		return A("nil")
	}
	au := A("nil")
	if o.Auth != nil {
		au = XS(*o.Auth)
	}
	return L(A("o"), num64(o.Size), B(o.RequireTLS), B(o.UTF8), XS(string(o.Return)), XS(o.EnvelopeID), au, XS(string(o.Body)))
}

func rcptOptsSx(o *smtp.RcptOptions) *Sx {
	if o == nil {
		return A("nil")
	}
	nl := L()
	for _, n := range o.Notify {
		nl.Add(XS(string(n)))
	}
	t := A("nil")
	if o.RequireRecipientValidSince != (time.Time{}) {
		_, off := o.RequireRecipientValidSince.Zone()
		t = L(A("t"), Num(o.RequireRecipientValidSince.Unix()), Num(int64(off)))
	}
	return L(A("o"), nl, XS(string(o.OriginalRecipientType)), XS(o.OriginalRecipient), t)
}

func (c cliCall) sx() *Sx {
	var x *Sx
	switch c.kind {
	case "hello", "verify", "ext", "write":
		x = L(A(c.kind), XS(c.s))
	case "mail":
		x = L(A("mail"), XS(c.s), mailOptsSx(c.mopts))
	case "rcpt":
		x = L(A("rcpt"), XS(c.s), rcptOptsSx(c.ropts))
	case "lmtpdata":
		x = L(A("lmtpdata"), B(c.cb))
	case "auth":
		ir, se := A("nil"), A("nil")
		if c.auth.ir != nil {
			ir = X(c.auth.ir)
		}
		if c.auth.hasStart {
			se = XS(c.auth.startErr)
		}
		st := L()
		for _, s := range c.auth.steps {
			switch {
			case s.isErr:
				st.Add(L(A("e"), XS(s.err)))
			case s.isNil:
				st.Add(L(A("rnil")))
			default:
				st.Add(L(A("r"), X(s.resp)))
			}
		}
		x = L(A("auth"), XS(c.auth.mech), ir, se, st)
	case "sendmail":
		tl := L()
		for _, t := range c.tos {
			tl.Add(XS(t))
		}
		x = L(A("sendmail"), XS(c.s), tl, X(c.body))
	default: // data close reset noop quit starttls
		x = L(A(c.kind))
	}
	x.Add(c.ann...)
	return x
}

func cliSeg(stream []byte, cuts []int) []Raw {
	var raws []Raw
	start := 0
	for _, c := range cuts {
		if c > start && c < len(stream) {
			raws = append(raws, Raw{Kind: RawData, Data: append([]byte(nil), stream[start:c]...)})
			start = c
		}
	}
	if start < len(stream) {
		raws = append(raws, Raw{Kind: RawData, Data: append([]byte(nil), stream[start:]...)})
	}
	return raws
}

// runCli executes the case on the real client and renders it.
func runCli(cs cliCase) *Sx {
	var chunks [][]byte
	var sc netConn
	if cs.tlsStream != nil {
		// a scripted server that really speaks TLS after the 220: one record with the TLS-phase stream
		pc := NewPhasedConn(cliSeg(cs.stream, cs.cuts), []Raw{{Kind: RawData, Data: cs.tlsStream}}, true, false)
		pc.RemoteServer = true
		pc.OnWire = func(b []byte) { chunks = append(chunks, append([]byte{}, b...)) }
		sc = pc
	} else {
		s0 := NewScriptConn(cliSeg(cs.stream, cs.cuts))
		s0.OnWrite = func(b []byte) { chunks = append(chunks, append([]byte{}, b...)) }
		sc = s0
	}
	type cbRec struct {
		rcpt string
		st   *smtp.SMTPError
	}
	var cbs []cbRec
	var c *smtp.Client
	var w io.WriteCloser
	tlsPhase := false
	calls := L()
	obs := L()
	started := false
	for i, call := range cs.calls {
		if call.kind == "starttls" {
			if i != 0 || cs.lmtp {
				continue
			}
		} else if !started {
			if cs.lmtp {
				c = smtp.NewClientLMTP(sc)
			} else {
				c = smtp.NewClient(sc)
			}
		}
		if started && c == nil {
			break // NewClientStartTLS failed: there is no client
		}
		if (call.kind == "write" || call.kind == "close") && w == nil {
			continue
		}
		started = true
		chunks = nil
		cbs = nil
		var err error
		var extra []*Sx
		var pan interface{}
		func() {
			defer func() {
				if r := recover(); r != nil {
					pan = r
				}
			}()
			switch call.kind {
			case "starttls":
				var cl *smtp.Client
				cl, err = smtp.NewClientStartTLS(sc, &tls.Config{InsecureSkipVerify: true})
				c = cl
				if err == nil {
					tlsPhase = true
				}
			case "hello":
				err = c.Hello(call.s)
			case "verify":
				err = c.Verify(call.s)
			case "mail":
				err = c.Mail(call.s, call.mopts)
			case "rcpt":
				err = c.Rcpt(call.s, call.ropts)
			case "data":
				var ww io.WriteCloser
				ww, err = c.Data()
				if err == nil {
					w = ww
				}
			case "lmtpdata":
				var ww io.WriteCloser
				var f func(string, *smtp.SMTPError)
				if call.cb {
					f = func(r string, s *smtp.SMTPError) { cbs = append(cbs, cbRec{r, s}) }
				}
				ww, err = c.LMTPData(f)
				if err == nil {
					w = ww
				}
			case "write":
				_, err = w.Write(call.body)
			case "close":
				err = w.Close()
			case "reset":
				err = c.Reset()
			case "noop":
				err = c.Noop()
			case "quit":
				err = c.Quit()
			case "auth":
				err = c.Auth(call.auth)
				gl := L()
				for _, g := range call.auth.got {
					gl.Add(X(g))
				}
				extra = append(extra, L(A("got"), gl))
			case "ext":
				ok, v := c.Extension(call.s)
				extra = append(extra, L(A("xt"), B(ok), XS(v)))
			case "sendmail":
				// the body comes from readers of different habits (none of them changes what is sent):
				// all at once (a WriterTo), the last octets together with io.EOF, one octet per Read
				sendmailCounter++
				var rd io.Reader = bytes.NewReader(call.body)
				switch sendmailCounter % 3 {
				case 1:
					rd = iotest.DataErrReader(struct{ io.Reader }{bytes.NewReader(call.body)})
				case 2:
					rd = iotest.OneByteReader(struct{ io.Reader }{bytes.NewReader(call.body)})
				}
				err = c.SendMail(call.s, call.tos, rd)
				w = nil // the model's "most recent data writer" is now SendMail's own
			}
		}()
		wl := L()
		tlsrec := false
		for _, ch := range chunks {
			if tlsPhase && call.kind != "starttls" && len(ch) > 0 && (ch[0] == 0x16 || ch[0] == 0x15 || ch[0] == 0x17 || ch[0] == 0x14) {
				tlsrec = true
				break
			}
			wl.Add(X(ch))
		}
		res := cliRes(err)
		if pan != nil {
			res = L(A("panic"), XS(fmt.Sprint(pan)))
		}
		cl := L()
		for _, r := range cbs {
			if r.st == nil {
				cl.Add(L(XS(r.rcpt), A("nil")))
			} else {
				cl.Add(L(XS(r.rcpt), cliRes(r.st)))
			}
		}
		o := L(A("o"), L(A("w"), wl), L(A("tlsrec"), B(tlsrec)), L(A("r"), res), L(A("cbs"), cl))
		o.Add(extra...)
		if call.kind == "write" {
			cc := call
			cc.s = string(call.body)
			calls.Add(cc.sx())
		} else {
			calls.Add(call.sx())
		}
		obs.Add(o)
	}
	cuts := L()
	for _, k := range cs.cuts {
		cuts.Add(Num(int64(k)))
	}
	res := L(A("cli"), L(A("lmtp"), B(cs.lmtp)), L(A("stream"), X(cs.stream)), L(A("cuts"), cuts),
		L(A("focus"), A(cs.focus)), L(A("calls"), calls), L(A("obs"), obs))
	if cs.tlsStream != nil {
		res.Add(L(A("tlsstream"), X(cs.tlsStream)))
	}
	return res
}

// ---------- generators ----------

var cliExtKeys = []string{"8BITMIME", "SIZE", "REQUIRETLS", "SMTPUTF8", "DSN", "AUTH", "RRVS"}

func advSx(keys []string) *Sx {
	l := L()
	for _, k := range keys {
		l.Add(XS(k))
	}
	return L(A("adv"), l)
}

// EHLO reply advertising the given keys (with parameters for some)
func ehloReply(keys []string) string {
	lines := []string{"srv.example greets you"}
	for _, k := range keys {
		switch k {
		case "SIZE":
			lines = append(lines, "SIZE 1000000")
		case "AUTH":
			lines = append(lines, "AUTH PLAIN LOGIN")
		default:
			lines = append(lines, k)
		}
	}
	var sb strings.Builder
	for i, l := range lines {
		sep := "-"
		if i == len(lines)-1 {
			sep = " "
		}
		sb.WriteString("250" + sep + l + "\r\n")
	}
	return sb.String()
}

func subsetOf(keys []string, mask int) []string {
	var r []string
	for i, k := range keys {
		if mask&(1<<i) != 0 {
			r = append(r, k)
		}
	}
	return r
}

func randCuts(rng *rand.Rand, stream []byte) []int {
	var cuts []int
	switch rng.Intn(4) {
	case 0: // one segment
	case 1: // per line
		for i, b := range stream {
			if b == '\n' {
				cuts = append(cuts, i+1)
			}
		}
	case 2: // random
		for i := 1; i < len(stream); i++ {
			if rng.Intn(9) == 0 {
				cuts = append(cuts, i)
			}
		}
	default: // byte by byte (short streams), else random small
		for i := 1; i < len(stream); i++ {
			if len(stream) < 200 || rng.Intn(3) == 0 {
				cuts = append(cuts, i)
			}
		}
	}
	return cuts
}

func strp(s string) *string { return &s }

// option subsets of MailOptions: bit i set = field i non-zero
func mailOptsOf(mask int, s string) *smtp.MailOptions {
	o := &smtp.MailOptions{}
	if mask&1 != 0 {
		o.Size = 12345
	}
	if mask&2 != 0 {
		o.RequireTLS = true
	}
	if mask&4 != 0 {
		o.UTF8 = true
	}
	if mask&8 != 0 {
		o.Return = smtp.DSNReturnHeaders
	}
	if mask&16 != 0 {
		o.EnvelopeID = s
	}
	if mask&32 != 0 {
		o.Auth = strp(s)
	}
	if mask&64 != 0 {
		o.Body = []smtp.BodyType{smtp.BodyBinaryMIME, smtp.Body7Bit, smtp.Body8BitMIME}[(mask&63)%3]
	}
	return o
}

var cliTimes = []time.Time{
	time.Unix(1700000000, 0).UTC(),
	time.Unix(1700000000, 0).In(time.FixedZone("", -12600)),
	time.Unix(951782400, 0).In(time.FixedZone("", 3600)),    // 2000-02-29
	time.Unix(-1, 0).In(time.FixedZone("", 59)),             // offset below a minute
	time.Unix(-62135596800, 0).In(time.FixedZone("", 3600)), // the zero instant, other zone
	time.Unix(253402300800, 0).UTC(),                        // year 10000
	time.Unix(-62198755200, 0).UTC(),                        // year -1
	time.Unix(1709210096, 0).In(time.FixedZone("", -30)),
	time.Unix(4102444799, 0).In(time.FixedZone("", 50400)),
}

func genCliC15(rng *rand.Rand, thorough bool, emit func(*Sx)) {
	nk := len(cliExtKeys)
	one := func(emask, omask int, rmask int) {
		keys := subsetOf(cliExtKeys, emask)
		if rng.Intn(2) == 0 {
			// BINARYMIME licenses BODY=BINARYMIME (swept exhaustively by genCliBody)
			keys = append(keys, "BINARYMIME")
		}
		stream := "220 ready\r\n" + ehloReply(keys) + "250 2.1.0 ok\r\n250 2.1.5 ok\r\n250 2.1.5 ok\r\n"
		var mo *smtp.MailOptions
		if omask >= 0 {
			str := "env id+1"
			if rng.Intn(4) == 0 {
				str = "" // EnvelopeID unset, Auth non-nil and empty (AUTH=<>)
			}
			mo = mailOptsOf(omask, str)
		}
		var ro *smtp.RcptOptions
		if rmask >= 0 {
			ro = &smtp.RcptOptions{}
			switch rmask % 4 {
			case 1:
				ro.Notify = []smtp.DSNNotify{smtp.DSNNotifyNever}
			case 2:
				ro.Notify = []smtp.DSNNotify{smtp.DSNNotifySuccess, smtp.DSNNotifyFailure, smtp.DSNNotifyDelayed}
			case 3:
				ro.Notify = []smtp.DSNNotify{} // non-nil, empty
			}
			switch (rmask / 4) % 4 {
			case 1:
				ro.OriginalRecipientType = smtp.DSNAddressTypeRFC822
				ro.OriginalRecipient = "o r+x@example.org"
			case 2:
				ro.OriginalRecipientType = smtp.DSNAddressTypeUTF8
				ro.OriginalRecipient = "\xe6\x97\xa5 \\x@ex=ample.org"
			case 3:
				ro.OriginalRecipientType = smtp.DSNAddressTypeRFC822
				ro.OriginalRecipient = "na\xc3\xafve@example.org" // not printable ASCII
			}
			if (rmask/16)%2 == 1 {
				ro.RequireRecipientValidSince = cliTimes[rng.Intn(len(cliTimes))]
			}
		}
		cs := cliCase{stream: []byte(stream), focus: "c15"}
		cs.cuts = randCuts(rng, cs.stream)
		cs.calls = []cliCall{
			{kind: "mail", s: "from@example.org", mopts: mo, ann: []*Sx{advSx(keys)}},
			{kind: "rcpt", s: "to@example.org", ropts: ro, ann: []*Sx{advSx(keys)}},
			{kind: "rcpt", s: "to2@example.org", ann: []*Sx{advSx(keys)}},
		}
		emit(runCli(cs))
	}
	if thorough {
		for e := 0; e < 1<<nk; e++ {
			for o := -1; o < 128; o++ {
				one(e, o, rng.Intn(33)-1)
			}
		}
		for e := 0; e < 1<<nk; e++ {
			for r := -1; r < 32; r++ {
				one(e, rng.Intn(129)-1, r)
			}
		}
		return
	}
	for e := 0; e < 1<<nk; e++ {
		one(e, -1, -1)
		for j := 0; j < 5; j++ {
			one(e, rng.Intn(128), rng.Intn(33)-1)
		}
	}
	for o := 0; o < 128; o++ {
		for j := 0; j < 4; j++ {
			one(rng.Intn(1<<nk), o, rng.Intn(33)-1)
		}
	}
	for r := 0; r < 32; r++ {
		for _, e := range []int{0, 16, 16 + 8, 64, 64 + 16, 127, 8, rng.Intn(128)} {
			one(e, rng.Intn(129)-1, r)
		}
	}
}

// MailOptions.Body: every value (unset, the three of RFC 6152 / RFC 3030, wrong case, unknown, hostile)
// x the four subsets of {8BITMIME, BINARYMIME} advertised, alone and together with the other keys
// x Body alone / combined with other option fields; plus opts == nil per subset.
func genCliBody(rng *rand.Rand, thorough bool, emit func(*Sx)) {
	bodies := []smtp.BodyType{"", smtp.Body7Bit, smtp.Body8BitMIME, smtp.BodyBinaryMIME, "binarymime", "7bit", "8bitmime",
		"X", "8BIT", "8BITMIME\r\nRSET", " 7BIT", "BINARYMIME ", "7BIT SIZE=1"}
	omasks := []int{0, 1 | 8, 2, 4, 63}
	for bmask := 0; bmask < 4; bmask++ {
		for oi, others := range [][]string{nil, {"SIZE", "REQUIRETLS", "SMTPUTF8", "DSN", "AUTH", "RRVS"}, {"SIZE"}, {"DSN", "CHUNKING"}} {
			keys := append(subsetOf([]string{"8BITMIME", "BINARYMIME"}, bmask), others...)
			if oi%2 == 1 {
				// the extension lines in another order
				keys = append(append([]string{}, others...), subsetOf([]string{"BINARYMIME", "8BITMIME"}, (bmask>>1)|(bmask&1)<<1)...)
			}
			stream := "220 ready\r\n" + ehloReply(keys) + strings.Repeat("250 2.0.0 ok\r\n", 4)
			run := func(mo *smtp.MailOptions) {
				// (an LMTP client negotiates like any other: what its LHLO reply did not offer is not sent)
				for _, lm := range []bool{false, true} {
					cs := cliCase{stream: []byte(stream), focus: "body", lmtp: lm}
					cs.cuts = randCuts(rng, cs.stream)
					cs.calls = []cliCall{
						{kind: "mail", s: "from@example.org", mopts: mo, ann: []*Sx{advSx(keys)}},
						{kind: "rcpt", s: "to@example.org", ann: []*Sx{advSx(keys)}},
						{kind: "noop"},
					}
					emit(runCli(cs))
				}
			}
			run(nil)
			for _, b := range bodies {
				for _, om := range omasks {
					if !thorough && om != 0 && len(others) != 6 && om != 63 {
						continue
					}
					mo := mailOptsOf(om, "env id+1")
					mo.Body = b
					run(mo)
				}
			}
		}
	}
}

// all strings up to length n over the alphabet
func allStrings(alpha []byte, n int) []string {
	res := []string{""}
	prev := []string{""}
	for l := 1; l <= n; l++ {
		var cur []string
		for _, p := range prev {
			for _, a := range alpha {
				cur = append(cur, p+string([]byte{a}))
			}
		}
		res = append(res, cur...)
		prev = cur
	}
	return res
}

func genCliHostile(rng *rand.Rand, thorough bool, emit func(*Sx)) {
	n := 3
	if thorough {
		n = 4
	}
	alpha := []byte{'\r', '\n', 0, ' ', '<', '>', 'a'}
	adv := advSx(cliExtKeys)
	for _, s := range allStrings(alpha, n) {
		lmtp := rng.Intn(4) == 0
		stream := "220 ready\r\n" + ehloReply(cliExtKeys) + strings.Repeat("250 2.0.0 ok\r\n", 9)
		cs := cliCase{lmtp: lmtp, stream: []byte(stream), focus: "hostile"}
		cs.cuts = randCuts(rng, cs.stream)
		cs.calls = []cliCall{
			{kind: "hello", s: s},
			{kind: "verify", s: s},
			{kind: "mail", s: s, ann: []*Sx{adv}},
			{kind: "rcpt", s: s, ann: []*Sx{adv}},
			{kind: "mail", s: "f@example.org", mopts: &smtp.MailOptions{EnvelopeID: s}, ann: []*Sx{adv}},
			{kind: "mail", s: "f@example.org", mopts: &smtp.MailOptions{Auth: strp(s)}, ann: []*Sx{adv}},
			{kind: "rcpt", s: "t@example.org", ropts: &smtp.RcptOptions{OriginalRecipientType: smtp.DSNAddressTypeRFC822, OriginalRecipient: s}, ann: []*Sx{adv}},
			{kind: "rcpt", s: "t@example.org", ropts: &smtp.RcptOptions{OriginalRecipientType: smtp.DSNAddressTypeUTF8, OriginalRecipient: s}, ann: []*Sx{adv}},
			{kind: "ext", s: s},
		}
		emit(runCli(cs))
	}
	// hostile values in the remaining typed fields
	for _, s := range []string{"FULL", "HDRS", "", "full", "FULL\r\nRSET", "X", " FULL"} {
		for _, nt := range [][]smtp.DSNNotify{{"NEVER"}, {"NEVER", "SUCCESS"}, {"SUCCESS", "SUCCESS"}, {"never"}, {"SUCCESS\r\nRSET"}, {""}, {"DELAY", "FAILURE"},
			{"SUCCESS", "FAILURE\r\nRSET"}, {"FAILURE\nQUIT", "DELAY"}, {"SUCCESS", "bogus"}, {"SUCCESS", " "}, {"DELAY", "FAILURE ORCPT=rfc822;x"}, {"SUCCESS", ""}} {
			for _, ty := range []smtp.DSNAddressType{"RFC822", "UTF-8", "", "rfc822", "X\r\nY"} {
				stream := "220 ready\r\n" + ehloReply(cliExtKeys) + strings.Repeat("250 2.0.0 ok\r\n", 3)
				cs := cliCase{stream: []byte(stream), focus: "hostile-typed"}
				cs.cuts = randCuts(rng, cs.stream)
				cs.calls = []cliCall{
					{kind: "mail", s: "f@example.org", mopts: &smtp.MailOptions{Return: smtp.DSNReturn(s)}, ann: []*Sx{adv}},
					{kind: "rcpt", s: "t@example.org", ropts: &smtp.RcptOptions{Notify: nt, OriginalRecipientType: ty, OriginalRecipient: "o@p"}, ann: []*Sx{adv}},
					{kind: "noop"},
				}
				emit(runCli(cs))
			}
		}
	}
}

type verdict struct {
	code int
	text string
}

var verdictPool = []verdict{{250, "2.0.0 delivered"}, {550, "5.1.1 no such user"}, {451, "4.3.0 try later"}, {552, "quota"}, {250, "ok"}}

func verdictRes(v verdict) *Sx {
	if v.code == 250 {
		return A("nil")
	}
	se := smtp.VerifToSMTPErr(v.code, v.text)
	return cliRes(se)
}

// one transaction appended to the stream / call list. accept[i]: RCPT i is
// accepted; verd: one per accepted recipient (LMTP) or one (SMTP).
func addTxn(rng *rand.Rand, lmtp bool, sb *strings.Builder, calls *[]cliCall, t int, accept []bool, verd []verdict, cb bool, twice bool, body string) {
	sb.WriteString("250 2.1.0 sender ok\r\n")
	*calls = append(*calls, cliCall{kind: "mail", s: fmt.Sprintf("s%d@example.org", t)})
	nacc := 0
	for i, a := range accept {
		if a {
			sb.WriteString("250 2.1.5 rcpt ok\r\n")
			nacc++
		} else {
			sb.WriteString("550 5.1.1 rcpt refused\r\n")
		}
		*calls = append(*calls, cliCall{kind: "rcpt", s: fmt.Sprintf("r%d-%d@example.org", t, i)})
	}
	if nacc == 0 {
		sb.WriteString("554 5.5.1 no valid recipients\r\n")
		if lmtp {
			*calls = append(*calls, cliCall{kind: "lmtpdata", cb: cb})
		} else {
			*calls = append(*calls, cliCall{kind: "data"})
		}
		return
	}
	sb.WriteString("354 go ahead\r\n")
	if lmtp && (cb || rng.Intn(2) == 0) {
		*calls = append(*calls, cliCall{kind: "lmtpdata", cb: cb})
	} else {
		*calls = append(*calls, cliCall{kind: "data"})
		cb = false
	}
	if body != "" {
		k := rng.Intn(len(body) + 1)
		*calls = append(*calls, cliCall{kind: "write", body: []byte(body[:k])}, cliCall{kind: "write", body: []byte(body[k:])})
	}
	vl := L()
	n := 1
	if lmtp {
		n = nacc
	}
	for i := 0; i < n; i++ {
		v := verd[i%len(verd)]
		if strings.Contains(v.text, " ") || rng.Intn(2) == 0 {
			sb.WriteString(fmt.Sprintf("%d %s\r\n", v.code, v.text))
		} else {
			// two-line reply
			sb.WriteString(fmt.Sprintf("%d-%s\r\n%d %s\r\n", v.code, v.text, v.code, v.text))
			v.text = v.text + "\n" + v.text
		}
		vl.Add(verdictRes(v))
	}
	*calls = append(*calls, cliCall{kind: "close", ann: []*Sx{L(A("verd"), vl)}})
	if twice {
		*calls = append(*calls, cliCall{kind: "close"})
	}
}

var cliBodies = []string{"", "hello\r\n", "a\n.\n.b\r\n..\r\n", ".", "x\r", "line1\r\nline2", "\r\n.\r\n", "\x00\xff.\n"}

// the result the property prescribes for the command that follows a
// transaction: its own reply (250 / 221), i.e. Close did not eat it
var wantNil = []*Sx{L(A("want"), A("nil"))}

func genCliTxn(rng *rand.Rand, thorough bool, emit func(*Sx)) {
	run := func(lmtp bool, ntx int, pick func(t int) ([]bool, []verdict), cb, twice bool) {
		var sb strings.Builder
		sb.WriteString("220 ready\r\n250-srv\r\n250 PIPELINING\r\n")
		var calls []cliCall
		for t := 0; t < ntx; t++ {
			acc, verd := pick(t)
			addTxn(rng, lmtp, &sb, &calls, t, acc, verd, cb, twice, cliBodies[rng.Intn(len(cliBodies))])
			switch rng.Intn(4) {
			case 0:
				sb.WriteString("250 2.0.0 noop-marker\r\n")
				calls = append(calls, cliCall{kind: "noop", ann: wantNil})
			case 1:
				// Reset: the next method says hello again
				sb.WriteString("250 2.0.0 flushed\r\n250-srv again\r\n250 PIPELINING\r\n")
				calls = append(calls, cliCall{kind: "reset", ann: wantNil})
			}
		}
		sb.WriteString("250 2.0.0 noop-marker\r\n221 2.0.0 bye\r\n")
		calls = append(calls, cliCall{kind: "noop", ann: wantNil}, cliCall{kind: "quit", ann: wantNil})
		cs := cliCase{lmtp: lmtp, stream: []byte(sb.String()), focus: "txn", calls: calls}
		cs.cuts = randCuts(rng, cs.stream)
		emit(runCli(cs))
	}
	// exhaustive single transactions
	for _, lmtp := range []bool{true, false} {
		for n := 1; n <= 3; n++ {
			for mask := 0; mask < 1<<n; mask++ {
				acc := make([]bool, n)
				na := 0
				for i := range acc {
					acc[i] = mask&(1<<i) != 0
					if acc[i] {
						na++
					}
				}
				for vm := 0; vm < 1<<na; vm++ {
					verd := make([]verdict, na+1)
					for i := range verd {
						if vm&(1<<i) != 0 {
							verd[i] = verdictPool[1+rng.Intn(3)]
						} else {
							verd[i] = verdictPool[0]
						}
					}
					for _, cb := range []bool{true, false} {
						for _, twice := range []bool{true, false} {
							run(lmtp, 1, func(int) ([]bool, []verdict) { return acc, verd }, cb, twice)
						}
					}
				}
			}
		}
	}
	nr := 400
	if thorough {
		nr = 8000
	}
	for k := 0; k < nr; k++ {
		run(rng.Intn(4) != 0, 2+rng.Intn(2), func(int) ([]bool, []verdict) {
			n := 1 + rng.Intn(3)
			acc := make([]bool, n)
			for i := range acc {
				acc[i] = rng.Intn(4) != 0
			}
			verd := make([]verdict, n+1)
			for i := range verd {
				verd[i] = verdictPool[rng.Intn(len(verdictPool))]
			}
			return acc, verd
		}, rng.Intn(2) == 0, rng.Intn(3) == 0)
	}
}

// genCliTLSok: the STARTTLS upgrade SUCCEEDS (the scripted server speaks real TLS). What the server
// advertised in plaintext and what it advertises inside TLS differ; octets injected behind the 220 must
// be dropped; parameters must follow the EHLO reply received inside TLS.
func genCliTLSok(rng *rand.Rand, thorough bool, emit func(*Sx)) {
	plainSets := [][]string{{"STARTTLS"}, {"STARTTLS", "SMTPUTF8", "SIZE", "8BITMIME", "DSN"}, {"STARTTLS", "REQUIRETLS", "AUTH"}}
	tlsSets := [][]string{nil, {"8BITMIME"}, {"SMTPUTF8", "SIZE"}, {"REQUIRETLS", "DSN", "AUTH", "RRVS"}}
	injs := []string{"", "250-srv\r\n250 SMTPUTF8\r\n250 2.1.0 injected ok\r\n"}
	for _, ps := range plainSets {
		for _, ts := range tlsSets {
			for _, inj := range injs {
				for variant := 0; variant < 3; variant++ {
					plain := "220 ready\r\n" + ehloReply(ps) + "220 2.0.0 go ahead\r\n" + inj
					tlsPhase := ehloReply(ts) + "250 2.1.0 ok\r\n250 2.1.5 ok\r\n250 2.0.0 ok\r\n221 2.0.0 bye\r\n"
					cs := cliCase{stream: []byte(plain), tlsStream: []byte(tlsPhase), focus: "starttls-ok"}
					cs.cuts = []int{len("220 ready\r\n"), len(plain) - len(inj)}
					if variant == 1 {
						// the injected replies share a raw read with the 220: they sit in the client's buffer at
						// the upgrade and must be dropped
						cs.cuts = []int{len("220 ready\r\n")}
					}
					mo := &smtp.MailOptions{}
					ro := &smtp.RcptOptions{}
					switch variant {
					case 0:
						mo.UTF8 = true
					case 1:
						mo.Size = 42
						mo.RequireTLS = true
					case 2:
						mo.Return = smtp.DSNReturnFull
						mo.EnvelopeID = "id1"
						ro.Notify = []smtp.DSNNotify{smtp.DSNNotifySuccess}
					}
					cs.calls = []cliCall{
						{kind: "starttls", ann: []*Sx{L(A("exp"), A("accepted"))}},
						{kind: "ext", s: "SMTPUTF8"},
						{kind: "mail", s: "s@example.org", mopts: mo, ann: []*Sx{advSx(ts)}},
						{kind: "rcpt", s: "r@example.org", ropts: ro, ann: []*Sx{advSx(ts)}},
						{kind: "noop"}, {kind: "quit"},
					}
					emit(runCli(cs))
				}
			}
		}
	}
}

func genCliStartTLS(rng *rand.Rand, thorough bool, emit func(*Sx)) {
	type beh struct {
		name, exp string
		pre       string // greeting + hello replies
		reply     string // reply to STARTTLS and whatever follows in the same segment
		later     string // a later segment
	}
	withTLS := "250-srv\r\n250-STARTTLS\r\n250 SIZE 100\r\n"
	noTLS := "250-srv\r\n250 SIZE 100\r\n"
	inj := "250-srv\r\n250 AUTH PLAIN\r\n250 2.1.0 ok\r\n250 2.1.5 ok\r\n354 go\r\n250 ok\r\n"
	behs := []beh{
		{"noadv", "nostarttls", "220 ready\r\n" + noTLS, "220 2.0.0 go ahead\r\n", inj},
		{"noadv-helo", "nostarttls", "220 ready\r\n500 what\r\n250 srv\r\n", "220 go\r\n", inj},
		{"noadv-lower", "nostarttls", "220 ready\r\n250-srv\r\n250 starttls\r\n", "220 go\r\n", inj},
		{"454", "refused", "220 ready\r\n" + withTLS, "454 4.7.0 TLS not available\r\n" + inj, ""},
		{"454-later", "refused", "220 ready\r\n" + withTLS, "454 4.7.0 TLS not available\r\n", inj},
		{"250", "refused", "220 ready\r\n" + withTLS, "250 2.0.0 ok\r\n" + inj, ""},
		{"garbage-reply", "refused", "220 ready\r\n" + withTLS, "\x16\x03\x01\x00\x02\x02\x28\r\n" + inj, ""},
		{"eof", "refused", "220 ready\r\n" + withTLS, "", ""},
		{"220-garbage", "accepted", "220 ready\r\n" + withTLS, "220 2.0.0 go ahead\r\nGARBAGE GARBAGE\r\n\x00\xff\x16", ""},
		{"220-inject-same", "accepted", "220 ready\r\n" + withTLS, "220 2.0.0 go ahead\r\n" + inj, ""},
		{"220-inject-later", "accepted", "220 ready\r\n" + withTLS, "220 2.0.0 go ahead\r\n", inj},
		{"220-eof", "accepted", "220 ready\r\n" + withTLS, "220 go\r\n", ""},
		{"greet-554", "nostarttls", "554 go away\r\n", "", inj},
		{"ehlo-550", "nostarttls", "220 ready\r\n550 no\r\n", "", inj},
		{"helo-fails", "nostarttls", "220 ready\r\n502 no\r\n550 no\r\n", "", inj},
	}
	follow := [][]cliCall{
		{{kind: "noop"}},
		{{kind: "mail", s: "secret-sender@example.org"}, {kind: "rcpt", s: "secret-rcpt@example.org"}, {kind: "data"}},
		{{kind: "hello", s: "me.example"}, {kind: "ext", s: "AUTH"}},
		{{kind: "auth", auth: &saslScript{mech: "PLAIN", ir: []byte("\x00user\x00secret-password")}}},
		{{kind: "sendmail", s: "secret-sender@example.org", tos: []string{"secret-rcpt@example.org"}, body: []byte("secret content\r\n")}, {kind: "quit"}},
	}
	reps := 1
	if thorough {
		reps = 6
	}
	for r := 0; r < reps; r++ {
		for _, b := range behs {
			for _, f := range follow {
				stream := b.pre + b.reply + b.later
				cs := cliCase{stream: []byte(stream), focus: "starttls-" + b.name}
				switch rng.Intn(3) {
				case 0:
					cs.cuts = []int{len(b.pre), len(b.pre) + len(b.reply)}
				case 1:
					cs.cuts = []int{len(b.pre) + len(b.reply)}
				default:
					cs.cuts = append(randCuts(rng, []byte(b.pre)), len(b.pre), len(b.pre)+len(b.reply))
				}
				cs.calls = append([]cliCall{{kind: "starttls", ann: []*Sx{L(A("exp"), A(b.exp))}}}, cloneCalls(f)...)
				emit(runCli(cs))
			}
		}
	}
}

func cloneCalls(f []cliCall) []cliCall {
	r := make([]cliCall, len(f))
	copy(r, f)
	for i := range r {
		if r[i].auth != nil {
			a := *r[i].auth
			a.i = 0
			a.got = nil
			r[i].auth = &a
		}
	}
	return r
}

var cliOctets = [][]byte{{}, []byte("x"), []byte("user"), {0}, {0, 255, 13, 10, 32}, []byte("\x00u\x00p"), {0xff, 0xfe, 0xfd}, []byte("abcd"), []byte("abcde"), []byte("a longer response with spaces")}

func allBytes() []byte {
	b := make([]byte, 256)
	for i := range b {
		b[i] = byte(i)
	}
	return b
}

func genCliAuth(rng *rand.Rand, thorough bool, emit func(*Sx)) {
	mechs := []string{"PLAIN", "LOGIN", "X", "", "A B", " X ", "XOAUTH2", "M\r\nRSET"}
	// server reply kinds
	const (
		s334 = iota
		s334empty
		s334bad
		s235
		s535
		sGarbage
		s334multi
		nServer
	)
	one := func(mech string, ir []byte, startErr bool, steps []saslStep, srv []int) {
		var sb strings.Builder
		sb.WriteString("220 ready\r\n250-srv\r\n250 AUTH PLAIN LOGIN X\r\n")
		done := false
		stepi := 0
		if startErr {
			done = true
		}
		for _, k := range srv {
			if done {
				break
			}
			ch := cliOctets[rng.Intn(len(cliOctets))]
			if rng.Intn(12) == 0 {
				ch = allBytes()
			}
			abort := false
			switch k {
			case s334, s334empty, s334multi:
				switch k {
				case s334:
					sb.WriteString("334 " + base64.StdEncoding.EncodeToString(ch) + "\r\n")
				case s334empty:
					sb.WriteString("334 \r\n")
				default:
					e := base64.StdEncoding.EncodeToString(append([]byte("0123456789"), ch...))
					sb.WriteString("334-" + e[:4] + "\r\n334 " + e[4:] + "\r\n")
				}
				if stepi >= len(steps) {
					abort = true
				} else {
					st := steps[stepi]
					stepi++
					if st.isErr {
						abort = true
					} else if st.isNil {
						done = true
					}
				}
			case s334bad:
				sb.WriteString("334 !!not*base64\r\n")
				abort = true
			case s235:
				sb.WriteString("235 2.7.0 authenticated\r\n")
				done = true
			case s535:
				sb.WriteString("535 5.7.8 bad credentials\r\n")
				abort = true
			case sGarbage:
				sb.WriteString("garbage\r\n")
				done = true
			}
			if abort {
				sb.WriteString("501 5.0.0 cancelled\r\n")
				done = true
			}
		}
		sb.WriteString("250 2.0.0 after-auth\r\n250 2.1.0 ok\r\n")
		sc := &saslScript{mech: mech, ir: ir, steps: steps}
		if startErr {
			sc.hasStart = true
			sc.startErr = "mechanism cannot start"
		}
		cs := cliCase{lmtp: rng.Intn(6) == 0, stream: []byte(sb.String()), focus: "auth"}
		cs.cuts = randCuts(rng, cs.stream)
		cs.calls = []cliCall{{kind: "auth", auth: sc}, {kind: "noop"}, {kind: "mail", s: "a@b"}}
		emit(runCli(cs))
	}
	stepKinds := func(k int) saslStep {
		switch k {
		case 0:
			return saslStep{resp: cliOctets[1+rng.Intn(len(cliOctets)-1)]}
		case 1:
			return saslStep{resp: []byte{}}
		case 2:
			return saslStep{isErr: true, err: "mechanism failed"}
		case 3:
			return saslStep{resp: allBytes()}
		default:
			return saslStep{isNil: true}
		}
	}
	irs := [][]byte{nil, {}, []byte("\x00user\x00pass"), {0, 255, 13, 10}, allBytes()}
	// long initial responses (a token of several hundred octets): refused, accepted at once, or continued
	for _, n := range []int{300, 372, 380, 600, 1400} {
		long := bytes.Repeat([]byte("t0ken/"), n/6+1)[:n]
		for _, srv := range [][]int{{s535}, {s235}, {s334empty, s235}, {s334, s535}, {sGarbage}} {
			one("XOAUTH2", long, false, []saslStep{{resp: []byte{}}}, srv)
			one("PLAIN", long, false, nil, srv)
		}
	}
	// 0 and 1 client steps: exhaustive
	for _, ir := range irs {
		for s0 := 0; s0 < nServer; s0++ {
			one("PLAIN", ir, false, nil, []int{s0, s235})
			for k := 0; k < 5; k++ {
				for s1 := 0; s1 < nServer; s1++ {
					one("X", ir, false, []saslStep{stepKinds(k)}, []int{s0, s1, s235})
				}
			}
		}
	}
	one("PLAIN", nil, true, nil, []int{s235})
	for _, m := range mechs {
		for _, ir := range irs {
			one(m, ir, false, []saslStep{stepKinds(0)}, []int{s334, s235})
		}
	}
	n := 500
	if thorough {
		n = 10000
	}
	for i := 0; i < n; i++ {
		ns := rng.Intn(4)
		steps := make([]saslStep, ns)
		for j := range steps {
			k := rng.Intn(8)
			if k > 4 {
				k = 0
			}
			steps[j] = stepKinds(k)
		}
		srv := make([]int, 1+rng.Intn(4))
		for j := range srv {
			if rng.Intn(2) == 0 {
				srv[j] = s334
			} else {
				srv[j] = rng.Intn(nServer)
			}
		}
		one(mechs[rng.Intn(len(mechs))], irs[rng.Intn(len(irs))], rng.Intn(40) == 0, steps, srv)
	}
}

var cliReplyPool = []string{
	"250 2.0.0 ok\r\n", "250 ok\r\n", "250-one\r\n250 two\r\n", "250-srv\r\n250-SIZE 10\r\n250-DSN\r\n250-SMTPUTF8\r\n250 8BITMIME\r\n",
	"250-srv\r\n250-AUTH PLAIN\r\n250-AUTH LOGIN\r\n250-size 5\r\n250-\r\n250- lead\r\n250 REQUIRETLS\r\n",
	"354 go ahead\r\n", "550 5.1.1 no such user\r\n", "451 4.3.0 later\r\n", "221 2.0.0 bye\r\n", "220 ready\r\n",
	"500 5.5.1 unknown\r\n", "502 not implemented\r\n", "550-5.7.1 one\r\n550 5.7.1 two\r\n", "421 4.0.0 closing\r\n",
	"garbage\r\n", "25\r\n", "250\r\n", "250 unterminated", "\r\n", "334 dGVzdA==\r\n", "235 2.7.0 ok\r\n", "251 forwarded\r\n", "259 x\r\n", "2500 x\r\n",
	"250 ok\n", "250-a\n250 b\n", "550 5.1.1\r\n", "550 5.1 x\r\n",
}

var cliAddrPool = []string{"a@b", "user@example.org", "", "<>", "a b@c", "a@b> SIZE=1", "x\r\ny", "na\xc3\xafve@ex", "a\x00b", "postmaster"}

func randStep(rng *rand.Rand) saslStep {
	switch rng.Intn(5) {
	case 0:
		return saslStep{isErr: true, err: "mech error"}
	case 1:
		return saslStep{isNil: true}
	default:
		return saslStep{resp: cliOctets[rng.Intn(len(cliOctets))]}
	}
}

func randMailOpts(rng *rand.Rand) *smtp.MailOptions {
	if rng.Intn(3) == 0 {
		return nil
	}
	o := mailOptsOf(rng.Intn(128), []string{"id1", "", "a b+c=d", "x\r\ny", "\x7f", "\xc3\xa9"}[rng.Intn(6)])
	if rng.Intn(5) == 0 {
		o.Size = []int64{-5, 0, 1, 1 << 40, -1 << 63, 1<<63 - 1}[rng.Intn(6)]
	}
	if rng.Intn(8) == 0 {
		o.Return = smtp.DSNReturn([]string{"FULL", "bogus", "HDRS\r\nX"}[rng.Intn(3)])
	}
	return o
}

func randRcptOpts(rng *rand.Rand) *smtp.RcptOptions {
	if rng.Intn(3) == 0 {
		return nil
	}
	o := &smtp.RcptOptions{}
	switch rng.Intn(5) {
	case 0:
		o.Notify = []smtp.DSNNotify{"NEVER"}
	case 1:
		o.Notify = []smtp.DSNNotify{"SUCCESS", "DELAY"}
	case 2:
		o.Notify = []smtp.DSNNotify{"SUCCESS", "NEVER"}
	case 3:
		o.Notify = []smtp.DSNNotify{"bogus"}
	}
	switch rng.Intn(4) {
	case 0:
		o.OriginalRecipientType = "RFC822"
		o.OriginalRecipient = cliAddrPool[rng.Intn(len(cliAddrPool))]
	case 1:
		o.OriginalRecipientType = "UTF-8"
		o.OriginalRecipient = cliAddrPool[rng.Intn(len(cliAddrPool))]
	case 2:
		o.OriginalRecipientType = "other"
		o.OriginalRecipient = "x"
	}
	if rng.Intn(3) == 0 {
		o.RequireRecipientValidSince = cliTimes[rng.Intn(len(cliTimes))]
	}
	return o
}

func genCliRandom(rng *rand.Rand, thorough bool, emit func(*Sx)) {
	n := 1500
	if thorough {
		n = 40000
	}
	kinds := []string{"hello", "verify", "mail", "rcpt", "data", "lmtpdata", "write", "close", "reset", "noop", "quit", "auth", "ext", "sendmail", "mail", "rcpt", "data", "write", "close", "noop"}
	for i := 0; i < n; i++ {
		var sb strings.Builder
		if rng.Intn(10) != 0 {
			sb.WriteString("220 ready\r\n")
		}
		nrep := rng.Intn(14)
		wellformed := rng.Intn(3) != 0
		for j := 0; j < nrep; j++ {
			if wellformed {
				sb.WriteString(cliReplyPool[rng.Intn(14)])
			} else {
				sb.WriteString(cliReplyPool[rng.Intn(len(cliReplyPool))])
			}
		}
		cs := cliCase{lmtp: rng.Intn(3) == 0, stream: []byte(sb.String()), focus: "random"}
		cs.cuts = randCuts(rng, cs.stream)
		nc := 1 + rng.Intn(9)
		for j := 0; j < nc; j++ {
			k := kinds[rng.Intn(len(kinds))]
			call := cliCall{kind: k}
			switch k {
			case "hello":
				call.s = []string{"me.example", "", "a b", "x\ny", "localhost"}[rng.Intn(5)]
			case "verify", "mail", "rcpt":
				call.s = cliAddrPool[rng.Intn(len(cliAddrPool))]
				if k == "mail" {
					call.mopts = randMailOpts(rng)
				}
				if k == "rcpt" {
					call.ropts = randRcptOpts(rng)
				}
			case "lmtpdata":
				call.cb = rng.Intn(2) == 0
			case "write":
				call.body = []byte(cliBodies[rng.Intn(len(cliBodies))])
				if rng.Intn(30) == 0 {
					call.body = bytes.Repeat([]byte("0123456789abcde\n"), 100+rng.Intn(500))
				}
			case "auth":
				ns := rng.Intn(3)
				sc := &saslScript{mech: "PLAIN", ir: cliOctets[rng.Intn(len(cliOctets))]}
				if rng.Intn(3) == 0 {
					sc.ir = nil
				}
				for q := 0; q < ns; q++ {
					sc.steps = append(sc.steps, randStep(rng))
				}
				call.auth = sc
			case "ext":
				call.s = []string{"SIZE", "size", "AUTH", "DSN", "", "nope", "\xc5\xbfIZE", "8bitmime"}[rng.Intn(8)]
			case "sendmail":
				call.s = cliAddrPool[rng.Intn(len(cliAddrPool))]
				for q := rng.Intn(3); q >= 0; q-- {
					call.tos = append(call.tos, cliAddrPool[rng.Intn(len(cliAddrPool))])
				}
				call.body = []byte(cliBodies[rng.Intn(len(cliBodies))])
			}
			cs.calls = append(cs.calls, call)
		}
		emit(runCli(cs))
	}
}

func genCliHello(rng *rand.Rand, thorough bool, emit func(*Sx)) {
	greets := []string{"220 ready\r\n", "220-a\r\n220 b\r\n", "554 5.0.0 go away\r\n", "garbage\r\n", "", "221 bye\r\n", "220 unterminated"}
	ehlos := []string{
		"250-srv\r\n250-SIZE 100\r\n250 DSN\r\n", "250 srv\r\n", "500 5.5.1 what\r\n250 helo ok\r\n", "502 no\r\n550 5.0.0 no helo either\r\n",
		"550 5.0.0 no\r\n", "421 4.0.0 busy\r\n", "", "250-srv\r\n250-SIZE 1\r\n250-SIZE 2\r\n250-size 3\r\n250 SIZE\r\n",
		"250-srv\r\n250-\r\n250- x\r\n250-A  B\r\n250 A\r\n", "500-a\r\n500 b\r\n250 ok\r\n", "250-srv\n250 X-Y z\n",
	}
	seqs := [][]cliCall{
		{{kind: "hello", s: "me.example"}, {kind: "ext", s: "size"}, {kind: "hello", s: "again"}, {kind: "noop"}},
		{{kind: "noop"}, {kind: "hello", s: "late"}, {kind: "ext", s: "A"}},
		{{kind: "ext", s: "SIZE"}, {kind: "ext", s: ""}, {kind: "reset"}, {kind: "hello", s: "second.example"}, {kind: "ext", s: "DSN"}},
		{{kind: "rcpt", s: "early@example.org"}, {kind: "data"}, {kind: "mail", s: "a@b", mopts: &smtp.MailOptions{Size: 5}}},
		{{kind: "quit"}, {kind: "noop"}, {kind: "rcpt", s: "after@quit"}, {kind: "hello", s: "x"}},
		{{kind: "verify", s: "postmaster"}, {kind: "verify", s: "post\rmaster"}},
	}
	for _, g := range greets {
		for _, e := range ehlos {
			for _, s := range seqs {
				stream := g + e + "250 2.0.0 r1\r\n250-srv2\r\n250 DSN\r\n221 2.0.0 r3\r\n250 r4\r\n"
				cs := cliCase{lmtp: rng.Intn(3) == 0, stream: []byte(stream), focus: "hello"}
				cs.cuts = randCuts(rng, cs.stream)
				cs.calls = cloneCalls(s)
				emit(runCli(cs))
			}
		}
	}
}

func genCliSendMail(rng *rand.Rand, thorough bool, emit func(*Sx)) {
	bodies := append([]string{}, cliBodies...)
	bodies = append(bodies, strings.Repeat("0123456789abcdef0123456789abcde\n", 140), strings.Repeat(".", 4096), strings.Repeat("x", 4090)+"\n.\n")
	outcomes := []string{
		"250 ok\r\n250 ok\r\n250 ok\r\n354 go\r\n250 2.0.0 queued\r\n",
		"250 ok\r\n250 ok\r\n250 ok\r\n354 go\r\n554 5.0.0 rejected\r\n",
		"550 no sender\r\n",
		"250 ok\r\n550 5.1.1 no rcpt\r\n",
		"250 ok\r\n250 ok\r\n250 ok\r\n554 no data\r\n",
		"250 ok\r\n250 ok\r\n250 ok\r\n354 go\r\n",
	}
	for _, b := range bodies {
		for _, o := range outcomes {
			for _, lmtp := range []bool{false, true} {
				stream := "220 ready\r\n250-srv\r\n250 8BITMIME\r\n" + o + "250 extra\r\n221 bye\r\n"
				cs := cliCase{lmtp: lmtp, stream: []byte(stream), focus: "sendmail"}
				cs.cuts = randCuts(rng, cs.stream)
				cs.calls = []cliCall{{kind: "sendmail", s: "from@example.org", tos: []string{"t1@example.org", "t2@example.org"}, body: []byte(b)}, {kind: "quit"}}
				emit(runCli(cs))
			}
		}
	}
	// data writer misuse: commands while the writer is open, writes after Close
	for _, b := range cliBodies {
		stream := "220 ready\r\n250 srv\r\n250 ok\r\n250 ok\r\n354 go\r\n250 first\r\n250 second\r\n250 third\r\n250 fourth\r\n"
		cs := cliCase{stream: []byte(stream), focus: "writer-misuse"}
		cs.cuts = randCuts(rng, cs.stream)
		cs.calls = []cliCall{{kind: "mail", s: "a@b"}, {kind: "rcpt", s: "c@d"}, {kind: "data"}, {kind: "write", body: []byte(b)},
			{kind: "noop"}, {kind: "write", body: []byte("late\r\n")}, {kind: "close"}, {kind: "write", body: []byte("MAIL FROM:<x>\r\n")}, {kind: "noop"}, {kind: "close"}}
		emit(runCli(cs))
	}
}

// broken verdict streams (EOF / garbage inside the per-recipient replies) and
// writes on a closed connection (sticky bufio error once a flush was needed)
func genCliBroken(rng *rand.Rand, thorough bool, emit func(*Sx)) {
	pre := "220 ready\r\n250-srv\r\n250 PIPELINING\r\n250 ok\r\n250 ok\r\n250 ok\r\n250 ok\r\n354 go\r\n"
	tails := []string{"", "250 ok\r\n", "250 ok\r\ngarbage\r\n250 ok\r\n250 after\r\n", "250 ok\r\n550 5.1.1 no\r\n25", "250-ok\r\n", "250 ok\r\n250 ok\r\n99 x\r\n250 ok\r\n",
		"550 a\r\n551 b\r\n552 c\r\n250 after\r\n", "250 ok\r\n250 ok\r\n250 ok\r\n250 after\r\n"}
	for _, tl := range tails {
		for _, cb := range []bool{true, false} {
			for _, lmtp := range []bool{true, false} {
				cs := cliCase{lmtp: lmtp, stream: []byte(pre + tl), focus: "broken-verdicts"}
				cs.cuts = randCuts(rng, cs.stream)
				dc := cliCall{kind: "lmtpdata", cb: cb}
				if !lmtp {
					dc = cliCall{kind: "data"}
				}
				cs.calls = []cliCall{{kind: "mail", s: "a@b"}, {kind: "rcpt", s: "r1@x"}, {kind: "rcpt", s: "r2@x"}, {kind: "rcpt", s: "r3@x"}, dc,
					{kind: "write", body: []byte("hello\r\n")}, {kind: "close"}, {kind: "noop"}, {kind: "close"}}
				emit(runCli(cs))
			}
		}
	}
	big := bytes.Repeat([]byte("0123456789abcde\n"), 300)
	for _, first := range [][]byte{[]byte("small\r\n"), big} {
		for _, closer := range []string{"quit", "none"} {
			stream := "220 ready\r\n250 srv\r\n250 ok\r\n250 ok\r\n354 go\r\n221 bye\r\n250 x\r\n250 y\r\n"
			cs := cliCase{stream: []byte(stream), focus: "closed-writes"}
			cs.cuts = randCuts(rng, cs.stream)
			cs.calls = []cliCall{{kind: "mail", s: "a@b"}, {kind: "rcpt", s: "c@d"}, {kind: "data"}}
			if closer == "quit" {
				cs.calls = append(cs.calls, cliCall{kind: "quit"})
			}
			cs.calls = append(cs.calls, cliCall{kind: "write", body: first}, cliCall{kind: "write", body: []byte("x")}, cliCall{kind: "write", body: big},
				cliCall{kind: "write", body: []byte("y")}, cliCall{kind: "noop"}, cliCall{kind: "close"}, cliCall{kind: "rcpt", s: "late@x"}, cliCall{kind: "close"})
			emit(runCli(cs))
		}
	}
}

// GenCli: all client families.
// ORCPT of type UTF-8 containing each non-ASCII Unicode White_Space code point at the start, in the middle
// and at the end, against a server that offers / does not offer SMTPUTF8 (unitext / xtext form): what the
// client writes must contain no octet sequence Go's strings.Fields would split at (the code point is embedded
// as \x{HEX} in both forms)
func genCliOrcptSpace(rng *rand.Rand, thorough bool, emit func(*Sx)) {
	for _, keys := range [][]string{{"8BITMIME", "SMTPUTF8", "DSN"}, {"8BITMIME", "DSN"}} {
		for _, sp := range UniSpaces {
			u := string(sp)
			stream := "220 ready\r\n" + ehloReply(keys) + strings.Repeat("250 2.1.5 ok\r\n", 5)
			cs := cliCase{stream: []byte(stream), focus: "orcpt-space"}
			cs.cuts = randCuts(rng, cs.stream)
			cs.calls = []cliCall{{kind: "mail", s: "f@example.org", ann: []*Sx{advSx(keys)}}}
			for _, v := range []string{u + "x@y", "x" + u + "y@z", "x@y" + u, u + "x" + u + "@" + u + u + "y" + u} {
				cs.calls = append(cs.calls, cliCall{kind: "rcpt", s: "t@example.org",
					ropts: &smtp.RcptOptions{OriginalRecipientType: smtp.DSNAddressTypeUTF8, OriginalRecipient: v}, ann: []*Sx{advSx(keys)}})
			}
			emit(runCli(cs))
		}
	}
}

// genCliAuthThenReEhlo: the client has authenticated; after Reset it says EHLO again and the server's reply
// differs (AUTH / DSN / SIZE come and go): what Mail and Rcpt may send follows the LATEST reply only.
func genCliAuthThenReEhlo(rng *rand.Rand, thorough bool, emit func(*Sx)) {
	a := "ident@example.org"
	ehlos := []string{"250-srv\r\n250-AUTH PLAIN\r\n250-DSN\r\n250 SIZE 1000\r\n", "250-srv\r\n250-DSN\r\n250 SIZE 1000\r\n",
		"250-srv\r\n250 AUTH PLAIN\r\n", "250 srv\r\n", "250-srv\r\n250-8BITMIME\r\n250 SMTPUTF8\r\n"}
	for i, e1 := range ehlos[:3] {
		for j, e2 := range ehlos {
			for _, authed := range []bool{true, false} {
				if !strings.Contains(e1, "AUTH") && authed {
					continue
				}
				stream := "220 ready\r\n" + e1
				var calls []cliCall
				calls = append(calls, cliCall{kind: "hello", s: "me.example"})
				if authed {
					stream += "235 2.7.0 ok\r\n"
					calls = append(calls, cliCall{kind: "auth", auth: &saslScript{mech: "PLAIN", ir: []byte("\x00u\x00p")}})
				}
				stream += "250 2.0.0 reset\r\n" + e2 + "250 2.1.0 sender ok\r\n250 2.1.5 rcpt ok\r\n221 bye\r\n"
				calls = append(calls, cliCall{kind: "reset"},
					cliCall{kind: "mail", s: "s@example.org", mopts: &smtp.MailOptions{Auth: &a, EnvelopeID: "e", Return: smtp.DSNReturnFull, Size: 5}},
					cliCall{kind: "rcpt", s: "t@example.org", ropts: &smtp.RcptOptions{Notify: []smtp.DSNNotify{smtp.DSNNotifyNever}}}, cliCall{kind: "quit"})
				cs := cliCase{stream: []byte(stream), focus: "auth-then-reehlo", calls: calls}
				if (i+j)%2 == 0 {
					cs.cuts = randCuts(rng, cs.stream)
				}
				emit(runCli(cs))
			}
		}
	}
}

// genCliMailRefused: MAIL with parameters is refused (555 and other codes): the call returns that error and has
// written exactly one line - no second attempt without the parameters
func genCliMailRefused(rng *rand.Rand, thorough bool, emit func(*Sx)) {
	ehlo := "250-srv\r\n250-8BITMIME\r\n250-SMTPUTF8\r\n250-DSN\r\n250-REQUIRETLS\r\n250 SIZE 1000\r\n"
	for _, code := range []string{"555 5.5.4 parameters not recognized", "550 5.1.0 no", "452 4.3.1 later", "501 5.5.4 syntax"} {
		for mi, mo := range []*smtp.MailOptions{{UTF8: true}, {Size: 10, EnvelopeID: "e", Return: smtp.DSNReturnFull}, {RequireTLS: true, UTF8: true}, nil} {
			stream := "220 ready\r\n" + ehlo + code + "\r\n250 2.1.0 a second answer, for a second MAIL only\r\n250 2.0.0 ok\r\n221 bye\r\n"
			calls := []cliCall{{kind: "hello", s: "me.example"}, {kind: "mail", s: "s@example.org", mopts: mo}, {kind: "noop"}, {kind: "quit"}}
			cs := cliCase{stream: []byte(stream), focus: "mail-refused", calls: calls}
			if mi%2 == 0 {
				cs.cuts = randCuts(rng, cs.stream)
			}
			emit(runCli(cs))
		}
	}
}

// genCliDataRefused: the server refuses DATA (451/554) although recipients were accepted; the caller asks again,
// with or without another Rcpt in between: the recipients of the transaction are still the accepted ones
func genCliDataRefused(rng *rand.Rand, thorough bool, emit func(*Sx)) {
	for _, lmtp := range []bool{true, false} {
		for _, cb := range []bool{true, false} {
			for _, code := range []string{"451 4.3.0 not now", "554 5.5.1 no"} {
				for variant := 0; variant < 3; variant++ {
					if !lmtp && cb {
						continue
					}
					hello := "250-srv\r\n250 PIPELINING\r\n"
					stream := "220 ready\r\n" + hello + "250 ok\r\n250 ok r1\r\n250 ok r2\r\n" + code + "\r\n"
					dc := cliCall{kind: "lmtpdata", cb: cb}
					if !lmtp {
						dc = cliCall{kind: "data"}
					}
					calls := []cliCall{{kind: "mail", s: "a@b"}, {kind: "rcpt", s: "r1@x"}, {kind: "rcpt", s: "r2@x"}, dc}
					n := 2
					switch variant {
					case 1:
						stream += "250 ok r3\r\n"
						calls = append(calls, cliCall{kind: "rcpt", s: "r3@x"})
						n = 3
					case 2:
						stream += "550 5.1.1 no r3\r\n"
						calls = append(calls, cliCall{kind: "rcpt", s: "r3@x"})
					}
					stream += "354 go\r\n"
					if lmtp {
						stream += "250 2.0.0 first\r\n550 5.1.1 second\r\n"
						if n == 3 {
							stream += "452 4.2.2 third\r\n"
						}
					} else {
						stream += "250 2.0.0 queued\r\n"
					}
					stream += "250 2.0.0 noop\r\n250 2.1.0 next mail\r\n221 bye\r\n"
					calls = append(calls, dc, cliCall{kind: "write", body: []byte("hello\r\n")}, cliCall{kind: "close"},
						cliCall{kind: "noop"}, cliCall{kind: "mail", s: "next@b"}, cliCall{kind: "quit"})
					cs := cliCase{lmtp: lmtp, stream: []byte(stream), focus: "data-refused", calls: calls}
					if variant != 1 {
						cs.cuts = randCuts(rng, cs.stream)
					}
					emit(runCli(cs))
				}
			}
		}
	}
}

func GenCli(rng *rand.Rand, thorough bool, emit func(*Sx)) {
	genCliC15(rng, thorough, emit)
	genCliBody(rng, thorough, emit)
	genCliHostile(rng, thorough, emit)
	genCliTxn(rng, thorough, emit)
	genCliStartTLS(rng, thorough, emit)
	genCliTLSok(rng, thorough, emit)
	genCliAuth(rng, thorough, emit)
	genCliHello(rng, thorough, emit)
	genCliSendMail(rng, thorough, emit)
	genCliBroken(rng, thorough, emit)
	genCliRandom(rng, thorough, emit)
	genCliOrcptSpace(rng, thorough, emit)
	genCliAuthThenReEhlo(rng, thorough, emit)
	genCliMailRefused(rng, thorough, emit)
	genCliDataRefused(rng, thorough, emit)
}
