package harness

import (
	"context"
	"fmt"
	"io"
	"math/rand"
	"net"
	"sync"
	"time"

	smtp "github.com/emersion/go-smtp"
)

// Kind wtmo: Server.WriteTimeout and an LMTP backend that takes its time.
//
// The final LMTP response to DATA is one reply per accepted recipient, each written as soon as the
// backend has set that recipient's status (LMTPSession / StatusCollector): the writing loop WAITS for
// the backend between two replies.  WriteTimeout bounds the time one reply may take to be written; it
// must be armed per reply, after the wait.  (Seeded change C13G: the deadline was armed once for the
// whole response; a status set later than WriteTimeout after the response had started - slow delivery
// to a later recipient, or simply a message that takes longer than WriteTimeout to deliver - lost that
// reply and everything after it, because the failed write is sticky in the connection's bufio.Writer.)
// The scripted connections of the conv / lmtp kinds ignore deadlines, and no other case sets
// WriteTimeout.
//
// Here the REAL server (smtp.NewServer, LMTP, WriteTimeout 300 ms, no ReadTimeout) serves on a TCP
// loopback listener (writes of a few dozen octets into an empty socket buffer never block, so no
// outcome depends on anything happening WITHIN the time-out); the client sends the whole conversation
// (LHLO .. message .. NOOP QUIT) in one write and reads until the server closes; the backend follows a
// script of steps - read the message, SetStatus(addr, err), sleep - whose sleeps are fixed delays of
// 3 x WriteTimeout, ABOVE the time-out.  No model is run: the octets the client received and the
// backend's callbacks are judged by CheckWtmo.v (expectations stated here from the property text:
// exactly one reply per accepted recipient, in RCPT order, each with the status set for that recipient
// or else LMTPData's return value; the NOOP and QUIT behind the message answered).

const (
	wtmoTimeout = 300 * time.Millisecond
	wtmoLate    = 900 // ms: a status set that much later than the previous step
	wtmoGuard   = 10 * time.Second
)

type wStep struct {
	Kind string // "read", "sleep", "status"
	Ms   int
	Addr string
	Err  BErr
}

func (s wStep) Sx() *Sx {
	switch s.Kind {
	case "sleep":
		return L(A("sleep"), Num(int64(s.Ms)))
	case "status":
		return L(A("status"), XS(s.Addr), s.Err.Sx())
	}
	return L(A("read"))
}

type wtmoCase struct {
	name   string
	rcpts  []string // RCPT commands, in order
	refuse []bool   // refused by the backend's Rcpt
	steps  []wStep  // LMTPData
	ret    BErr
	xfer   string // "data", "bdat" (one chunk, LAST), "bdat2" (two chunks)
}

// wtapConn: the server's side of the connection; what was written SUCCESSFULLY is appended to the
// event record, in order with the backend's callbacks.
type wtapConn struct {
	net.Conn
	be *RecBackend
}

func (c *wtapConn) Write(b []byte) (int, error) {
	n, err := c.Conn.Write(b)
	if n > 0 {
		c.be.AddWire(b[:n])
	}
	return n, err
}

type wtapListener struct {
	net.Listener
	be *RecBackend
}

func (l *wtapListener) Accept() (net.Conn, error) {
	c, err := l.Listener.Accept()
	if err != nil {
		return nil, err
	}
	return &wtapConn{Conn: c, be: l.be}, nil
}

// wtmoBackend: the recording backend's Mail / Rcpt / Reset / Logout, and an LMTPData that follows the steps.
type wtmoBackend struct {
	*RecBackend
	steps []wStep
	ret   BErr
}

func (b *wtmoBackend) NewSession(c *smtp.Conn) (smtp.Session, error) {
	b.RecBackend.add(L(A("ns"), XS(c.Hostname()), B(false), A("nil")))
	return &wtmoSession{recSession: &recSession{b: b.RecBackend}, wb: b}, nil
}

type wtmoSession struct {
	*recSession
	wb *wtmoBackend
}

func (s *wtmoSession) LMTPData(r io.Reader, status smtp.StatusCollector) error {
	b := s.b
	_, isPipe := r.(*io.PipeReader)
	b.wg.Add(1)
	defer b.wg.Done()
	slot := -1
	b.mu.Lock()
	if !isPipe {
		slot = len(b.Events)
		b.Events = append(b.Events, L(A("data-pending")))
	}
	b.mu.Unlock()
	var got []byte
	term := "nil"
	for _, st := range s.wb.steps {
		switch st.Kind {
		case "sleep":
			time.Sleep(time.Duration(st.Ms) * time.Millisecond)
		case "status":
			status.SetStatus(st.Addr, st.Err.Err())
		default:
			g, rerr := readPlanCap(r, []int{4096}, -1, isPipe)
			got = append(got, g...)
			term = ErrKind(rerr)
		}
	}
	ret := s.wb.ret.Err()
	tag := "data"
	if isPipe {
		tag = "del"
	}
	e := L(A(tag), X(got), A(term), ErrSx(ret), B(false))
	b.mu.Lock()
	if isPipe {
		b.Deliveries = append(b.Deliveries, e)
	} else {
		b.Events[slot] = e
	}
	b.mu.Unlock()
	return ret
}

func statusLine(code int, ec [3]int, addr, msg string) string {
	return fmt.Sprintf("%d %d.%d.%d <%s> %s", code, ec[0], ec[1], ec[2], addr, msg)
}

// replyFor: the reply the property prescribes for a recipient whose status is e
func replyFor(addr string, e BErr) (int, string) {
	switch e.Kind {
	case "smtp":
		return e.Code, statusLine(e.Code, e.EC, addr, e.Msg)
	case "plain":
		return 554, statusLine(554, [3]int{5, 0, 0}, addr, "Error: transaction failed: "+e.Msg)
	}
	return 250, statusLine(250, [3]int{2, 0, 0}, addr, "OK: queued")
}

func runWtmo(tc wtmoCase) *Sx {
	fail := func(what string) *Sx {
		return L(A("wtmo"), L(A("name"), A(tc.name)), L(A("obs"), L(A(what))))
	}
	var script Script
	for _, rf := range tc.refuse {
		if rf {
			script.Rcpt = append(script.Rcpt, rejectErr())
		} else {
			script.Rcpt = append(script.Rcpt, BNil)
		}
	}
	rec := &RecBackend{script: script, LMTPSess: true, NoSync: true}
	be := &wtmoBackend{RecBackend: rec, steps: tc.steps, ret: tc.ret}
	s := smtp.NewServer(be)
	lg := &logWriter{}
	s.ErrorLog = lg
	cfg := DefaultCfg()
	cfg.LMTP, cfg.LMTPSession = true, true
	s.Domain = cfg.Domain
	s.LMTP = true
	s.MaxLineLength = cfg.MaxLine
	s.WriteTimeout = wtmoTimeout

	// ---- the conversation and what the property prescribes for it ----
	body := "Subject: slow delivery\r\n\r\nline one\r\n"
	in := "LHLO c.example\r\nMAIL FROM:<s@ok>\r\n"
	codes := []int{220, 250, 250}
	var accepted []string
	for i, a := range tc.rcpts {
		in += "RCPT TO:<" + a + ">\r\n"
		if tc.refuse[i] {
			codes = append(codes, 550)
		} else {
			codes = append(codes, 250)
			accepted = append(accepted, a)
		}
	}
	switch tc.xfer {
	case "data":
		in += "DATA\r\n" + body + ".\r\n"
		codes = append(codes, 354)
	case "bdat":
		in += fmt.Sprintf("BDAT %d LAST\r\n%s", len(body), body)
	default:
		k := len(body) / 2
		in += fmt.Sprintf("BDAT %d\r\n%sBDAT %d LAST\r\n%s", k, body[:k], len(body)-k, body[k:])
		codes = append(codes, 250)
	}
	before := len(codes)
	finals := L()
	used := map[int]bool{}
	for _, a := range accepted {
		st := tc.ret
		// the k-th status set for an address belongs to its k-th occurrence
		for j, sp := range tc.steps {
			if sp.Kind == "status" && sp.Addr == a && !used[j] {
				used[j] = true
				st = sp.Err
				break
			}
		}
		c, line := replyFor(a, st)
		codes = append(codes, c)
		finals.Add(XS(line))
	}
	in += "NOOP\r\nQUIT\r\n"
	codes = append(codes, 250, 221)

	tl, err := net.Listen("tcp", "127.0.0.1:0")
	if err != nil {
		return fail("listen-error")
	}
	l := &wtapListener{Listener: tl, be: rec}
	client, err := net.Dial("tcp", tl.Addr().String())
	if err != nil {
		tl.Close()
		return fail("dial-error")
	}
	served := make(chan struct{})
	go func() { s.Serve(l); close(served) }()

	cl := &tmoClient{c: client, ch: make(chan struct{}, 1)}
	go cl.reader()
	client.SetWriteDeadline(time.Now().Add(wtmoGuard))
	_, werr := client.Write([]byte(in))
	// until the server closes the connection (after QUIT, or because it gave up), or the guard
	closed := werr == nil && cl.wait(func(b []byte) bool { return false }, wtmoGuard)
	cl.mu.Lock()
	got := append([]byte(nil), cl.buf...)
	closed = closed && cl.closed
	cl.mu.Unlock()
	client.Close()
	ctx, cancel := context.WithTimeout(context.Background(), tmoClientGuard)
	serr := s.Shutdown(ctx)
	cancel()
	if serr != nil {
		s.Close()
	}
	select {
	case <-served:
	case <-time.After(tmoClientGuard):
	}
	waited := waitDeliveries(rec)
	rec.mu.Lock()
	evs := L()
	for _, e := range rec.Events {
		evs.Add(canonSx(e))
	}
	dl := L()
	for _, d := range rec.Deliveries {
		dl.Add(canonSx(d))
	}
	rec.mu.Unlock()

	steps := L()
	for _, st := range tc.steps {
		steps.Add(st.Sx())
	}
	rc := L()
	for i, a := range tc.rcpts {
		rc.Add(L(XS(a), B(tc.refuse[i])))
	}
	cs := L()
	for _, c := range codes {
		cs.Add(Num(int64(c)))
	}
	return L(A("wtmo"), L(A("name"), A(tc.name)), cfg.Sx(), L(A("transport"), A("tcp")),
		L(A("write-timeout-ms"), Num(int64(wtmoTimeout/time.Millisecond))),
		L(A("xfer"), A(tc.xfer)), L(A("rcpts"), rc), L(A("wplan"), L(A("steps"), steps), L(A("ret"), tc.ret.Sx())),
		L(A("input"), XS(in)),
		L(A("obs"), L(A("events"), evs), L(A("deliveries"), dl),
			L(A("panics"), Num(int64(lg.count("panic serving")))),
			L(A("client"), X(got)), L(A("closed"), B(closed)),
			L(A("waited"), B(waited)), L(A("served"), B(serr == nil))),
		L(A("expect"), L(A("focus"), A("C13")), L(A("expect-codes"), cs),
			L(A("final-replies"), Num(int64(before)), finals)))
}

// GenWtmo: recipient lists of 2-3 entries (a repeated address, one refused at RCPT) x backend scripts
// {prompt (control); late second recipient; late third; everything late (the delivery itself takes
// longer than WriteTimeout: sleep before / after reading); first status before the message is read, the
// others late one after the other; statuses set in reverse order, the first late; no status at all and
// a late return of nil / an error} x {DATA, BDAT LAST, two BDAT chunks}.
func GenWtmo(rng *rand.Rand, thorough bool, emit func(*Sx)) {
	full := BSmtp(452, [3]int{4, 2, 2}, "mailbox full")
	nouser := BSmtp(550, [3]int{5, 1, 1}, "no such user here")
	rd := wStep{Kind: "read"}
	late := func() wStep { return wStep{Kind: "sleep", Ms: wtmoLate + rng.Intn(100)} }
	st := func(a string, e BErr) wStep { return wStep{Kind: "status", Addr: a, Err: e} }
	type rl struct {
		name   string
		rcpts  []string
		refuse []bool
	}
	lists := []rl{
		{"abc", []string{"a@ok", "b@ok", "c@ok"}, []bool{false, false, false}},
		{"aba", []string{"a@ok", "b@ok", "a@ok"}, []bool{false, false, false}},
		{"axb", []string{"a@ok", "x@no", "b@ok"}, []bool{false, true, false}},
	}
	if thorough {
		lists = append(lists, rl{"ab", []string{"a@ok", "b@ok"}, []bool{false, false}},
			rl{"xab", []string{"x@no", "a@ok", "b@ok"}, []bool{true, false, false}})
	}
	var cases []wtmoCase
	for _, li := range lists {
		var acc []string
		for i, a := range li.rcpts {
			if !li.refuse[i] {
				acc = append(acc, a)
			}
		}
		// the status for the i-th accepted recipient
		verdict := func(i int) BErr { return []BErr{BNil, full, nouser}[i%3] }
		sts := func(idx ...int) []wStep {
			var out []wStep
			for _, i := range idx {
				if i < len(acc) {
					out = append(out, st(acc[i], verdict(i)))
				}
			}
			return out
		}
		cat := func(parts ...[]wStep) []wStep {
			var out []wStep
			for _, p := range parts {
				out = append(out, p...)
			}
			return out
		}
		one := func(s wStep) []wStep { return []wStep{s} }
		type sc struct {
			name  string
			steps []wStep
			ret   BErr
		}
		scripts := []sc{
			{"prompt", cat(one(rd), sts(0, 1, 2)), BNil},
			{"late2", cat(one(rd), sts(0), one(late()), sts(1, 2)), BNil},
			{"late3", cat(one(rd), sts(0, 1), one(late()), sts(2)), BNil},
			{"slowread", cat(one(late()), one(rd), sts(0, 1, 2)), BNil},
			{"slowdelivery", cat(one(rd), one(late()), sts(0, 1, 2)), BNil},
			{"early1", cat(sts(0), one(rd), one(late()), sts(1), one(late()), sts(2)), BNil},
			{"reverse", cat(one(rd), sts(2, 1), one(late()), sts(0)), BNil},
			{"nostatus-nil", cat(one(rd), one(late())), BNil},
			{"nostatus-err", cat(one(rd), one(late())), full},
			{"partial", cat(one(rd), sts(1), one(late())), nouser},
		}
		for _, sp := range scripts {
			for _, xfer := range []string{"data", "bdat", "bdat2"} {
				if !thorough && xfer == "bdat2" && sp.name != "late2" && sp.name != "early1" {
					continue
				}
				cases = append(cases, wtmoCase{name: li.name + "-" + sp.name + "-" + xfer, rcpts: li.rcpts, refuse: li.refuse,
					steps: sp.steps, ret: sp.ret, xfer: xfer})
			}
		}
	}
	// all at once, each with its own server, listener and backend: the wall time is that of the slowest
	res := make([]*Sx, len(cases))
	var wg sync.WaitGroup
	for i := range cases {
		wg.Add(1)
		go func(i int) {
			defer wg.Done()
			res[i] = runWtmo(cases[i])
		}(i)
	}
	wg.Wait()
	for _, r := range res {
		emit(r)
	}
}
