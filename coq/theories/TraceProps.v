(* Properties of event traces, stated directly over the event list, and the
   general lemmas deriving them from acceptance by the (strict) monitor.  With
   ConnProofs.serve_accepted_strict they hold for every trace of the server
   model. *)
From Smtp Require Import Bytes Transport DataReader Reply Lmtp Conn Order OrderStrict ConnProofs.

(* ---------- list vocabulary ---------- *)

Fixpoint take_while {A} (q : A -> bool) (l : list A) : list A :=
  match l with
  | [] => []
  | x :: r => if q x then x :: take_while q r else []
  end.

(* the part of [l] before its first element satisfying [p] (all of [l] if there is none) *)
Definition until {A} (p : A -> bool) (l : list A) : list A := take_while (fun x => negb (p x)) l.

(* the part of [l] after its last element satisfying [p] (all of [l] if there is none) *)
Definition since {A} (p : A -> bool) (l : list A) : list A := rev (until p (rev l)).

Definition count {A} (q : A -> bool) (l : list A) : nat := List.length (filter q l).

Lemma since_snoc {A} (p : A -> bool) l e :
  since p (l ++ [e]) = if p e then [] else since p l ++ [e].
Proof.
  unfold since, until. rewrite rev_app_distr. cbn. destruct (p e); cbn; reflexivity.
Qed.

Lemma since_nil {A} (p : A -> bool) : since p [] = [].
Proof. reflexivity. Qed.

Lemma until_split {A} (p : A -> bool) l :
  l = until p l \/ exists x rest, l = until p l ++ x :: rest /\ p x = true.
Proof.
  induction l as [|x l IH]; [left; reflexivity|].
  unfold until in *. cbn. destruct (p x) eqn:E; cbn.
  - right. exists x, l. split; [reflexivity|exact E].
  - destruct IH as [IH|(y & rest & IH & Hy)].
    + left. f_equal. exact IH.
    + right. exists y, rest. split; [f_equal; exact IH|exact Hy].
Qed.

Lemma until_no {A} (p : A -> bool) l x : In x (until p l) -> p x = false.
Proof.
  unfold until. induction l as [|y l IH]; cbn; [intros []|].
  destruct (p y) eqn:E; cbn; [intros []|]. intros [H|H]; [subst; exact E|apply IH, H].
Qed.

Lemma until_all {A} (p : A -> bool) l : (forall x, In x l -> p x = false) -> until p l = l.
Proof.
  unfold until. induction l as [|y l IH]; intros H; cbn; [reflexivity|].
  rewrite (H y (or_introl eq_refl)). cbn. f_equal. apply IH. intros x Hx. apply H. right. exact Hx.
Qed.

Lemma since_no {A} (p : A -> bool) l x : In x (since p l) -> p x = false.
Proof. unfold since. intros H. apply in_rev in H. apply until_no in H. exact H. Qed.

(* a left-to-right scan: "some [q] since the last [p]" and "how many [q] since the last [p]" *)
Definition scan_step {A} (p q : A -> bool) (b : bool) (e : A) : bool :=
  if p e then false else if q e then true else b.
Definition scan {A} (p q : A -> bool) (b : bool) (l : list A) : bool := fold_left (scan_step p q) l b.

Definition scann_step {A} (p q : A -> bool) (n : nat) (e : A) : nat :=
  if p e then 0 else if q e then S n else n.
Definition scann {A} (p q : A -> bool) (n : nat) (l : list A) : nat := fold_left (scann_step p q) l n.

Lemma scan_since {A} (p q : A -> bool) l : scan p q false l = existsb q (since p l).
Proof.
  induction l as [|e l IH] using rev_ind; [reflexivity|].
  unfold scan in *. rewrite fold_left_app, since_snoc. cbn. rewrite IH. unfold scan_step.
  destruct (p e); [reflexivity|]. rewrite existsb_app. cbn. rewrite orb_false_r.
  destruct (q e); [rewrite orb_true_r|rewrite orb_false_r]; reflexivity.
Qed.

Lemma scann_since {A} (p q : A -> bool) l : scann p q 0 l = count q (since p l).
Proof.
  induction l as [|e l IH] using rev_ind; [reflexivity|].
  unfold scann in *. rewrite fold_left_app, since_snoc. cbn. rewrite IH. unfold scann_step, count.
  destruct (p e); [reflexivity|]. rewrite filter_app, app_length. cbn.
  destruct (q e); cbn; lia.
Qed.

(* ---------- event classes ---------- *)

Definition is_logout (e : event) : bool := match e with ELogout => true | _ => false end.
Definition is_tx_end (e : event) : bool := match e with EReset | ELogout => true | _ => false end.
Definition is_ns (e : event) : bool := match e with ENewSession _ _ _ => true | _ => false end.
Definition is_ns_ok (e : event) : bool := match e with ENewSession _ _ BNil => true | _ => false end.
Definition is_mail_ok (e : event) : bool := match e with EMail _ _ BNil => true | _ => false end.
Definition is_rcpt_ok (e : event) : bool := match e with ERcpt _ _ BNil => true | _ => false end.
Definition is_tls_ok (e : event) : bool := match e with ETlsStart true => true | _ => false end.
Definition is_cmd (e : event) : bool := match e with ECmd _ => true | _ => false end.
Definition is_close (e : event) : bool := match e with EClose => true | _ => false end.
Definition is_auth (e : event) : bool :=
  match e with EAuth _ _ | EAuthNext _ _ _ _ => true | _ => false end.
(* a backend callback that begins a new piece of work on the session *)
Definition is_callback (e : event) : bool :=
  match e with
  | ENewSession _ _ _ | EMail _ _ _ | ERcpt _ _ _ | EData _ _ _ _ | EBdatStart
  | EAuth _ _ | EAuthNext _ _ _ _ => true
  | _ => false
  end.
(* anything that is called on, or is about, a live session *)
Definition is_session_event (e : event) : bool :=
  match e with
  | EMail _ _ _ | ERcpt _ _ _ | EData _ _ _ _ | EBdatStart | EReset | ELogout
  | EAuth _ _ | EAuthNext _ _ _ _ | EAuthOk => true
  | _ => false
  end.
(* a delivery that panicked *)
Definition is_panicking (e : event) : bool :=
  match e with EData _ _ _ p | EDelivery _ _ _ p => p | _ => false end.

(* a session is live after [pre]: a successful NewSession with no Logout since *)
Definition live (pre : list event) : bool := existsb is_ns_ok (since is_logout pre).
(* the connection is under TLS after [pre] *)
Definition tls_after (implicit : bool) (pre : list event) : bool := implicit || existsb is_tls_ok pre.

(* ---------- the monitor's state as a function of the prefix ---------- *)

Section Mon.
Variable cfg : config.

Lemma run_split pre e post : forall s s',
  smon_run cfg s (pre ++ e :: post) = Some s' ->
  exists s1 s2, smon_run cfg s pre = Some s1 /\ smon_step cfg s1 e = Some s2
                /\ smon_run cfg s2 post = Some s'.
Proof.
  intros s s' H. rewrite smon_run_app in H.
  destruct (smon_run cfg s pre) as [s1|]; [|discriminate]. cbn in H.
  destruct (smon_step cfg s1 e) as [s2|] eqn:E; [|discriminate].
  exists s1, s2. repeat split; assumption.
Qed.

Lemma run_snoc pre e : forall s s',
  smon_run cfg s (pre ++ [e]) = Some s' ->
  exists s1, smon_run cfg s pre = Some s1 /\ smon_step cfg s1 e = Some s'.
Proof.
  intros s s' H. apply run_split in H as (s1 & s2 & H1 & H2 & H3). cbn in H3. inversion H3; subst.
  exists s1. split; assumption.
Qed.

Lemma guard_some b (m m' : mon) : guard b m = Some m' -> b = true /\ m' = m.
Proof. unfold guard. destruct b; intros H; inversion H; split; reflexivity. Qed.

(* inversion of one accepted step *)
Lemma step_inv s e s' :
  smon_step cfg s e = Some s' ->
  strict_bad (fst s) (snd s) e = false /\ mon_step cfg (fst s) e = Some (fst s')
  /\ snd s' = next_ml (fst s) (snd s) e.
Proof.
  unfold smon_step. destruct (strict_bad (fst s) (snd s) e); [discriminate|].
  destruct (mon_step cfg (fst s) e); [|discriminate]. intros H. inversion H. cbn. repeat split.
Qed.

Ltac inv_step H :=
  let Hb := fresh "Hbad" in let Hs := fresh "Hstep" in let Hl := fresh "Hml" in
  apply step_inv in H as (Hb & Hs & Hl).

Ltac inv_guard H :=
  let G := fresh "G" in
  cbn [mon_step] in H; apply guard_some in H as [G H].

Lemma closed_sticky_step s e s' :
  smon_step cfg s e = Some s' -> m_closed (fst s) = true -> m_closed (fst s') = true.
Proof.
  intros H Hc. inv_step H. destruct s as [m ml], s' as [m' ml']. cbn [fst snd] in *.
  destruct e; try (inv_guard Hstep; subst m'; try rewrite Hc in G; try discriminate; cbn; try assumption).
  - reflexivity.
  - cbn in Hstep. inversion Hstep; subst. exact Hc.
Qed.

Lemma closed_sticky l : forall s s',
  smon_run cfg s l = Some s' -> m_closed (fst s) = true -> m_closed (fst s') = true.
Proof.
  induction l as [|e l IH]; intros s s' H Hc; cbn in H.
  - inversion H; subst. exact Hc.
  - destruct (smon_step cfg s e) as [s1|] eqn:E; [|discriminate].
    eapply IH; [exact H|]. eapply closed_sticky_step; eassumption.
Qed.


(* how one accepted step that leaves the connection open changes the fields *)
Lemma step_fields s e s' :
  smon_step cfg s e = Some s' -> m_closed (fst s') = false ->
  m_closed (fst s) = false
  /\ m_session (fst s') = scan_step is_logout is_ns_ok (m_session (fst s)) e
  /\ m_from (fst s') = scan_step is_tx_end is_mail_ok (m_from (fst s)) e
  /\ m_nrcpt (fst s') = scann_step is_tx_end is_rcpt_ok (m_nrcpt (fst s)) e
  /\ m_tls (fst s') = m_tls (fst s) || is_tls_ok e.
Proof.
  intros H Hc.
  assert (Hc0 : m_closed (fst s) = false).
  { destruct (m_closed (fst s)) eqn:E; [|reflexivity].
    rewrite (closed_sticky_step _ _ _ H E) in Hc. discriminate. }
  split; [exact Hc0|].
  inv_step H. destruct s as [m ml], s' as [m' ml']. cbn [fst snd] in *.
  unfold scan_step, scann_step.
  destruct e; try (inv_guard Hstep; subst m'; cbn in *; rewrite ?orb_false_r).
  all: try (rewrite !andb_true_iff in G).
  all: try solve [repeat split].
  - (* NewSession *)
    rewrite !negb_true_iff in G. destruct G as [[_ Gs] _]. rewrite Gs. destruct r; repeat split.
  - (* Mail *) destruct r; rewrite ?orb_true_r, ?orb_false_r; repeat split.
  - (* Reset *) destruct G as [[_ Gs] _]. rewrite Gs. repeat split.
  - discriminate.
  - (* STARTTLS *)
    rewrite !negb_true_iff in G. destruct G as [[_ Gt] _].
    destruct ok; cbn; rewrite ?orb_true_r, ?orb_false_r; repeat split.
  - cbn in Hstep. inversion Hstep; subst. cbn. rewrite orb_false_r. repeat split.
Qed.

Lemma run_fields l : forall s s',
  smon_run cfg s l = Some s' -> m_closed (fst s') = false ->
  m_closed (fst s) = false
  /\ m_session (fst s') = scan is_logout is_ns_ok (m_session (fst s)) l
  /\ m_from (fst s') = scan is_tx_end is_mail_ok (m_from (fst s)) l
  /\ m_nrcpt (fst s') = scann is_tx_end is_rcpt_ok (m_nrcpt (fst s)) l
  /\ m_tls (fst s') = m_tls (fst s) || existsb is_tls_ok l.
Proof.
  induction l as [|e l IH]; intros s s' H Hc; cbn in H.
  - inversion H; subst. cbn. rewrite orb_false_r. repeat split. exact Hc.
  - destruct (smon_step cfg s e) as [s1|] eqn:E; [|discriminate].
    destruct (IH _ _ H Hc) as (Hc1 & Hs & Hf & Hn & Ht).
    destruct (step_fields _ _ _ E Hc1) as (Hc0 & Hs0 & Hf0 & Hn0 & Ht0).
    split; [exact Hc0|]. unfold scan, scann in *. cbn [fold_left existsb].
    rewrite <- Hs0, <- Hf0, <- Hn0, orb_assoc, <- Ht0. repeat split; assumption.
Qed.

(* from the initial state: the fields in terms of the trace vocabulary *)
Lemma run_init_fields tls0 pre s :
  smon_run cfg (smon_init tls0) pre = Some s -> m_closed (fst s) = false ->
  m_session (fst s) = live pre
  /\ m_from (fst s) = existsb is_mail_ok (since is_tx_end pre)
  /\ m_nrcpt (fst s) = count is_rcpt_ok (since is_tx_end pre)
  /\ m_tls (fst s) = tls_after tls0 pre.
Proof.
  intros H Hc. destruct (run_fields _ _ _ H Hc) as (_ & Hs & Hf & Hn & Ht).
  cbn in Hs, Hf, Hn, Ht. rewrite scan_since in Hs, Hf. rewrite scann_since in Hn.
  repeat split; assumption.
Qed.


Definition accepted (tr : list event) : Prop :=
  smon_run cfg (smon_init (cf_implicit_tls cfg)) tr <> None.

Lemma accepted_split tr pre e post :
  accepted tr -> tr = pre ++ e :: post ->
  exists s1 s2 s',
    smon_run cfg (smon_init (cf_implicit_tls cfg)) pre = Some s1
    /\ smon_step cfg s1 e = Some s2 /\ smon_run cfg s2 post = Some s'.
Proof.
  intros Ha ->. unfold accepted in Ha.
  destruct (smon_run cfg (smon_init (cf_implicit_tls cfg)) (pre ++ e :: post)) as [s'|] eqn:E;
    [|congruence].
  apply run_split in E as (s1 & s2 & H1 & H2 & H3). exists s1, s2, s'. repeat split; assumption.
Qed.

(* a property of the state is preserved until an event of class [p]; meanwhile
   only [good] events are accepted *)
Lemma until_inv (I : smon -> Prop) (p good : event -> bool) :
  (forall s e s', I s -> smon_step cfg s e = Some s' -> p e = false -> good e = true /\ I s') ->
  forall post s s', I s -> smon_run cfg s post = Some s' ->
  Forall (fun e => good e = true) (until p post).
Proof.
  intros Hstep. induction post as [|e post IH]; intros s s' HI H; [constructor|].
  unfold until in *. cbn in *.
  destruct (smon_step cfg s e) as [s1|] eqn:E; [|discriminate].
  destruct (p e) eqn:Ep; cbn; [constructor|].
  destruct (Hstep _ _ _ HI E Ep) as [Hg HI1].
  constructor; [exact Hg|]. eapply IH; eassumption.
Qed.


Ltac split_G G := rewrite ?andb_true_iff, ?negb_true_iff in G.

Lemma count_pos_existsb {A} (q : A -> bool) l : (0 <? count q l)%nat = true -> existsb q l = true.
Proof.
  unfold count. induction l as [|x l IH]; cbn; [discriminate|].
  destruct (q x); cbn; [reflexivity|exact IH].
Qed.

(* ---------- C03: transaction order ---------- *)

(* (a) and (c): what has happened before each backend callback *)
Definition C03_order (tr : list event) : Prop :=
  forall pre e post, tr = pre ++ e :: post ->
    match e with
    | ENewSession _ t _ =>
        (* no other session is live; the TLS state shown is the current one *)
        live pre = false /\ t = tls_after (cf_implicit_tls cfg) pre
    | EMail _ _ _ =>
        (* a successful greeting, no Logout since *)
        live pre = true
    | ERcpt _ _ _ =>
        (* an accepted MAIL since the last transaction end; the recipient limit *)
        live pre = true /\ existsb is_mail_ok (since is_tx_end pre) = true
        /\ ((0 < cf_max_rcpt cfg)%N ->
            (N.of_nat (count is_rcpt_ok (since is_tx_end (pre ++ [e]))) <= cf_max_rcpt cfg)%N)
    | EData _ _ _ _ | EBdatStart =>
        (* an accepted MAIL and at least one accepted RCPT since the last transaction end *)
        live pre = true /\ existsb is_mail_ok (since is_tx_end pre) = true
        /\ existsb is_rcpt_ok (since is_tx_end pre) = true
    | _ => True
    end.

Lemma accepted_C03_order tr : accepted tr -> C03_order tr.
Proof.
  intros Ha pre e post Htr.
  destruct (accepted_split _ _ _ _ Ha Htr) as (s1 & s2 & s' & H1 & H2 & _).
  inv_step H2. destruct s1 as [m ml], s2 as [m' ml']. cbn [fst snd] in *.
  destruct e; try exact I; inv_guard Hstep; split_G G.
  - (* NewSession *)
    destruct G as [[Gc Gs] Gt].
    destruct (run_init_fields _ _ _ H1 Gc) as (Hs & _ & _ & Ht). cbn [fst] in *.
    split; [congruence|]. apply eqb_prop in Gt. congruence.
  - (* Mail *)
    destruct G as [[Gc Gs] _].
    destruct (run_init_fields _ _ _ H1 Gc) as (Hs & _). cbn [fst] in *. congruence.
  - (* Rcpt *)
    destruct G as [[[[Gc Gs] Gf] _] Gl].
    destruct (run_init_fields _ _ _ H1 Gc) as (Hs & Hf & Hn & _). cbn [fst] in *.
    split; [congruence|]. split; [congruence|]. intros Hmax.
    rewrite since_snoc. cbn [is_tx_end]. unfold count. rewrite filter_app, app_length.
    fold (count is_rcpt_ok (since is_tx_end pre)). rewrite <- Hn.
    apply orb_true_iff in Gl as [Gl|Gl]; [apply N.eqb_eq in Gl; lia|].
    apply N.ltb_lt in Gl. cbn. destruct r; cbn; lia.
  - (* Data *)
    destruct G as [[[[Gc Gs] Gf] Gn] _].
    destruct (run_init_fields _ _ _ H1 Gc) as (Hs & Hf & Hn & _). cbn [fst] in *.
    split; [congruence|]. split; [congruence|]. apply count_pos_existsb. congruence.
  - (* BdatStart *)
    destruct G as [[[[[Gc Gs] Gf] Gn] _] _].
    destruct (run_init_fields _ _ _ H1 Gc) as (Hs & Hf & Hn & _). cbn [fst] in *.
    split; [congruence|]. split; [congruence|]. apply count_pos_existsb. congruence.
Qed.


(* (b): between the final outcome of DATA and the Reset (or Logout) that
   signals the end of the transaction, no callback begins, no further command
   is read and the connection is not closed *)
Definition quiet (e : event) : bool := negb (is_callback e) && negb (is_cmd e) && negb (is_close e).

Definition C03_end_signalled (tr : list event) : Prop :=
  forall pre g t r p post, tr = pre ++ EData g t r p :: post ->
    Forall (fun e => quiet e = true) (until is_tx_end post).

Lemma step_must_reset s e s' :
  (m_must_reset (fst s) = true /\ m_session (fst s) = true) ->
  smon_step cfg s e = Some s' -> is_tx_end e = false ->
  quiet e = true /\ (m_must_reset (fst s') = true /\ m_session (fst s') = true).
Proof.
  intros [Hm Hs] H Hp. inv_step H. destruct s as [m ml], s' as [m' ml']. cbn [fst snd] in *.
  destruct e; cbn in Hp; try discriminate; cbn in Hbad; rewrite ?Hm in Hbad; try discriminate;
    try (inv_guard Hstep; subst m'; split_G G); cbn; rewrite ?Hm, ?Hs; repeat split;
    try (exfalso; decompose [and] G; congruence).
  - destruct ok; cbn; [reflexivity|exact Hm].
  - destruct ok; cbn; [reflexivity|exact Hs].
  - cbn in Hstep. inversion Hstep; subst. exact Hm.
  - cbn in Hstep. inversion Hstep; subst. exact Hs.
Qed.

Lemma accepted_C03_end_signalled tr : accepted tr -> C03_end_signalled tr.
Proof.
  intros Ha pre g t r p post Htr.
  destruct (accepted_split _ _ _ _ Ha Htr) as (s1 & s2 & s' & H1 & H2 & H3).
  eapply (until_inv (fun s => m_must_reset (fst s) = true /\ m_session (fst s) = true));
    [apply step_must_reset| |exact H3].
  inv_step H2. destruct s1 as [m ml], s2 as [m' ml']. cbn [fst snd] in *.
  inv_guard Hstep. subst m'. split_G G. cbn. split; [reflexivity|]. tauto.
Qed.


(* ---------- C08: sessions and the end of the connection ---------- *)

(* while a session is live no other session is created and the connection is
   not closed: the first boundary event after a successful NewSession is its
   Logout *)
Definition C08_live_until_logout (tr : list event) : Prop :=
  forall pre h t post, tr = pre ++ ENewSession h t BNil :: post ->
    Forall (fun e => negb (is_ns e) && negb (is_close e) = true) (until is_logout post).

(* after Logout nothing is called on the session (no second Logout either)
   until a new session has been created successfully *)
Definition C08_nothing_after_logout (tr : list event) : Prop :=
  forall pre post, tr = pre ++ ELogout :: post ->
    Forall (fun e => negb (is_session_event e) = true) (until is_ns_ok post).

(* after Close: no command, no reply, no session, no callback, no delivery *)
Definition after_close_ok (e : event) : bool :=
  match e with EClose | EPanic | EOutOfFuel => true | _ => false end.
Definition C08_nothing_after_close (tr : list event) : Prop :=
  forall pre post, tr = pre ++ EClose :: post ->
    Forall (fun e => after_close_ok e = true) post.

(* when the connection is closed (first Close) no session is live *)
Definition C08_closed_logged_out (tr : list event) : Prop :=
  forall pre post, tr = pre ++ EClose :: post -> ~ In EClose pre -> live pre = false.

Lemma step_session_live s e s' :
  m_session (fst s) = true -> smon_step cfg s e = Some s' -> is_logout e = false ->
  negb (is_ns e) && negb (is_close e) = true /\ m_session (fst s') = true.
Proof.
  intros Hs H Hp. inv_step H. destruct s as [m ml], s' as [m' ml']. cbn [fst snd] in *.
  destruct e; cbn in Hp; try discriminate;
    try (inv_guard Hstep; subst m'; split_G G); cbn; rewrite ?Hs; repeat split;
    try (exfalso; decompose [and] G; congruence).
  - destruct ok; cbn; [reflexivity|exact Hs].
  - cbn in Hstep. inversion Hstep; subst. exact Hs.
Qed.

Lemma accepted_C08_live_until_logout tr : accepted tr -> C08_live_until_logout tr.
Proof.
  intros Ha pre h t post Htr.
  destruct (accepted_split _ _ _ _ Ha Htr) as (s1 & s2 & s' & H1 & H2 & H3).
  eapply (until_inv (fun s => m_session (fst s) = true)); [apply step_session_live| |exact H3].
  inv_step H2. destruct s1 as [m ml], s2 as [m' ml']. cbn [fst snd] in *.
  inv_guard Hstep. subst m'. reflexivity.
Qed.

Lemma step_no_session s e s' :
  m_session (fst s) = false -> smon_step cfg s e = Some s' -> is_ns_ok e = false ->
  negb (is_session_event e) = true /\ m_session (fst s') = false.
Proof.
  intros Hs H Hp. inv_step H. destruct s as [m ml], s' as [m' ml']. cbn [fst snd] in *.
  destruct e; cbn in Hp;
    try (inv_guard Hstep; subst m'; split_G G); cbn; rewrite ?Hs; repeat split;
    try (exfalso; decompose [and] G; congruence).
  - destruct r; [discriminate|reflexivity..].
  - destruct ok; cbn; [reflexivity|exact Hs].
  - cbn in Hstep. inversion Hstep; subst. exact Hs.
Qed.

Lemma accepted_C08_nothing_after_logout tr : accepted tr -> C08_nothing_after_logout tr.
Proof.
  intros Ha pre post Htr.
  destruct (accepted_split _ _ _ _ Ha Htr) as (s1 & s2 & s' & H1 & H2 & H3).
  eapply (until_inv (fun s => m_session (fst s) = false)); [apply step_no_session| |exact H3].
  inv_step H2. destruct s1 as [m ml], s2 as [m' ml']. cbn [fst snd] in *.
  inv_guard Hstep. subst m'. reflexivity.
Qed.

Lemma step_closed s e s' :
  (m_closed (fst s) = true /\ m_running (fst s) = false) ->
  smon_step cfg s e = Some s' -> false = false ->
  after_close_ok e = true /\ (m_closed (fst s') = true /\ m_running (fst s') = false).
Proof.
  intros [Hc Hr] H _. inv_step H. destruct s as [m ml], s' as [m' ml']. cbn [fst snd] in *.
  destruct e;
    try (inv_guard Hstep; subst m'; split_G G); cbn; rewrite ?Hc, ?Hr; repeat split;
    try (exfalso; decompose [and] G; congruence).
  - cbn in Hstep. inversion Hstep; subst. exact Hc.
  - cbn in Hstep. inversion Hstep; subst. exact Hr.
Qed.

Lemma accepted_C08_nothing_after_close tr : accepted tr -> C08_nothing_after_close tr.
Proof.
  intros Ha pre post Htr.
  destruct (accepted_split _ _ _ _ Ha Htr) as (s1 & s2 & s' & H1 & H2 & H3).
  rewrite <- (until_all (fun _ => false) post) by reflexivity.
  eapply (until_inv (fun s => m_closed (fst s) = true /\ m_running (fst s) = false));
    [apply step_closed| |exact H3].
  inv_step H2. destruct s1 as [m ml], s2 as [m' ml']. cbn [fst snd] in *.
  inv_guard Hstep. subst m'. split_G G. cbn. tauto.
Qed.

Lemma closed_has_close l : forall s s',
  smon_run cfg s l = Some s' -> m_closed (fst s) = false -> m_closed (fst s') = true -> In EClose l.
Proof.
  induction l as [|e l IH]; intros s s' H Hc Hc'; cbn in H.
  - inversion H; subst. congruence.
  - destruct (smon_step cfg s e) as [s1|] eqn:E; [|discriminate].
    destruct (m_closed (fst s1)) eqn:Hc1.
    + left. inv_step E. destruct s as [m ml], s1 as [m1 ml1]. cbn [fst snd] in *.
      destruct e; try reflexivity; exfalso;
        try (inv_guard Hstep; subst m1; cbn in Hc1; try destruct ok; cbn in Hc1; congruence).
      cbn in Hstep. inversion Hstep; subst. congruence.
    + right. eapply IH; eassumption.
Qed.

Lemma accepted_C08_closed_logged_out tr : accepted tr -> C08_closed_logged_out tr.
Proof.
  intros Ha pre post Htr Hnc.
  destruct (accepted_split _ _ _ _ Ha Htr) as (s1 & s2 & s' & H1 & H2 & H3).
  assert (Hc : m_closed (fst s1) = false).
  { destruct (m_closed (fst s1)) eqn:E; [|reflexivity]. exfalso. apply Hnc.
    eapply closed_has_close; [exact H1|reflexivity|exact E]. }
  destruct (run_init_fields _ _ _ H1 Hc) as (Hs & _).
  inv_step H2. destruct s1 as [m ml], s2 as [m' ml']. cbn [fst snd] in *.
  inv_guard Hstep. split_G G. destruct G as [G _]. congruence.
Qed.


(* on a trace that reaches the closing of the connection, every successfully
   created session gets exactly one Logout: it comes before any other session
   is created and before the connection is closed, and nothing is called on
   the session afterwards *)
Definition C08_exactly_one_logout (tr : list event) : Prop :=
  forall pre h t post, tr = pre ++ ENewSession h t BNil :: post -> In EClose post ->
    exists mid rest,
      post = mid ++ ELogout :: rest
      /\ Forall (fun e => negb (is_logout e) && negb (is_ns e) && negb (is_close e) = true) mid
      /\ Forall (fun e => negb (is_session_event e) = true) (until is_ns_ok rest).

Lemma C08_exactly_one_from tr :
  C08_live_until_logout tr -> C08_nothing_after_logout tr -> C08_exactly_one_logout tr.
Proof.
  intros H1 H2 pre h t post Htr Hcl.
  specialize (H1 _ _ _ _ Htr).
  destruct (until_split is_logout post) as [Hu|(x & rest & Hu & Hx)].
  - exfalso. rewrite <- Hu in H1. rewrite Forall_forall in H1. specialize (H1 _ Hcl). discriminate.
  - destruct x; try discriminate. exists (until is_logout post), rest. split; [exact Hu|]. split.
    + rewrite Forall_forall in *. intros e He. rewrite (until_no _ _ _ He). cbn. apply H1, He.
    + apply (H2 (pre ++ ENewSession h t BNil :: until is_logout post) rest).
      rewrite Htr, Hu at 1. rewrite <- app_assoc. reflexivity.
Qed.

(* ---------- C09 (server half) ---------- *)

(* the SASL machinery is reached only under TLS (unless insecure authentication
   is allowed), and only with a live session *)
Definition C09_auth_guarded (tr : list event) : Prop :=
  forall pre e post, tr = pre ++ e :: post -> is_auth e = true \/ e = EAuthOk ->
    live pre = true
    /\ (cf_insecure_auth cfg = false -> is_auth e = true -> tls_after (cf_implicit_tls cfg) pre = true).

(* once an exchange has succeeded, no further exchange begins and none
   succeeds until the session is logged out *)
Definition is_authok (e : event) : bool := match e with EAuthOk => true | _ => false end.
Definition C09_at_most_once (tr : list event) : Prop :=
  forall pre post, tr = pre ++ EAuthOk :: post ->
    Forall (fun e => negb (is_auth e) && negb (is_authok e) = true) (until is_logout post).

Lemma accepted_C09_auth_guarded tr : accepted tr -> C09_auth_guarded tr.
Proof.
  intros Ha pre e post Htr He.
  destruct (accepted_split _ _ _ _ Ha Htr) as (s1 & s2 & s' & H1 & H2 & _).
  inv_step H2. destruct s1 as [m ml], s2 as [m' ml']. cbn [fst snd] in *.
  destruct He as [He| ->]; [destruct e; try discriminate|]; inv_guard Hstep; split_G G.
  1,2: destruct G as [[[Gc Gs] _] Gt].
  3: destruct G as [Gc Gs].
  all: destruct (run_init_fields _ _ _ H1 Gc) as (Hs & _ & _ & Ht); cbn [fst] in *.
  all: split; [congruence|]; intros Hi Hx; try discriminate.
  all: rewrite Hi, orb_false_r in Gt; congruence.
Qed.

Lemma step_authed s e s' :
  (m_authed (fst s) = true /\ m_session (fst s) = true) ->
  smon_step cfg s e = Some s' -> is_logout e = false ->
  negb (is_auth e) && negb (is_authok e) = true
  /\ (m_authed (fst s') = true /\ m_session (fst s') = true).
Proof.
  intros [Hm Hs] H Hp. inv_step H. destruct s as [m ml], s' as [m' ml']. cbn [fst snd] in *.
  destruct e; cbn in Hp; try discriminate; cbn in Hbad; rewrite ?Hm in Hbad; try discriminate;
    try (inv_guard Hstep; subst m'; split_G G); cbn; rewrite ?Hm, ?Hs; repeat split;
    try (exfalso; decompose [and] G; congruence).
  - destruct ok; cbn; first [reflexivity|assumption].
  - destruct ok; cbn; first [reflexivity|assumption].
  - cbn in Hstep. inversion Hstep; subst. exact Hm.
  - cbn in Hstep. inversion Hstep; subst. exact Hs.
Qed.

Lemma accepted_C09_at_most_once tr : accepted tr -> C09_at_most_once tr.
Proof.
  intros Ha pre post Htr.
  destruct (accepted_split _ _ _ _ Ha Htr) as (s1 & s2 & s' & H1 & H2 & H3).
  eapply (until_inv (fun s => m_authed (fst s) = true /\ m_session (fst s) = true));
    [apply step_authed| |exact H3].
  inv_step H2. destruct s1 as [m ml], s2 as [m' ml']. cbn [fst snd] in *.
  inv_guard Hstep. subst m'. split_G G. cbn. tauto.
Qed.

(* ---------- C10 (server half) ---------- *)

(* STARTTLS is performed only in plaintext and when TLS is configured *)
Definition C10_starttls_guarded (tr : list event) : Prop :=
  forall pre ok post, tr = pre ++ ETlsStart ok :: post ->
    tls_after (cf_implicit_tls cfg) pre = false /\ cf_tls_config cfg = true.

(* after a successful handshake, a session that was live gets its Logout
   before anything else is called on it or a new one is made, before the next
   command is read and before the connection is closed; it gets no Reset *)
Definition is_reset (e : event) : bool := match e with EReset => true | _ => false end.
Definition C10_logout_after_starttls (tr : list event) : Prop :=
  forall pre post, tr = pre ++ ETlsStart true :: post -> live pre = true ->
    Forall (fun e => negb (is_cmd e) && negb (is_callback e) && negb (is_reset e)
                     && negb (is_close e) = true) (until is_logout post).

Lemma accepted_C10_starttls_guarded tr : accepted tr -> C10_starttls_guarded tr.
Proof.
  intros Ha pre ok post Htr.
  destruct (accepted_split _ _ _ _ Ha Htr) as (s1 & s2 & s' & H1 & H2 & _).
  inv_step H2. destruct s1 as [m ml], s2 as [m' ml']. cbn [fst snd] in *.
  inv_guard Hstep. split_G G. destruct G as [[Gc Gt] Gcfg].
  destruct (run_init_fields _ _ _ H1 Gc) as (_ & _ & _ & Ht). cbn [fst] in *.
  split; congruence.
Qed.

Lemma step_must_logout s e s' :
  (snd s = true /\ m_session (fst s) = true) ->
  smon_step cfg s e = Some s' -> is_logout e = false ->
  negb (is_cmd e) && negb (is_callback e) && negb (is_reset e) && negb (is_close e) = true
  /\ (snd s' = true /\ m_session (fst s') = true).
Proof.
  intros [Hm Hs] H Hp. inv_step H. destruct s as [m ml], s' as [m' ml']. cbn [fst snd] in *. subst ml.
  destruct e; cbn in Hp; try discriminate; cbn in Hbad; rewrite ?orb_true_r in Hbad; try discriminate;
    try (inv_guard Hstep; subst m'; split_G G); cbn in *; rewrite ?Hs; repeat split;
    try assumption; try (exfalso; decompose [and] G; congruence).
  - destruct ok; [rewrite Hml; exact Hs|exact Hml].
  - destruct ok; cbn; first [reflexivity|assumption].
  - cbn in Hstep. inversion Hstep; subst. exact Hs.
Qed.

Lemma accepted_C10_logout_after_starttls tr : accepted tr -> C10_logout_after_starttls tr.
Proof.
  intros Ha pre post Htr Hlive.
  destruct (accepted_split _ _ _ _ Ha Htr) as (s1 & s2 & s' & H1 & H2 & H3).
  eapply (until_inv (fun s => snd s = true /\ m_session (fst s) = true));
    [apply step_must_logout| |exact H3].
  inv_step H2. destruct s1 as [m ml], s2 as [m' ml']. cbn [fst snd] in *.
  inv_guard Hstep. subst m'. split_G G. destruct G as [[Gc _] _].
  destruct (run_init_fields _ _ _ H1 Gc) as (Hs & _). cbn [fst] in *.
  cbn. rewrite Hml. cbn. split; congruence.
Qed.

(* ---------- C19: no recovered panic without a backend panic ---------- *)

(* a panic is recovered only if, while the current command was being
   handled, a backend delivery panicked *)
Definition C19_panic_only_from_backend (tr : list event) : Prop :=
  forall pre post, tr = pre ++ EPanic :: post -> existsb is_panicking (since is_cmd pre) = true.

Lemma run_panic_ok l : forall s s',
  smon_run cfg s l = Some s' -> m_panic_ok (fst s') = true ->
  scan is_cmd is_panicking (m_panic_ok (fst s)) l = true.
Proof.
  induction l as [|e l IH] using rev_ind; intros s s' H Hp.
  - cbn in H. inversion H; subst. exact Hp.
  - apply run_snoc in H as (s1 & H1 & H2). unfold scan in *. rewrite fold_left_app. cbn.
    specialize (IH _ _ H1). unfold scan_step.
    inv_step H2. destruct s1 as [m1 ml1], s' as [m' ml']. cbn [fst snd] in *.
    destruct e; try (inv_guard Hstep; subst m'); cbn in *; try discriminate; try (apply IH, Hp).
    + rewrite Hp. reflexivity.
    + destruct panic; [reflexivity|]. rewrite orb_false_r in Hp. apply IH, Hp.
    + destruct ok; cbn in Hp; apply IH, Hp.
    + inversion Hstep; subst. apply IH, Hp.
Qed.

Lemma accepted_C19_panic_only_from_backend tr : accepted tr -> C19_panic_only_from_backend tr.
Proof.
  intros Ha pre post Htr.
  destruct (accepted_split _ _ _ _ Ha Htr) as (s1 & s2 & s' & H1 & H2 & _).
  inv_step H2. destruct s1 as [m ml], s2 as [m' ml']. cbn [fst snd] in *.
  inv_guard Hstep. rewrite <- scan_since.
  exact (run_panic_ok _ _ _ H1 G).
Qed.

Definition C19_no_panic (tr : list event) : Prop := ~ In EPanic tr.

Lemma C19_no_panic_from tr :
  C19_panic_only_from_backend tr -> (forall e, In e tr -> is_panicking e = false) -> C19_no_panic tr.
Proof.
  intros H Hn Hin. apply in_split in Hin as (pre & post & Htr).
  specialize (H _ _ Htr). apply existsb_exists in H as (x & Hx & Hp).
  rewrite Hn in Hp; [discriminate|]. rewrite Htr. apply in_or_app. left.
  unfold since in Hx. apply in_rev in Hx. unfold until in Hx.
  assert (Hsub : forall (q : event -> bool) l y, In y (take_while q l) -> In y l).
  { intros q l. induction l as [|z l IH]; cbn; [tauto|]. destruct (q z); cbn; [|tauto].
    intros y [Hy|Hy]; [left; exact Hy|right; apply IH, Hy]. }
  apply Hsub in Hx. apply in_rev. exact Hx.
Qed.

End Mon.

(* ---------- complete traces ---------- *)

Lemma in_post_of_last {A} (tr tr' pre post : list A) (x e : A) :
  tr = tr' ++ [x] -> tr = pre ++ e :: post -> e <> x -> In x post.
Proof.
  intros H1 H2 Hne. destruct (exists_last (l := post)) as (post' & y & Hp) || idtac.
  - intros ->. rewrite H1 in H2. change (pre ++ [e]) with (pre ++ [e]) in H2.
    apply app_inj_tail in H2 as [_ H]. congruence.
  - subst post. rewrite H1 in H2. change (e :: post' ++ [y]) with ((e :: post') ++ [y]) in H2.
    rewrite app_assoc in H2. apply app_inj_tail in H2 as [_ H]. subst y.
    apply in_or_app. right. left. reflexivity.
Qed.

(* on a trace that reaches the closing of the connection, the end of the
   transaction is signalled after every DATA outcome *)
Definition C03_end_signalled_complete (tr : list event) : Prop :=
  forall pre g t r p post, tr = pre ++ EData g t r p :: post ->
    exists mid e rest, post = mid ++ e :: rest /\ is_tx_end e = true
                       /\ Forall (fun e => quiet e = true) mid.

Lemma C03_end_signalled_complete_from tr tr' :
  C03_end_signalled tr -> tr = tr' ++ [EClose] -> C03_end_signalled_complete tr.
Proof.
  intros H Hend pre g t r p post Htr. specialize (H _ _ _ _ _ _ Htr).
  destruct (until_split is_tx_end post) as [Hu|(x & rest & Hu & Hx)].
  - exfalso. rewrite <- Hu in H. rewrite Forall_forall in H.
    assert (Hin : In EClose post) by (eapply in_post_of_last; [exact Hend|exact Htr|discriminate]).
    specialize (H _ Hin). discriminate.
  - exists (until is_tx_end post), x, rest. repeat split; assumption.
Qed.

(* ---------- every trace of the server model ---------- *)

Section Serve.
Variables (fuel : nat) (cfg : config) (be : backend) (phases : list (list raw)).
Local Notation tr := (serve fuel cfg be phases).

Lemma serve_is_accepted : accepted cfg tr.
Proof. apply serve_accepted_strict. Qed.

Theorem serve_C03_order : C03_order cfg tr.
Proof. apply accepted_C03_order, serve_is_accepted. Qed.

Theorem serve_C03_end_signalled : C03_end_signalled tr.
Proof. apply (accepted_C03_end_signalled cfg), serve_is_accepted. Qed.

Theorem serve_C03_end_signalled_complete : ~ In EOutOfFuel tr -> C03_end_signalled_complete tr.
Proof.
  intros Hf. destruct (serve_ends_with_close _ _ _ _ Hf) as [tr' Hend].
  eapply C03_end_signalled_complete_from; [apply serve_C03_end_signalled|exact Hend].
Qed.

Theorem serve_C08_live_until_logout : C08_live_until_logout tr.
Proof. apply (accepted_C08_live_until_logout cfg), serve_is_accepted. Qed.

Theorem serve_C08_nothing_after_logout : C08_nothing_after_logout tr.
Proof. apply (accepted_C08_nothing_after_logout cfg), serve_is_accepted. Qed.

Theorem serve_C08_nothing_after_close : C08_nothing_after_close tr.
Proof. apply (accepted_C08_nothing_after_close cfg), serve_is_accepted. Qed.

Theorem serve_C08_closed_logged_out : C08_closed_logged_out tr.
Proof. apply (accepted_C08_closed_logged_out cfg), serve_is_accepted. Qed.

(* with enough fuel the trace ends with Close, and then every session that
   was created has been logged out exactly once *)
Theorem serve_C08_exactly_one_logout :
  ~ In EOutOfFuel tr ->
  forall pre h t post, tr = pre ++ ENewSession h t BNil :: post ->
    exists mid rest,
      post = mid ++ ELogout :: rest
      /\ Forall (fun e => negb (is_logout e) && negb (is_ns e) && negb (is_close e) = true) mid
      /\ Forall (fun e => negb (is_session_event e) = true) (until is_ns_ok rest).
Proof.
  intros Hf pre h t post Htr. destruct (serve_ends_with_close _ _ _ _ Hf) as [tr' Hend].
  apply (C08_exactly_one_from tr serve_C08_live_until_logout serve_C08_nothing_after_logout _ _ _ _ Htr).
  eapply in_post_of_last; [exact Hend|exact Htr|discriminate].
Qed.

Theorem serve_C09_auth_guarded : C09_auth_guarded cfg tr.
Proof. apply accepted_C09_auth_guarded, serve_is_accepted. Qed.

Theorem serve_C09_at_most_once : C09_at_most_once tr.
Proof. apply (accepted_C09_at_most_once cfg), serve_is_accepted. Qed.

Theorem serve_C10_starttls_guarded : C10_starttls_guarded cfg tr.
Proof. apply accepted_C10_starttls_guarded, serve_is_accepted. Qed.

Theorem serve_C10_logout_after_starttls : C10_logout_after_starttls tr.
Proof. apply (accepted_C10_logout_after_starttls cfg), serve_is_accepted. Qed.

Theorem serve_C19_panic_only_from_backend : C19_panic_only_from_backend tr.
Proof. apply (accepted_C19_panic_only_from_backend cfg), serve_is_accepted. Qed.

End Serve.
