(* conn.go: writeResponse / writeError / dataErrorToStatus and the error
   values a backend can return. *)
From Smtp Require Import Bytes Transport DataReader.
Local Open Scope char_scope.

Definition ecode := (Z * Z * Z)%type.
Definition no_ec : ecode := (-1, -1, -1)%Z.      (* NoEnhancedCode *)
Definition ec_not_set : ecode := (0, 0, 0)%Z.    (* EnhancedCodeNotSet *)

Definition ec_eqb (a b : ecode) : bool :=
  let '(a1, a2, a3) := a in let '(b1, b2, b3) := b in
  (a1 =? b1)%Z && (a2 =? b2)%Z && (a3 =? b3)%Z.

(* an error value: nil, *SMTPError, or any other error with its Error() text *)
Inductive berr := BNil | BSmtp (code : Z) (ec : ecode) (msg : bytes) | BPlain (msg : bytes).

(* fmt %d / %v of an int *)
Definition dec_of_Z (z : Z) : bytes :=
  if (z <? 0)%Z then "-" :: dec_of_N (Z.to_N (- z)) else dec_of_N (Z.to_N z).

Definition default_ec (code : Z) (ec : ecode) : ecode :=
  if ec_eqb ec ec_not_set then
    let cat := (code / 100)%Z in
    if (cat =? 2)%Z || (cat =? 4)%Z || (cat =? 5)%Z then (cat, 0, 0)%Z else no_ec
  else ec.

Definition ec_text (ec : ecode) : bytes :=
  let '(a, b, c) := ec in dec_of_Z a ++ "." :: dec_of_Z b ++ "." :: dec_of_Z c.

(* the lines writeResponse prints (without CRLF), texts already split at LF *)
Fixpoint reply_lines (code : Z) (ec : ecode) (texts : list bytes) : list bytes :=
  match texts with
  | [] => []
  | [t] =>
      [if ec_eqb ec no_ec then dec_of_Z code ++ " " :: t
       else dec_of_Z code ++ " " :: ec_text ec ++ " " :: t]
  | t :: r =>
      (if ec_eqb ec no_ec then dec_of_Z code ++ "-" :: t
       else dec_of_Z code ++ "-" :: ec_text ec ++ " " :: t) :: reply_lines code ec r
  end.

(* writeResponse(code, enhCode, text...): the octets written *)
Definition write_response (code : Z) (ec : ecode) (texts : list bytes) : bytes :=
  let ec' := default_ec code ec in
  let lines := split_byte LF (join [LF] texts) in
  flat_map (fun l => l ++ crlf) (reply_lines code ec' lines).

(* writeError(code, enhCode, err) *)
Definition write_error (code : Z) (ec : ecode) (e : berr) : bytes :=
  match e with
  | BSmtp c e m => write_response c e [m]
  | BPlain m => write_response code ec [m]
  | BNil => []   (* not called with nil *)
  end.

(* dataErrorToStatus *)
Definition data_error_to_status (e : berr) : Z * ecode * bytes :=
  match e with
  | BNil => (250, (2, 0, 0), bs "OK: queued")%Z
  | BSmtp c ec m => (c, ec, m)
  | BPlain m => (554, (5, 0, 0), bs "Error: transaction failed: " ++ m)%Z
  end.

(* the Go error values behind the reader results *)
Definition err_data_too_large : berr :=
  BSmtp 552 (5, 3, 4)%Z (bs "Maximum message size exceeded").
Definition err_panic : berr := BSmtp 421 (4, 0, 0)%Z (bs "Internal server error").

Definition terr_text (e : terr) : bytes :=
  match e with
  | TEof => bs "EOF"
  | TTooLong => bs "smtp: too long a line in input stream"
  | TTimeout => bs "verif: i/o timeout"
  | TNetErr => bs "verif: connection reset"
  | TClosed => bs "use of closed network connection"
  end.

Definition berr_of_rerr (e : rerr) : berr :=
  match e with
  | REOF => BPlain (bs "EOF")
  | RUnexpectedEOF => BPlain (bs "unexpected EOF")
  | RTooLarge => err_data_too_large
  | RTransport e => BPlain (terr_text e)
  | RDataReset => BPlain (bs "smtp: message transmission aborted")
  | RClosedPipe => BPlain (bs "io: read/write on closed pipe")
  end.
