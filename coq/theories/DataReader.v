(* data.go: dataReader.Read, and a backend that reads from it. *)
From Smtp Require Import Bytes Transport.

Inductive dstate := SBeginLine | SDot | SDotCR | SCR | SData | SEOF.

Definition dstate_eqb (a b : dstate) : bool :=
  match a, b with
  | SBeginLine, SBeginLine | SDot, SDot | SDotCR, SDotCR
  | SCR, SCR | SData, SData | SEOF, SEOF => true
  | _, _ => false
  end.

(* error values a reader handed to the backend can return *)
Inductive rerr :=
| REOF             (* io.EOF: the message is complete *)
| RUnexpectedEOF   (* io.ErrUnexpectedEOF *)
| RTooLarge        (* ErrDataTooLarge *)
| RTransport (e : terr)   (* any other read error, passed through *)
| RDataReset       (* ErrDataReset (BDAT pipe) *)
| RClosedPipe.     (* io.ErrClosedPipe (BDAT pipe) *)

Definition rerr_of_terr (e : terr) : rerr :=
  match e with TEof => RUnexpectedEOF | _ => RTransport e end.

(* one iteration of the switch in dataReader.Read on octet c *)
Inductive dstep :=
| DSkip (s : dstate)                   (* continue: c withheld *)
| DEmit (s : dstate) (c : ascii)       (* b[n] = c; n++ *)
| DEmitUnread (s : dstate) (c : ascii). (* UnreadByte, then emit c *)

Definition dr_step (s : dstate) (c : ascii) : dstep :=
  match s with
  | SBeginLine =>
      if Ascii.eqb c DOT then DSkip SDot
      else if Ascii.eqb c CR then DEmit SCR c
      else DEmit SData c
  | SDot =>
      if Ascii.eqb c CR then DSkip SDotCR else DEmit SData c
  | SDotCR =>
      if Ascii.eqb c LF then DSkip SEOF else DEmitUnread SData CR
  | SCR =>
      if Ascii.eqb c LF then DEmit SBeginLine c
      else if Ascii.eqb c CR then DEmit SCR c
      else DEmit SData c
  | SData =>
      if Ascii.eqb c CR then DEmit SCR c else DEmit SData c
  | SEOF => DSkip SEOF (* not reached: the loop stops in SEOF *)
  end.

(* the for loop: [room] = len(b) - n *)
Fixpoint dr_loop (fuel : nat) (s : dstate) (t : transport) (room : nat)
  : bytes * option rerr * dstate * transport :=
  match fuel with
  | O => ([], Some (RTransport TNetErr), s, t)   (* out of fuel: excluded by dr_fuel_ok *)
  | S fuel' =>
      match room with
      | O => ([], None, s, t)
      | S room' =>
          if dstate_eqb s SEOF then ([], None, s, t)
          else match t_read_byte t with
               | (inr e, t') => ([], Some (rerr_of_terr e), s, t')
               | (inl c, t') =>
                   match dr_step s c with
                   | DSkip s' => dr_loop fuel' s' t' room
                   | DEmit s' x =>
                       let '(o, e, s2, t2) := dr_loop fuel' s' t' room' in (x :: o, e, s2, t2)
                   | DEmitUnread s' x =>
                       let '(o, e, s2, t2) := dr_loop fuel' s' (t_unread_byte c t') room' in
                       (x :: o, e, s2, t2)
                   end
               end
      end
  end.

(* octets the transport can still deliver (ignoring failures in between) *)
Fixpoint raws_avail (rs : list raw) : nat :=
  match rs with
  | [] => 0
  | RData c d :: r => S (List.length d) + raws_avail r
  | RFail _ :: r => raws_avail r
  end.
Definition t_avail (t : transport) : nat := List.length (t_buf t) + raws_avail (t_raw t).

Definition dr_fuel (t : transport) (room : nat) : nat := S (room + t_avail t).

(* "if err == nil && r.state == stateEOF { err = io.EOF }" *)
Definition eof_fix (e : option rerr) (s : dstate) : option rerr :=
  match e with
  | Some _ => e
  | None => if dstate_eqb s SEOF then Some REOF else None
  end.

Record dreader := mkDR { d_state : dstate; d_limited : bool; d_n : Z }.

Definition new_data_reader (max_bytes : Z) : dreader :=
  if (0 <? max_bytes)%Z then mkDR SBeginLine true max_bytes
  else mkDR SBeginLine false 0%Z.

(* dataReader.Read(b) with len(b) = lenb *)
Definition dr_read (d : dreader) (t : transport) (lenb : nat)
  : bytes * option rerr * dreader * transport :=
  if d_limited d then
    if (d_n d =? 0)%Z then
      (* budget used up: probe for the end marker with a one-octet buffer *)
      let '(o, e, s', t') := dr_loop (dr_fuel t 1) (d_state d) t 1 in
      match o with
      | [] => ([], eof_fix e s', mkDR s' true 0%Z, t')
      | _ :: _ => ([], Some RTooLarge, mkDR s' true (-1)%Z, t')
      end
    else if (d_n d <? 0)%Z then ([], Some RTooLarge, d, t)
    else
      let room := if (d_n d <? Z.of_nat lenb)%Z then Z.to_nat (d_n d) else lenb in
      let '(o, e, s', t') := dr_loop (dr_fuel t room) (d_state d) t room in
      (o, eof_fix e s', mkDR s' true (d_n d - Z.of_nat (List.length o))%Z, t')
  else
    let '(o, e, s', t') := dr_loop (dr_fuel t lenb) (d_state d) t lenb in
    (o, eof_fix e s', mkDR s' false (d_n d), t').

(* ---- a backend reading from the reader ----
   [sizes]: the buffer sizes of its successive Read calls (all > 0), used
   cyclically; [stop]: stop once at least that many octets have been read
   (None: read until the reader fails or reports EOF). *)

Definition next_size (sizes cur : list nat) : nat * list nat :=
  match cur with
  | x :: r => (x, r)
  | [] => match sizes with x :: r => (x, r) | [] => (1, []) end
  end.

Definition pos_size (n : nat) : nat := match n with O => 1 | _ => n end.

Fixpoint be_read (fuel : nat) (sizes cur : list nat) (stop : option N) (got : bytes)
                 (d : dreader) (t : transport)
  : bytes * option rerr * dreader * transport :=
  match fuel with
  | O => (got, Some (RTransport TNetErr), d, t)   (* out of fuel: excluded *)
  | S fuel' =>
      let enough := match stop with Some k => (k <=? blen got)%N | None => false end in
      if enough then (got, None, d, t)
      else
        let '(sz, cur') := next_size sizes cur in
        let '(o, e, d', t') := dr_read d t (pos_size sz) in
        match e with
        | Some _ => (got ++ o, e, d', t')
        | None => be_read fuel' sizes cur' stop (got ++ o) d' t'
        end
  end.

Definition be_fuel (t : transport) : nat := 4 + t_avail t.

(* everything the backend obtains from one Data(r) call:
   (octets, terminal result of the last Read or None if it stopped by itself) *)
Definition backend_reads (sizes : list nat) (stop : option N) (d : dreader) (t : transport) :=
  be_read (be_fuel t) sizes [] stop [] d t.

(* handleData's "r.limited = false; io.Copy(ioutil.Discard, r)" *)
Definition dr_drain (d : dreader) (t : transport) : option rerr * dreader * transport :=
  let d0 := mkDR (d_state d) false (d_n d) in
  let '(_, e, d', t') := be_read (be_fuel t) [4096] [] None [] d0 t in
  (e, d', t').
