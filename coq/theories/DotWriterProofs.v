(* The client's dot-writer (net/textproto) composed with the server's
   dot-unstuffing specification: whatever is written through the dot-writer,
   in whatever pieces, comes out of `unstuff` as one complete message, the
   normalised body, and the server resumes exactly behind the end marker. *)
From Smtp Require Import Bytes DotSpec DataProofs DotWriter.

(* ---------- small facts about octet constants ---------- *)

Lemma eqb_LF_CR : Ascii.eqb LF CR = false. Proof. reflexivity. Qed.
Lemma eqb_LF_DOT : Ascii.eqb LF DOT = false. Proof. reflexivity. Qed.
Lemma eqb_CR_DOT : Ascii.eqb CR DOT = false. Proof. reflexivity. Qed.
Lemma eqb_DOT_CR : Ascii.eqb DOT CR = false. Proof. reflexivity. Qed.
Lemma eqb_DOT_LF : Ascii.eqb DOT LF = false. Proof. reflexivity. Qed.

(* ---------- Write calls compose ---------- *)

Lemma dw_write_app w a b :
  dw_write w (a ++ b) =
  let '(w1, o1) := dw_write w a in
  let '(w2, o2) := dw_write w1 b in (w2, o1 ++ o2).
Proof.
  revert w; induction a as [|c a IH]; intros w.
  - cbn [app dw_write]. destruct (dw_write w b) as [w2 o2]. reflexivity.
  - cbn [app dw_write]. destruct (dw_step w c) as [w1 o1].
    rewrite IH. destruct (dw_write w1 a) as [w2 o2].
    destruct (dw_write w2 b) as [w3 o3]. rewrite app_assoc. reflexivity.
Qed.

Lemma dw_writes_concat parts : forall w, dw_writes w parts = dw_write w (List.concat parts).
Proof.
  induction parts as [|p r IH]; intros w.
  - reflexivity.
  - cbn [dw_writes List.concat]. rewrite dw_write_app.
    destruct (dw_write w p) as [w1 o1]. rewrite IH. reflexivity.
Qed.

(* the wire octets for a body written from state w and then closed *)
Definition wire (w : wstate) (s : bytes) : bytes :=
  snd (dw_write w s) ++ dw_close (fst (dw_write w s)).

Lemma dot_write_all_wire parts : dot_write_all parts = wire WBegin (List.concat parts).
Proof.
  unfold dot_write_all, wire. rewrite dw_writes_concat.
  destruct (dw_write WBegin (List.concat parts)) as [w o]. reflexivity.
Qed.

Theorem dot_write_partition_independent :
  forall parts, dot_write_all parts = dot_write_all [List.concat parts].
Proof.
  intros parts. rewrite !dot_write_all_wire. cbn [List.concat]. rewrite app_nil_r. reflexivity.
Qed.
Print Assumptions dot_write_partition_independent.

Lemma wire_nil w : wire w [] = dw_close w.
Proof. reflexivity. Qed.

Lemma wire_cons w c t :
  wire w (c :: t) = snd (dw_step w c) ++ wire (fst (dw_step w c)) t.
Proof.
  unfold wire. cbn [dw_write]. destruct (dw_step w c) as [w1 o1]. cbn [fst snd].
  destruct (dw_write w1 t) as [w2 o2]. cbn [fst snd]. rewrite app_assoc. reflexivity.
Qed.

(* ---------- the specification, read at the start of particular lines ---------- *)

Lemma is_marker_nondot c r : Ascii.eqb c DOT = false -> is_marker (c :: r) = None.
Proof.
  intros H. cbn [is_marker]. destruct r as [|a [|b r]]; try reflexivity.
  rewrite H. reflexivity.
Qed.

Lemma unstuff_marker tail : unstuff (DOT :: CR :: LF :: tail) = Complete [] tail.
Proof. rewrite unstuff_unfold. reflexivity. Qed.

Lemma unstuff_nondot c r : Ascii.eqb c DOT = false -> unstuff (c :: r) = mid (c :: r).
Proof.
  intros H. rewrite unstuff_unfold, is_marker_nondot by exact H.
  cbn [strip_dot]. rewrite H. reflexivity.
Qed.

Lemma unstuff_dotdot r : unstuff (DOT :: DOT :: r) = prepend [DOT] (mid r).
Proof.
  rewrite unstuff_unfold.
  assert (Hm : is_marker (DOT :: DOT :: r) = None) by (destruct r; reflexivity).
  rewrite Hm. cbn [strip_dot]. rewrite eqb_DOT_DOT, mid_cons, eqb_DOT_CR. reflexivity.
Qed.

Lemma midCR_LF r : midCR (LF :: r) = prepend [LF] (unstuff r).
Proof. cbn [midCR]. rewrite eqb_LF_LF. reflexivity. Qed.

Lemma midCR_nonLF c r : Ascii.eqb c LF = false -> midCR (c :: r) = mid (c :: r).
Proof. intros H. cbn [midCR]. rewrite H. reflexivity. Qed.

Lemma mid_CR r : mid (CR :: r) = prepend [CR] (midCR r).
Proof. rewrite mid_cons, eqb_CR_CR. reflexivity. Qed.

Lemma mid_CRLF r : mid (CR :: LF :: r) = prepend [CR; LF] (unstuff r).
Proof. rewrite mid_CR, midCR_LF, prepend_app. reflexivity. Qed.

Lemma mid_other c r : Ascii.eqb c CR = false -> mid (c :: r) = prepend [c] (mid r).
Proof. intros H. rewrite mid_cons, H. reflexivity. Qed.

(* ---------- writer states against reader-side specification states ---------- *)

(* WBegin / WBeginLine ~ at a line start, WCR ~ after a CR, WData ~ mid line *)
Definition spec_side (w : wstate) : bytes -> dres :=
  match w with
  | WBegin | WBeginLine => unstuff
  | WCR => midCR
  | WData => mid
  end.

(* what the reader delivers for the remaining body s written from state w
   (for ALL bodies; it coincides with `normalise` when every CR of the body
   is followed by LF, see norm_w_normalise) *)
Fixpoint norm_w (w : wstate) (s : bytes) : bytes :=
  match s with
  | [] =>
      match w with
      | WBegin | WData => crlf
      | WCR => [LF]
      | WBeginLine => []
      end
  | c :: t =>
      match w with
      | WCR =>
          if Ascii.eqb c LF then LF :: norm_w WBeginLine t else c :: norm_w WData t
      | _ =>
          if Ascii.eqb c LF then CR :: LF :: norm_w WBeginLine t
          else if Ascii.eqb c CR then CR :: norm_w WCR t
          else c :: norm_w WData t
      end
  end.

(* mid-line, the writer never starts its output with LF *)
Lemma wire_data_head t : exists x r, wire WData t = x :: r /\ Ascii.eqb x LF = false.
Proof.
  destruct t as [|c t].
  - exists CR, (LF :: dotcrnl). split; reflexivity.
  - rewrite wire_cons. unfold dw_step, dw_case_data.
    destruct (Ascii.eqb c LF) eqn:El.
    + cbn [fst snd app]. eexists _, _. split; reflexivity.
    + cbn [fst snd app]. eexists _, _. split; [reflexivity|exact El].
Qed.

Lemma midCR_wire_data t tail : midCR (wire WData t ++ tail) = mid (wire WData t ++ tail).
Proof.
  destruct (wire_data_head t) as (x & r & -> & Hx).
  cbn [app]. apply midCR_nonLF. exact Hx.
Qed.

(* the step from a line start and the step in mid line produce the same
   octets except for the stuffed dot *)
Lemma step_linestart c :
  dw_step WBegin c = dw_step WBeginLine c /\
  dw_step WBegin c =
    (fst (dw_step WData c), (if Ascii.eqb c DOT then [DOT] else []) ++ snd (dw_step WData c)).
Proof.
  cbn [dw_step]. destruct (dw_case_data WData c) as [w o]. split; reflexivity.
Qed.

Lemma roundtrip_w : forall s w tail,
  spec_side w (wire w s ++ tail) = prepend (norm_w w s) (Complete [] tail).
Proof.
  induction s as [|c t IH]; intros w tail.
  - rewrite wire_nil. destruct w; cbn [dw_close spec_side norm_w dotcrnl app].
    + rewrite unstuff_nondot by reflexivity. rewrite mid_CRLF, unstuff_marker. reflexivity.
    + rewrite unstuff_marker. reflexivity.
    + rewrite midCR_LF, unstuff_marker. reflexivity.
    + rewrite mid_CRLF, unstuff_marker. reflexivity.
  - pose proof (IH WBeginLine tail) as IHb. pose proof (IH WCR tail) as IHc.
    pose proof (IH WData tail) as IHd. cbn [spec_side] in IHb, IHc, IHd.
    assert (Hdata : mid (wire WData (c :: t) ++ tail)
                    = prepend (norm_w WData (c :: t)) (Complete [] tail)).
    { rewrite wire_cons. unfold dw_step, dw_case_data. cbn [norm_w].
      destruct (Ascii.eqb c LF) eqn:El.
      - beq. cbn [fst snd app]. rewrite mid_CRLF, IHb, prepend_app. reflexivity.
      - destruct (Ascii.eqb c CR) eqn:Ec.
        + beq. cbn [fst snd app]. rewrite mid_CR, IHc, prepend_app. reflexivity.
        + cbn [fst snd app]. rewrite mid_other by exact Ec.
          rewrite IHd, prepend_app. reflexivity. }
    assert (Hline : unstuff (wire WBegin (c :: t) ++ tail)
                    = prepend (norm_w WData (c :: t)) (Complete [] tail)).
    { rewrite <- Hdata. rewrite !wire_cons.
      destruct (step_linestart c) as [_ ->]. cbn [fst snd].
      destruct (Ascii.eqb c DOT) eqn:Ed.
      - beq. unfold dw_step, dw_case_data. rewrite eqb_DOT_LF, eqb_DOT_CR.
        cbn [fst snd app]. rewrite unstuff_dotdot, mid_other by reflexivity. reflexivity.
      - cbn [app]. unfold dw_step, dw_case_data.
        destruct (Ascii.eqb c LF) eqn:El.
        + cbn [fst snd app]. apply unstuff_nondot. reflexivity.
        + cbn [fst snd app]. apply unstuff_nondot. exact Ed. }
    destruct w; cbn [spec_side].
    + exact Hline.
    + replace (wire WBeginLine (c :: t)) with (wire WBegin (c :: t)).
      * exact Hline.
      * rewrite !wire_cons. destruct (step_linestart c) as [-> _]. reflexivity.
    + rewrite wire_cons. unfold dw_step. cbn [norm_w].
      destruct (Ascii.eqb c LF) eqn:El.
      * beq. cbn [fst snd app]. rewrite midCR_LF, IHb, prepend_app. reflexivity.
      * cbn [fst snd app]. rewrite midCR_nonLF by exact El. rewrite mid_cons.
        rewrite midCR_wire_data, IHd, prepend_app.
        destruct (Ascii.eqb c CR); reflexivity.
    + exact Hdata.
Qed.

(* ---------- the round trip for every body ---------- *)

(* what the backend receives for a body: defined for all bodies *)
Definition dw_received (body : bytes) : bytes := norm_w WBegin body.

(* no hypothesis on the body: the reader always finds exactly the writer's
   end marker, never an earlier look-alike, and resumes exactly at tail *)
Theorem dot_roundtrip_any : forall body tail,
  unstuff (dot_write_all [body] ++ tail) = Complete (dw_received body) tail.
Proof.
  intros body tail. rewrite dot_write_all_wire. cbn [List.concat]. rewrite app_nil_r.
  pose proof (roundtrip_w body WBegin tail) as H. cbn [spec_side] in H.
  rewrite H. cbn [prepend]. rewrite app_nil_r. reflexivity.
Qed.
Print Assumptions dot_roundtrip_any.

(* ---------- norm_w against the declarative normalise ---------- *)

Lemma ensure_peel x y u :
  bytes_eqb crlf (x :: y :: u) = false ->
  ensure_crlf (x :: y :: u) = x :: ensure_crlf (y :: u).
Proof.
  intros H. unfold ensure_crlf.
  change (ends_with crlf (x :: y :: u))
    with (bytes_eqb crlf (x :: y :: u) || ends_with crlf (y :: u)).
  rewrite H. cbn [orb].
  change (ends_with [CR] (x :: y :: u))
    with ((Ascii.eqb CR x && false) || ends_with [CR] (y :: u)).
  rewrite andb_false_r. cbn [orb].
  destruct (ends_with crlf (y :: u)); [reflexivity|].
  destruct (ends_with [CR] (y :: u)); reflexivity.
Qed.

Lemma ensure_peel_nonCR x y u :
  Ascii.eqb x CR = false -> ensure_crlf (x :: y :: u) = x :: ensure_crlf (y :: u).
Proof.
  intros H. apply ensure_peel. unfold crlf. cbn [bytes_eqb].
  rewrite Ascii.eqb_sym, H. reflexivity.
Qed.

Lemma ensure_peel_crlf y u :
  ensure_crlf (CR :: LF :: y :: u) = CR :: LF :: ensure_crlf (y :: u).
Proof.
  rewrite ensure_peel by reflexivity.
  rewrite ensure_peel_nonCR by reflexivity. reflexivity.
Qed.

Lemma ensure_single x : Ascii.eqb x CR = false -> ensure_crlf [x] = [x; CR; LF].
Proof.
  intros H. unfold ensure_crlf, crlf. cbn [ends_with bytes_eqb].
  rewrite (Ascii.eqb_sym CR x), H. reflexivity.
Qed.

(* the hypothesis, relative to the writer state *)
Definition ok (w : wstate) (s : bytes) : bool :=
  match w with
  | WCR => match s with
           | d :: _ => Ascii.eqb d LF && cr_only_in_crlf s
           | [] => false
           end
  | _ => cr_only_in_crlf s
  end.

Lemma cr_only_cons_CR t : cr_only_in_crlf (CR :: t) = ok WCR t.
Proof. cbn [cr_only_in_crlf ok]. rewrite eqb_CR_CR. reflexivity. Qed.

Lemma cr_only_cons_other c t :
  Ascii.eqb c CR = false -> cr_only_in_crlf (c :: t) = cr_only_in_crlf t.
Proof. intros H. cbn [cr_only_in_crlf]. rewrite H. reflexivity. Qed.

Lemma norm_equiv : forall s w, ok w s = true ->
  match w with
  | WBegin => ensure_crlf (fix_lf false s) = norm_w WBegin s
  | WBeginLine => ensure_crlf (CR :: LF :: fix_lf false s) = CR :: LF :: norm_w WBeginLine s
  | WCR => ensure_crlf (CR :: fix_lf true s) = CR :: norm_w WCR s
  | WData => forall x, Ascii.eqb x CR = false ->
                       ensure_crlf (x :: fix_lf false s) = x :: norm_w WData s
  end.
Proof.
  induction s as [|c t IH]; intros w Hok.
  - destruct w; cbn [ok] in Hok; cbn [fix_lf norm_w]; try reflexivity; try discriminate.
    intros x Hx. apply ensure_single. exact Hx.
  - (* the three continuations, from the hypothesis on c :: t in a state
       other than WCR *)
    assert (Hcont : cr_only_in_crlf (c :: t) = true ->
              (Ascii.eqb c LF = true -> ok WBeginLine t = true) /\
              (Ascii.eqb c CR = true -> ok WCR t = true) /\
              (Ascii.eqb c CR = false -> ok WData t = true)).
    { intros H. split; [|split]; intros Hc.
      - beq. rewrite cr_only_cons_other in H by reflexivity. exact H.
      - beq. rewrite cr_only_cons_CR in H. exact H.
      - rewrite cr_only_cons_other in H by exact Hc. exact H. }
    destruct w; cbn [ok] in Hok.
    + (* WBegin *)
      destruct (Hcont Hok) as (Hb & Hc & Hd). cbn [fix_lf norm_w].
      destruct (Ascii.eqb c LF) eqn:El.
      * cbn [app]. exact (IH WBeginLine (Hb eq_refl)).
      * destruct (Ascii.eqb c CR) eqn:Ec.
        -- beq. exact (IH WCR (Hc eq_refl)).
        -- exact (IH WData (Hd eq_refl) c Ec).
    + (* WBeginLine *)
      destruct (Hcont Hok) as (Hb & Hc & Hd). cbn [fix_lf norm_w].
      destruct (Ascii.eqb c LF) eqn:El.
      * cbn [app]. rewrite ensure_peel_crlf. rewrite (IH WBeginLine (Hb eq_refl)). reflexivity.
      * destruct (Ascii.eqb c CR) eqn:Ec.
        -- beq. rewrite ensure_peel_crlf. rewrite (IH WCR (Hc eq_refl)). reflexivity.
        -- rewrite ensure_peel_crlf. rewrite (IH WData (Hd eq_refl) c Ec). reflexivity.
    + (* WCR: the next octet is LF *)
      apply andb_true_iff in Hok as [Hl Hrest]. beq.
      destruct (Hcont Hrest) as (Hb & _ & _). cbn [fix_lf norm_w].
      rewrite eqb_LF_LF. cbn [app]. exact (IH WBeginLine (Hb eq_refl)).
    + (* WData *)
      destruct (Hcont Hok) as (Hb & Hc & Hd). intros x Hx. cbn [fix_lf norm_w].
      destruct (Ascii.eqb c LF) eqn:El.
      * cbn [app]. rewrite ensure_peel_nonCR by exact Hx.
        rewrite (IH WBeginLine (Hb eq_refl)). reflexivity.
      * destruct (Ascii.eqb c CR) eqn:Ec.
        -- beq. rewrite ensure_peel_nonCR by exact Hx.
           rewrite (IH WCR (Hc eq_refl)). reflexivity.
        -- rewrite ensure_peel_nonCR by exact Hx.
           rewrite (IH WData (Hd eq_refl) c Ec). reflexivity.
Qed.

Lemma norm_w_normalise body :
  cr_only_in_crlf body = true -> dw_received body = normalise body.
Proof.
  intros H. symmetry. exact (norm_equiv body WBegin H).
Qed.

(* ---------- the requested statements ---------- *)

Theorem dot_roundtrip : forall body tail, cr_only_in_crlf body = true ->
  unstuff (dot_write_all [body] ++ tail) = Complete (normalise body) tail.
Proof.
  intros body tail H. rewrite dot_roundtrip_any, norm_w_normalise by exact H. reflexivity.
Qed.
Print Assumptions dot_roundtrip.

Corollary dot_roundtrip_parts : forall parts tail, cr_only_in_crlf (List.concat parts) = true ->
  unstuff (dot_write_all parts ++ tail) = Complete (normalise (List.concat parts)) tail.
Proof.
  intros parts tail H. rewrite dot_write_partition_independent.
  apply dot_roundtrip. exact H.
Qed.
Print Assumptions dot_roundtrip_parts.

(* without the hypothesis the reader still stops exactly at the writer's end
   marker, whatever the body and however it is split into Write calls *)
Corollary dot_roundtrip_parts_any : forall parts tail,
  unstuff (dot_write_all parts ++ tail) = Complete (dw_received (List.concat parts)) tail.
Proof.
  intros parts tail. rewrite dot_write_partition_independent. apply dot_roundtrip_any.
Qed.
Print Assumptions dot_roundtrip_parts_any.

(* ---------- a body that is already in wire form arrives unchanged ---------- *)

(* every LF is preceded by CR (prevCR: the previous octet was a CR) *)
Fixpoint lf_only_in_crlf (prevCR : bool) (s : bytes) : bool :=
  match s with
  | [] => true
  | c :: t => (if Ascii.eqb c LF then prevCR else true) && lf_only_in_crlf (Ascii.eqb c CR) t
  end.

Lemma fix_lf_id : forall s p, lf_only_in_crlf p s = true -> fix_lf p s = s.
Proof.
  induction s as [|c t IH]; intros p H; [reflexivity|].
  cbn [lf_only_in_crlf] in H. apply andb_true_iff in H as [H1 H2]. cbn [fix_lf].
  destruct (Ascii.eqb c LF) eqn:El.
  - subst p. beq. rewrite eqb_LF_CR in H2. rewrite (IH false H2). reflexivity.
  - rewrite (IH _ H2). reflexivity.
Qed.

Lemma normalise_canonical body :
  lf_only_in_crlf false body = true -> ends_with crlf body = true -> normalise body = body.
Proof.
  intros H1 H2. unfold normalise. rewrite fix_lf_id by exact H1.
  unfold ensure_crlf. rewrite H2. reflexivity.
Qed.

Corollary dot_roundtrip_exact : forall body tail,
  cr_only_in_crlf body = true -> lf_only_in_crlf false body = true ->
  ends_with crlf body = true ->
  unstuff (dot_write_all [body] ++ tail) = Complete body tail.
Proof.
  intros body tail H1 H2 H3. rewrite dot_roundtrip by exact H1.
  rewrite normalise_canonical by assumption. reflexivity.
Qed.
Print Assumptions dot_roundtrip_exact.

(* ---------- tests and non-vacuity ---------- *)

Definition dres_eqb (a b : dres) : bool :=
  match a, b with
  | Complete x y, Complete x' y' => bytes_eqb x x' && bytes_eqb y y'
  | Incomplete x, Incomplete x' => bytes_eqb x x'
  | _, _ => false
  end.

(* all ways of cutting s into two Write calls *)
Fixpoint splits (s : bytes) : list (bytes * bytes) :=
  ([], s) :: match s with
             | [] => []
             | c :: t => map (fun p => (c :: fst p, snd p)) (splits t)
             end.

Definition t_bodies : list bytes :=
  [ []; [DOT]; [DOT; DOT]; bs "a"; bs "a" ++ [LF]; bs "a" ++ crlf; DOT :: crlf;
    crlf ++ DOT :: crlf; bs "a" ++ LF :: DOT :: LF :: bs "b";
    bs "a" ++ crlf ++ DOT :: crlf ++ bs "b" ++ crlf; [LF]; bs "x" ++ crlf ++ crlf;
    LF :: DOT :: [LF]; DOT :: LF :: DOT :: DOT :: LF :: [DOT] ].

Definition t_tails : list bytes :=
  [ []; bs "QUIT" ++ crlf; DOT :: crlf; [LF]; crlf ++ DOT :: crlf ].

Definition t_check (b tail : bytes) : bool :=
  cr_only_in_crlf b &&
  dres_eqb (unstuff (dot_write_all [b] ++ tail)) (Complete (normalise b) tail) &&
  forallb (fun p => bytes_eqb (dot_write_all [fst p; snd p]) (dot_write_all [b])) (splits b).

Example tests_ok :
  forallb (fun b => forallb (t_check b) t_tails) t_bodies = true.
Proof. vm_compute. reflexivity. Qed.

Example wire_examples :
  dot_write_all [[]] = crlf ++ dotcrnl /\
  dot_write_all [] = crlf ++ dotcrnl /\
  dot_write_all [[DOT]] = DOT :: DOT :: crlf ++ dotcrnl /\
  dot_write_all [bs "a" ++ [CR]] = bs "a" ++ crlf ++ dotcrnl /\
  dot_write_all [bs "a" ++ [LF]] = bs "a" ++ crlf ++ dotcrnl /\
  normalise [] = crlf /\
  normalise (bs "a" ++ [CR]) = bs "a" ++ crlf /\
  normalise (LF :: DOT :: [LF]) = crlf ++ DOT :: crlf.
Proof. vm_compute. repeat split. Qed.

(* non-vacuity: a body with the end-of-data look-alike CRLF.CRLF inside.
   Sent raw it would be cut there; through the dot-writer it arrives whole
   and the server resumes at the next command. *)
Definition nv_body : bytes := bs "a" ++ crlf ++ DOT :: crlf ++ bs "b" ++ crlf.
Definition nv_tail : bytes := bs "QUIT" ++ crlf.

Example dot_roundtrip_nonvacuous :
  cr_only_in_crlf nv_body = true /\
  unstuff (nv_body ++ dotcrnl ++ nv_tail)
    = Complete (bs "a" ++ crlf) (bs "b" ++ crlf ++ dotcrnl ++ nv_tail) /\
  dot_write_all [nv_body] = bs "a" ++ crlf ++ DOT :: DOT :: crlf ++ bs "b" ++ crlf ++ dotcrnl /\
  normalise nv_body = nv_body /\
  unstuff (dot_write_all [nv_body] ++ nv_tail) = Complete nv_body nv_tail /\
  unstuff (dot_write_all [bs "a" ++ crlf ++ [DOT]; crlf ++ bs "b" ++ crlf] ++ nv_tail)
    = Complete nv_body nv_tail.
Proof. vm_compute. repeat split. Qed.

(* the same instance obtained from the theorem rather than by computation *)
Example dot_roundtrip_nonvacuous' :
  unstuff (dot_write_all [nv_body] ++ nv_tail) = Complete (normalise nv_body) nv_tail.
Proof. apply dot_roundtrip. vm_compute. reflexivity. Qed.

(* outside the hypothesis: a CR followed by CR LF.  The writer leaves state
   wstateCR on the second CR for wstateData, so the LF gets one more CR; the
   backend receives CR CR CR LF where `normalise` says CR CR LF.  The message
   is still delimited correctly (dot_roundtrip_any). *)
Example hypothesis_needed :
  let body := [CR; CR; LF] in
  cr_only_in_crlf body = false /\
  normalise body = [CR; CR; LF] /\
  unstuff (dot_write_all [body]) = Complete [CR; CR; CR; LF] [].
Proof. vm_compute. repeat split. Qed.
