(* C18 - the LMTP client reports each recipient's own status, transaction
   after transaction.

   Model: Client.v (rcpts bookkeeping in Mail / Rcpt / Reset, LMTPData, the
   reply loop of dataCloser.Close), tied by the "cli" cases.

   Vocabulary (ClientProofs.v):
     txn            a transaction: sender, recipients each with the outcome of
                    its RCPT as the client reads it (CNil = accepted), the body
                    as a list of Write portions, the per-recipient verdicts
     accepted t     the recipients of t whose RCPT was answered positively
     txn_stream t s s'   HYPOTHESIS ON THE SERVER: from s the stream holds a
                    non-error reply to MAIL (read with expectCode 250), one
                    reply per RCPT (expectCode 25) with the stated outcome, a
                    non-error reply to DATA (354), then exactly one well-formed
                    reply per ACCEPTED recipient (serves250: read with 250,
                    yielding nil or an SMTPError), and then s'
     txns_stream    the concatenation for a list of transactions, followed by
                    an arbitrary rest (e.g. the next command's reply)
     txn_ok t       sender / recipient strings without CR / LF (validateLine),
                    one verdict per accepted recipient
     lmtp_ready c   LMTP client, hello done, connection working, no data
                    writer open
     run_txn cb     Mail; Rcpt for every recipient; LMTPData (cb: with status
                    callback); Write per portion; Close
     first_neg      the first negative verdict (nil if all are nil)
   The stream hypothesis is satisfied by what the go-smtp server emits:
   serves250_data_replies (replies rendered by writeResponse(dataErrorToStatus
   e) for each status of Lmtp.v), reads_rendered; Example ex18_hypotheses. *)
From Smtp Require Import Bytes Reply ClientReply Client ClientProofs ReplyProofs.

Theorem C18_callbacks : forall cb ts c rest,
  lmtp_ready c -> Forall txn_ok ts -> txns_stream ts (c_in c) rest ->
  exists c',
    run_txns cb c ts
    = (map (fun t => if cb then RNil else first_neg RNil (t_verdicts t)) ts, c')
    /\ c_cbs c' = c_cbs c ++ (if cb then flat_map (fun t => combine (accepted t) (t_verdicts t)) ts else [])
    /\ c_in c' = rest /\ lmtp_ready c'.
Proof. exact ClientProofs.C18_callbacks. Qed.

Theorem C18_no_callback : forall c t s' pre code ec msg post,
  lmtp_ready c -> txn_ok t -> txn_stream t (c_in c) s' ->
  t_verdicts t = pre ++ RSmtp code ec msg :: post -> Forall (fun v => v = RNil) pre ->
  fst (run_txn false c t) = RSmtp code ec msg.
Proof. exact ClientProofs.C18_no_callback. Qed.

Theorem C18_stream_hypothesis_satisfiable : forall statuses rest,
  Forall status_ok statuses ->
  serves250 (flat_map data_reply statuses ++ rest) (map verdict_of statuses) rest.
Proof. exact ClientProofs.serves250_data_replies. Qed.

Print Assumptions C18_callbacks.
Print Assumptions C18_no_callback.
Print Assumptions C18_stream_hypothesis_satisfiable.
