(* kind conv: one scripted conversation with the server *)
From Smtp Require Import Bytes Sx GoStrings Transport DataReader Parse Reply Rfc3339 Lmtp Conn Order OrderStrict CheckBase CheckOracle.

(* ---------- decoding ---------- *)

Definition dec_berr (x : sx) : option berr :=
  match x with
  | SA _ => if sx_is "nil" x then Some BNil else None
  | SL [t; c; e1; e2; e3; m] =>
      if sx_is "smtp" t then
        match sx_Z c, sx_Z e1, sx_Z e2, sx_Z e3, sx_bytes m with
        | Some c, Some e1, Some e2, Some e3, Some m => Some (BSmtp c (e1, e2, e3) m)
        | _, _, _, _, _ => None
        end
      else None
  | SL [t; m] => if sx_is "plain" t then option_map BPlain (sx_bytes m) else None
  | _ => None
  end.

Definition dec_list {A} (f : sx -> option A) (x : sx) : option (list A) :=
  match x with SL l => map_opt f l | _ => None end.

Definition dec_status (x : sx) : option (bytes * berr) :=
  match x with
  | SL [a; e] => match sx_bytes a, dec_berr e with Some a, Some e => Some (a, e) | _, _ => None end
  | _ => None
  end.

Definition dec_plan (x : sx) : option data_plan :=
  match x with
  | SL (t :: args) =>
      if sx_is "plan" t then
        match assoc1 "sizes" args, assoc1 "stop" args, assoc1 "ret" args,
              assoc1 "prop" args, assoc1 "panic" args, assoc1 "status" args with
        | Some sz, Some st, Some rt, Some pr, Some pa, Some ss =>
            match dec_list sx_nat sz, dec_berr rt, sx_bool pr, sx_bool pa, dec_list dec_status ss with
            | Some sz, Some rt, Some pr, Some pa, Some ss =>
                Some (mkDP sz (if sx_is "none" st then None else sx_N st) rt pr pa ss)
            | _, _, _, _, _ => None
            end
        | _, _, _, _, _, _ => None
        end
      else None
  | _ => None
  end.

Definition dec_step (x : sx) : option sasl_step :=
  match x with
  | SL [t; ch; d; e] =>
      if sx_is "step" t then
        match sx_bytes ch, sx_bool d, dec_berr e with
        | Some ch, Some d, Some e => Some (SaslStep ch d e)
        | _, _, _ => None
        end
      else None
  | _ => None
  end.

Definition dec_aplan (x : sx) : option auth_plan :=
  match x with
  | SL (t :: args) =>
      if sx_is "aplan" t then
        match assoc1 "start" args, assoc1 "steps" args with
        | Some s, Some st =>
            match dec_berr s, dec_list dec_step st with
            | Some s, Some st => Some (mkAP s st)
            | _, _ => None
            end
        | _, _ => None
        end
      else None
  | _ => None
  end.

Definition dec_backend (args : list sx) : option backend :=
  match assoc1 "ns" args, assoc1 "mail" args, assoc1 "rcpt" args, assoc1 "data" args, assoc1 "auth" args with
  | Some a, Some b, Some c, Some d, Some e =>
      match dec_list dec_berr a, dec_list dec_berr b, dec_list dec_berr c,
            dec_list dec_plan d, dec_list dec_aplan e with
      | Some a, Some b, Some c, Some d, Some e => Some (mkBE a b c d e)
      | _, _, _, _, _ => None
      end
  | _, _, _, _, _ => None
  end.

Definition dec_cfg (args : list sx) : option config :=
  let gb k := match assoc1 k args with Some x => sx_bool x | None => None end in
  let gn k := match assoc1 k args with Some x => sx_N x | None => None end in
  match gb "lmtp"%string, gb "tlscfg"%string, assoc1 "domain" args, gn "maxrcpt"%string,
        assoc1 "maxbytes" args, gn "maxline"%string, gb "insecure"%string with
  | Some lmtp, Some tlscfg, Some dom, Some maxrcpt, Some maxbytes, Some maxline, Some insecure =>
      match gb "utf8"%string, gb "requiretls"%string, gb "binarymime"%string, gb "dsn"%string,
            gb "rrvs"%string, gb "lmtpsession"%string, assoc1 "auth" args, gb "implicittls"%string with
      | Some utf8, Some rtls, Some bm, Some dsn, Some rrvs, Some ls, Some au, Some itls =>
          match sx_bytes dom, sx_Z maxbytes with
          | Some dom, Some maxbytes =>
              let auth := if sx_is "none" au then Some None
                          else option_map Some (dec_list sx_bytes au) in
              match auth with
              | Some auth =>
                  Some (mkCfg lmtp tlscfg dom maxrcpt maxbytes maxline insecure utf8 rtls bm dsn rrvs ls auth itls)
              | None => None
              end
          | _, _ => None
          end
      | _, _, _, _, _, _, _, _ => None
      end
  | _, _, _, _, _, _, _ => None
  end.

(* ---------- rendering of model events ---------- *)

Definition show_berr (e : berr) : sx :=
  match e with
  | BNil => XT "nil"
  | BSmtp c (e1, e2, e3) m => SL [XT "smtp"; XZ c; XZ e1; XZ e2; XZ e3; XB m]
  | BPlain m => SL [XT "plain"; XB m]
  end.

Definition show_optb (o : option bytes) : sx :=
  match o with None => XT "none" | Some b => SL [XT "some"; XB b] end.

Definition show_mo (o : mail_opts) : sx :=
  SL [XT "mo"; XB (mo_body o); XZ (mo_size o); XBool (mo_requiretls o); XBool (mo_utf8 o);
      XB (mo_ret o); XB (mo_envid o); show_optb (mo_auth o)].

Definition show_ro (o : rcpt_opts) : sx :=
  SL [XT "ro"; SL (map XB (ro_notify o)); XB (ro_orcpt_type o); XB (ro_orcpt o);
      match ro_rrvs o with
      | None => XT "none"
      | Some t => SL [XT "rrvs"; XZ (rt_unix t); XZ (rt_nsec t); XZ (rt_off t)]
      end].

(* compared events; None for ghost events *)
Definition show_event (e : event) : option sx :=
  match e with
  | EWire b => Some (SL [XT "w"; XB b])
  | ENewSession h t r => Some (SL [XT "ns"; XB h; XBool t; show_berr r])
  | EMail f o r => Some (SL [XT "mail"; XB f; show_mo o; show_berr r])
  | ERcpt t o r => Some (SL [XT "rcpt"; XB t; show_ro o; show_berr r])
  | EData g t r p => Some (SL [XT "data"; XB g; show_rerr t; show_berr r; XBool p])
  | EReset => Some (SL [XT "reset"])
  | ELogout => Some (SL [XT "logout"])
  | EAuth m r => Some (SL [XT "auth"; XB m; show_berr r])
  | EAuthNext rs ch d r => Some (SL [XT "authnext"; show_optb rs; XB ch; XBool d; show_berr r])
  | ECmd _ | EAuthOk | EBdatStart | EDelivery _ _ _ _ | EClose | EPanic | ETlsStart _ | EOutOfFuel => None
  end.

(* merge adjacent wire events *)
Fixpoint merge_wire (l : list event) : list event :=
  match l with
  | EWire a :: r =>
      match merge_wire r with
      | EWire b :: r' => EWire (a ++ b) :: r'
      | r' => EWire a :: r'
      end
  | e :: r => e :: merge_wire r
  | [] => []
  end.

Definition is_ghost (e : event) : bool :=
  match show_event e with None => true | Some _ => false end.

Definition visible (l : list event) : list event := filter (fun e => negb (is_ghost e)) l.

Fixpoint show_events (l : list event) : list sx :=
  match l with
  | [] => []
  | e :: r => match show_event e with Some x => x :: show_events r | None => show_events r end
  end.

Definition show_delivery (e : event) : option sx :=
  match e with
  | EDelivery g t r p => Some (SL [XT "del"; XB g; show_rerr t; show_berr r; XBool p])
  | _ => None
  end.

Fixpoint deliveries (l : list event) : list sx :=
  match l with
  | [] => []
  | e :: r => match show_delivery e with Some x => x :: deliveries r | None => deliveries r end
  end.

(* sort rendered terms as Go's sort.Strings does *)
Fixpoint insert_sx (x : sx) (l : list sx) : list sx :=
  match l with
  | [] => [x]
  | y :: r => if bytes_ltb (show_sx y) (show_sx x) then y :: insert_sx x r else x :: l
  end.
Definition sort_sx (l : list sx) : list sx := fold_right insert_sx [] l.

(* ---------- canonicalisation of reply text ---------- *)

(* a reply line echoing an unrecognised verb with non-ASCII octets: Go's
   Unicode case mapping of such octets is not modelled (see GoStrings.v) *)
Definition canon_line (l : bytes) : bytes :=
  if is_prefix (bs "500 5.5.2 Syntax errors, ") l && negb (all_ascii l)
  then bs "500 5.5.2 Syntax errors, ? command unrecognized" ++ (if is_suffix [CR] l then [CR] else [])
  else l.

Definition canon_wire (b : bytes) : bytes :=
  join [LF] (map canon_line (split_byte LF b)).

Definition canon_sx (x : sx) : sx :=
  match x with
  | SL [SA t; w] =>
      if bytes_eqb t (bs "w") then
        match sx_bytes w with
        | Some b => SL [SA t; XB (canon_wire b)]
        | None => x
        end
      else x
  | SL [SA t; m; r] =>
      (* the mechanism name is upper-cased with Go's Unicode tables: not modelled outside ASCII *)
      if bytes_eqb t (bs "auth") then
        match sx_bytes m with
        | Some b => if all_ascii b then x else SL [SA t; XT "non-ascii-mechanism"; r]
        | None => x
        end
      else x
  | _ => x
  end.

(* ---------- nondeterminism of parameter order (Go map iteration) ---------- *)

Definition count_faults_mail (cfg : config) (args : list (bytes * bytes)) : nat :=
  List.length (filter (fun '(k, v) => match mail_param cfg k v mo_zero false with inr _ => true | inl _ => false end) args).
Definition count_faults_rcpt (cfg : config) (args : list (bytes * bytes)) : nat :=
  List.length (filter (fun '(k, v) => match rcpt_param cfg k v ro_zero with inr _ => true | inl _ => false end) args).

Definition sets_binarymime (cfg : config) (args : list (bytes * bytes)) : bool :=
  existsb (fun '(k, v) => match mail_param cfg k v mo_zero false with inl (_, true) => true | _ => false end) args.

(* the reply (and the binarymime flag) of this command line depends on the
   order in which Go visits the parameter map *)
Definition line_nondet (cfg : config) (line : bytes) : bool :=
  match parse_cmd line with
  | Some (cmd, arg) =>
      if bytes_eqb (to_upper cmd) (bs "MAIL") then
        match cut_prefix_fold arg (bs "FROM:") with
        | Some a =>
            match parse_reverse_path (trim_space a) with
            | Some (_, rest) =>
                match parse_args rest with
                | Some args =>
                    let n := count_faults_mail cfg args in
                    (2 <=? n)%nat || ((1 <=? n)%nat && sets_binarymime cfg args)
                | None => false
                end
            | None => false
            end
        | None => false
        end
      else if bytes_eqb (to_upper cmd) (bs "RCPT") then
        match cut_prefix_fold arg (bs "TO:") with
        | Some a =>
            match parse_path (trim_space a) with
            | Some (_, rest) =>
                match parse_args rest with
                | Some args => (2 <=? count_faults_rcpt cfg args)%nat
                | None => false
                end
            | None => false
            end
        | None => false
        end
      else false
  | None => false
  end.

Definition trace_nondet (cfg : config) (evs : list event) : bool :=
  existsb (fun e => match e with ECmd l => line_nondet cfg l | _ => false end) evs.

(* ---------- the check ---------- *)

Definition raws_size (rs : list raw) : nat :=
  fold_left (fun n r => match r with RData _ d => n + 2 + List.length d | RFail _ => n + 1 end)%nat rs 0%nat.

Definition count_panics (cfg : config) (evs : list event) : nat :=
  List.length (filter (fun e =>
    match e with
    | EPanic => true
    | EDelivery _ _ _ p => p
    | EData _ _ _ p => p && cf_lmtp cfg && cf_lmtp_session cfg
    | _ => false
    end) evs).

Definition has_out_of_fuel (evs : list event) : bool :=
  existsb (fun e => match e with EOutOfFuel => true | _ => false end) evs.

Definition conv_obs (cfg : config) (evs : list event) : sx :=
  SL [XT "obs";
      SL [XT "events"; SL (map canon_sx (show_events (merge_wire (visible evs))))];
      SL [XT "deliveries"; SL (sort_sx (deliveries evs))];
      SL [XT "panics"; XN (N.of_nat (count_panics cfg evs))];
      SL [XT "waited"; XBool true];
      SL [XT "served"; XBool true]].

Definition canon_obs (obs : list sx) : sx :=
  SL (XT "obs" ::
      map (fun x => match x with
                    | SL [t; SL evs] => if sx_is "events" t then SL [t; SL (map canon_sx evs)] else x
                    | _ => x
                    end) obs).

(* tags describing what the conversation exercised *)
Definition reply_code_tag (b : bytes) : bytes := bs "reply-" ++ firstn 3 b.

Definition conv_tags (cfg : config) (evs : list event) : list bytes :=
  (if cf_lmtp cfg then [bs "lmtp"] else [bs "smtp"])
  ++ (if existsb (fun e => match e with EData _ _ _ _ => true | _ => false end) evs then [bs "data"] else [])
  ++ (if existsb (fun e => match e with EDelivery _ _ _ _ => true | _ => false end) evs then [bs "bdat"] else [])
  ++ (if existsb (fun e => match e with EAuth _ _ => true | _ => false end) evs then [bs "auth"] else [])
  ++ (if existsb (fun e => match e with ETlsStart _ => true | _ => false end) evs then [bs "starttls"] else [])
  ++ (if existsb (fun e => match e with EMail _ _ BNil => true | _ => false end) evs then [] else [bs "trivial"]).

Definition run_conv (cfg : config) (be : backend) (phases : list (list raw)) : list event :=
  let fuel := fold_left (fun n p => n + raws_size p + 4)%nat phases 16%nat in
  serve fuel cfg be phases.

(* the property oracles, evaluated on the implementation's recorded behaviour *)
Definition conv_oracle_x (nomodel : bool) (cfg : config) (be : backend) (obs expect : list sx) : list bytes :=
  match assoc1 "events" obs, assoc1 "deliveries" obs, assoc1 "panics" obs with
  | Some (SL evx), Some (SL delx), Some px =>
      match map_opt dec_event evx, map_opt dec_event delx, sx_N px with
      | Some evs, Some dels, Some panics =>
          let plan_panics := nomodel || existsb (fun p => dp_panic p || match dp_status p with [] => false | _ => true end) (be_data be) in
          dedup (oracle_sessions cfg evs ++ oracle_size cfg (evs ++ dels)
                 ++ oracle_verdict (cf_lmtp cfg) evs ++ oracle_incomplete (cf_lmtp cfg) evs
                 ++ oracle_panics panics plan_panics
                 ++ (if bytes_eqb (focus_of expect) (bs "C02") || bytes_eqb (focus_of expect) (bs "C05")
                     then oracle_bait evs else [])
                 ++ focus_oracle expect evs dels
                 ++ (match assoc1 "waited" obs with
                     | Some w => if sx_is "t" w then [] else [bs "C08"; bs "C20"]
                     | None => []
                     end)
                 (* the connection handler never finished: a command was left without its reply *)
                 ++ (match assoc1 "served" obs with
                     | Some w => if sx_is "t" w then []
                                 else [bs "C04"; bs "C20"]
                                      (* an LMTP handler that hangs once the message was handed over: the final
                                         response never comes (C13: "never deadlocks") *)
                                      ++ (if cf_lmtp cfg
                                             && existsb (fun e => match e with EData _ _ _ _ | EDelivery _ _ _ _ => true
                                                                  | _ => false end) (evs ++ dels)
                                          then [bs "C13"] else [])
                     | None => []
                     end))
      | _, _, _ => [bs "UNDECODABLE-OBSERVATION"]
      end
  | _, _, _ => [bs "UNDECODABLE-OBSERVATION"]
  end.

Definition conv_oracle := conv_oracle_x false.

Definition check_conv (args : list sx) : verdict :=
  match assoc "cfg" args, assoc "be" args, assoc1 "phases" args, assoc "obs" args with
  | Some cfga, Some bea, Some ph, Some obs =>
      match dec_cfg cfga, dec_backend bea, dec_list dec_raws ph with
      | Some cfg, Some be, Some phases =>
          let evs := run_conv cfg be phases in
          let model := conv_obs cfg evs in
          let agree := negb (has_out_of_fuel evs)
                       && (sx_eqb model (canon_obs obs) || trace_nondet cfg evs) in
          let mon_ok := match smon_run cfg (smon_init (cf_implicit_tls cfg)) evs with Some _ => true | None => false end in
          let expect := match assoc "expect" args with Some e => e | None => [] end in
          let texts_ok := forallb (fun e => match e with BSmtp _ _ m => forallb (fun c => text_octet_ok c || Ascii.eqb c LF) m
                                                       | BPlain m => forallb (fun c => text_octet_ok c || Ascii.eqb c LF) m
                                                       | BNil => true end)
                                  (be_ns be ++ be_mail be ++ be_rcpt be ++ map dp_ret (be_data be)
                                   ++ flat_map (fun p => map snd (dp_status p)) (be_data be)) in
          let '(syn_viol, syn_kf) :=
            match assoc1 "events" obs with
            | Some (SL evx) => match map_opt dec_event evx with
                               | Some oevs => oracle_syntax texts_ok oevs
                               | None => ([], [])
                               end
            | _ => ([], [])
            end in
          let f6 := f6_signature (cf_max_line cfg) phases in
          (* (nomodel): the backend panics in a callback the model has no script for (Mail, Rcpt, Reset);
             such cases are judged by the oracles on the recorded behaviour only *)
          let nomodel := match assoc "nomodel" expect with Some _ => true | None => false end in
          mkV true (nomodel || (agree && mon_ok)) model (dedup (conv_oracle_x nomodel cfg be obs expect ++ syn_viol))
              (syn_kf ++ (if f6 then [bs "F6"] else []))
              ((match assoc "expect" args with Some e => [bs "focus-" ++ focus_of e] | None => [] end) ++ conv_tags cfg evs ++ (if trace_nondet cfg evs then [bs "nondet-param-order"] else [])
               ++ (if mon_ok then [] else [bs "MODEL-TRACE-REJECTED-BY-MONITOR"])
               ++ (match assoc "srvclose-at" expect with Some _ => [bs "server-close-in-callback"] | None => [] end))
      | _, _, _ => bad_case
      end
  | _, _, _, _ => bad_case
  end.
