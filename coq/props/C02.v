(* C02 - only CRLF.CRLF ends DATA; commands resume exactly after it.
   Reader-level part, and (at the end) the server's handle_data.

   Specification side, about [unstuff] alone, for every octet string s:
   * C02_marker_first: if the data is complete, the stream is
     pre ++ ".CRLF" ++ rest where pre is empty or ends in CRLF (the marker
     stands at a line start), rest is exactly what [unstuff] leaves, and no
     shorter pre' of that shape exists - the data ends at the FIRST
     CRLF.CRLF and nowhere else;
   * C02_complete_iff / C02_lookalikes: a stream completes iff it starts with
     ".CRLF" or contains "CRLF.CRLF"; so a stream without those never ends
     the data; C02_no_cr_never_ends: in particular a stream without any CR;
   * C02_lookalike_*: for all CR/LF-free texts a, b (not starting with a dot)
     and every rest: a ++ LF.LF / LF.CRLF / CRLF.LF / CR.CR ++ b does not end
     the data; followed by a real CRLF.CRLF the data ends exactly there, with
     the look-alike's octets delivered as message content.

   Model side, about the DATA reader, for every size limit mx (0 or less =
   none, or any positive number), every transport state t (buffered octets +
   ANY schedule of future raw reads and failures) on which the line limiter
   stays quiet, every list of backend read-buffer sizes, and every stopping
   point of the backend (stop = None: reads until the reader stops it;
   Some k: stops by itself once it holds k octets - k = 0: reads nothing):
   * C02_reads_prefix: what the backend holds is a prefix of the specified
     body (within the limit), the backend stops by itself only when asked;
   * C02_drain_from_any_state: handleData's drain (limited := false;
     io.Copy(Discard, r)) from ANY reader state - any automaton state, budget
     exhausted (d_n = 0), after ErrDataTooLarge (d_n = -1), already at EOF -
     ends with io.EOF and the transport exactly behind the end marker if the
     rest of the stream completes the message, and otherwise with the
     schedule's failure after consuming the whole stream;
   * C02_resume: after backend + drain the transport's stream is exactly
     [rest] - the command stream resumes at the first octet after the end
     marker whether the backend read all, part or none of the message and
     whether or not the message exceeded the limit; the line limit and the
     schedule's final failure are untouched;
   * C02_resume_from: the same from any reader state whose remaining
     specification is Complete (used for LMTP's copies of the drain);
   * C02_incomplete: if the stream holds no complete message, the first
     failing Read (the backend's or the drain's) reports the schedule's
     failure, and by then all of the stream is consumed.

   Server side, about handle_data of the connection model (finding F30,
   repaired), for every configuration (SMTP, LMTP, LMTP with a per-recipient
   backend; any size limit), every connection state in which DATA is answered
   354, every backend plan and every network schedule:
   * C02_failed_drain_closes: if the drain that follows the backend's return
     ends with anything but io.EOF - the end marker has NOT been reached: the
     stream ended, a read failed and nothing complete followed, or the read
     deadline had expired (then every read fails until the command loop arms
     the deadline again) - the state handle_data returns is closed (flag and
     socket), its session logged out, and the command loop run on that state
     with ANY remaining input does nothing but the deferred Close: no octet
     of the rest of the message is ever read as a command (cf. C08
     "nothing after Close").
   * C02_drained_resumes: conversely, the drain reached the end marker and
     nothing panicked: the connection stays as open as it was and the next
     command is read from the transport the drain left, whose stream is
     exactly what follows the marker (C02_resume).
   * C02_cut_closes: the instance for an interrupted connection: no complete
     message in the stream and nothing behind the failure that ends it. *)
From Smtp Require Import Bytes Transport DataReader DotSpec TransportProofs DataProofs DataProofs2
  Reply Conn BdatProofs CloseProofs.

Theorem C02_marker_first s body rest :
  unstuff s = Complete body rest ->
  exists pre, s = pre ++ end_marker ++ rest /\ ends_crlf pre /\
    forall pre' x, s = pre' ++ end_marker ++ x -> ends_crlf pre' ->
                   List.length pre <= List.length pre'.
Proof. exact (unstuff_marker_first s body rest). Qed.
Print Assumptions C02_marker_first.

Theorem C02_complete_iff s :
  (exists body rest, unstuff s = Complete body rest) <->
  (exists pre x, s = pre ++ end_marker ++ x /\ ends_crlf pre).
Proof. exact (unstuff_complete_iff s). Qed.
Print Assumptions C02_complete_iff.

Theorem C02_lookalikes s :
  (forall x, s <> end_marker ++ x) ->
  (forall p x, s <> p ++ [CR; LF] ++ end_marker ++ x) ->
  exists body, unstuff s = Incomplete body.
Proof. exact (unstuff_lookalikes s). Qed.
Print Assumptions C02_lookalikes.

Theorem C02_no_cr_never_ends s :
  nocrb s = true -> exists body, unstuff s = Incomplete body.
Proof. exact (unstuff_nocr_incomplete s). Qed.
Print Assumptions C02_no_cr_never_ends.

Theorem C02_lookalike_lf_dot_lf a b rest :
  plainb a = true -> plainb b = true -> no_lead_dot a ->
  unstuff (a ++ [LF; DOT; LF] ++ b ++ [CR; LF] ++ end_marker ++ rest)
  = Complete (a ++ [LF; DOT; LF] ++ b ++ [CR; LF]) rest.
Proof. exact (lookalike_lf_dot_lf a b rest). Qed.
Print Assumptions C02_lookalike_lf_dot_lf.

Theorem C02_lookalike_lf_dot_crlf a b rest :
  plainb a = true -> plainb b = true -> no_lead_dot a -> no_lead_dot b ->
  unstuff (a ++ [LF; DOT; CR; LF] ++ b ++ [CR; LF] ++ end_marker ++ rest)
  = Complete (a ++ [LF; DOT; CR; LF] ++ b ++ [CR; LF]) rest.
Proof. exact (lookalike_lf_dot_crlf a b rest). Qed.
Print Assumptions C02_lookalike_lf_dot_crlf.

Theorem C02_lookalike_crlf_dot_lf a b rest :
  plainb a = true -> plainb b = true -> no_lead_dot a ->
  unstuff (a ++ [CR; LF; DOT; LF] ++ b ++ [CR; LF] ++ end_marker ++ rest)
  = Complete (a ++ [CR; LF; LF] ++ b ++ [CR; LF]) rest.
Proof. exact (lookalike_crlf_dot_lf a b rest). Qed.
Print Assumptions C02_lookalike_crlf_dot_lf.

Theorem C02_lookalike_cr_dot_cr a b rest :
  plainb a = true -> plainb b = true -> no_lead_dot a ->
  unstuff (a ++ [CR; DOT; CR] ++ b ++ [CR; LF] ++ end_marker ++ rest)
  = Complete (a ++ [CR; DOT; CR] ++ b ++ [CR; LF]) rest.
Proof. exact (lookalike_cr_dot_cr a b rest). Qed.
Print Assumptions C02_lookalike_cr_dot_cr.

Theorem C02_lookalikes_never_complete a b :
  plainb a = true -> plainb b = true -> no_lead_dot a -> no_lead_dot b ->
  (exists body, unstuff (a ++ [LF; DOT; LF] ++ b) = Incomplete body) /\
  (exists body, unstuff (a ++ [LF; DOT; CR; LF] ++ b) = Incomplete body) /\
  (exists body, unstuff (a ++ [CR; LF; DOT; LF] ++ b) = Incomplete body) /\
  (exists body, unstuff (a ++ [CR; DOT; CR] ++ b) = Incomplete body).
Proof. exact (lookalikes_never_complete a b). Qed.
Print Assumptions C02_lookalikes_never_complete.

Theorem C02_reads_prefix (mx : Z) (sizes : list nat) (stop : option N) (t : transport) :
  transparent t ->
  let '(out, e, d', t') := backend_reads sizes stop (new_data_reader mx) t in
  (exists w, dres_body (unstuff (tstream t)) = out ++ w) /\
  ((0 < mx)%Z -> (Z.of_nat (List.length out) <= mx)%Z) /\
  (e = None -> exists k, stop = Some k /\ (k <= blen out)%N) /\
  t_limit t' = t_limit t.
Proof. exact (backend_reads_prefix mx sizes stop t). Qed.
Print Assumptions C02_reads_prefix.

Theorem C02_drain_from_any_state (d : dreader) (t : transport) :
  transparent t ->
  let '(de, d2, t2) := dr_drain d t in
  d_limited d2 = false /\ d_n d2 = d_n d /\ t_limit t2 = t_limit t /\
  match spec_of (d_state d) (tstream t) with
  | Complete _ rest =>
      de = Some REOF /\ d_state d2 = SEOF /\ tstream t2 = rest /\ transparent t2 /\
      tterm t2 = tterm t /\ raws_after (t_raw t2) = raws_after (t_raw t)
  | Incomplete _ =>
      de = Some (rerr_of_terr (tterm t)) /\ d_state d2 <> SEOF /\
      t_buf t2 = [] /\ t_raw t2 = raws_after (t_raw t) /\
      t_closed t2 = false /\ too_long t2 = false
  end.
Proof. exact (dr_drain_spec d t). Qed.
Print Assumptions C02_drain_from_any_state.

Theorem C02_resume (mx : Z) (sizes : list nat) (stop : option N) (t : transport) body rest :
  transparent t ->
  unstuff (tstream t) = Complete body rest ->
  let '(out, e, d1, t1) := backend_reads sizes stop (new_data_reader mx) t in
  let '(de, d2, t2) := dr_drain d1 t1 in
  tstream t2 = rest /\ transparent t2 /\ tterm t2 = tterm t /\ t_limit t2 = t_limit t /\
  raws_after (t_raw t2) = raws_after (t_raw t) /\
  de = Some REOF /\ d_state d2 = SEOF /\
  (e = None \/ e = Some REOF \/ e = Some RTooLarge).
Proof. exact (drain_resume mx sizes stop t body rest). Qed.
Print Assumptions C02_resume.

Theorem C02_resume_from (sizes : list nat) (stop : option N) (d : dreader) (t : transport) body rest :
  transparent t -> budget_ok d ->
  spec_of (d_state d) (tstream t) = Complete body rest ->
  let '(out, e, d1, t1) := backend_reads sizes stop d t in
  let '(de, d2, t2) := dr_drain d1 t1 in
  tstream t2 = rest /\ transparent t2 /\ tterm t2 = tterm t /\ t_limit t2 = t_limit t /\
  raws_after (t_raw t2) = raws_after (t_raw t) /\
  de = Some REOF /\ d_state d2 = SEOF /\
  (e = None \/ e = Some REOF \/ e = Some RTooLarge).
Proof. exact (drain_resume_gen sizes stop d t body rest). Qed.
Print Assumptions C02_resume_from.

Theorem C02_incomplete (mx : Z) (sizes : list nat) (stop : option N) (t : transport) body :
  transparent t ->
  unstuff (tstream t) = Incomplete body ->
  let '(out, e, d1, t1) := backend_reads sizes stop (new_data_reader mx) t in
  let '(de, d2, t2) := dr_drain d1 t1 in
  t_limit t1 = t_limit t /\
  ((e = Some (rerr_of_terr (tterm t)) /\ d_state d1 <> SEOF /\
    t_buf t1 = [] /\ t_raw t1 = raws_after (t_raw t) /\
    t_closed t1 = false /\ too_long t1 = false)
   \/
   ((e = None \/ e = Some RTooLarge) /\
    de = Some (rerr_of_terr (tterm t)) /\ d_state d2 <> SEOF /\
    t_buf t2 = [] /\ t_raw t2 = raws_after (t_raw t) /\ t_limit t2 = t_limit t)).
Proof. exact (drain_incomplete mx sizes stop t body). Qed.
Print Assumptions C02_incomplete.

(* ---- the server: an unfinished message closes the connection (F30) ---- *)

Theorem C02_failed_drain_closes (cfg : config) (c : conn) :
  data_accepted c ->
  let '(p, _, (de, d2, t2)) := data_run cfg c in
  drained de = false ->
  let c' := fst (handle_data cfg c []) in
  c_closed c' = true /\ t_closed (c_t c') = true /\ c_session c' = false /\ c_bdat c' = None /\
  forall fuel, serve_loop (S fuel) cfg c' = [EClose].
Proof. exact (handle_data_failed_drain_closes cfg c). Qed.
Print Assumptions C02_failed_drain_closes.

Theorem C02_drained_resumes (cfg : config) (c : conn) :
  data_accepted c ->
  let '(p, _, (de, d2, t2)) := data_run cfg c in
  drained de = true -> dp_panic p = false -> dp_status p = [] ->
  let c' := fst (handle_data cfg c []) in
  c_closed c' = c_closed c /\ c_t c' = t2 /\ c_session c' = true /\
  c_from c' = false /\ c_rcpts c' = [] /\ c_bdat c' = None.
Proof. exact (handle_data_drained_resumes cfg c). Qed.
Print Assumptions C02_drained_resumes.

Theorem C02_cut_closes (cfg : config) (c : conn) body :
  data_accepted c -> transparent (c_t c) ->
  unstuff (tstream (c_t c)) = Incomplete body -> raws_after (t_raw (c_t c)) = [] ->
  let c' := fst (handle_data cfg c []) in
  c_closed c' = true /\ t_closed (c_t c') = true /\ c_session c' = false /\ c_bdat c' = None /\
  forall fuel, serve_loop (S fuel) cfg c' = [EClose].
Proof. exact (handle_data_cut_closes cfg c body). Qed.
Print Assumptions C02_cut_closes.

(* non-vacuity: a whole conversation.  DATA, one line of the message, then the
   read deadline expires and stays expired (two failures in a row: the
   backend's read, the drain), then the client sends the rest - a bait line,
   the end marker, NOOP, QUIT: 554 and the connection is closed, none of it
   is read.  With ONE failure the drain goes on and finds the end marker: NOOP
   and QUIT are executed, the bait line is message text. *)
Example C02_witness_failed_drain :
  let run fails := serve 40 (ex_cfg 0 2000) ex_be
                     [[xraw (f30_prelude ++ xln "DATA" ++ xln "first line")] ++ fails ++ [xraw f30_rest]] in
  let sticky := run [RFail TTimeout; RFail TTimeout] in
  let once := run [RFail TTimeout] in
  cmd_lines sticky = [bs "EHLO x"; bs "MAIL FROM:<a@b>"; bs "RCPT TO:<c@d>"; bs "DATA"] /\
  wire_codes sticky = map bs ["220"; "250"; "250"; "250"; "354"; "554"]%string /\
  has_mail "bait@evil" sticky = false /\
  skipn (List.length sticky - 3) sticky = [ELogout; EClose; EClose] /\
  cmd_lines once = [bs "EHLO x"; bs "MAIL FROM:<a@b>"; bs "RCPT TO:<c@d>"; bs "DATA"; bs "NOOP"; bs "QUIT"] /\
  wire_codes once = map bs ["220"; "250"; "250"; "250"; "354"; "554"; "250"; "221"]%string /\
  has_mail "bait@evil" once = false.
Proof. exact f30_data_witness. Qed.

(* ... and the hypotheses of the two theorems hold on the states of that
   conversation in which DATA is handled *)
Example C02_witness_failed_drain_hypotheses :
  let sticky := f30_conn [xraw (xln "first line"); RFail TTimeout; RFail TTimeout; xraw f30_rest] in
  let once := f30_conn [xraw (xln "first line"); RFail TTimeout; xraw f30_rest] in
  data_accepted sticky /\ data_accepted once /\
  (let '(_, (_, term), (de, _, _)) := data_run (ex_cfg 0 2000) sticky in (term, drained de))
  = (Some (RTransport TTimeout), false) /\
  (let '(p, (_, term), (de, _, t2)) := data_run (ex_cfg 0 2000) once in
   (term, drained de, dp_panic p, dp_status p, tstream t2))
  = (Some (RTransport TTimeout), true, false, [], xln "NOOP" ++ xln "QUIT").
Proof. exact f30_data_hypotheses. Qed.

(* non-vacuity: see DataProofs2.marker_first_witness, lookalikes_witness,
   lookalike_hyps_witness, drain_resume_witness (limits none/above/at/below the
   message size x backend reads all/2 octets/nothing, resuming at "NOOP") *)
Example C02_witness :
  transparent wit_t /\
  unstuff (tstream wit_t) = Complete (bs "abc" ++ [CR; LF]) (bs "NOOP" ++ [CR; LF]) /\
  wit_run 4 [3] None = (bs "abc" ++ [CR], Some RTooLarge, (-1)%Z, Some REOF, bs "NOOP" ++ [CR; LF]) /\
  wit_run 2 [2] (Some 2%N) = (bs "ab", None, 0%Z, Some REOF, bs "NOOP" ++ [CR; LF]) /\
  wit_run 3 [2] (Some 0%N) = ([], None, 3%Z, Some REOF, bs "NOOP" ++ [CR; LF]).
Proof. vm_compute. repeat split; reflexivity. Qed.
