(* Proofs about the UTF-8 model: decoding inverts encoding on valid scalar
   values, [runes] inverts [utf8_of_runes], and [runes] of a 7-bit string is
   the string of its octet values. *)
From Smtp Require Import Bytes Utf8.
From Coq Require Import Lia ZifyBool ZifyN ZifyNat.
Local Open Scope N_scope.

Local Ltac Zify.zify_post_hook ::= Z.div_mod_to_equations.

(* ---- octets and numbers ---- *)

Lemma byte_n_n_byte n : n < 256 -> byte_n (n_byte n) = n.
Proof. intros H. unfold byte_n, n_byte. apply N_ascii_embedding. exact H. Qed.

Lemma n_byte_byte_n c : n_byte (byte_n c) = c.
Proof. unfold byte_n, n_byte. apply ascii_N_embedding. Qed.

Lemma byte_n_lt c : byte_n c < 256.
Proof. unfold byte_n. apply N_ascii_bounded. Qed.

Lemma byte_n_inj c d : byte_n c = byte_n d -> c = d.
Proof.
  intros H. rewrite <- (n_byte_byte_n c), <- (n_byte_byte_n d). now rewrite H.
Qed.

(* case analysis on every boolean comparison of the goal *)
Ltac ncases :=
  repeat match goal with
  | |- context [N.eqb ?x ?y] => destruct (N.eqb_spec x y); try lia
  | |- context [N.ltb ?x ?y] => destruct (N.ltb_spec x y); try lia
  | |- context [N.leb ?x ?y] => destruct (N.leb_spec x y); try lia
  end.

(* ---- the decoder on each of the four shapes ---- *)

Lemma dec1 a n rest :
  a < 128 -> n = a -> utf8_decode1 (n_byte a :: rest) = Some (n, 1%nat).
Proof.
  intros Ha ->. unfold utf8_decode1. rewrite byte_n_n_byte by lia.
  ncases. reflexivity.
Qed.

Lemma dec2 a b n rest :
  194 <= a < 224 -> 128 <= b < 192 ->
  n = (a - 192) * 64 + (b - 128) ->
  utf8_decode1 (n_byte a :: n_byte b :: rest) = Some (n, 2%nat).
Proof.
  intros Ha Hb ->. unfold utf8_decode1, is_cont, in_range.
  rewrite !byte_n_n_byte by lia. ncases. reflexivity.
Qed.

Lemma dec3 a b c n rest :
  224 <= a < 240 -> 128 <= b < 192 -> 128 <= c < 192 ->
  (a = 224 -> 160 <= b) -> (a = 237 -> b <= 159) ->
  n = (a - 224) * 4096 + (b - 128) * 64 + (c - 128) ->
  utf8_decode1 (n_byte a :: n_byte b :: n_byte c :: rest) = Some (n, 3%nat).
Proof.
  intros Ha Hb Hc H1 H2 ->. unfold utf8_decode1, is_cont, in_range.
  rewrite !byte_n_n_byte by lia. ncases; reflexivity.
Qed.

Lemma dec4 a b c d n rest :
  240 <= a < 245 -> 128 <= b < 192 -> 128 <= c < 192 -> 128 <= d < 192 ->
  (a = 240 -> 144 <= b) -> (a = 244 -> b <= 143) ->
  n = (a - 240) * 262144 + (b - 128) * 4096 + (c - 128) * 64 + (d - 128) ->
  utf8_decode1 (n_byte a :: n_byte b :: n_byte c :: n_byte d :: rest) = Some (n, 4%nat).
Proof.
  intros Ha Hb Hc Hd H1 H2 ->. unfold utf8_decode1, is_cont, in_range.
  rewrite !byte_n_n_byte by lia. ncases; reflexivity.
Qed.

(* ---- A.1 ---- *)

Theorem utf8_decode_encode : forall cp rest, utf8_valid_cp cp = true ->
  utf8_decode1 (utf8_encode cp ++ rest) = Some (cp, List.length (utf8_encode cp)).
Proof.
  intros cp rest Hv. unfold utf8_encode. rewrite Hv.
  unfold utf8_valid_cp in Hv. unfold utf8_encode_raw.
  destruct (N.ltb_spec cp 128) as [H1|H1].
  { cbn [app List.length]. apply dec1; lia. }
  destruct (N.ltb_spec cp 2048) as [H2|H2].
  { cbn [app List.length]. apply dec2; lia. }
  destruct (N.ltb_spec cp 65536) as [H3|H3].
  { cbn [app List.length]. apply dec3; lia. }
  cbn [app List.length]. apply dec4; lia.
Qed.

Print Assumptions utf8_decode_encode.

(* ---- lengths and octet values of an encoding ---- *)

Lemma utf8_encode_raw_length n :
  (1 <= List.length (utf8_encode_raw n) <= 4)%nat.
Proof.
  unfold utf8_encode_raw.
  destruct (n <? 128); [cbn; lia|].
  destruct (n <? 2048); [cbn; lia|].
  destruct (n <? 65536); cbn; lia.
Qed.

Lemma utf8_encode_length n : (1 <= List.length (utf8_encode n) <= 4)%nat.
Proof. unfold utf8_encode. destruct (utf8_valid_cp n); apply utf8_encode_raw_length. Qed.

Lemma utf8_encode_small n : n < 128 -> utf8_encode n = [n_byte n].
Proof.
  intros H. unfold utf8_encode, utf8_valid_cp, utf8_encode_raw.
  ncases. reflexivity.
Qed.

(* every octet of the encoding of a non-ASCII code point (valid or not) is
   at least 128 *)
Lemma utf8_encode_raw_high n c :
  128 <= n -> n <= 1114111 -> In c (utf8_encode_raw n) -> 128 <= byte_n c.
Proof.
  intros Hlo Hhi Hin. unfold utf8_encode_raw in Hin.
  destruct (N.ltb_spec n 128) as [H1|H1]; [lia|].
  destruct (N.ltb_spec n 2048) as [H2|H2].
  { cbn [In] in Hin. destruct Hin as [<-|[<-|[]]]; rewrite byte_n_n_byte; lia. }
  destruct (N.ltb_spec n 65536) as [H3|H3].
  { cbn [In] in Hin. destruct Hin as [<-|[<-|[<-|[]]]]; rewrite byte_n_n_byte; lia. }
  cbn [In] in Hin. destruct Hin as [<-|[<-|[<-|[<-|[]]]]]; rewrite byte_n_n_byte; lia.
Qed.

Lemma utf8_encode_high n c :
  128 <= n -> In c (utf8_encode n) -> 128 <= byte_n c.
Proof.
  intros Hlo Hin. unfold utf8_encode in Hin.
  destruct (utf8_valid_cp n) eqn:Hv.
  - apply (utf8_encode_raw_high n c); try assumption.
    unfold utf8_valid_cp in Hv. lia.
  - apply (utf8_encode_raw_high 65533 c); try assumption; lia.
Qed.

(* ---- A.2 ---- *)

Lemma runes_f_nil fuel : runes_f fuel [] = [].
Proof. destruct fuel; reflexivity. Qed.

Lemma skipn_length_app {A} (l r : list A) : skipn (List.length l) (l ++ r) = r.
Proof. induction l as [|x l IH]; cbn; auto. Qed.

Lemma runes_f_utf8_of_runes : forall cs fuel,
  forallb utf8_valid_cp cs = true ->
  (List.length (utf8_of_runes cs) <= fuel)%nat ->
  runes_f fuel (utf8_of_runes cs) = cs.
Proof.
  induction cs as [|c cs IH]; intros fuel Hv Hf.
  - apply runes_f_nil.
  - cbn [forallb] in Hv. apply andb_true_iff in Hv as [Hc Hcs].
    unfold utf8_of_runes in *. cbn [flat_map] in *.
    rewrite app_length in Hf.
    pose proof (utf8_encode_length c) as Hl.
    destruct fuel as [|f]; [lia|].
    cbn [runes_f]. rewrite utf8_decode_encode by exact Hc.
    rewrite skipn_length_app. rewrite IH; [reflexivity|exact Hcs|lia].
Qed.

Theorem runes_utf8_of_runes : forall cs,
  forallb utf8_valid_cp cs = true -> runes (utf8_of_runes cs) = cs.
Proof.
  intros cs Hv. unfold runes. apply runes_f_utf8_of_runes; [exact Hv|lia].
Qed.

Print Assumptions runes_utf8_of_runes.

(* ---- A.3 ---- *)

Lemma runes_f_ascii : forall s fuel,
  forallb is_ascii7 s = true -> (List.length s <= fuel)%nat ->
  runes_f fuel s = map byte_n s.
Proof.
  induction s as [|c s IH]; intros fuel Ha Hf.
  - apply runes_f_nil.
  - cbn [forallb] in Ha. apply andb_true_iff in Ha as [Hc Hs].
    cbn [List.length] in Hf. destruct fuel as [|f]; [lia|].
    cbn [runes_f map]. unfold is_ascii7 in Hc.
    unfold utf8_decode1. rewrite Hc. cbn [skipn].
    rewrite IH; [reflexivity|exact Hs|lia].
Qed.

Lemma runes_ascii : forall s, forallb is_ascii7 s = true -> runes s = map byte_n s.
Proof. intros s Ha. unfold runes. apply runes_f_ascii; [exact Ha|lia]. Qed.

Print Assumptions runes_ascii.
