(* C14, helper file 2: Time.Format(time.RFC3339) followed by
   time.Parse(time.RFC3339, .) is the identity on (instant, zone offset), to
   the second.

   [rfc3339_roundtrip]: for every t whose LOCAL date (instant + offset) lies
   in 0001-01-01T00:00:00 .. 9999-12-31T23:59:59 and whose zone offset is a
   whole number of minutes strictly between -24h and +24h,
     parse_rfc3339 (format_rfc3339 t) = Some {unix = rt_unix t; nsec = 0; off = rt_off t}.
   Nanoseconds are not printed by the RFC3339 layout (the property says "to
   the second").  Full range: the date arithmetic is proved for every day
   number ([civil_roundtrip]), not for a grid of dates. *)
From Smtp Require Import Bytes Utf8Proofs XtextProofs Rfc3339 C14Time.
From Smtp Require Client.
From Coq Require Import Lia ZifyBool.
Local Open Scope char_scope.
Local Open Scope Z_scope.

Definition rt_dom (t : rtime) : Prop :=
  -62135596800 <= rt_unix t + rt_off t < 253402300800
  /\ -86400 < rt_off t < 86400 /\ rt_off t mod 60 = 0.

Lemma quot_whole off : off mod 60 = 0 -> Z.quot off 60 = off / 60 /\ off = off / 60 * 60.
Proof.
  intros H. assert (E : off = off / 60 * 60) by lia. split; [|exact E].
  rewrite E at 1. apply Z.quot_mul. lia.
Qed.

Lemma getnum_two a b r f :
  is_digit a = true -> is_digit b = true -> getnum (a :: b :: r) f = Some (dig a * 10 + dig b, r).
Proof. intros A B. unfold getnum. rewrite A, B. reflexivity. Qed.

Lemma skip1_same c r : skip1 c (c :: r) = Some r.
Proof. unfold skip1. rewrite Ascii.eqb_refl. reflexivity. Qed.

(* the part of parse_rfc3339 after the seconds field *)
Definition zone_part (year month day hour mi sec : Z) (s11 : bytes) : option rtime :=
  let '(nsec, s12) :=
    match s11 with
    | p :: d :: _ =>
        if (Ascii.eqb p "." || Ascii.eqb p ",") && is_digit d
        then let '(ds, r) := take_digits (tl s11) in (nanos_of ds, r)
        else (0, s11)
    | _ => (0, s11)
    end in
  let finish (off : Z) (rest : bytes) :=
    match rest with
    | _ :: _ => None
    | [] =>
        if (day <? 1) || (days_in month year <? day) then None
        else Some (mkRT (days_from_civil year month day * 86400 + hour * 3600 + mi * 60 + sec - off)
                        nsec off)
    end in
  match s12 with
  | z :: r =>
      if Ascii.eqb z "Z" then finish 0 r
      else
        match s12 with
        | sg :: h0 :: h1 :: col :: m0 :: m1 :: r6 =>
            if negb (Ascii.eqb col ":") then None
            else if negb (forallb is_digit [h0; h1; m0; m1]) then None
            else
              let hr := dig h0 * 10 + dig h1 in
              let mm := dig m0 * 10 + dig m1 in
              if (24 <? hr) || (60 <? mm) then None
              else if Ascii.eqb sg "+" then finish ((hr * 60 + mm) * 60) r6
              else if Ascii.eqb sg "-" then finish (- ((hr * 60 + mm) * 60)) r6
              else None
        | _ => None
        end
  | [] => None
  end.

Lemma parse_front y0 y1 y2 y3 m0 m1 d0 d1 h0 h1 i0 i1 s0 s1 zone :
  is_digit y0 = true -> is_digit y1 = true -> is_digit y2 = true -> is_digit y3 = true ->
  is_digit m0 = true -> is_digit m1 = true -> is_digit d0 = true -> is_digit d1 = true ->
  is_digit h0 = true -> is_digit h1 = true -> is_digit i0 = true -> is_digit i1 = true ->
  is_digit s0 = true -> is_digit s1 = true ->
  1 <= dig m0 * 10 + dig m1 <= 12 -> dig h0 * 10 + dig h1 < 24 ->
  dig i0 * 10 + dig i1 < 60 -> dig s0 * 10 + dig s1 < 60 ->
  parse_rfc3339 (y0 :: y1 :: y2 :: y3 :: "-" :: m0 :: m1 :: "-" :: d0 :: d1 :: "T" ::
                 h0 :: h1 :: ":" :: i0 :: i1 :: ":" :: s0 :: s1 :: zone)
  = zone_part (dig y0 * 1000 + dig y1 * 100 + dig y2 * 10 + dig y3) (dig m0 * 10 + dig m1)
              (dig d0 * 10 + dig d1) (dig h0 * 10 + dig h1) (dig i0 * 10 + dig i1)
              (dig s0 * 10 + dig s1) zone.
Proof.
  intros Dy0 Dy1 Dy2 Dy3 Dm0 Dm1 Dd0 Dd1 Dh0 Dh1 Di0 Di1 Ds0 Ds1 Hm Hh Hi Hs.
  assert (C1 : (dig m0 * 10 + dig m1 <=? 0) || (12 <? dig m0 * 10 + dig m1) = false) by (clear - Hm; lia).
  assert (C2 : (24 <=? dig h0 * 10 + dig h1) = false) by (clear - Hh; lia).
  assert (C3 : (60 <=? dig i0 * 10 + dig i1) = false) by (clear - Hi; lia).
  assert (C4 : (60 <=? dig s0 * 10 + dig s1) = false) by (clear - Hs; lia).
  unfold parse_rfc3339. cbn [forallb]. rewrite Dy0, Dy1, Dy2, Dy3. cbn [andb].
  repeat first [ rewrite getnum_two by assumption | rewrite skip1_same
               | rewrite C1 | rewrite C2 | rewrite C3 | rewrite C4
               | progress cbv beta iota ].
  reflexivity.
Qed.

Ltac digits_in H :=
  repeat match goal with
         | D : is_digit ?c = true |- _ => rewrite D in H; clear D
         end.

Theorem rfc3339_roundtrip t :
  rt_dom t ->
  parse_rfc3339 (Client.format_rfc3339 t) = Some (mkRT (rt_unix t) 0 (rt_off t)).
Proof.
  intros (Hloc & Hoff & Hmin). unfold Client.format_rfc3339.
  set (off := rt_off t) in *. set (loc := rt_unix t + off) in *.
  set (days := loc / 86400). set (secs := loc mod 86400).
  pose proof (civil_roundtrip days) as R.
  destruct (Client.civil_from_days days) as [[y m] d].
  destruct R as (Hm & Hd & Hdfc & Hy).
  assert (Hdays : -719162 <= days <= 2932896) by (subst days; lia).
  specialize (Hy Hdays).
  assert (Hsecs : 0 <= secs < 86400) by (subst secs; lia).
  assert (By : 0 <= y < 10000) by lia.
  assert (Bm : 0 <= m < 100) by lia.
  assert (Bd : 0 <= d < 100).
  { unfold days_in in Hd. destruct (m =? 2); [destruct (is_leap y)|destruct (_ || _)]; lia. }
  assert (Bh : 0 <= secs / 3600 < 100) by lia.
  assert (Bi : 0 <= secs mod 3600 / 60 < 100) by lia.
  assert (Bs : 0 <= secs mod 60 < 100) by lia.
  assert (Lh : secs / 3600 < 24) by lia.
  assert (Li : secs mod 3600 / 60 < 60) by lia.
  assert (Ls : secs mod 60 < 60) by lia.
  assert (Hday : (d <? 1) || (days_in m y <? d) = false) by lia.
  assert (Hunix : days_from_civil y m d * 86400 + secs / 3600 * 3600 + secs mod 3600 / 60 * 60
                  + secs mod 60 = rt_unix t + off).
  { rewrite Hdfc. subst days secs. fold loc. lia. }
  destruct (four_digits y By) as (y0 & y1 & y2 & y3 & Ey & Dy0 & Dy1 & Dy2 & Dy3 & Vy).
  destruct (two_digits m Bm) as (m0 & m1 & Em & Dm0 & Dm1 & Vm).
  destruct (two_digits d Bd) as (d0 & d1 & Ed & Dd0 & Dd1 & Vd).
  destruct (two_digits _ Bh) as (h0 & h1 & Eh & Dh0 & Dh1 & Vh).
  destruct (two_digits _ Bi) as (i0 & i1 & Ei & Di0 & Di1 & Vi).
  destruct (two_digits _ Bs) as (s0 & s1 & Es & Ds0 & Ds1 & Vs).
  rewrite Ey, Em, Ed, Eh, Ei, Es.
  cbn [app].
  rewrite parse_front by (assumption || (rewrite ?Vm, ?Vh, ?Vi, ?Vs; assumption)).
  rewrite Vy, Vm, Vd, Vh, Vi, Vs.
  clear Dy0 Dy1 Dy2 Dy3 Dm0 Dm1 Dd0 Dd1 Dh0 Dh1 Di0 Di1 Ds0 Ds1.
  destruct (off =? 0) eqn:Ez.
  - unfold zone_part. cbn [Ascii.eqb Bool.eqb andb orb]. cbv iota. rewrite Hday.
    f_equal. f_equal; lia.
  - destruct (quot_whole off Hmin) as (Eq & Ek). rewrite Eq.
    set (k := off / 60) in *.
    assert (Hk : 0 < Z.abs k < 1440) by lia.
    assert (Ba : 0 <= Z.abs k / 60 < 100) by lia.
    assert (Bb : 0 <= Z.abs k mod 60 < 100) by lia.
    assert (Hr : (24 <? Z.abs k / 60) || (60 <? Z.abs k mod 60) = false) by lia.
    assert (Hpos : k <? 0 = false -> rt_unix t + off - (Z.abs k / 60 * 60 + Z.abs k mod 60) * 60 = rt_unix t
                                    /\ (Z.abs k / 60 * 60 + Z.abs k mod 60) * 60 = off) by lia.
    assert (Hneg : k <? 0 = true -> rt_unix t + off - - ((Z.abs k / 60 * 60 + Z.abs k mod 60) * 60) = rt_unix t
                                    /\ - ((Z.abs k / 60 * 60 + Z.abs k mod 60) * 60) = off) by lia.
    destruct (two_digits _ Ba) as (a0 & a1 & Ea & Da0 & Da1 & Va).
    destruct (two_digits _ Bb) as (b0 & b1 & Eb & Db0 & Db1 & Vb).
    rewrite Ea, Eb. cbn [app].
    destruct (k <? 0) eqn:Es0; unfold zone_part;
      cbn [Ascii.eqb Bool.eqb andb orb negb forallb]; cbv iota;
      rewrite Da0, Da1, Db0, Db1; cbn [andb negb]; cbv iota beta zeta; rewrite Va, Vb, Hr;
      cbn [Ascii.eqb Bool.eqb andb]; cbv iota; rewrite Hday, Hunix.
    + destruct (Hneg eq_refl) as (-> & ->). reflexivity.
    + destruct (Hpos eq_refl) as (-> & ->). reflexivity.
Qed.

Print Assumptions rfc3339_roundtrip.

(* non-vacuity, and one of the instants of Client.ex_rfc3339 *)
Example rfc3339_roundtrip_ex :
  rt_dom (mkRT 1700000000 0 (-12600)) /\ rt_dom (mkRT (-62135596800) 0 0)
  /\ rt_dom (mkRT 253402300799 0 0) /\ rt_dom (mkRT 0 0 86340)
  /\ parse_rfc3339 (Client.format_rfc3339 (mkRT 1700000000 123 (-12600)))
     = Some (mkRT 1700000000 0 (-12600)).
Proof. unfold rt_dom. cbn [rt_unix rt_off]. repeat split; try lia; reflexivity. Qed.
