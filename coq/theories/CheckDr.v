(* kind dr: the DATA reader in isolation *)
From Smtp Require Import Bytes Sx Transport DataReader DotSpec CheckBase.

(* ---- kind "dr": the DATA reader in isolation ----
   (dr (linelimit n) (max n) (raws ...) (sizes ...) (stop none|n) 
       (obs (out x) (err e) (drain e) (rest x) (resterr e))) *)

Definition dr_obs (out : bytes) (e : option rerr) (de : option rerr)
                  (rest : bytes) (re : option terr) : sx :=
  SL [XT "obs"; SL [XT "out"; XB out]; SL [XT "err"; show_rerr e];
      SL [XT "drain"; show_rerr de]; SL [XT "rest"; XB rest];
      SL [XT "resterr"; show_topt re]].

Definition check_dr (args : list sx) : verdict :=
  match assoc1 "linelimit" args, assoc1 "max" args, assoc1 "raws" args,
        assoc1 "sizes" args, assoc1 "stop" args, assoc "obs" args with
  | Some ll, Some mx, Some rs, Some SZ, Some st, Some obs =>
      match sx_N ll, sx_Z mx, dec_raws rs, sx_list SZ with
      | Some ll, Some mx, Some rs, Some szl =>
          match map_opt sx_nat szl with
          | Some sizes =>
              let stop := if sx_is "none" st then None else sx_N st in
              let t0 := mkT [] rs 0%N ll false in
              let '(out, e, d1, t1) := backend_reads sizes stop (new_data_reader mx) t0 in
              let '(de, d2, t2) := dr_drain d1 t1 in
              let '(rest, re) := t_read_rest t2 in
              let model := dr_obs out e de rest re in
              let agree := sx_eqb model (SL (XT "obs" :: obs)) in
              (* oracle: the property specs evaluated on the recorded behaviour *)
              let transparent := lim_ok ll 0%N rs in
              let stream := raws_bytes rs in
              let o_out := match assoc1 "out" obs with Some x => sx_bytes x | None => None end in
              let o_err := assoc1 "err" obs in
              let o_rest := match assoc1 "rest" obs with Some x => sx_bytes x | None => None end in
              let is_e (tag : string) := match o_err with Some x => sx_is tag x | None => false end in
              let viol :=
                if negb transparent then []
                else match unstuff stream, o_out, o_rest, stop with
                     | Complete body rest, Some oo, Some orr, None =>
                         if (mx <=? 0)%Z || (Z.of_nat (List.length body) <=? mx)%Z then
                           (if bytes_eqb oo body && is_e "eof"%string then [] else [bs "C01"; bs "C06"])
                           ++ (if bytes_eqb orr rest then [] else [bs "C02"])
                         else
                           (if bytes_eqb oo (firstn (Z.to_nat mx) body) && is_e "toolarge"%string
                            then [] else [bs "C06"])
                           ++ (if bytes_eqb orr rest then [] else [bs "C02"])
                     | Incomplete body, Some oo, _, _ =>
                         (if is_e "eof"%string then [bs "C07"] else [])
                         ++ (if (mx <=? 0)%Z && negb (is_prefix oo body) then [bs "C01"] else [])
                     | _, _, _, _ => []
                     end in
              let tags :=
                [match unstuff stream with Complete _ _ => bs "complete" | Incomplete _ => bs "incomplete" end;
                 if transparent then bs "transparent" else bs "limiter-trips";
                 if (0 <? mx)%Z then bs "limited" else bs "unlimited"] in
              mkV true agree model viol [] tags
          | None => bad_case
          end
      | _, _, _, _ => bad_case
      end
  | _, _, _, _, _, _ => bad_case
  end.

