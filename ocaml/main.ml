(* Driver: reads one case per line, runs the extracted check, prints one
   verdict line per case prefixed by the case number.  The only conversions
   done here are OCaml char <-> the extracted 8-boolean ascii. *)

let bit c i = (Char.code c lsr i) land 1 = 1

let to_ascii (c : char) : Model.ascii =
  Model.Ascii (bit c 0, bit c 1, bit c 2, bit c 3, bit c 4, bit c 5, bit c 6, bit c 7)

let of_ascii (a : Model.ascii) : char =
  match a with
  | Model.Ascii (b0, b1, b2, b3, b4, b5, b6, b7) ->
    let v b i = if b then 1 lsl i else 0 in
    Char.chr (v b0 0 + v b1 1 + v b2 2 + v b3 3 + v b4 4 + v b5 5 + v b6 6 + v b7 7)

let explode (s : String.t) : Model.ascii list =
  let rec go i acc = if i < 0 then acc else go (i - 1) (to_ascii s.[i] :: acc) in
  go (String.length s - 1) []

let implode (l : Model.ascii list) : String.t =
  let b = Buffer.create 256 in
  List.iter (fun a -> Buffer.add_char b (of_ascii a)) l;
  Buffer.contents b

let () =
  let ic = if Array.length Sys.argv > 1 then open_in Sys.argv.(1) else stdin in
  let n = ref 0 in
  (try
     while true do
       let line = input_line ic in
       incr n;
       if String.length line > 0 then begin
         let out = implode (Model.run_line (explode line)) in
         print_string (string_of_int !n);
         print_char ' ';
         print_endline out
       end
     done
   with End_of_file -> ());
  close_in ic
