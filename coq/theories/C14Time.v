(* C14, helper file 1: numbers and instants.

   - [dec_of_N] (fmt %d) is inverted by [parse_uint] (strconv.ParseUint):
     [parse_uint_dec_of_N], for every N (from ReplyProofs.dec_value_dec_of_N,
     i.e. the standard library's DecimalN.Unsigned.of_to).
   - the proleptic Gregorian day arithmetic of Client.v ([civil_from_days],
     Time.Format) and of Rfc3339.v ([days_from_civil], time.Parse) are
     inverse for EVERY day number: [civil_roundtrip] (one 400-year era is
     checked by computation, the rest is arithmetic).
   - [rfc3339_roundtrip]: parse_rfc3339 (format_rfc3339 t) returns the same
     instant and the same zone offset, for every instant whose LOCAL date lies
     in the years 0001..9999 and every zone offset of whole minutes strictly
     between -24h and +24h. *)
From Smtp Require Import Bytes Utf8Proofs XtextProofs Rfc3339 ReplyProofs.
From Smtp Require Client.
From Coq Require Import Lia ZifyBool ZifyN ZifyNat DecimalN DecimalPos.
Local Open Scope char_scope.

(* ------------------------------------------------------------------ *)
(* decimal                                                             *)
(* ------------------------------------------------------------------ *)

Theorem parse_uint_dec_of_N bits n :
  (n < 2 ^ bits)%N -> parse_uint bits (dec_of_N n) = POk n.
Proof.
  intros H. unfold parse_uint.
  destruct (dec_of_N n) eqn:E; [exfalso; exact (dec_of_N_nonempty n E)|].
  rewrite <- E, dec_of_N_digits, dec_value_dec_of_N.
  apply N.ltb_lt in H. rewrite H. reflexivity.
Qed.

(* ------------------------------------------------------------------ *)
(* day numbers <-> civil dates                                         *)
(* ------------------------------------------------------------------ *)

Local Open Scope Z_scope.

(* civil_from_days inside one 400-year era: (year of era, month, day) *)
Definition civ_era (doe : Z) : Z * Z * Z :=
  let yoe := (doe - doe / 1460 + doe / 36524 - doe / 146096) / 365 in
  let doy := doe - (365 * yoe + yoe / 4 - yoe / 100) in
  let mp := (5 * doy + 2) / 153 in
  let d := doy - (153 * mp + 2) / 5 + 1 in
  let m := if mp <? 10 then mp + 3 else mp - 9 in
  (yoe, m, d).

Definition adj (m : Z) : Z := if m <=? 2 then 1 else 0.

Definition era_chk (doe : Z) : bool :=
  let '(yoe, m, d) := civ_era doe in
  let yy := yoe + adj m in
  (0 <=? yoe) && (yoe <? 400) && (1 <=? m) && (m <=? 12) && (1 <=? d) && (d <=? days_in m yy)
  && (yoe * 365 + yoe / 4 - yoe / 100 + ((153 * ((m + 9) mod 12) + 2) / 5 + d - 1) =? doe)
  && (negb (306 <=? doe) || (1 <=? yy))
  && (negb (doe <=? 146036) || (yy <=? 399)).

Definition era_row (a : N) : bool :=
  forallb (fun b => let k := Z.of_N (a * 400 + b) in negb (k <? 146097) || era_chk k)
          (map N.of_nat (seq 0 400)).

Lemma era_rows : forallb era_row (map N.of_nat (seq 0 366)) = true.
Proof. vm_compute. reflexivity. Qed.

Lemma era_chk_all doe : 0 <= doe < 146097 -> era_chk doe = true.
Proof.
  intros H.
  pose proof (N_enum era_row 366 era_rows (Z.to_N doe / 400)%N) as R.
  assert (L : (Z.to_N doe / 400 < N.of_nat 366)%N) by lia.
  specialize (R L). unfold era_row in R.
  pose proof (N_enum _ 400 R (Z.to_N doe mod 400)%N) as Q.
  assert (L2 : (Z.to_N doe mod 400 < N.of_nat 400)%N) by lia.
  specialize (Q L2). cbv beta zeta in Q.
  replace (Z.of_N (Z.to_N doe / 400 * 400 + Z.to_N doe mod 400)) with doe in Q by lia.
  apply orb_true_iff in Q as [Q|Q]; [lia|exact Q].
Qed.

Lemma is_leap_era yy era : is_leap (yy + era * 400) = is_leap yy.
Proof.
  unfold is_leap.
  replace (yy + era * 400) with (yy + (era * 100) * 4) at 1 by lia. rewrite Z.mod_add by lia.
  replace (yy + era * 400) with (yy + (era * 4) * 100) at 1 by lia. rewrite Z.mod_add by lia.
  rewrite Z.mod_add by lia. reflexivity.
Qed.

Lemma days_in_era m yy era : days_in m (yy + era * 400) = days_in m yy.
Proof. unfold days_in. rewrite is_leap_era. reflexivity. Qed.

Lemma civil_from_days_era z :
  let zz := z + 719468 in
  let era := zz / 146097 in
  Client.civil_from_days z =
  let '(yoe, m, d) := civ_era (zz - era * 146097) in (yoe + era * 400 + adj m, m, d).
Proof. reflexivity. Qed.

Theorem civil_roundtrip z :
  let '(y, m, d) := Client.civil_from_days z in
  1 <= m <= 12 /\ 1 <= d <= days_in m y /\ days_from_civil y m d = z
  /\ (-719162 <= z <= 2932896 -> 1 <= y <= 9999).
Proof.
  rewrite civil_from_days_era. cbv zeta.
  set (zz := z + 719468). set (era := zz / 146097). set (doe := zz - era * 146097).
  assert (Hdoe : 0 <= doe < 146097) by (subst doe era; lia).
  pose proof (era_chk_all doe Hdoe) as C. unfold era_chk in C.
  destruct (civ_era doe) as [[yoe m] d].
  repeat (apply andb_true_iff in C as [C ?]).
  assert (Hadj : adj m = 0 \/ adj m = 1) by (unfold adj; destruct (m <=? 2); lia).
  split; [lia|]. split.
  { replace (yoe + era * 400 + adj m) with ((yoe + adj m) + era * 400) by lia.
    rewrite days_in_era. lia. }
  split.
  { unfold days_from_civil.
    assert (Y : (if m <=? 2 then yoe + era * 400 + adj m - 1 else yoe + era * 400 + adj m)
                = yoe + era * 400).
    { unfold adj. destruct (m <=? 2); lia. }
    rewrite Y.
    assert (E : (yoe + era * 400) / 400 = era).
    { symmetry. apply Z.div_unique with (r := yoe); lia. }
    rewrite E.
    replace (yoe + era * 400 - era * 400) with yoe by lia. subst doe zz. lia. }
  intros Hz.
  assert (He : 0 <= era <= 24) by (subst era zz; lia).
  assert (era = 0 -> 306 <= doe) by (subst doe zz; lia).
  assert (era = 24 -> doe <= 146036) by (subst doe zz; lia).
  lia.
Qed.

(* ------------------------------------------------------------------ *)
(* fixed-width decimal fields                                          *)
(* ------------------------------------------------------------------ *)

Definition two_chk (n : N) : bool :=
  match Client.append_int (Z.of_N n) 2 with
  | [a; b] => is_digit a && is_digit b && (dig a * 10 + dig b =? Z.of_N n)
  | _ => false
  end.

Lemma two_digits x :
  0 <= x < 100 ->
  exists a b, Client.append_int x 2 = [a; b] /\ is_digit a = true /\ is_digit b = true
              /\ dig a * 10 + dig b = x.
Proof.
  intros H.
  assert (E : two_chk (Z.to_N x) = true).
  { apply (N_enum two_chk 100); [vm_compute; reflexivity|lia]. }
  unfold two_chk in E. rewrite Z2N.id in E by lia.
  destruct (Client.append_int x 2) as [|a [|b [|? ?]]]; try discriminate.
  apply andb_true_iff in E as [E E3]. apply andb_true_iff in E as [E1 E2]. apply Z.eqb_eq in E3.
  exists a, b. auto.
Qed.

Definition four_chk (n : N) : bool :=
  match Client.append_int (Z.of_N n) 4 with
  | [a; b; c; d] =>
      is_digit a && is_digit b && is_digit c && is_digit d
      && (dig a * 1000 + dig b * 100 + dig c * 10 + dig d =? Z.of_N n)
  | _ => false
  end.

Lemma four_chk_all : forallb four_chk (map N.of_nat (seq 0 (N.to_nat 10000))) = true.
Proof. vm_compute. reflexivity. Qed.

Lemma four_digits x :
  0 <= x < 10000 ->
  exists a b c d, Client.append_int x 4 = [a; b; c; d]
    /\ is_digit a = true /\ is_digit b = true /\ is_digit c = true /\ is_digit d = true
    /\ dig a * 1000 + dig b * 100 + dig c * 10 + dig d = x.
Proof.
  intros H.
  assert (E : four_chk (Z.to_N x) = true).
  { apply (N_enum four_chk (N.to_nat 10000) four_chk_all). lia. }
  unfold four_chk in E. rewrite Z2N.id in E by lia.
  destruct (Client.append_int x 4) as [|a [|b [|c [|d [|? ?]]]]]; try discriminate.
  apply andb_true_iff in E as [E E5]. apply andb_true_iff in E as [E E4].
  apply andb_true_iff in E as [E E3]. apply andb_true_iff in E as [E1 E2]. apply Z.eqb_eq in E5.
  exists a, b, c, d. auto 10.
Qed.
