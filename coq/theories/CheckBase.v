(* Correspondence checks: decode a case written by the Go harness, run the
   model on the recorded inputs, compare with the recorded behaviour of the
   implementation, and evaluate the property specifications on the recorded
   behaviour (the oracle that turns a disagreement into a violation replay). *)
From Smtp Require Import Bytes Sx Transport DataReader DotSpec.


Record verdict := mkV {
  v_ok : bool;              (* the case could be decoded *)
  v_agree : bool;           (* model behaviour = recorded implementation behaviour *)
  v_model : sx;             (* what the model computed *)
  v_viol : list bytes;      (* properties the recorded behaviour violates *)
  v_kf : list bytes;        (* known-finding signatures the case matches *)
  v_tags : list bytes       (* coverage tags *)
}.

Definition bad_case : verdict := mkV false false (SL []) [] [] [].

(* ---- decoding of shared pieces ---- *)

Definition dec_terr (x : sx) : option terr :=
  if sx_is "eof" x then Some TEof
  else if sx_is "toolong" x then Some TTooLong
  else if sx_is "timeout" x then Some TTimeout
  else if sx_is "err" x then Some TNetErr
  else if sx_is "closed" x then Some TClosed
  else None.

Definition dec_raw (x : sx) : option raw :=
  match x with
  | SL [tag; d] =>
      if sx_is "d" tag then
        match sx_bytes d with
        | Some (c :: r) => Some (RData c r)
        | _ => None
        end
      else None
  | SL [tag] => option_map RFail (dec_terr tag)
  | _ => None
  end.

Definition dec_raws (x : sx) : option (list raw) :=
  match x with SL l => map_opt dec_raw l | _ => None end.

Definition show_terr (e : terr) : string :=
  match e with
  | TEof => "eof" | TTooLong => "toolong" | TTimeout => "timeout"
  | TNetErr => "err" | TClosed => "closed"
  end.

Definition show_rerr (e : option rerr) : sx :=
  match e with
  | None => XT "nil"
  | Some REOF => XT "eof"
  | Some RUnexpectedEOF => XT "ueof"
  | Some RTooLarge => XT "toolarge"
  | Some (RTransport e) => XT (show_terr e)
  | Some RDataReset => XT "datareset"
  | Some RClosedPipe => XT "closedpipe"
  end.

(* read everything that is left on the transport, io.ReadAll style *)
Definition t_read_rest (t : transport) : bytes * option terr :=
  let '(b, e, _) := t_copy_n (2 ^ 62)%N t in (b, e).

Definition show_topt (e : option terr) : sx :=
  match e with None => XT "nil" | Some e => XT (show_terr e) end.

Definition assoc (k : string) (l : list sx) : option (list sx) :=
  (fix go (l : list sx) :=
     match l with
     | SL (t :: args) :: r => if sx_is k t then Some args else go r
     | _ :: r => go r
     | [] => None
     end) l.

Definition assoc1 (k : string) (l : list sx) : option sx :=
  match assoc k l with Some [x] => Some x | _ => None end.

