(* Reference grammar for MAIL / RCPT arguments (property C11).

   An executable recogniser/decoder written from the RFC grammars, NOT from
   parse.go / Parse.v:
     RFC 5321 4.1.2   Reverse-path, Forward-path, Path, Mailbox, Local-part,
                      Dot-string, Quoted-string, Domain, sub-domain,
                      address-literal, esmtp-param
     RFC 1870         SIZE            RFC 6152 / 3030  BODY
     RFC 6531         SMTPUTF8        RFC 8689         REQUIRETLS
     RFC 3461         RET, ENVID, NOTIFY, ORCPT, xtext
     RFC 4954         AUTH            RFC 6533         utf-8-addr-xtext/unitext
     RFC 7293 + 3339  RRVS
   It shares with the model only data types (config, mail_opts, rcpt_opts,
   rtime), octet helpers from Bytes.v and the UTF-8 encoder of a code point
   (Utf8.utf8_encode, itself validated by the round trip theorem of
   Utf8Proofs.v).

   [classify_mail cfg arg] / [classify_rcpt cfg arg] sort the argument of a
   MAIL / RCPT command (the text after "MAIL " / "RCPT ") into
     Valid mailbox opts : well formed; the backend must get exactly this
     Invalid            : DEFINITELY malformed; must be refused with 5xx
     Unspecified        : neither (not judged).

   Classification decisions (every laxity of the implementation that is not a
   definite defect is Unspecified):

   J1  white space: anything but exactly "FROM:<path>" *(SP esmtp-param):
       leading / trailing white space, SP after the colon, several SP between
       parameters, no SP after '>', HT or other (Unicode) white space among
       the parameters                                         -> Unspecified
   J2  missing angle brackets                                 -> Unspecified
   J3  source routes "<@a,@b:user@dom>" (RFC 5321: MUST accept, SHOULD
       ignore; the implementation skips to the first ':')     -> Unspecified
   J4  the empty quoted local part <""@d> (allowed by the ABNF, names no
       mailbox; the implementation refuses it)                -> Unspecified
   J5  anything inside a quoted string other than qtextSMTP / quoted-pairSMTP
                                                              -> Unspecified
   J6  unquoted local part: one of the RFC 5322 specials ( ) < > [ ] : ; \ , DQUOTE
       or SP / HT is a definite defect -> Invalid; other deviations from
       Dot-string (control or 8-bit octets, leading / trailing / doubled
       dots)                                                  -> Unspecified
   J7  domains that are neither sub-domain lists nor bracketed literals
       (underscores, trailing dot, non-ASCII, ...)            -> Unspecified
       address literals: "[" 1*dcontent "]" with '>' excluded from dcontent
       (simplification: the inner IPv4 / IPv6 / general syntax is not checked;
       a literal containing '>' is Unspecified)
   J8  a keyword occurring twice (case-insensitively)         -> Unspecified
   J9  a parameter token that is not esmtp-keyword ["=" esmtp-value] with a
       known keyword is a definite defect (unknown keyword)   -> Invalid.
       This includes keywords spelt with U+017F / U+0131 ("ſIZE=1"): they are
       not esmtp-keywords.  (go-smtp used to upper-case keywords with Unicode
       rules and accepted them - former finding C11-unicode-fold, repaired;
       [fold_trap] marks such lines.)
   J10 SMTPUTF8=x / REQUIRETLS=x (a value on a parameter that has none) is a
       value outside its grammar -> Invalid.  (go-smtp used to ignore the
       value - former finding C11-flag-value, repaired; [flag_with_value]
       marks such lines.)
   J11 SIZE: 1*20DIGIT.  More than 20 digits (leading zeros), a value >= 2^63
       (not representable), a value above the configured limit (552 is a
       legitimate answer)                                     -> Unspecified
   J12 AUTH is always an enabled parameter (go-smtp has no switch for it and
       RFC 4954 lets a server parse and pass it); its decoded mailbox is
       classified like a path mailbox.  A parameter value that is empty or
       contains '=' is Invalid; a value with an octet outside %d33-126
       (control, DEL, 8-bit) is Unspecified (same family as J6; only ORCPT's
       utf-8 unitext form may carry non-ASCII octets)
   J13 ENVID longer than 100 / ORCPT longer than 500 octets   -> Unspecified
   J14 ORCPT address types other than rfc822 / utf-8          -> Unspecified
       utf-8 form: lower-case hex digits in \x{..}, ill-formed UTF-8 and
       Unicode white space in the unitext form                -> Unspecified
       (the decoded address is not required to be a Mailbox: RFC 3461 does
       not make the server check it)
   J15 RRVS: only a value that does not even begin with 4DIGIT "-" is
       Invalid; every other deviation from RFC 3339 / RFC 7293 (lower-case t /
       z, leap second :60, one-digit hour, ',' as fraction separator, more
       than 9 fraction digits, an action other than C / R, ...) -> Unspecified;
       so is the instant 0001-01-01T00:00:00Z, which Go's API cannot
       distinguish from "unset". *)
From Smtp Require Import Bytes Utf8 Rfc3339 Conn.
Local Open Scope char_scope.

Inductive verdict3 (A : Type) :=
| Valid (mailbox : bytes) (opts : A)
| Invalid
| Unspecified.
Arguments Valid {A} _ _.
Arguments Invalid {A}.
Arguments Unspecified {A}.

(* three-valued result of a sub-recogniser *)
Inductive cls (A : Type) := CV (a : A) | CI | CU.
Arguments CV {A} _.
Arguments CI {A}.
Arguments CU {A}.

(* ---------- character classes ---------- *)

Definition r_alpha (c : ascii) : bool := in_range 65 90 c || in_range 97 122 c.
Definition r_digit (c : ascii) : bool := in_range 48 57 c.
Definition r_alnum (c : ascii) : bool := r_alpha c || r_digit c.
Definition r_vchar (c : ascii) : bool := in_range 33 126 c.

(* RFC 5322 atext *)
Definition r_atext (c : ascii) : bool :=
  r_alnum c || mem_byte c (bs "!#$%&'*+-/=?^_`{|}~").

(* RFC 5322 specials other than '@' and '.', plus SP and HT: octets that can
   definitely not occur in an unquoted local part *)
Definition r_special (c : ascii) : bool :=
  mem_byte c (bs "()<>[]:;\,""") || Ascii.eqb c " " || Ascii.eqb c HT.

(* qtextSMTP = %d32-33 / %d35-91 / %d93-126 *)
Definition r_qtext (c : ascii) : bool :=
  in_range 32 33 c || in_range 35 91 c || in_range 93 126 c.

(* ASCII case folding *)
Definition r_up (c : ascii) : ascii :=
  if in_range 97 122 c then n_byte (byte_n c - 32) else c.
Definition r_upper (s : bytes) : bytes := map r_up s.
Definition r_is (s : bytes) (k : string) : bool := bytes_eqb (r_upper s) (bs k).

(* split at the first octet satisfying p: (before, from that octet on) *)
Fixpoint r_span (p : ascii -> bool) (s : bytes) : bytes * bytes :=
  match s with
  | [] => ([], [])
  | c :: t => if p c then ([], s) else let '(a, r) := r_span p t in (c :: a, r)
  end.

Definition r_nonempty (s : bytes) : bool := match s with [] => false | _ => true end.

Definition r_first_last_vchar (s : bytes) : bool :=
  match s with
  | [] => false
  | c :: _ => r_vchar c && r_vchar (last s " ")
  end.

(* ---------- RFC 5321 Mailbox ---------- *)

(* Dot-string = Atom *("." Atom) *)
Definition r_dot_string (l : bytes) : bool :=
  forallb (fun a => r_nonempty a && forallb r_atext a) (split_byte "." l).

(* QcontentSMTP after the opening DQUOTE: (unquoted content, rest after the
   closing DQUOTE) *)
Fixpoint r_quoted (s : bytes) (acc : bytes) : option (bytes * bytes) :=
  match s with
  | [] => None
  | c :: t =>
      if Ascii.eqb c """" then Some (rev acc, t)
      else if Ascii.eqb c "\" then
        match t with
        | d :: t' => if in_range 32 126 d then r_quoted t' (d :: acc) else None
        | [] => None
        end
      else if r_qtext c then r_quoted t (c :: acc)
      else None
  end.

(* sub-domain = Let-dig [Ldh-str] *)
Definition r_sub_domain (l : bytes) : bool :=
  match l with
  | [] => false
  | c :: _ =>
      r_alnum c && r_alnum (last l " ")
      && forallb (fun x => r_alnum x || Ascii.eqb x "-") l
  end.

(* dcontent = %d33-90 / %d94-126, here without '>' *)
Definition r_dcontent (c : ascii) : bool :=
  (in_range 33 90 c || in_range 94 126 c) && negb (Ascii.eqb c ">").

Definition r_addr_literal (d : bytes) : bool :=
  match d with
  | c :: t =>
      Ascii.eqb c "["
      && match rev t with
         | e :: body => Ascii.eqb e "]" && r_nonempty body && forallb r_dcontent body
         | [] => false
         end
  | [] => false
  end.

(* Domain / address-literal *)
Definition r_domain (d : bytes) : bool :=
  r_addr_literal d || forallb r_sub_domain (split_byte "." d).

(* Local-part "@" ... for a string that contains '@' and does not begin with
   it: the decoded (unquoted) local part and everything after the '@' *)
Definition r_local_at (s : bytes) : cls (bytes * bytes) :=
  match s with
  | c :: t =>
      if Ascii.eqb c """" then
        match r_quoted t [] with
        | Some ((_ :: _) as lp, a :: d) => if Ascii.eqb a "@" then CV (lp, d) else CU
        | _ => CU                                         (* J4, J5 *)
        end
      else
        let '(l, r) := r_span (fun x => Ascii.eqb x "@") s in
        if existsb r_special l then CI                    (* J6 *)
        else if r_dot_string l then CV (l, tl r) else CU
  | [] => CI
  end.

(* a whole string as a Mailbox (the decoded AUTH value) *)
Definition r_mailbox_whole (m : bytes) : cls bytes :=
  if negb (mem_byte "@" m) then CI
  else match m with
       | c :: _ =>
           if Ascii.eqb c "@" then CI                     (* empty local part *)
           else match r_local_at m with
                | CV (lp, d) =>
                    match d with
                    | [] => CI                            (* empty domain *)
                    | _ => if r_domain d then CV (lp ++ "@" :: d) else CU
                    end
                | CI => CI
                | CU => CU
                end
       | [] => CI
       end.

(* Reverse-path / Forward-path at the head of r: (mailbox, rest after '>').
   [null_ok]: "<>" is allowed (MAIL). *)
Definition r_path (null_ok : bool) (r : bytes) : cls (bytes * bytes) :=
  if null_ok && is_prefix (bs "<>") r then CV ([], skipn 2 r)
  else if negb (mem_byte "@" r) then CI                   (* no '@' *)
  else
    match r with
    | c :: s =>
        if negb (Ascii.eqb c "<") then CU                 (* J2 *)
        else if negb (mem_byte ">" s) then CI             (* '<' without '>' *)
        else
          match s with
          | c1 :: _ =>
              if Ascii.eqb c1 "@" then
                (if mem_byte ":" s then CU else CI)       (* J3 / empty local part *)
              else
                match r_local_at s with
                | CV (lp, d) =>
                    if negb (mem_byte ">" d) then CI      (* '<' without '>' *)
                    else
                      let '(dom, r2) := r_span (fun x => Ascii.eqb x ">") d in
                      match dom with
                      | [] => CI                          (* empty domain *)
                      | _ => if r_domain dom then CV (lp ++ "@" :: dom, tl r2) else CU
                      end
                | CI => CI
                | CU => CU
                end
          | [] => CI
          end
    | [] => CI
    end.

(* ---------- esmtp parameters ---------- *)

(* the non-ASCII White_Space code points of the Unicode standard *)
Definition r_ws_cps : list N :=
  [133; 160; 5760; 8192; 8193; 8194; 8195; 8196; 8197; 8198; 8199; 8200; 8201; 8202;
   8232; 8233; 8239; 8287; 12288]%N.
Definition r_ws_seqs : list bytes := map utf8_encode r_ws_cps.

(* white space other than SP somewhere in s *)
Fixpoint r_other_ws (s : bytes) : bool :=
  match s with
  | [] => false
  | c :: t => in_range 9 13 c || existsb (fun u => is_prefix u s) r_ws_seqs || r_other_ws t
  end.

(* the text after the path: the parameter tokens (J1) *)
Definition r_tokens (rest : bytes) : cls (list bytes) :=
  match rest with
  | [] => CV []
  | c :: ps =>
      if negb (Ascii.eqb c " ") then CU
      else if r_other_ws ps then CU
      else
        let toks := split_byte " " ps in
        if forallb r_nonempty toks then CV toks else CU
  end.

(* esmtp-keyword = (ALPHA / DIGIT) *(ALPHA / DIGIT / "-") *)
Definition r_keyword (k : bytes) : bool :=
  match k with
  | c :: t => r_alnum c && forallb (fun x => r_alnum x || Ascii.eqb x "-") t
  | [] => false
  end.

(* a token split at its first '=': (keyword text, value) *)
Definition r_tok_split (tok : bytes) : bytes * option bytes :=
  let '(k, r) := r_span (fun x => Ascii.eqb x "=") tok in
  (k, match r with [] => None | _ :: v => Some v end).

Definition r_tok_key (tok : bytes) : bytes := r_upper (fst (r_tok_split tok)).

Fixpoint r_nodup (l : list bytes) : bool :=
  match l with
  | [] => true
  | x :: r => negb (existsb (bytes_eqb x) r) && r_nodup r
  end.

(* esmtp-value = 1*(%d33-60 / %d62-126) *)
Definition r_esmtp_value (v : bytes) : bool :=
  r_nonempty v && forallb (fun c => r_vchar c && negb (Ascii.eqb c "=")) v.

(* ---------- xtext (RFC 3461) ---------- *)

Definition r_hexval (c : ascii) : option N :=
  if in_range 48 57 c then Some (byte_n c - 48)%N
  else if in_range 65 70 c then Some (byte_n c - 55)%N
  else None.

Definition r_xchar (c : ascii) : bool :=
  r_vchar c && negb (Ascii.eqb c "+") && negb (Ascii.eqb c "=").

Fixpoint r_xtext (s : bytes) : option bytes :=
  match s with
  | [] => Some []
  | c :: t =>
      if Ascii.eqb c "+" then
        match t with
        | h1 :: h2 :: t' =>
            match r_hexval h1, r_hexval h2 with
            | Some a, Some b => option_map (cons (n_byte (a * 16 + b))) (r_xtext t')
            | _, _ => None
            end
        | _ => None
        end
      else if r_xchar c then option_map (cons c) (r_xtext t)
      else None
  end.

Definition r_printable (s : bytes) : bool := forallb (in_range 32 126) s.

(* ---------- MAIL parameters ---------- *)

Inductive mparam :=
| MSize (n : N) | MBody (b : bytes) | MUtf8 | MReqTls | MRet (b : bytes)
| MEnvid (b : bytes) | MAuth (a : bytes).

Definition mparam_apply (o : mail_opts) (p : mparam) : mail_opts :=
  match p with
  | MSize n => mkMO (mo_body o) (Z.of_N n) (mo_requiretls o) (mo_utf8 o) (mo_ret o) (mo_envid o) (mo_auth o)
  | MBody b => mkMO b (mo_size o) (mo_requiretls o) (mo_utf8 o) (mo_ret o) (mo_envid o) (mo_auth o)
  | MUtf8 => mkMO (mo_body o) (mo_size o) (mo_requiretls o) true (mo_ret o) (mo_envid o) (mo_auth o)
  | MReqTls => mkMO (mo_body o) (mo_size o) true (mo_utf8 o) (mo_ret o) (mo_envid o) (mo_auth o)
  | MRet b => mkMO (mo_body o) (mo_size o) (mo_requiretls o) (mo_utf8 o) b (mo_envid o) (mo_auth o)
  | MEnvid b => mkMO (mo_body o) (mo_size o) (mo_requiretls o) (mo_utf8 o) (mo_ret o) b (mo_auth o)
  | MAuth a => mkMO (mo_body o) (mo_size o) (mo_requiretls o) (mo_utf8 o) (mo_ret o) (mo_envid o) (Some a)
  end.

Definition r_size (cfg : config) (v : bytes) : cls mparam :=
  if negb (r_nonempty v && forallb r_digit v) then CI
  else if (20 <? List.length v)%nat then CU                              (* J11 *)
  else if negb (dec_value v <? 2 ^ 63)%N then CU
  else if (0 <? cf_max_bytes cfg)%Z && (cf_max_bytes cfg <? Z.of_N (dec_value v))%Z then CU
  else CV (MSize (dec_value v)).

Definition r_body (cfg : config) (v : bytes) : cls mparam :=
  if r_is v "7BIT" || r_is v "8BITMIME" then CV (MBody (r_upper v))
  else if r_is v "BINARYMIME" then (if cf_binarymime cfg then CV (MBody (r_upper v)) else CI)
  else CI.

Definition r_ret (v : bytes) : cls mparam :=
  if r_is v "FULL" || r_is v "HDRS" then CV (MRet (r_upper v)) else CI.

Definition r_envid (v : bytes) : cls mparam :=
  match r_xtext v with
  | Some ((_ :: _) as d) =>
      if negb (r_printable d) then CI
      else if (100 <? List.length v)%nat then CU                         (* J13 *)
      else CV (MEnvid d)
  | _ => CI
  end.

Definition r_auth (v : bytes) : cls mparam :=
  match r_xtext v with
  | Some ((_ :: _) as d) =>
      if bytes_eqb d (bs "<>") then CV (MAuth [])
      else match r_mailbox_whole d with
           | CV mb => CV (MAuth mb)
           | CI => CI
           | CU => CU
           end
  | _ => CI
  end.

(* a value that is not an esmtp-value: empty or containing '=' is a definite
   defect; an octet outside %d33-126 is not judged (J12) *)
Definition r_bad_value (val : bytes) : bool :=
  negb (r_nonempty val) || mem_byte "=" val.

(* one MAIL parameter token *)
Definition r_mail_param (cfg : config) (tok : bytes) : cls mparam :=
  let '(k, v) := r_tok_split tok in
  if negb (r_keyword k) then CI                                          (* J9 *)
  else
    match v with
    | Some val =>
        if r_bad_value val then CI
        else if negb (r_esmtp_value val) then CU                          (* J12 *)
        else if r_is k "SIZE" then r_size cfg val
        else if r_is k "BODY" then r_body cfg val
        else if r_is k "RET" then (if cf_dsn cfg then r_ret val else CI)
        else if r_is k "ENVID" then (if cf_dsn cfg then r_envid val else CI)
        else if r_is k "AUTH" then r_auth val
        else CI           (* J10: SMTPUTF8=x, REQUIRETLS=x; unknown keyword *)
    | None =>
        if r_is k "SMTPUTF8" then (if cf_utf8 cfg then CV MUtf8 else CI)
        else if r_is k "REQUIRETLS" then (if cf_requiretls cfg then CV MReqTls else CI)
        else CI           (* value missing, or unknown keyword *)
    end.

(* ---------- RCPT parameters ---------- *)

Inductive rparam :=
| RNotify (l : list bytes) | ROrcpt (ty addr : bytes) | RRrvs (t : rtime).

Definition rparam_apply (o : rcpt_opts) (p : rparam) : rcpt_opts :=
  match p with
  | RNotify l => mkRO l (ro_orcpt_type o) (ro_orcpt o) (ro_rrvs o)
  | ROrcpt ty a => mkRO (ro_notify o) ty a (ro_rrvs o)
  | RRrvs t => mkRO (ro_notify o) (ro_orcpt_type o) (ro_orcpt o) (Some t)
  end.

(* NOTIFY = "NEVER" / notify-list *)
Definition r_notify (v : bytes) : cls rparam :=
  let vals := map r_upper (split_byte "," v) in
  let is_never x := bytes_eqb x (bs "NEVER") in
  let is_item x := bytes_eqb x (bs "SUCCESS") || bytes_eqb x (bs "FAILURE") || bytes_eqb x (bs "DELAY") in
  match vals with
  | [x] => if is_never x || is_item x then CV (RNotify vals) else CI
  | _ => if forallb is_item vals && r_nodup vals then CV (RNotify vals) else CI
  end.

(* --- RFC 6533 utf-8-addr-xtext / utf-8-addr-unitext --- *)

(* QCHAR = %x21-2a / %x2c-3c / %x3e-5b / %x5d-7e *)
Definition r_qchar (c : ascii) : bool :=
  in_range 33 42 c || in_range 44 60 c || in_range 62 91 c || in_range 93 126 c.

Definition r_hexdig (c : ascii) : bool := in_range 48 57 c || in_range 65 70 c.
Definition r_hexdig_lc (c : ascii) : bool := r_hexdig c || in_range 97 102 c.
Definition r_hexdig8 (c : ascii) : bool := in_range 56 57 c || in_range 65 70 c.
Definition r_nzhexdig (c : ascii) : bool := in_range 49 57 c || in_range 65 70 c.
Definition r_nzdhexdig (c : ascii) : bool := in_range 49 57 c || in_range 65 67 c || in_range 69 70 c.

(* HEXPOINT *)
Definition r_hexpoint (h : bytes) : bool :=
  match h with
  | [a; b] =>
      ((Ascii.eqb a "0" || Ascii.eqb a "1") && in_range 49 57 b)
      || existsb (bytes_eqb h) [bs "10"; bs "20"; bs "2B"; bs "3D"; bs "7F"; bs "5C"]
      || (r_hexdig8 a && r_hexdig b)
  | [a; b; c] => r_nzhexdig a && r_hexdig b && r_hexdig c
  | [a; b; c; d] =>
      (r_nzdhexdig a && r_hexdig b && r_hexdig c && r_hexdig d)
      || (Ascii.eqb a "D" && in_range 48 55 b && r_hexdig c && r_hexdig d)
  | [a; b; c; d; e] => r_nzhexdig a && r_hexdig b && r_hexdig c && r_hexdig d && r_hexdig e
  | [a; b; c; d; e; f] =>
      Ascii.eqb a "1" && Ascii.eqb b "0" && r_hexdig c && r_hexdig d && r_hexdig e && r_hexdig f
  | _ => false
  end.

Definition r_hexnum (h : bytes) : N :=
  fold_left (fun acc c => match r_hexval c with Some v => acc * 16 + v | None => acc end)%N h 0%N.

(* RFC 3629 UTF8-2 / UTF8-3 / UTF8-4 at the head of s: its length *)
Definition r_utf8_seq (s : bytes) : option nat :=
  let tail := in_range 128 191 in
  match s with
  | a :: b :: r =>
      if in_range 194 223 a && tail b then Some 2%nat
      else
        match r with
        | c :: r' =>
            if (Ascii.eqb a (n_byte 224) && in_range 160 191 b && tail c)
               || (in_range 225 236 a && tail b && tail c)
               || (Ascii.eqb a (n_byte 237) && in_range 128 159 b && tail c)
               || (in_range 238 239 a && tail b && tail c) then Some 3%nat
            else
              match r' with
              | d :: _ =>
                  if (Ascii.eqb a (n_byte 240) && in_range 144 191 b && tail c && tail d)
                     || (in_range 241 243 a && tail b && tail c && tail d)
                     || (Ascii.eqb a (n_byte 244) && in_range 128 143 b && tail c && tail d)
                  then Some 4%nat else None
              | [] => None
              end
        | [] => None
        end
  | _ => None
  end.

Fixpoint r_u8addr (fuel : nat) (s : bytes) : cls bytes :=
  match fuel with
  | O => CU
  | S f =>
      match s with
      | [] => CV []
      | c :: t =>
          if r_qchar c then
            match r_u8addr f t with CV d => CV (c :: d) | x => x end
          else if is_prefix (bs "\x{") s then
            let '(h, r) := r_span (fun x => negb (r_hexdig_lc x)) (skipn 3 s) in
            match r with
            | e :: r' =>
                if negb (Ascii.eqb e "}") then CI
                else if negb (forallb r_hexdig h) then CU           (* lower-case hex, J14 *)
                else if r_hexpoint h then
                  match r_u8addr f r' with CV d => CV (utf8_encode (r_hexnum h) ++ d) | x => x end
                else CI
            | [] => CI
            end
          else if (byte_n c <? 128)%N then CI       (* CTL, SP, DEL, '\', '+', '=' *)
          else
            match r_utf8_seq s with
            | Some n =>
                if existsb (fun u => is_prefix u s) r_ws_seqs then CU
                else match r_u8addr f (skipn n s) with CV d => CV (firstn n s ++ d) | x => x end
            | None => CU                            (* ill-formed UTF-8, J14 *)
            end
      end
  end.

(* a CI found behind a CU prefix must not be reported: the scan above stops
   at the first CU or CI, and a CI after valid text is definite (the
   implementation's decoder is a global substitution: any disallowed octet
   or bad \x{..} anywhere refuses the value). *)

Definition r_orcpt (v : bytes) : cls rparam :=
  if negb (mem_byte ";" v) then CI
  else
    let '(ty, r) := r_span (fun x => Ascii.eqb x ";") v in
    let addr := tl r in
    match ty, addr with
    | [], _ => CI
    | _, [] => CI
    | _, _ =>
        if r_is ty "RFC822" then
          match r_xtext addr with
          | Some ((_ :: _) as d) =>
              if negb (r_printable d) then CI
              else if (500 <? List.length v)%nat then CU              (* J13 *)
              else CV (ROrcpt (r_upper ty) d)
          | _ => CI
          end
        else if r_is ty "UTF-8" then
          match r_u8addr (S (List.length addr)) addr with
          | CV ((_ :: _) as d) =>
              if (500 <? List.length v)%nat then CU else CV (ROrcpt (r_upper ty) d)
          | CV [] => CI
          | CI => CI
          | CU => CU
          end
        else CU                                                        (* J14 *)
    end.

(* --- RFC 3339 date-time --- *)

Definition r_d2 (a b : ascii) : Z := Z.of_N ((byte_n a - 48) * 10 + (byte_n b - 48)).

Definition r_leap (y : Z) : bool :=
  ((y mod 4 =? 0) && negb (y mod 100 =? 0) || (y mod 400 =? 0))%Z.

Definition r_month_len (y m : Z) : Z :=
  nth (Z.to_nat (m - 1)) [31; if r_leap y then 29 else 28; 31; 30; 31; 30; 31; 31; 30; 31; 30; 31]%Z 0%Z.

(* days from 1970-01-01 to y-m-d, counted directly: days in the years before
   y (year 0 is a leap year), in the months before m, and d - 1 *)
Definition r_days (y m d : Z) : Z :=
  (365 * y + (y + 3) / 4 - (y + 99) / 100 + (y + 399) / 400
   + nth (Z.to_nat (m - 1)) [0; 31; 59; 90; 120; 151; 181; 212; 243; 273; 304; 334] 0
   + (if r_leap y && (2 <? m) then 1 else 0)
   + (d - 1) - 719528)%Z.

(* time-secfrac digits: nanoseconds (at most 9 digits) *)
Definition r_nanos (ds : bytes) : Z :=
  Z.of_N (dec_value ds) * 10 ^ (9 - Z.of_nat (List.length ds)).

(* time-offset: seconds east of UTC *)
Definition r_offset (s : bytes) : option Z :=
  match s with
  | [z] => if Ascii.eqb z "Z" then Some 0%Z else None
  | [sg; h0; h1; col; m0; m1] =>
      if forallb r_digit [h0; h1; m0; m1] && Ascii.eqb col ":"
         && (r_d2 h0 h1 <=? 23)%Z && (r_d2 m0 m1 <=? 59)%Z then
        if Ascii.eqb sg "+" then Some ((r_d2 h0 h1 * 60 + r_d2 m0 m1) * 60)%Z
        else if Ascii.eqb sg "-" then Some (- ((r_d2 h0 h1 * 60 + r_d2 m0 m1) * 60))%Z
        else None
      else None
  | _ => None
  end.

Definition r_datetime (s : bytes) : option rtime :=
  match s with
  | y0 :: y1 :: y2 :: y3 :: s1 :: mo0 :: mo1 :: s2 :: d0 :: d1 :: tsep :: h0 :: h1 :: c1 :: mi0 :: mi1 :: c2 :: se0 :: se1 :: r =>
      if forallb r_digit [y0; y1; y2; y3; mo0; mo1; d0; d1; h0; h1; mi0; mi1; se0; se1]
         && Ascii.eqb s1 "-" && Ascii.eqb s2 "-" && Ascii.eqb tsep "T"
         && Ascii.eqb c1 ":" && Ascii.eqb c2 ":" then
        let year := (r_d2 y0 y1 * 100 + r_d2 y2 y3)%Z in
        let month := r_d2 mo0 mo1 in
        let day := r_d2 d0 d1 in
        let hour := r_d2 h0 h1 in
        let mi := r_d2 mi0 mi1 in
        let sec := r_d2 se0 se1 in
        if ((1 <=? month) && (month <=? 12) && (1 <=? day) && (day <=? r_month_len year month)
            && (hour <=? 23) && (mi <=? 59) && (sec <=? 59))%Z then
          let '(frac, zone) :=
            match r with
            | p :: r' =>
                if Ascii.eqb p "." then
                  let '(ds, z) := r_span (fun x => negb (r_digit x)) r' in (Some ds, z)
                else (None, r)
            | [] => (None, r)
            end in
          let frac_ok := match frac with
                         | Some ds => r_nonempty ds && (List.length ds <=? 9)%nat
                         | None => true
                         end in
          match r_offset zone with
          | Some off =>
              if frac_ok then
                Some (mkRT (r_days year month day * 86400 + hour * 3600 + mi * 60 + sec - off)%Z
                           (match frac with Some ds => r_nanos ds | None => 0%Z end) off)
              else None
          | None => None
          end
        else None
      else None
  | _ => None
  end.

(* rrvs-param = "RRVS=" date-time [ ";" ( "C" / "R" ) ] *)
Definition r_rrvs (v : bytes) : cls rparam :=
  match v with
  | y0 :: y1 :: y2 :: y3 :: s1 :: _ =>
      if negb (forallb r_digit [y0; y1; y2; y3] && Ascii.eqb s1 "-") then CI
      else
        let '(ts, r) := r_span (fun x => Ascii.eqb x ";") v in
        let act_ok := match r with
                      | [] => true
                      | [_; a] => Ascii.eqb (r_up a) "C" || Ascii.eqb (r_up a) "R"
                      | _ => false
                      end in
        match r_datetime ts with
        | Some t =>
            if negb act_ok then CU
            else if (rt_unix t =? -62135596800)%Z && (rt_nsec t =? 0)%Z then CU   (* J15 *)
            else CV (RRrvs t)
        | None => CU                                                    (* J15 *)
        end
  | _ => CI
  end.

Definition r_rcpt_param (cfg : config) (tok : bytes) : cls rparam :=
  let '(k, v) := r_tok_split tok in
  if negb (r_keyword k) then CI
  else
    match v with
    | Some val =>
        if r_bad_value val then CI
        else if negb (r_esmtp_value val) then
          (* ORCPT's utf-8 unitext form may carry non-ASCII octets *)
          (if r_is k "ORCPT" && cf_dsn cfg && forallb (fun c => r_vchar c || (128 <=? byte_n c)%N) val
           then r_orcpt val else CU)                                      (* J12 *)
        else if r_is k "NOTIFY" then (if cf_dsn cfg then r_notify val else CI)
        else if r_is k "ORCPT" then (if cf_dsn cfg then r_orcpt val else CI)
        else if r_is k "RRVS" then (if cf_rrvs cfg then r_rrvs val else CI)
        else CI
    | None => CI
    end.

(* ---------- whole argument ---------- *)

Definition r_strip_prefix (p : string) (arg : bytes) : option bytes :=
  let n := List.length (bs p) in
  if bytes_eqb (r_upper (firstn n arg)) (bs p) then Some (skipn n arg) else None.

(* combine the classified tokens *)
Fixpoint r_collect {A} (l : list (cls A)) : cls (list A) :=
  match l with
  | [] => CV []
  | x :: r =>
      match x, r_collect r with
      | CI, _ => CI
      | _, CI => CI
      | CU, _ => CU
      | _, CU => CU
      | CV a, CV l' => CV (a :: l')
      end
  end.

Definition classify_gen {P O : Type} (null_ok : bool) (prefix : string)
    (param : bytes -> cls P) (apply : O -> P -> O) (zero : O) (arg : bytes) : verdict3 O :=
  if negb (r_first_last_vchar arg) then
    (match arg with [] => Invalid | _ => Unspecified end)                       (* J1 *)
  else
  match r_strip_prefix prefix arg with
  | None => Invalid
  | Some a =>
      match a with
      | [] => Invalid
      | c :: _ =>
          if negb (r_vchar c) then Unspecified                                   (* J1 *)
          else
          match r_path null_ok a with
          | CI => Invalid
          | CU => Unspecified
          | CV (mb, rest) =>
              match r_tokens rest with
              | CI => Invalid
              | CU => Unspecified
              | CV toks =>
                  if negb (r_nodup (map r_tok_key toks)) then Unspecified        (* J8 *)
                  else match r_collect (map param toks) with
                       | CI => Invalid
                       | CU => Unspecified
                       | CV ps => Valid mb (fold_left apply ps zero)
                       end
              end
          end
      end
  end.

Definition classify_mail (cfg : config) (arg : bytes) : verdict3 mail_opts :=
  classify_gen true "FROM:" (r_mail_param cfg) mparam_apply mo_zero arg.

Definition classify_rcpt (cfg : config) (arg : bytes) : verdict3 rcpt_opts :=
  classify_gen false "TO:" (r_rcpt_param cfg) rparam_apply ro_zero arg.

(* ---------- the inputs of the two former findings (case tags only) ---------- *)

(* the argument contains U+017F (long s) or U+0131 (dotless i), which Go's
   strings.ToUpper maps to ASCII 'S' / 'I' *)
Fixpoint fold_trap (s : bytes) : bool :=
  match s with
  | c :: ((d :: _) as t) =>
      (Ascii.eqb c (n_byte 197) && Ascii.eqb d (n_byte 191))
      || (Ascii.eqb c (n_byte 196) && Ascii.eqb d (n_byte 177))
      || fold_trap t
  | _ => false
  end.

(* some SP-separated token is SMTPUTF8=... or REQUIRETLS=... *)
Definition flag_with_value (arg : bytes) : bool :=
  existsb (fun tok => let '(k, v) := r_tok_split tok in
                      (r_is k "SMTPUTF8" || r_is k "REQUIRETLS")
                      && match v with Some _ => true | None => false end)
          (split_byte " " arg).
