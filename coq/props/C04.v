(* C04 - one well-formed reply per command, in order, reporting its outcome.

   The server model is the function [serve fuel cfg be phases] from a
   configuration, a backend script and, per TLS phase, a schedule of raw reads
   (what every future net.Conn.Read returns: this is the quantification over
   all segmentations, lock-step or pipelined) to the list of observable events:
   [EWire b] = octets written, [ECmd line] = ghost event, the command loop
   consumed a line.  [codes_of ev] reads the reply codes off the octets written
   by [ev] the way an observer does (CheckOracle.reply_codes: one code per reply
   GROUP, "ddd-..." continues a group, "ddd ..." ends it).

   1. Count and order.
      [C04_one_group_per_write]: writeResponse with a three-digit code, ANY
      enhanced code and ANY texts (LF, bare CR, NUL, 8-bit included) puts
      exactly one group on the wire.
      [C04_handler_groups]: for every configuration, every open reachable
      connection state ([Inv]: the loop invariant of ConnProofs.v; [CI]: the
      backend's *SMTPError codes have three digits) and every command, the
      groups written by the handler have the shape of the verb
      ([group_shape]): one reply; [c; 500] when the command made errCount
      pass the threshold (and then the connection is closed); DATA: one
      refusal, or 354 + one final reply (SMTP, also 354 421 after a panic) /
      one per accepted recipient (LMTP; a panicking plain backend: 354 421);
      BDAT: one reply, the LAST chunk in LMTP mode one per recipient; AUTH:
      k x 334 + at most one final reply ([C04_auth_groups]: none only when the
      input ends inside the exchange); STARTTLS: 220 | 220 550 | 502.
      [C04_one_reply_group]: for every fuel, configuration, backend script
      (three-digit codes) and every schedule: the trace splits at the ECmd
      events into the greeting (one group 220) and one block per command whose
      groups have the shape of its verb, n being the number of recipients
      accepted in the open transaction; after the last command at most one
      closing reply of the loop (500 line too long / 421) and then only the
      events of Close ([trailer]).  Lines consumed inside an AUTH exchange, a
      DATA message, a BDAT chunk or a failed TLS handshake are not commands.
      [C04_nothing_after_close] (= C08): nothing is written after Close.
      [C04_rendered]: every EWire of a trace is the output of ONE writeResponse
      call with a three-digit code (by inspection of the model, handler by
      handler: the relation [Rn]).

   2. Verdict attribution, sequential part.
      [C04_verdict_data]: a Data call returning [ret] is followed IMMEDIATELY
      by the reply rendered from [data_error_to_status ret] (SMTP; LMTP with a
      plain backend: one per recipient); 421 after a panic.
      [C04_verdict_bdat]: the first reply to a BDAT command is, for an
      accepted LAST chunk, rendered from the value of the ONE delivery
      recorded since the EBdatStart of THIS transfer; a failed chunk reports
      that delivery's error / its own read error; the delivery of an earlier
      or aborted transfer precedes the EBdatStart and cannot be reported.
      [C04_verdict_bdat_positive]: in particular the reply renders nil (250 OK:
      queued) only if this transfer's delivery returned nil without panic.
      The model runs the delivery goroutine in lock step with the command loop;
      its completion at arbitrary times (finding F4) is the subject of the
      interleaving model of C20, not of these theorems.

   3. Well-formedness.
      [C04_wf_partial]: if the backend's errors are class-consistent with
      printable texts ([backend_replies_ok]), the server's own names are
      printable ([cfg_texts_ok]) and the client octets echoed in replies are
      printable ([echo_ok] for every consumed command line), every reply on
      the wire passes the strict RFC 5321 recogniser [reply_wf] and, unless it
      is the greeting, an EHLO reply or a 3xx reply, carries on every line an
      enhanced code of the class of the reply code.
      [C04_wf_refuted] (known finding F22): without the echo hypothesis the
      claim is false - "EHLO a<CR>b" is answered with a bare CR on the wire.

   Not proved here: that the hypothesis [echo_ok] follows from "the command
   line is printable ASCII" (it is stated directly on the echoed pieces, as a
   decidable predicate of the line); LMTP verdicts per recipient (C13). *)
From Smtp Require Import Bytes GoStrings Transport DataReader Parse Reply Lmtp Conn ReplySpec CheckOracle.
From Smtp Require Import Order OrderStrict ConnProofs TraceProps ReplyGroups ReplyVerdict ReplyWf.

(* ---------- 1. count and order ---------- *)

Theorem C04_one_group_per_write code ec texts :
  (100 <= code <= 999)%Z -> reply_codes (write_response code ec texts) = [Z.to_N code].
Proof. exact (reply_codes_write_response code ec texts). Qed.
Print Assumptions C04_one_group_per_write.

Theorem C04_one_group_per_error code ec e :
  (100 <= code <= 999)%Z -> e <> BNil -> berr_code_ok e = true ->
  reply_codes (write_error code ec e) = [Z.to_N (berr_code code e)].
Proof. exact (reply_codes_write_error code ec e). Qed.
Print Assumptions C04_one_group_per_error.

Theorem C04_one_group_per_status a e :
  berr_code_ok e = true -> codes_of [status_reply a e] = [Z.to_N (status_code e)].
Proof. exact (reply_codes_status_reply a e). Qed.
Print Assumptions C04_one_group_per_status.

Theorem C04_handler_groups cfg c cmd arg :
  Inv c -> c_closed c = false -> CI c ->
  group_shape cfg (List.length (c_rcpts c)) (verb_of_cmd cmd) arg
              (codes_of (snd (handle cfg c cmd arg))) (c_closed (fst (handle cfg c cmd arg)))
  /\ CI (fst (handle cfg c cmd arg)).
Proof. exact (handle_group_codes cfg c cmd arg). Qed.
Print Assumptions C04_handler_groups.

Theorem C04_unparsable_groups c :
  CI c ->
  shape_other (codes_of (snd (protocol_error c 501 (5, 5, 2)%Z (bs "Bad command"))))
              (c_closed (fst (protocol_error c 501 (5, 5, 2)%Z (bs "Bad command"))))
  /\ CI (fst (protocol_error c 501 (5, 5, 2)%Z (bs "Bad command"))).
Proof. exact (unparsable_group_codes c). Qed.
Print Assumptions C04_unparsable_groups.

Theorem C04_auth_groups cfg c arg :
  Inv c -> c_closed c = false -> CI c ->
  shape_auth_x c (codes_of (snd (handle_auth cfg c arg))).
Proof. exact (handle_auth_codes cfg c arg). Qed.
Print Assumptions C04_auth_groups.

Theorem C04_one_reply_group fuel cfg be phases :
  backend_codes_ok be = true ->
  let B := blocks_from 0 (serve fuel cfg be phases) in
  (exists tl, fst B = greeting cfg :: tl /\ codes_of [greeting cfg] = [220%N]
              /\ match snd B with [] => trailer false tl | _ :: _ => tl = [] end)
  /\ blocks_ok cfg (snd B).
Proof. exact (serve_groups fuel cfg be phases). Qed.
Print Assumptions C04_one_reply_group.

Theorem C04_blocks_are_the_trace n tr :
  tr = fst (blocks_from n tr)
       ++ flat_map (fun '(_, line, ev) => ECmd line :: ev) (snd (blocks_from n tr)).
Proof. exact (blocks_from_flatten n tr). Qed.
Print Assumptions C04_blocks_are_the_trace.

Theorem C04_nothing_after_close fuel cfg be phases :
  C08_nothing_after_close (serve fuel cfg be phases).
Proof. exact (serve_C08_nothing_after_close fuel cfg be phases). Qed.
Print Assumptions C04_nothing_after_close.

Theorem C04_rendered fuel cfg be phases :
  backend_codes_ok be = true ->
  forall b, In (EWire b) (serve fuel cfg be phases) -> is_rendered b.
Proof. exact (serve_rendered fuel cfg be phases). Qed.
Print Assumptions C04_rendered.

(* ---------- 2. verdict attribution ---------- *)

Theorem C04_verdict_data fuel cfg be phases : data_adj cfg (serve fuel cfg be phases).
Proof. exact (serve_data_verdict fuel cfg be phases). Qed.
Print Assumptions C04_verdict_data.

Theorem C04_verdict_bdat fuel cfg be phases pre line post :
  serve fuel cfg be phases = pre ++ ECmd line :: post ->
  cf_lmtp cfg = false -> fst (line_verb line) = VBdat ->
  exists evA w evB,
    post = evA ++ EWire w :: evB /\ no_wire evA
    /\ bdat_verdict (deliveries_since_start (pre ++ ECmd line :: evA)) (bdat_last (snd (line_verb line))) w.
Proof. exact (serve_bdat_verdict fuel cfg be phases pre line post). Qed.
Print Assumptions C04_verdict_bdat.

Theorem C04_deliveries_since_start tr :
  deliveries_since_start tr
  = if existsb is_start tr then Some (filter is_deliv (since is_start tr)) else None.
Proof. exact (deliveries_since_start_since tr). Qed.
Print Assumptions C04_deliveries_since_start.

Theorem C04_verdict_bdat_positive st w :
  bdat_verdict st true w ->
  exists e code ec msg,
    data_error_to_status e = (code, ec, msg) /\ w = write_response code ec [msg]
    /\ (e = BNil -> exists g t, st = Some [EDelivery g t BNil false])
    /\ ((exists g t r p, st = Some [EDelivery g t r p] /\ (e = delivered r p \/ e = pipe_err (delivered r p)))
        \/ (exists te, e = berr_of_rerr (rerr_of_copy te))
        \/ In (code, ec, msg) bdat_refusals).
Proof. exact (bdat_verdict_last st w). Qed.
Print Assumptions C04_verdict_bdat_positive.

(* ---------- 3. well-formedness ---------- *)

Theorem C04_wf_partial fuel cfg be phases :
  backend_replies_ok be = true -> cfg_texts_ok cfg = true ->
  (forall line, In (ECmd line) (serve fuel cfg be phases) -> echo_ok line = true) ->
  forall b, In (EWire b) (serve fuel cfg be phases) ->
    reply_wf b = true /\ (reply_ec_class_ok b = true \/ exempt cfg b).
Proof. exact (serve_wf_partial fuel cfg be phases). Qed.
Print Assumptions C04_wf_partial.

Theorem C04_wf_refuted :
  exists fuel cfg be phases b,
    backend_replies_ok be = true /\ cfg_texts_ok cfg = true
    /\ In (EWire b) (serve fuel cfg be phases) /\ reply_wf b = false.
Proof. exact C04Refuted.serve_wf_refuted. Qed.
Print Assumptions C04_wf_refuted.

(* ---------- non-vacuity ---------- *)

(* a pipelined conversation - EHLO, an unknown command, MAIL, RCPT x2, DATA +
   message (refused by the backend: 554), MAIL, RCPT, BDAT x2, AUTH with one
   334 step, garbage lines up to the error threshold - and the same octets one
   per raw read: the reply groups per command *)
Example C04_witness :
  backend_codes_ok C04Example.be = true
  /\ C04Example.show_blocks (serve 40 C04Example.cfg C04Example.be [[C04Example.raw_of C04Example.stream]])
     = C04Example.expected
  /\ C04Example.show_blocks (serve 40 C04Example.cfg C04Example.be
                               [map (fun c => RData c []) C04Example.stream])
     = C04Example.expected.
Proof. exact (conj C04Example.hypotheses (conj C04Example.pipelined C04Example.octet_by_octet)). Qed.

(* the hypotheses of C04_wf_partial hold on that conversation *)
Example C04_wf_witness :
  backend_replies_ok C04Example.be = true /\ cfg_texts_ok C04Example.cfg = true
  /\ forallb (fun e => match e with ECmd l => echo_ok l | _ => true end)
             (serve 40 C04Example.cfg C04Example.be [[C04Example.raw_of C04Example.stream]]) = true
  /\ forallb (fun e => match e with EWire b => reply_wf b | _ => true end)
             (serve 40 C04Example.cfg C04Example.be [[C04Example.raw_of C04Example.stream]]) = true.
Proof. exact C04Refuted.wf_hypotheses. Qed.


(* ---------------- obligations over the reply-site table regenerated from /repo on every run ---------------- *)
From Smtp Require Import ReplySitesProofs.
From SmtpGen Require Import ReplySites.

(* every literal reply of the source has a reply code in 200..599 and an enhanced code of its class
   (or leaves it to writeResponse's defaulting; NoEnhancedCode only for greeting, EHLO reply and 3xx) *)
Theorem C04_sites_class_ok : forallb site_class_ok reply_sites = true.
Proof. exact sites_class_ok. Qed.
Print Assumptions C04_sites_class_ok.

(* the model and the source contain the same reply literals (code, enhanced code, text) *)
Theorem C04_code_replies_in_model : unmatched_sites = nil.
Proof. exact every_code_reply_is_in_the_model. Qed.
Print Assumptions C04_code_replies_in_model.

Theorem C04_model_replies_in_code : unmatched_model = nil.
Proof. exact every_model_reply_is_in_the_code. Qed.
Print Assumptions C04_model_replies_in_code.
