(* C01 - DATA body reaches the backend byte-exact after RFC 5321 dot-unstuffing.

   For every transport state t (octets buffered + any schedule of future raw
   reads: this is the quantification over all segmentations) on which the
   line-length limiter stays quiet, and every list of backend read-buffer
   sizes: what the backend reads from the DATA reader is exactly the
   line-wise specification [unstuff] of the octet stream - the stream up to
   its first end marker with one leading dot removed per line, every other
   octet unchanged and in order - followed by io.EOF, and the transport is
   left exactly at the octet after the marker.  If the stream has no end
   marker the reader fails with the schedule's error (never EOF) after
   delivering the specified octets (at most one withheld CR short). *)
From Smtp Require Import Bytes Transport DataReader DotSpec TransportProofs DataProofs DotSpecOrder.

Theorem C01_byte_exact (t : transport) (sizes : list nat) :
  transparent t ->
  let '(out, e, d', t') := backend_reads sizes None (new_data_reader 0) t in
  match unstuff (tstream t) with
  | Complete body rest =>
      out = body /\ e = Some REOF /\ tstream t' = rest /\ transparent t' /\
      tterm t' = tterm t /\ t_limit t' = t_limit t
  | Incomplete body =>
      e = Some (rerr_of_terr (tterm t)) /\
      exists w, body = out ++ w /\ List.length w <= 1
  end.
Proof. exact (data_byte_exact t sizes). Qed.
Print Assumptions C01_byte_exact.

Theorem C01_schedule_and_read_size_independent
  (t1 t2 : transport) (sizes1 sizes2 : list nat) body rest :
  transparent t1 -> transparent t2 ->
  unstuff (tstream t1) = Complete body rest -> tstream t2 = tstream t1 ->
  let '(out1, e1, _, t1') := backend_reads sizes1 None (new_data_reader 0) t1 in
  let '(out2, e2, _, t2') := backend_reads sizes2 None (new_data_reader 0) t2 in
  out1 = body /\ out2 = body /\ e1 = Some REOF /\ e2 = Some REOF /\
  tstream t1' = rest /\ tstream t2' = rest.
Proof. exact (data_schedule_independent t1 t2 sizes1 sizes2 body rest). Qed.
Print Assumptions C01_schedule_and_read_size_independent.

(* "every other octet unchanged and in order", stated without reference to the
   specification function: whatever the schedule and the read sizes, what the
   backend has read is an order-preserving subsequence of the octets of the
   stream (nothing invented, duplicated or reordered); once it has seen
   io.EOF, of exactly the octets the reader consumed from the transport, of
   which at least three (the end marker) were not delivered. *)
Theorem C01_no_octet_invented (t : transport) (sizes : list nat) :
  transparent t ->
  let '(out, e, d', t') := backend_reads sizes None (new_data_reader 0) t in
  subseq out (tstream t) /\
  (e = Some REOF ->
   exists m, tstream t = m ++ tstream t' /\ subseq out m /\
             List.length out + 3 <= List.length m).
Proof. exact (data_no_octet_invented t sizes). Qed.
Print Assumptions C01_no_octet_invented.

(* spec level: the body plus the marker plus the unread rest never exceed the stream *)
Theorem C01_body_shorter_than_stream s body rest :
  unstuff s = Complete body rest ->
  List.length body + 3 + List.length rest <= List.length s.
Proof. exact (unstuff_body_shorter s body rest). Qed.
Print Assumptions C01_body_shorter_than_stream.


(* non-vacuity: a concrete two-segment schedule under a line limit satisfies
   the hypothesis, and the theorem's conclusion is the expected one *)
Example C01_witness :
  let t := mkT [] [RData "a" (bs "b" ++ [CR; LF] ++ bs ".."); RData "x" ([CR; LF] ++ bs "." ++ [CR; LF] ++ bs "NOOP")]
               0%N 10%N false in
  transparent t /\
  unstuff (tstream t) = Complete (bs "ab" ++ [CR; LF] ++ bs ".x" ++ [CR; LF]) (bs "NOOP").
Proof. cbv. repeat split; reflexivity. Qed.
