package harness

import (
	smtp "github.com/emersion/go-smtp"
)

func runTLSConvImpl(s *smtp.Server, be *RecBackend, c ConvCase) [][]Raw {
	// TODO real TLS; for now plaintext phase only (TLSConfig left nil)
	sc := NewScriptConn(c.Phases[0])
	sc.OnWrite = be.AddWire
	serveOne(s, sc)
	return [][]Raw{append(append([]Raw(nil), sc.Log...), sc.Remaining()...)}
}
