package harness

import (
	"context"
	"fmt"
	"math/rand"
	"net"
	"regexp"
	"strings"
	"sync"
	"time"

	smtp "github.com/emersion/go-smtp"
)

// Kind tmo: Server.ReadTimeout expires INSIDE a message body.
//
// The scripted connections of the conv kinds deliver a read failure once and then go on with the
// rest of the schedule.  A real net.Conn does not: once the read deadline has passed EVERY Read
// fails at once until the deadline is armed again - which the command loop does before it reads the
// next line.  So after a time-out inside a DATA message or a BDAT chunk the drain of the rest of the
// message fails immediately, and a server that then went back to its command loop would execute the
// rest of the message as commands when the client resumes sending (finding F30).
//
// Here the REAL server (smtp.NewServer, ReadTimeout set) serves on a real TCP loopback listener (and,
// for some cases, on a net.Pipe, whose deadlines are sticky in the same way).  The scripted client
// sends, in ONE write, a complete prelude (greeting .. DATA / BDAT line) and the first part of the
// message, then stops.  In the "expire" cases it waits until the server has answered the message with
// its error reply (refused chunks are answered before they are discarded: there the client waits until
// the harness' passive tap on the server's side of the connection has seen the first Read fail with a
// time-out) - no fixed sleep is involved, the server's own clock decides - and then at once sends the
// rest: bait command lines, the end of the message, and commands.  In the "control" cases the client
// pauses for much less than the time-out (120 ms against 3 s) and sends the same rest: nothing fails,
// the message is delivered completely and the commands behind it are executed.
//
// No model is run for this kind: the recorded wire and backend callbacks (same encoding as the conv
// kinds) are judged by the oracles of CheckOracle.v and by the expectations stated here.

// tapConn is the server's side of the connection, observed passively: what the server writes is
// appended to the event record (in order with the backend's callbacks), and the first Read that fails
// with a time-out is signalled.  Nothing is altered.
type tapConn struct {
	net.Conn
	be       *RecBackend
	once     sync.Once
	timedOut chan struct{}
	conce    sync.Once
	closed   chan struct{}
}

func (c *tapConn) Read(b []byte) (int, error) {
	n, err := c.Conn.Read(b)
	if ne, ok := err.(net.Error); ok && ne.Timeout() {
		c.once.Do(func() { close(c.timedOut) })
	}
	return n, err
}

func (c *tapConn) Write(b []byte) (int, error) {
	c.be.AddWire(canonAddr(b))
	return c.Conn.Write(b)
}

func (c *tapConn) Close() error {
	err := c.Conn.Close()
	c.conce.Do(func() { close(c.closed) })
	return err
}

// the error text of a timed-out read on a TCP connection names both endpoints (with the ephemeral
// port): replaced by a fixed text in the RECORD, so that case lines are reproducible
var addrRe = regexp.MustCompile(`(read|write) (tcp|pipe|unix) [^ ]+->[^ ]*: `)

func canonAddr(b []byte) []byte { return addrRe.ReplaceAll(b, []byte("$1 $2: ")) }

func canonSx(s *Sx) *Sx {
	if s.IsL {
		l := L()
		for _, x := range s.List {
			l.Add(canonSx(x))
		}
		return l
	}
	if strings.HasPrefix(s.Atom, "other:") {
		// ErrKind of an error that is not one of the scripted ones (a real time-out is a *net.OpError)
		if strings.Contains(s.Atom, "i/o timeout") {
			return A("timeout")
		}
		return A("err")
	}
	if len(s.Atom) > 1 && s.Atom[0] == 'x' {
		if raw, ok := unhex(s.Atom[1:]); ok {
			return X(canonAddr(raw))
		}
	}
	return s
}

func unhex(h string) ([]byte, bool) {
	if len(h)%2 != 0 {
		return nil, false
	}
	out := make([]byte, len(h)/2)
	for i := 0; i < len(out); i++ {
		var v byte
		for _, c := range []byte(h[2*i : 2*i+2]) {
			switch {
			case c >= '0' && c <= '9':
				v = v<<4 | (c - '0')
			case c >= 'a' && c <= 'f':
				v = v<<4 | (c - 'a' + 10)
			default:
				return nil, false
			}
		}
		out[i] = v
	}
	return out, true
}

type tapListener struct {
	net.Listener
	be  *RecBackend
	tap chan *tapConn
}

func (l *tapListener) Accept() (net.Conn, error) {
	c, err := l.Listener.Accept()
	if err != nil {
		return nil, err
	}
	t := &tapConn{Conn: c, be: l.be, timedOut: make(chan struct{}), closed: make(chan struct{})}
	l.tap <- t
	return t, nil
}

// pipeListener hands out the server end of one net.Pipe.
type pipeListener struct {
	conn net.Conn
	mu   sync.Mutex
	used bool
	done chan struct{}
	once sync.Once
}

func (l *pipeListener) Accept() (net.Conn, error) {
	l.mu.Lock()
	if !l.used {
		l.used = true
		l.mu.Unlock()
		return l.conn, nil
	}
	l.mu.Unlock()
	<-l.done
	return nil, net.ErrClosed
}
func (l *pipeListener) Close() error   { l.once.Do(func() { close(l.done) }); return nil }
func (l *pipeListener) Addr() net.Addr { return fakeAddr{} }

// tmoClient reads whatever the server sends, all the time.
type tmoClient struct {
	c      net.Conn
	mu     sync.Mutex
	buf    []byte
	closed bool // the server's end is gone: EOF or a connection error
	ch     chan struct{}
}

func (cl *tmoClient) reader() {
	b := make([]byte, 4096)
	for {
		n, err := cl.c.Read(b)
		cl.mu.Lock()
		cl.buf = append(cl.buf, b[:n]...)
		if err != nil {
			cl.closed = true
		}
		cl.mu.Unlock()
		select {
		case cl.ch <- struct{}{}:
		default:
		}
		if err != nil {
			return
		}
	}
}

// wait until pred holds (or the connection is gone), at most d.
func (cl *tmoClient) wait(pred func(buf []byte) bool, d time.Duration) bool {
	deadline := time.After(d)
	for {
		cl.mu.Lock()
		ok := pred(cl.buf) || cl.closed
		cl.mu.Unlock()
		if ok {
			return true
		}
		select {
		case <-cl.ch:
		case <-deadline:
			return false
		}
	}
}

// finalReplies counts the complete reply lines "ddd<SP>..." / "ddd" in buf.
func finalReplies(buf []byte) int {
	n := 0
	for _, l := range strings.SplitAfter(string(buf), "\n") {
		if !strings.HasSuffix(l, "\n") {
			break
		}
		if len(l) >= 4 && l[3] == '-' {
			continue
		}
		n++
	}
	return n
}

type tmoCase struct {
	name    string
	cfg     Cfg
	plan    DataPlan
	pipe    bool   // net.Pipe instead of TCP
	expire  bool   // the client waits for the time-out; otherwise a short pause (control)
	refused bool   // the chunk is refused before it is read: the reply comes first, the failure later
	first   string // prelude and first part of the message, one write
	rest    string // sent after the failure / the pause
	nBefore int    // final replies the first write earns without the message's own reply
	nFinal  int    // final replies of the message itself
	focus   string
	extra   []*Sx
	codes   []int
	// slow: a control in which the Rcpt callback takes tmoSlowRcpt, the client waits for the 354 and then
	// pauses tmoSlowPause before the rest: each wait is shorter than the time-out (tmoSlowTimeout), their sum
	// is longer - the deadline must have been re-armed when the DATA command was read
	slow bool
	// slowcb: a control in which a backend callback takes longer than ReadTimeout (and WriteTimeout is unset);
	// the client sends everything at once and only reads
	slowcb bool
	// segs: a control in which the client, after the first write, sends these segments tmoSegPause apart without
	// waiting for any reply (a pipelining client on a slow link), then `rest`; the time-out is tmoSlowTimeout:
	// every pause is far shorter, the whole transfer longer
	segs []string
}

const (
	tmoTimeout     = 220 * time.Millisecond  // expire cases
	tmoCtlTimeout  = 3000 * time.Millisecond // control cases: same scripts, nothing may expire
	tmoCtlPause    = 120 * time.Millisecond
	tmoClientGuard = 6 * time.Second
	tmoSlowTimeout = 1600 * time.Millisecond
	tmoSlowRcpt    = 1000 * time.Millisecond
	tmoSlowPause   = 1000 * time.Millisecond
	tmoSegPause    = 450 * time.Millisecond
)

func runTmo(tc tmoCase) *Sx {
	be := &RecBackend{script: Script{Data: []DataPlan{tc.plan}}, LMTPSess: tc.cfg.LMTPSession, NoSync: true}
	s := smtp.NewServer(be)
	lg := &logWriter{}
	s.ErrorLog = lg
	s.Domain = tc.cfg.Domain
	s.LMTP = tc.cfg.LMTP
	s.MaxMessageBytes = tc.cfg.MaxBytes
	s.MaxLineLength = tc.cfg.MaxLine
	tmo := tmoTimeout
	if !tc.expire {
		tmo = tmoCtlTimeout
	}
	if tc.slow {
		tmo = tmoSlowTimeout
		be.RcptDelay = tmoSlowRcpt
		// a write time-out much shorter than every wait of this case: it bounds writes, not reads
		s.WriteTimeout = 300 * time.Millisecond
	}
	if len(tc.segs) > 0 {
		tmo = tmoSlowTimeout
	}
	if tc.slowcb {
		// the Rcpt callback takes longer than the READ time-out while nothing is being read: no harm
		tmo = 400 * time.Millisecond
		be.RcptDelay = 900 * time.Millisecond
	}
	s.ReadTimeout = tmo

	var client net.Conn
	var tap *tapConn
	var l net.Listener
	var tapc chan *tapConn
	if tc.pipe {
		a, b := net.Pipe()
		tap = &tapConn{Conn: b, be: be, timedOut: make(chan struct{}), closed: make(chan struct{})}
		l = &pipeListener{conn: tap, done: make(chan struct{})}
		client = a
	} else {
		tl, err := net.Listen("tcp", "127.0.0.1:0")
		if err != nil {
			return L(A("tmo"), L(A("name"), A(tc.name)), L(A("obs"), L(A("listen-error"))))
		}
		tapc = make(chan *tapConn, 1)
		l = &tapListener{Listener: tl, be: be, tap: tapc}
		c, err := net.Dial("tcp", tl.Addr().String())
		if err != nil {
			tl.Close()
			return L(A("tmo"), L(A("name"), A(tc.name)), L(A("obs"), L(A("dial-error"))))
		}
		client = c
	}
	served := make(chan struct{})
	go func() { s.Serve(l); close(served) }()
	if tapc != nil {
		select {
		case tap = <-tapc:
		case <-time.After(tmoClientGuard):
			client.Close()
			s.Close()
			return L(A("tmo"), L(A("name"), A(tc.name)), L(A("obs"), L(A("accept-error"))))
		}
	}
	return finishTmo(tc, be, s, lg, client, tap, served)
}

func finishTmo(tc tmoCase, be *RecBackend, s *smtp.Server, lg *logWriter, client net.Conn, tap *tapConn, served chan struct{}) *Sx {
	cl := &tmoClient{c: client, ch: make(chan struct{}, 1)}
	go cl.reader()
	step := "greeting"
	ok := cl.wait(func(b []byte) bool { return finalReplies(b) >= 1 }, tmoClientGuard)
	if ok {
		step = "first-write"
		client.SetWriteDeadline(time.Now().Add(tmoClientGuard))
		_, err := client.Write([]byte(tc.first))
		ok = err == nil
	}
	if ok {
		if tc.expire {
			step = "error-reply"
			want := 1 + tc.nBefore + tc.nFinal
			ok = cl.wait(func(b []byte) bool { return finalReplies(b) >= want }, tmoClientGuard)
			if ok && tc.refused {
				// the refusal was sent before the chunk is discarded: wait until the server's read has failed
				step = "server-timeout"
				select {
				case <-tap.timedOut:
				case <-tap.closed:
				case <-time.After(tmoClientGuard):
					ok = false
				}
			}
		} else if len(tc.segs) > 0 {
			step = "segments"
			for _, sg := range tc.segs {
				time.Sleep(tmoSegPause)
				client.SetWriteDeadline(time.Now().Add(tmoClientGuard))
				if _, err := client.Write([]byte(sg)); err != nil {
					break // the server has closed: the judges see what was received
				}
			}
			time.Sleep(tmoSegPause)
		} else if tc.slowcb {
			// nothing to wait for: the rest follows at once
		} else if tc.slow {
			step = "go-ahead"
			want := 1 + tc.nBefore
			ok = cl.wait(func(b []byte) bool { return finalReplies(b) >= want }, tmoClientGuard)
			time.Sleep(tmoSlowPause)
		} else {
			time.Sleep(tmoCtlPause)
		}
	}
	cl.mu.Lock()
	mark := len(cl.buf)
	cl.mu.Unlock()
	if ok {
		step = "rest"
		client.SetWriteDeadline(time.Now().Add(tmoClientGuard))
		client.Write([]byte(tc.rest)) // fails when the server has closed: that is the point
		step = "close"
		ok = cl.wait(func(b []byte) bool { return false }, tmoClientGuard)
		if ok {
			step = "done"
		}
	}
	cl.mu.Lock()
	closed := cl.closed
	after := append([]byte(nil), cl.buf[mark:]...)
	received := append([]byte(nil), cl.buf...)
	cl.mu.Unlock()
	client.Close()
	ctx, cancel := context.WithTimeout(context.Background(), tmoClientGuard)
	err := s.Shutdown(ctx)
	cancel()
	if err != nil {
		s.Close()
	}
	select {
	case <-served:
	case <-time.After(tmoClientGuard):
	}
	// a chunked transfer's delivery goroutine ends on its own once the pipe is closed
	wdone := make(chan struct{})
	go func() { be.wg.Wait(); close(wdone) }()
	waited := true
	select {
	case <-wdone:
	case <-time.After(tmoClientGuard):
		waited = false
	}
	be.mu.Lock()
	evs := L()
	for _, e := range be.Events {
		evs.Add(canonSx(e))
	}
	dl := L()
	for _, d := range be.Deliveries {
		dl.Add(canonSx(d))
	}
	be.mu.Unlock()
	ex := []*Sx{A("expect"), L(A("focus"), A(tc.focus))}
	cs := L()
	for _, c := range tc.codes {
		cs.Add(Num(int64(c)))
	}
	ex = append(ex, L(A("expect-codes"), cs))
	if tc.cfg.LMTP {
		ex = append(ex, L(A("for"), A("C13"), L(A("expect-codes"), cs)))
	}
	ex = append(ex, tc.extra...)
	transport := "tcp"
	if tc.pipe {
		transport = "pipe"
	}
	return L(A("tmo"), L(A("name"), A(tc.name)), tc.cfg.Sx(), L(A("transport"), A(transport)), L(A("expire"), B(tc.expire)),
		L(A("timeout-ms"), Num(int64(s.ReadTimeout/time.Millisecond))),
		L(A("first"), XS(tc.first)), L(A("rest"), XS(tc.rest)),
		L(A("obs"), L(A("events"), evs), L(A("deliveries"), dl),
			L(A("panics"), Num(int64(lg.count("panic serving")))),
			L(A("step"), A(step)), L(A("closed"), B(closed)), L(A("after"), X(canonAddr(after))), L(A("received"), X(canonAddr(received))),
			L(A("waited"), B(waited)), L(A("served"), B(err == nil))),
		L(ex...))
}

// GenTmo: {DATA, accepted BDAT chunk (LAST, not LAST), refused BDAT chunk (no recipient, no MAIL, bad
// second argument, over the size limit)} x {SMTP, LMTP, LMTP with per-recipient backend} x {time-out,
// control} x {TCP loopback, net.Pipe (a subset)}; the place where the client stops is drawn from rng.
func GenTmo(rng *rand.Rand, thorough bool, emit func(*Sx)) {
	var cases []tmoCase
	rounds := 1
	if thorough {
		rounds = 4
	}
	type flavour struct {
		name       string
		lmtp, sess bool
	}
	flavours := []flavour{{"smtp", false, false}, {"lmtp", true, false}, {"lmtps", true, true}}
	after := "RSET\r\nMAIL FROM:<after@ok>\r\nNOOP\r\nQUIT\r\n"
	afterCodes := []int{250, 250, 250, 221}
	for round := 0; round < rounds; round++ {
		for _, fl := range flavours {
			cfg := DefaultCfg()
			cfg.LMTP, cfg.LMTPSession = fl.lmtp, fl.sess
			hello, nr := "EHLO c.example\r\n", 1
			rcpts := "RCPT TO:<r1@ok>\r\n"
			if fl.lmtp {
				hello, nr = "LHLO c.example\r\n", 2
				rcpts += "RCPT TO:<r2@ok>\r\n"
			}
			env := hello + "MAIL FROM:<s@ok>\r\n" + rcpts
			envCodes := []int{220, 250, 250}
			for i := 0; i < nr; i++ {
				envCodes = append(envCodes, 250)
			}
			rep := func(code, n int) []int {
				var l []int
				for i := 0; i < n; i++ {
					l = append(l, code)
				}
				return l
			}
			cat := func(ls ...[]int) []int {
				var out []int
				for _, l := range ls {
					out = append(out, l...)
				}
				return out
			}
			// ---- DATA ----
			head := "Subject: t\r\n\r\nline one of the message\r\n"
			bait := "MAIL FROM:<bait@evil>\r\nRCPT TO:<victim@x>\r\n"
			body := head + bait + "last line\r\n"
			for _, stop := range []bool{false, true} {
				if stop && (fl.lmtp || round > 0) {
					continue
				}
				for _, pipe := range []bool{false, true} {
					if pipe && (stop || round > 0) {
						continue
					}
					for _, expire := range []bool{true, false} {
						// the client stops at the line boundary in front of the bait lines, or inside the line before
						k := len(head)
						if rng.Intn(2) == 0 {
							k = len(head) - 1 - rng.Intn(12)
						}
						tc := tmoCase{cfg: cfg, plan: DefaultPlan(), pipe: pipe, expire: expire, focus: "C02",
							first: env + "DATA\r\n" + body[:k], rest: body[k:] + ".\r\n" + after,
							nBefore: len(envCodes) - 1 + 1, nFinal: nr}
						if !fl.lmtp {
							tc.nFinal = 1
						}
						tc.name = fmt.Sprintf("data-%s", fl.name)
						if stop {
							// the backend reads 5 octets and accepts: the time-out hits the server's own drain
							tc.plan.Stop = 5
							tc.plan.Sizes = []int{5}
							tc.name += "-stop"
						}
						pre := cat(envCodes, []int{354})
						tc.extra = append(tc.extra, L(A("for"), A("C02"), L(A("must-not-mail"), XS("bait@evil"))),
							L(A("for"), A("C02"), L(A("must-not-mail"), XS("victim@x"))))
						if expire {
							final := 554
							if stop {
								final = 250
							}
							tc.codes = cat(pre, rep(final, tc.nFinal))
							tc.extra = append(tc.extra, L(A("must-not-mail"), XS("after@ok")))
							if !stop {
								tc.extra = append(tc.extra, L(A("for"), A("C07"), L(A("forbid-eof"))),
									L(A("msg-negative"), Num(int64(len(pre))), Num(int64(tc.nFinal))))
							}
						} else {
							tc.codes = cat(pre, rep(250, tc.nFinal), afterCodes)
							tc.extra = append(tc.extra, L(A("must-mail"), XS("after@ok")))
							if stop {
								tc.extra = append(tc.extra, L(A("expect-data"), XS(body[:5]), A("nil")))
							} else {
								tc.extra = append(tc.extra, L(A("expect-data"), XS(body), A("eof")))
							}
						}
						cases = append(cases, tc)
					}
				}
			}
			// ---- DATA, slow but never idle for a whole time-out (control) ----
			if round == 0 {
				k := len(head)
				tc := tmoCase{cfg: cfg, plan: DefaultPlan(), slow: true, focus: "C02",
					first: env + "DATA\r\n" + body[:k], rest: body[k:] + ".\r\n" + after,
					nBefore: len(envCodes) - 1 + 1, nFinal: nr, name: fmt.Sprintf("data-%s-slow", fl.name)}
				if !fl.lmtp {
					tc.nFinal = 1
				}
				tc.codes = cat(envCodes, []int{354}, rep(250, tc.nFinal), afterCodes)
				tc.extra = append(tc.extra, L(A("must-mail"), XS("after@ok")), L(A("for"), A("C01"), L(A("expect-data"), XS(body), A("eof"))),
					L(A("for"), A("C02"), L(A("must-not-mail"), XS("bait@evil"))))
				cases = append(cases, tc)
			}
			if round == 0 {
				tc := tmoCase{cfg: cfg, plan: DefaultPlan(), slowcb: true, focus: "C02",
					first: env + "DATA\r\n" + body[:len(head)], rest: body[len(head):] + ".\r\n" + after,
					nBefore: len(envCodes) - 1 + 1, nFinal: nr, name: fmt.Sprintf("data-%s-slowcb", fl.name)}
				if !fl.lmtp {
					tc.nFinal = 1
				}
				tc.codes = cat(envCodes, []int{354}, rep(250, tc.nFinal), afterCodes)
				tc.extra = append(tc.extra, L(A("must-mail"), XS("after@ok")), L(A("for"), A("C17"), L(A("must-mail"), XS("after@ok"))),
					L(A("for"), A("C01"), L(A("expect-data"), XS(body), A("eof"))))
				cases = append(cases, tc)
			}
			// ---- BDAT, pipelined chunks on a slow link (control): every segment carries the tail of a chunk, the
			// next BDAT command and the head of the next chunk, so the server's buffer is never empty at a command
			// boundary; five pauses of tmoSegPause exceed the time-out, none of them comes near it
			if round == 0 {
				part := "0123456789abcdef0123456789abcdef0123456\r\n" // 41 octets
				var segs []string
				for i := 0; i < 5; i++ {
					segs = append(segs, part[20:]+"BDAT 41\r\n"+part[:20])
				}
				fin := 1
				if fl.lmtp {
					fin = nr
				}
				tc := tmoCase{cfg: cfg, plan: DefaultPlan(), focus: "C05", segs: segs,
					first: env + "BDAT 41\r\n" + part[:20], rest: part[20:] + "BDAT 0 LAST\r\n" + after,
					nBefore: len(envCodes) - 1, nFinal: fin, name: fmt.Sprintf("bdat-%s-pipelined-slow", fl.name)}
				tc.codes = cat(envCodes, rep(250, 6), rep(250, fin), afterCodes)
				tc.extra = append(tc.extra, L(A("must-mail"), XS("after@ok")), L(A("expect-del"), XS(strings.Repeat(part, 6))))
				cases = append(cases, tc)
			}
			// ---- BDAT, accepted chunk ----
			chead := "first part of the chunk\r\n"
			cbait := "MAIL FROM:<chunk@evil>\r\nRCPT TO:<victim@x>\r\n"
			payload := chead + cbait + "tail of the chunk\r\n"
			for _, last := range []bool{true, false} {
				for _, pipe := range []bool{false, true} {
					if pipe && (fl.lmtp || round > 0) {
						continue
					}
					for _, expire := range []bool{true, false} {
						k := len(chead)
						if rng.Intn(2) == 0 {
							k = len(chead) - 1 - rng.Intn(12)
						}
						line := fmt.Sprintf("BDAT %d", len(payload))
						fin := ""
						nFinal := 1
						if last {
							line += " LAST"
							if fl.lmtp {
								nFinal = nr
							}
						} else {
							fin = "BDAT 0 LAST\r\n"
						}
						tc := tmoCase{cfg: cfg, plan: DefaultPlan(), pipe: pipe, expire: expire, focus: "C05",
							first: env + line + "\r\n" + payload[:k], rest: payload[k:] + fin + after,
							nBefore: len(envCodes) - 1, nFinal: nFinal}
						tc.name = fmt.Sprintf("bdat-%s", fl.name)
						if last {
							tc.name += "-last"
						}
						tc.extra = append(tc.extra, L(A("for"), A("C05"), L(A("must-not-mail"), XS("chunk@evil"))),
							L(A("for"), A("C05"), L(A("must-not-mail"), XS("victim@x"))))
						if expire {
							tc.codes = cat(envCodes, rep(554, nFinal))
							tc.extra = append(tc.extra, L(A("must-not-mail"), XS("after@ok")),
								L(A("for"), A("C07"), L(A("forbid-eof"))),
								L(A("msg-negative"), Num(int64(len(envCodes))), Num(int64(nFinal))))
						} else {
							lastFinal := 1
							if fl.lmtp {
								lastFinal = nr
							}
							if last {
								tc.codes = cat(envCodes, rep(250, lastFinal), afterCodes)
							} else {
								tc.codes = cat(envCodes, []int{250}, rep(250, lastFinal), afterCodes)
							}
							tc.extra = append(tc.extra, L(A("must-mail"), XS("after@ok")), L(A("expect-del"), XS(payload)))
						}
						cases = append(cases, tc)
					}
				}
			}
			// ---- BDAT, refused chunk ----
			if fl.sess {
				continue // the refusals do not reach the backend
			}
			type refusal struct {
				name  string
				pre   string
				codes []int
				arg   string
				code  int
				max   int64
			}
			refusals := []refusal{
				{"norcpt", hello + "MAIL FROM:<s@ok>\r\n", []int{220, 250, 250}, " LAST", 502, 0},
				{"nomail", hello, []int{220, 250}, "", 502, 0},
				{"badarg", env, envCodes, " LAS", 501, 0},
				{"over", env, envCodes, " LAST", 552, 20},
			}
			for _, rf := range refusals {
				for _, pipe := range []bool{false, true} {
					if pipe && (fl.lmtp || round > 0 || rf.name != "norcpt") {
						continue
					}
					for _, expire := range []bool{true, false} {
						k := len(chead)
						if rng.Intn(2) == 0 {
							k = len(chead) - 1 - rng.Intn(12)
						}
						c2 := cfg
						c2.MaxBytes = rf.max
						tc := tmoCase{cfg: c2, plan: DefaultPlan(), pipe: pipe, expire: expire, refused: true, focus: "C05",
							first: rf.pre + fmt.Sprintf("BDAT %d%s\r\n", len(payload), rf.arg) + payload[:k], rest: payload[k:] + after,
							nBefore: len(rf.codes) - 1, nFinal: 1}
						tc.name = fmt.Sprintf("refused-%s-%s", rf.name, fl.name)
						tc.extra = append(tc.extra, L(A("for"), A("C05"), L(A("must-not-mail"), XS("chunk@evil"))),
							L(A("for"), A("C05"), L(A("must-not-mail"), XS("victim@x"))))
						if expire {
							tc.codes = cat(rf.codes, []int{rf.code})
							tc.extra = append(tc.extra, L(A("must-not-mail"), XS("after@ok")),
								L(A("for"), A("C07"), L(A("forbid-eof"))),
								L(A("msg-negative"), Num(int64(len(rf.codes))), Num(1)))
						} else {
							tc.codes = cat(rf.codes, []int{rf.code}, afterCodes)
							tc.extra = append(tc.extra, L(A("must-mail"), XS("after@ok")))
						}
						cases = append(cases, tc)
					}
				}
			}
		}
	}
	// all cases at once, each with its own server, listener and backend: the wall time is that of the
	// slowest one
	res := make([]*Sx, len(cases))
	var wg sync.WaitGroup
	sem := make(chan struct{}, 24)
	for i := range cases {
		wg.Add(1)
		sem <- struct{}{}
		go func(i int) {
			defer wg.Done()
			defer func() { <-sem }()
			tc := cases[i]
			if tc.pipe {
				tc.name += "-pipe"
			}
			if tc.expire {
				tc.name += "-expire"
			} else {
				tc.name += "-control"
			}
			res[i] = runTmo(tc)
		}(i)
	}
	wg.Wait()
	for _, r := range res {
		emit(r)
	}
}
