(* kind "reply": server reply rendering, client reply parsing and their
   composition (see harness/genreply.go for the case formats).

   Agreement: Reply.v / ClientReply.v against the recorded results of the
   real writeResponse / writeError / dataErrorToStatus / readResponse /
   toSMTPErr / parseEnhancedCode.

   Oracle (on the recorded behaviour only):
   C04  the recorded wire octets of a reply with code 200..599 and texts over
        HT / 0x20-0x7E / LF must be accepted by the strict RFC 5321
        recogniser [reply_wf]; when the enhanced code (after defaulting) is
        present, non-negative and of the code's class, also by
        [reply_ec_class_ok].
   C17  (a) on the wire: every line is "code sep ec SP text" with the error's
        own code, the defaulted enhanced code and the message's lines;
        (b) through the real client: where C17_roundtrip / C17_generic state
        equality (100 <= code <= 999, enhanced code not absent after
        defaulting, expectCode does not match) the recorded client error must
        be SMTPError{code, defaulted ec, message} resp. the generic 451 / 554
        error, the returned code the reply's, and the unread rest the octets
        that followed the reply. *)
From Smtp Require Import Bytes Sx CheckBase GoStrings Reply ClientReply ReplySpec.
Local Open Scope char_scope.

(* ---- decoding ---- *)

Definition dec_ec (l : list sx) : option ecode :=
  match assoc "ec" l with
  | Some [a; b; c] =>
      match sx_Z a, sx_Z b, sx_Z c with
      | Some x, Some y, Some z => Some (x, y, z)
      | _, _, _ => None
      end
  | _ => None
  end.

Definition dec_z (k : string) (l : list sx) : option Z :=
  match assoc1 k l with Some x => sx_Z x | None => None end.
Definition dec_b (k : string) (l : list sx) : option bytes :=
  match assoc1 k l with Some x => sx_bytes x | None => None end.

Definition dec_berr (l : list sx) : option berr :=
  match assoc1 "err" l with
  | Some (SL [t; c; SL ec; m]) =>
      if sx_is "smtp" t then
        match sx_Z c, dec_ec [SL ec], sx_bytes m with
        | Some c, Some ec, Some m => Some (BSmtp c ec m)
        | _, _, _ => None
        end
      else None
  | Some (SL [t; m]) =>
      if sx_is "plain" t then option_map BPlain (sx_bytes m) else None
  | Some x => if sx_is "nil" x then Some BNil else None
  | None => None
  end.

(* ---- rendering of model results ---- *)

Definition show_ec (ec : ecode) : sx :=
  let '(a, b, c) := ec in SL [XT "ec"; XZ a; XZ b; XZ c].

Definition show_cerr (e : cerr) : sx :=
  SL [XT "err";
      match e with
      | CNil => XT "nil"
      | CSmtp c ec m => SL [XT "smtp"; XZ c; show_ec ec; XB m]
      | CProto t => SL [XT "proto"; XB t]
      | CEof => XT "eof"
      end].

(* ---- specification side of the oracle ---- *)

(* "an unset enhanced code is sent as X.0.0 of the reply's class" *)
Definition spec_ec (code : Z) (ec : ecode) : ecode :=
  let '(a, b, c) := ec in
  if (a =? 0)%Z && (b =? 0)%Z && (c =? 0)%Z then
    if (200 <=? code)%Z && (code <? 300)%Z then (2, 0, 0)%Z
    else if (400 <=? code)%Z && (code <? 500)%Z then (4, 0, 0)%Z
    else if (500 <=? code)%Z && (code <? 600)%Z then (5, 0, 0)%Z
    else no_ec
  else ec.

Definition ec_absent (ec : ecode) : bool := ec_eqb ec no_ec.

Definition printable_text (m : bytes) : bool :=
  forallb (fun c => text_octet c || Ascii.eqb c LF) m.

Definition ec_class_consistent (code : Z) (ec : ecode) : bool :=
  let '(a, b, c) := ec in
  (a =? code / 100)%Z && (0 <=? b)%Z && (0 <=? c)%Z && (2 <=? a)%Z && (a <=? 5)%Z.

(* C04 on one recorded reply *)
Definition c04_viol (code : Z) (ec : ecode) (texts : list bytes) (wire : bytes) : list bytes :=
  if (200 <=? code)%Z && (code <=? 599)%Z && forallb printable_text texts
     && negb (match texts with [] => true | _ => false end) then
    if negb (reply_wf wire) then [bs "C04"]
    else if negb (ec_absent (spec_ec code ec)) && ec_class_consistent code (spec_ec code ec)
            && negb (reply_ec_class_ok wire) then [bs "C04"]
    else []
  else [].

Fixpoint drop_prefix (p s : bytes) : option bytes :=
  match p, s with
  | [], _ => Some s
  | x :: p', y :: s' => if Ascii.eqb x y then drop_prefix p' s' else None
  | _ :: _, [] => None
  end.

(* the wire's lines are "code sep [ec SP] text_i" and the texts are msg's lines *)
Definition wire_carries (code : Z) (ec : ecode) (msg wire : bytes) : bool :=
  match crlf_lines wire with
  | Some ls =>
      let n := List.length ls in
      let pre (i : nat) :=
        dec_of_Z code ++ (if Nat.eqb (S i) n then " " else "-") ::
        (if ec_absent ec then [] else ec_text ec ++ [" "]) in
      match map_opt (fun il => drop_prefix (pre (fst il)) (snd il))
                    (combine (seq 0 n) ls) with
      | Some ts => bytes_eqb (join [LF] ts) msg && negb (Nat.eqb n 0)
      | None => false
      end
  | None => false
  end.

(* C17 on the wire (texts without CR, so that the wire splits at CRLF only) *)
Definition c17_wire_viol (code : Z) (ec : ecode) (msg wire : bytes) : list bytes :=
  if (100 <=? code)%Z && (code <=? 999)%Z && negb (mem_byte CR msg) then
    if wire_carries code (spec_ec code ec) msg wire then [] else [bs "C17"]
  else [].

(* what the backend error must look like at the client *)
Definition expected_at_client (via_data : bool) (e : berr) : option (Z * ecode * bytes) :=
  match e with
  | BSmtp c ec m =>
      if (100 <=? c)%Z && (c <=? 999)%Z && negb (ec_absent (spec_ec c ec))
      then Some (c, spec_ec c ec, m) else None
  | BPlain m =>
      if via_data then Some (554, (5, 0, 0), bs "Error: transaction failed: " ++ m)%Z
      else Some (451, (4, 0, 0), m)%Z
  | BNil => None
  end.

(* ---- tags ---- *)

Definition line_looks_like_ec (l : bytes) : bool :=
  match cut_byte " " l with
  | Some (w, _) => snd (parse_enhanced_code w)
  | None => false
  end.

Definition msg_tags (m : bytes) : list bytes :=
  let ls := split_byte LF m in
  [match List.length ls with 1 => bs "lines1" | 2 => bs "lines2" | 3 => bs "lines3" | _ => bs "lines4plus" end]
  ++ (if existsb (fun l => match l with [] => true | _ => false end) ls then [bs "empty-line"] else [])
  ++ (if existsb (fun l => is_prefix [" "] l) ls then [bs "lead-space"] else [])
  ++ (if existsb (fun l => is_prefix [" "] (rev l)) ls then [bs "trail-space"] else [])
  ++ (if existsb line_looks_like_ec ls then [bs "ec-lookalike"] else [])
  ++ (if forallb is_ascii7 m then [] else [bs "non-ascii"])
  ++ (if printable_text m then [] else [bs "non-printable"]).

Definition ec_tag (ec : ecode) : bytes :=
  if ec_eqb ec ec_not_set then bs "ec-unset"
  else if ec_absent ec then bs "ec-absent" else bs "ec-set".

Definition berr_tags (e : berr) : list bytes :=
  match e with
  | BSmtp c ec m => [ec_tag ec] ++ msg_tags m
  | BPlain m => [bs "plain-error"] ++ msg_tags m
  | BNil => [bs "nil-error"]
  end.

(* ---- the sub-kinds ---- *)

Definition obs_is (model : sx) (obs : list sx) : bool := sx_eqb model (SL (XT "obs" :: obs)).

Definition check_render (p obs : list sx) : verdict :=
  match dec_z "code" p, dec_ec p, assoc1 "texts" p, dec_b "wire" obs with
  | Some code, Some ec, Some (SL tl), Some wire =>
      match map_opt sx_bytes tl with
      | Some texts =>
          let model := SL [XT "obs"; SL [XT "wire"; XB (write_response code ec texts)]] in
          mkV true (obs_is model obs) model
              (c04_viol code ec texts wire ++ c17_wire_viol code ec (join [LF] texts) wire) []
              ([bs "render"; ec_tag ec] ++ msg_tags (join [LF] texts))
      | None => bad_case
      end
  | _, _, _, _ => bad_case
  end.

Definition check_rendererr (p obs : list sx) : verdict :=
  match dec_z "code" p, dec_ec p, dec_berr p, dec_b "wire" obs with
  | Some code, Some ec, Some e, Some wire =>
      let model := SL [XT "obs"; SL [XT "wire"; XB (write_error code ec e)]] in
      let '(c', ec', m') :=
        match e with BSmtp c x m => (c, x, m) | BPlain m => (code, ec, m) | BNil => (code, ec, []) end in
      mkV true (obs_is model obs) model
          (c04_viol c' ec' [m'] wire ++ c17_wire_viol c' ec' m' wire) []
          ([bs "rendererr"] ++ berr_tags e)
  | _, _, _, _ => bad_case
  end.

Definition check_status (p obs : list sx) : verdict :=
  match dec_berr p, dec_z "code" obs, dec_ec obs, dec_b "msg" obs with
  | Some e, Some oc, Some oec, Some om =>
      let '(c, ec, m) := data_error_to_status e in
      let model := SL [XT "obs"; SL [XT "code"; XZ c]; show_ec ec; SL [XT "msg"; XB m]] in
      (* C17: an SMTPError is passed on unchanged, anything else is 554 5.0.0 *)
      let viol :=
        match e with
        | BSmtp c0 ec0 m0 =>
            if (oc =? c0)%Z && ec_eqb oec ec0 && bytes_eqb om m0 then [] else [bs "C17"]
        | BPlain m0 =>
            if (oc =? 554)%Z && ec_eqb oec (5, 0, 0)%Z
               && bytes_eqb om (bs "Error: transaction failed: " ++ m0) then [] else [bs "C17"]
        | BNil => []
        end in
      mkV true (obs_is model obs) model viol [] ([bs "status"] ++ berr_tags e)
  | _, _, _, _ => bad_case
  end.

Definition show_client (r : (Z * bytes * cerr) * bytes) : list sx :=
  let '((code, msg, e), rest) := r in
  [SL [XT "code"; XZ code]; SL [XT "msg"; XB msg]; show_cerr e; SL [XT "rest"; XB rest]].

Definition cerr_tag (e : cerr) : bytes :=
  match e with
  | CNil => bs "r-nil" | CSmtp _ _ _ => bs "r-smtp" | CProto _ => bs "r-proto" | CEof => bs "r-eof"
  end.

Definition check_parse (p obs : list sx) : verdict :=
  match dec_b "wire" p, dec_z "expect" p with
  | Some wire, Some expect =>
      let r := client_read_response expect wire in
      let model := SL (XT "obs" :: show_client r) in
      mkV true (obs_is model obs) model [] []
          [bs "parse"; cerr_tag (snd (fst r));
           if mem_byte LF wire then bs "terminated" else bs "unterminated";
           if reply_wf (firstn (List.length wire - List.length (snd r)) wire)
           then bs "wf-reply" else bs "not-wf"]
  | _, _ => bad_case
  end.

Definition check_pec (p obs : list sx) : verdict :=
  match dec_b "s" p with
  | Some s =>
      let '(ec, ok) := parse_enhanced_code s in
      let model := SL [XT "obs"; show_ec ec; SL [XT "ok"; XBool ok]] in
      mkV true (obs_is model obs) model [] [] [bs "pec"; if ok then bs "pec-ok" else bs "pec-err"]
  | None => bad_case
  end.

Definition check_tse (p obs : list sx) : verdict :=
  match dec_z "code" p, dec_b "msg" p with
  | Some code, Some msg =>
      let '(c, ec, m) := to_smtp_err code msg in
      let model := SL [XT "obs"; SL [XT "code"; XZ c]; show_ec ec; SL [XT "msg"; XB m]] in
      mkV true (obs_is model obs) model [] []
          [bs "tse"; if ec_eqb ec ec_not_set then bs "tse-plain" else bs "tse-ec"]
  | _, _ => bad_case
  end.

Definition check_roundtrip (p obs : list sx) : verdict :=
  match assoc1 "via" p, dec_berr p, dec_z "expect" p, dec_b "next" p,
        dec_b "wire" obs, dec_z "code" obs, dec_b "rest" obs, assoc1 "err" obs with
  | Some via, Some e, Some expect, Some next, Some owire, Some ocode, Some orest, Some oerr =>
      let via_data := sx_is "data" via in
      let wire :=
        if via_data then let '(c, ec, m) := data_error_to_status e in write_response c ec [m]
        else write_error 451 (4, 0, 0)%Z e in
      let r := client_read_response expect (wire ++ next) in
      let model := SL (XT "obs" :: SL [XT "wire"; XB wire] :: show_client r) in
      let '(c', ec', m') :=
        match e with
        | BSmtp c x m => (c, x, m)
        | BPlain m => if via_data then (554, (5, 0, 0), bs "Error: transaction failed: " ++ m)%Z
                      else (451, (4, 0, 0), m)%Z
        | BNil => (250, (2, 0, 0), bs "OK: queued")%Z
        end in
      let viol17 :=
        match expected_at_client via_data e with
        | Some (c, ec, m) =>
            if expect_mismatch expect c then
              if (ocode =? c)%Z && bytes_eqb orest next
                 && sx_eqb (SL [XT "err"; oerr]) (show_cerr (CSmtp c ec m))
              then [] else [bs "C17"]
            else []
        | None => []
        end in
      (* known finding F27: an explicitly absent enhanced code (NoEnhancedCode) cannot be
         told from "unset" on the wire, so the client does not get an equal SMTPError back *)
      let '(viol27, kf27) :=
        match e with
        | BSmtp c x m =>
            if (100 <=? c)%Z && (c <=? 999)%Z && ec_absent (spec_ec c x) && expect_mismatch expect c
               && negb (sx_eqb (SL [XT "err"; oerr]) (show_cerr (CSmtp c no_ec m)))
            then ([bs "C17"], [bs "F27"]) else ([], [])
        | _ => ([], [])
        end in
      mkV true (obs_is model obs) model
          (c04_viol c' ec' [m'] owire ++ c17_wire_viol c' ec' m' owire ++ viol17 ++ viol27) kf27
          ([bs "roundtrip"; if via_data then bs "via-data" else bs "via-error";
            if expect_mismatch expect c' then bs "expect-mismatch" else bs "expect-match";
            match expected_at_client via_data e with Some _ => bs "judged" | None => bs "image-only" end]
           ++ berr_tags e)
  | _, _, _, _, _, _, _, _ => bad_case
  end.

Definition check_reply (args : list sx) : verdict :=
  match args with
  | [SL (k :: p); SL (o :: obs)] =>
      if negb (sx_is "obs" o) then bad_case
      else if sx_is "render" k then check_render p obs
      else if sx_is "rendererr" k then check_rendererr p obs
      else if sx_is "status" k then check_status p obs
      else if sx_is "parse" k then check_parse p obs
      else if sx_is "pec" k then check_pec p obs
      else if sx_is "tse" k then check_tse p obs
      else if sx_is "roundtrip" k then check_roundtrip p obs
      else bad_case
  | _ => bad_case
  end.
