(* The client's dot-writer never drops, duplicates or reorders an octet of the
   message, for EVERY body (also outside the "CR only in CRLF" domain of the
   round-trip theorem): the body is an order-preserving subsequence of what the
   server's specification extracts from the wire; the only octets added are the
   CRs and LFs of line-ending normalisation. *)
From Smtp Require Import Bytes DotSpec DataProofs DataProofs2 DotSpecOrder DotWriter DotWriterProofs.

Lemma norm_w_subseq : forall body w, subseq body (norm_w w body).
Proof.
  induction body as [|c t IH]; intros w; [constructor|].
  cbn [norm_w]. destruct w.
  - destruct (Ascii.eqb c LF) eqn:El.
    + apply Ascii.eqb_eq in El. subst. apply sub_skip. apply sub_keep. apply IH.
    + destruct (Ascii.eqb c CR) eqn:Ec.
      * apply Ascii.eqb_eq in Ec. subst. apply sub_keep. apply IH.
      * apply sub_keep. apply IH.
  - destruct (Ascii.eqb c LF) eqn:El.
    + apply Ascii.eqb_eq in El. subst. apply sub_skip. apply sub_keep. apply IH.
    + destruct (Ascii.eqb c CR) eqn:Ec.
      * apply Ascii.eqb_eq in Ec. subst. apply sub_keep. apply IH.
      * apply sub_keep. apply IH.
  - destruct (Ascii.eqb c LF) eqn:El.
    + apply Ascii.eqb_eq in El. subst. apply sub_keep. apply IH.
    + apply sub_keep. apply IH.
  - destruct (Ascii.eqb c LF) eqn:El.
    + apply Ascii.eqb_eq in El. subst. apply sub_skip. apply sub_keep. apply IH.
    + destruct (Ascii.eqb c CR) eqn:Ec.
      * apply Ascii.eqb_eq in Ec. subst. apply sub_keep. apply IH.
      * apply sub_keep. apply IH.
Qed.

Theorem dot_write_nothing_dropped parts tail :
  exists received,
    unstuff (dot_write_all parts ++ tail) = Complete received tail /\
    subseq (List.concat parts) received.
Proof.
  exists (dw_received (List.concat parts)). split.
  - apply dot_roundtrip_parts_any.
  - apply norm_w_subseq.
Qed.

(* composed with the server's DATA reader: for EVERY body, every partition
   into Write calls, every network segmentation and every backend read size
   the backend reads, then sees io.EOF, a message that contains every octet
   of the body in order, and the command stream resumes behind it *)
From Smtp Require Import Transport DataReader TransportProofs C16Proofs.

Theorem client_message_nothing_dropped (t : transport) (parts : list bytes) (tail : bytes) (sizes : list nat) :
  transparent t ->
  tstream t = dot_write_all parts ++ tail ->
  let '(out, e, d', t') := backend_reads sizes None (new_data_reader 0) t in
  subseq (List.concat parts) out /\ e = Some REOF /\ tstream t' = tail.
Proof.
  intros Htr Hs.
  pose proof (client_message_framed t parts tail sizes Htr Hs) as H.
  destruct (backend_reads sizes None (new_data_reader 0) t) as [[[out e] d'] t'].
  destruct H as (A & B & C). subst out. split; [apply norm_w_subseq|auto].
Qed.
