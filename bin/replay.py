#!/usr/bin/env python3
"""replay.py <replay.json> : show a recorded violation and re-judge it.

The replay file written by bin/check contains the violating case lines: the exact inputs (configuration,
backend script, raw network read schedule / API call sequence) together with the behaviour of /repo that was
recorded for them.  This script prints them readably and runs the extracted model + property oracles on them
again (ocaml/_build/driver), which reproduces the verdict.  To re-run the implementation itself on the same
inputs: .work/harness -rerun <file-with-the-case-line> (rebuilds nothing; run bin/setup first)."""
import sys, json, re, os, subprocess, tempfile
V = os.path.dirname(os.path.dirname(os.path.abspath(__file__)))
def readable(l):
    def unhex(m):
        try: return 'x"' + bytes.fromhex(m.group(1)).decode('latin1').replace('\r', '\\r').replace('\n', '\\n') + '"'
        except Exception: return m.group(0)
    return re.sub(r'\bx([0-9a-f]*)\b', unhex, l)
r = json.load(open(sys.argv[1]))
print("property:", r.get("property")); print("what:", r.get("what"))
for k in r.get("no_longer_checks", []): print("no longer checks:", k["which"], "::", k["detail"][:1500])
cases = [c["case"] for c in r.get("violating_cases", []) + r.get("first_disagreements", []) if c.get("case", "").startswith("(")]
for c in cases: print("\ncase:", readable(c)[:6000])
if cases and os.path.exists(V + "/ocaml/_build/driver"):
    with tempfile.NamedTemporaryFile("w", suffix=".cases", delete=False) as f:
        f.write("\n".join(cases) + "\n")
    if os.path.exists(V + "/.work/harness"):
        # run the implementation (current /repo build of the harness) again on the same inputs
        rr = subprocess.run([V + "/.work/harness", "-rerun", f.name], stdout=subprocess.PIPE, stderr=subprocess.PIPE, text=True)
        fresh = [l for l in rr.stdout.splitlines() if l.startswith("(")]
        if fresh:
            print("\nre-run of the implementation on the same inputs:")
            for c in fresh: print("  now:", readable(c)[:3000])
            with open(f.name, "w") as g: g.write("\n".join(fresh) + "\n")
        if rr.stderr.strip(): print("  (", rr.stderr.strip()[:300], ")")
    out = subprocess.run("ulimit -s unlimited 2>/dev/null; exec %s/ocaml/_build/driver %s" % (V, f.name), shell=True, stdout=subprocess.PIPE, text=True).stdout
    print("\nverdicts (model vs recorded behaviour, property oracles):")
    for l in out.splitlines(): print("  ", l[:400])
    os.unlink(f.name)
