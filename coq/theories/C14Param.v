(* C14, parameter level: every value the client writes for a MAIL / RCPT
   parameter is decoded by the server's handler to the value the caller gave -
   for ALL strings / numbers / instants of the stated domains.

   The statements are of the form
       mail_param cfg KEY (what the client writes) o bm = inl (o with FIELD := given, bm)
       rcpt_param cfg KEY (what the client writes) o    = inl (o with FIELD := given)
   for every previous option record o (so they compose in any order). *)
From Smtp Require Import Bytes GoStrings Utf8 Xtext Parse Rfc3339 Conn
                         Utf8Proofs XtextProofs ReplyProofs C14Time C14Rfc3339.
From Smtp Require Client ClientProofs.
From Coq Require Import Lia.
Local Open Scope char_scope.

(* decide the key comparisons of a handler applied to a literal key *)
Ltac keys :=
  repeat match goal with
         | |- context [bytes_eqb (bs ?a) (bs ?b)] =>
             let v := eval vm_compute in (bytes_eqb (bs a) (bs b)) in
             change (bytes_eqb (bs a) (bs b)) with v
         end;
  cbv iota.

(* ------------------------------------------------------------------ *)
(* small facts                                                         *)
(* ------------------------------------------------------------------ *)

Lemma printable_ascii7_byte c : is_printable c = true -> is_ascii7 c = true.
Proof.
  intros H.
  assert (E : (negb (is_printable c) || is_ascii7 c) = true).
  { apply (byte_enum (fun c => negb (is_printable c) || is_ascii7 c)). vm_compute. reflexivity. }
  rewrite H in E. exact E.
Qed.

Lemma printable_ascii7 s : is_printable_ascii s = true -> forallb is_ascii7 s = true.
Proof.
  unfold is_printable_ascii. rewrite !forallb_forall. intros H c Hc.
  apply printable_ascii7_byte, H, Hc.
Qed.

Lemma encode_xtext_nonempty s :
  forallb is_ascii7 s = true -> s <> [] -> encode_xtext s <> [].
Proof.
  intros Ha Hs E. pose proof (xtext_roundtrip s Ha) as R. rewrite E in R.
  cbn in R. congruence.
Qed.

Lemma utf8_of_runes_nonempty cs : cs <> [] -> utf8_of_runes cs <> [].
Proof.
  destruct cs as [|c cs]; [congruence|]. intros _ E. unfold utf8_of_runes in E. cbn [flat_map] in E.
  pose proof (utf8_encode_length c) as L. destruct (utf8_encode c); cbn in *; [lia|discriminate].
Qed.

(* ------------------------------------------------------------------ *)
(* MAIL parameters                                                     *)
(* ------------------------------------------------------------------ *)

Definition set_envid (o : mail_opts) (v : bytes) : mail_opts :=
  mkMO (mo_body o) (mo_size o) (mo_requiretls o) (mo_utf8 o) (mo_ret o) v (mo_auth o).
Definition set_auth (o : mail_opts) (v : option bytes) : mail_opts :=
  mkMO (mo_body o) (mo_size o) (mo_requiretls o) (mo_utf8 o) (mo_ret o) (mo_envid o) v.
Definition set_ret (o : mail_opts) (v : bytes) : mail_opts :=
  mkMO (mo_body o) (mo_size o) (mo_requiretls o) (mo_utf8 o) v (mo_envid o) (mo_auth o).
Definition set_size (o : mail_opts) (v : Z) : mail_opts :=
  mkMO (mo_body o) v (mo_requiretls o) (mo_utf8 o) (mo_ret o) (mo_envid o) (mo_auth o).
Definition set_utf8 (o : mail_opts) (v : bool) : mail_opts :=
  mkMO (mo_body o) (mo_size o) (mo_requiretls o) v (mo_ret o) (mo_envid o) (mo_auth o).
Definition set_requiretls (o : mail_opts) (v : bool) : mail_opts :=
  mkMO (mo_body o) (mo_size o) v (mo_utf8 o) (mo_ret o) (mo_envid o) (mo_auth o).
Definition set_body (o : mail_opts) (v : bytes) : mail_opts :=
  mkMO v (mo_size o) (mo_requiretls o) (mo_utf8 o) (mo_ret o) (mo_envid o) (mo_auth o).

(* ENVID: every non-empty printable-ASCII string *)
Theorem C14_envid cfg s o bm :
  cf_dsn cfg = true -> s <> [] -> is_printable_ascii s = true ->
  mail_param cfg (bs "ENVID") (encode_xtext s) o bm = inl (set_envid o s, bm).
Proof.
  intros Hd Hs Hp. unfold mail_param. cbv beta zeta. keys. rewrite Hd. cbn [negb].
  rewrite xtext_roundtrip by (apply printable_ascii7; exact Hp).
  destruct s as [|c s]; [congruence|]. rewrite Hp. reflexivity.
Qed.

(* AUTH=<mailbox>: every 7-bit mailbox the server's own parser accepts whole *)
Theorem C14_auth_mailbox cfg mb o bm :
  forallb is_ascii7 mb = true -> parse_mailbox mb = Some (mb, []) ->
  mail_param cfg (bs "AUTH") (encode_xtext mb) o bm = inl (set_auth o (Some mb), bm).
Proof.
  intros Ha Hp. unfold mail_param. cbv beta zeta. keys.
  rewrite xtext_roundtrip by exact Ha.
  destruct mb as [|c t] eqn:E; [vm_compute in Hp; discriminate|]. rewrite <- E in *.
  destruct (bytes_eqb mb (bs "<>")) eqn:B.
  - apply bytes_eqb_eq in B. rewrite B in Hp. vm_compute in Hp. discriminate.
  - rewrite Hp. reflexivity.
Qed.

(* AUTH=<>: what the client writes for a non-nil empty Auth *)
Theorem C14_auth_empty cfg o bm :
  mail_param cfg (bs "AUTH") (Client.auth_value []) o bm = inl (set_auth o (Some []), bm).
Proof. unfold mail_param. cbv beta zeta. keys. reflexivity. Qed.

Theorem C14_ret cfg v o bm :
  cf_dsn cfg = true -> v = bs "FULL" \/ v = bs "HDRS" ->
  mail_param cfg (bs "RET") v o bm = inl (set_ret o v, bm).
Proof.
  intros Hd [-> | ->]; unfold mail_param; cbv beta zeta; keys; rewrite Hd; reflexivity.
Qed.

Theorem C14_smtputf8 cfg o bm :
  cf_utf8 cfg = true -> mail_param cfg (bs "SMTPUTF8") [] o bm = inl (set_utf8 o true, bm).
Proof. intros H. unfold mail_param. cbv beta zeta. keys. rewrite H. reflexivity. Qed.

Theorem C14_requiretls cfg o bm :
  cf_requiretls cfg = true ->
  mail_param cfg (bs "REQUIRETLS") [] o bm = inl (set_requiretls o true, bm).
Proof. intros H. unfold mail_param. cbv beta zeta. keys. rewrite H. reflexivity. Qed.

(* BODY: each of the three values arrives as given; BINARYMIME needs
   EnableBINARYMIME and raises the connection's binarymime flag (DATA is
   refused from then on: RFC 3030 wants BDAT) *)
Definition is_binarymime (v : bytes) : bool := bytes_eqb v (bs "BINARYMIME").

Definition body_value (v : bytes) : Prop :=
  v = bs "7BIT" \/ v = bs "8BITMIME" \/ v = bs "BINARYMIME".

Theorem C14_body_param cfg v o bm :
  body_value v -> (v = bs "BINARYMIME" -> cf_binarymime cfg = true) ->
  mail_param cfg (bs "BODY") v o bm = inl (set_body o v, bm || is_binarymime v).
Proof.
  intros [-> | [-> | ->]] Hb; unfold mail_param, is_binarymime; cbv beta zeta; keys.
  - change (to_upper (bs "7BIT")) with (bs "7BIT"). keys. cbn [orb]. rewrite orb_false_r. reflexivity.
  - change (to_upper (bs "8BITMIME")) with (bs "8BITMIME"). keys. cbn [orb]. rewrite orb_false_r. reflexivity.
  - change (to_upper (bs "BINARYMIME")) with (bs "BINARYMIME"). keys.
    rewrite (Hb eq_refl), orb_true_r. reflexivity.
Qed.

(* the only BODY value a server without EnableBINARYMIME refuses; such a server
   does not advertise BINARYMIME, so the client never sends it (C14_body) *)
Theorem C14_body_binarymime_disabled cfg o bm :
  cf_binarymime cfg = false ->
  mail_param cfg (bs "BODY") (bs "BINARYMIME") o bm
  = inr (504, (5, 5, 4), bs "BINARYMIME is not implemented")%Z.
Proof.
  intros H. unfold mail_param. cbv beta zeta. keys.
  change (to_upper (bs "BINARYMIME")) with (bs "BINARYMIME"). keys. rewrite H. reflexivity.
Qed.

(* SIZE: every n < 2^63 (int64), within the server's limit if there is one *)
Theorem C14_size cfg n o bm :
  (n < 2 ^ 63)%N ->
  (cf_max_bytes cfg <= 0 \/ Z.of_N n <= cf_max_bytes cfg)%Z ->
  mail_param cfg (bs "SIZE") (dec_of_N n) o bm = inl (set_size o (Z.of_N n), bm).
Proof.
  intros Hn Hl. unfold mail_param. cbv beta zeta. keys.
  rewrite parse_uint_dec_of_N by exact Hn.
  assert (E : ((0 <? cf_max_bytes cfg)%Z && (cf_max_bytes cfg <? Z.of_N n)%Z) = false) by lia.
  rewrite E. reflexivity.
Qed.

(* the client prints Size with %v of an int64 *)
Lemma dec_of_Z_nonneg z : (0 <= z)%Z -> Reply.dec_of_Z z = dec_of_N (Z.to_N z).
Proof. intros H. unfold Reply.dec_of_Z. destruct (z <? 0)%Z eqn:E; [lia|reflexivity]. Qed.

Corollary C14_size_Z cfg z o bm :
  (0 <= z < 2 ^ 63)%Z ->
  (cf_max_bytes cfg <= 0 \/ z <= cf_max_bytes cfg)%Z ->
  mail_param cfg (bs "SIZE") (Reply.dec_of_Z z) o bm = inl (set_size o z, bm).
Proof.
  intros Hz Hl. rewrite dec_of_Z_nonneg by lia.
  rewrite C14_size; [rewrite Z2N.id by lia; reflexivity| |rewrite Z2N.id by lia; exact Hl].
  change (2 ^ 63)%N with (Z.to_N (2 ^ 63)). lia.
Qed.

(* ------------------------------------------------------------------ *)
(* RCPT parameters                                                     *)
(* ------------------------------------------------------------------ *)

Definition set_notify (o : rcpt_opts) (v : list bytes) : rcpt_opts :=
  mkRO v (ro_orcpt_type o) (ro_orcpt o) (ro_rrvs o).
Definition set_orcpt (o : rcpt_opts) (ty v : bytes) : rcpt_opts :=
  mkRO (ro_notify o) ty v (ro_rrvs o).
Definition set_rrvs (o : rcpt_opts) (t : rtime) : rcpt_opts :=
  mkRO (ro_notify o) (ro_orcpt_type o) (ro_orcpt o) (Some t).

Lemma dta_prefix ty e :
  mem_byte ";" ty = false ->
  splitn2 ";" (ty ++ ";" :: e) = [ty; e].
Proof. intros H. unfold splitn2. rewrite cut_byte_app by exact H. reflexivity. Qed.

(* ORCPT=RFC822;xtext : every non-empty printable-ASCII string *)
Theorem C14_orcpt_rfc822 cfg s o :
  cf_dsn cfg = true -> s <> [] -> is_printable_ascii s = true ->
  rcpt_param cfg (bs "ORCPT") (bs "RFC822;" ++ encode_xtext s) o
  = inl (set_orcpt o (bs "RFC822") s).
Proof.
  intros Hd Hs Hp. pose proof (printable_ascii7 s Hp) as Ha.
  unfold rcpt_param. cbv beta zeta. keys. rewrite Hd. cbn [negb].
  unfold decode_typed_address.
  change (bs "RFC822;" ++ encode_xtext s) with (bs "RFC822" ++ ";" :: encode_xtext s).
  rewrite dta_prefix by reflexivity.
  pose proof (encode_xtext_nonempty s Ha Hs) as Ne.
  pose proof (xtext_roundtrip s Ha) as R.
  destruct (encode_xtext s) as [|e0 e] eqn:E; [congruence|].
  change (bs "RFC822") with ("R" :: bs "FC822"). cbv iota.
  change (to_upper ("R" :: bs "FC822")) with (bs "RFC822"). keys.
  rewrite R, Hp. destruct s as [|c s]; [congruence|]. reflexivity.
Qed.

(* ORCPT=UTF-8;... in both forms: every non-empty text over U+0020..U+007F
   and all non-ASCII Unicode scalar values *)
Lemma orcpt_utf8 cfg enc v o :
  cf_dsn cfg = true -> v <> [] -> decode_utf8_addr_xtext enc = Some v ->
  rcpt_param cfg (bs "ORCPT") (bs "UTF-8;" ++ enc) o = inl (set_orcpt o (bs "UTF-8") v).
Proof.
  intros Hd Hv R.
  unfold rcpt_param. cbv beta zeta. keys. rewrite Hd. cbn [negb].
  unfold decode_typed_address.
  change (bs "UTF-8;" ++ enc) with (bs "UTF-8" ++ ";" :: enc).
  rewrite dta_prefix by reflexivity.
  destruct enc as [|e0 e] eqn:E.
  { cbn in R. congruence. }
  change (bs "UTF-8") with ("U" :: bs "TF-8"). cbv iota.
  change (to_upper ("U" :: bs "TF-8")) with (bs "UTF-8"). keys.
  rewrite R. cbn [option_map]. destruct v as [|c v]; [congruence|]. reflexivity.
Qed.

Theorem C14_orcpt_utf8_unitext cfg cs o :
  cf_dsn cfg = true -> cs <> [] -> forallb addr_cp cs = true ->
  rcpt_param cfg (bs "ORCPT") (bs "UTF-8;" ++ encode_utf8_addr_unitext (utf8_of_runes cs)) o
  = inl (set_orcpt o (bs "UTF-8") (utf8_of_runes cs)).
Proof.
  intros Hd Hc Ha. apply orcpt_utf8; [exact Hd|now apply utf8_of_runes_nonempty|].
  now apply utf8_addr_unitext_roundtrip.
Qed.

Theorem C14_orcpt_utf8_xtext cfg cs o :
  cf_dsn cfg = true -> cs <> [] -> forallb addr_cp cs = true ->
  rcpt_param cfg (bs "ORCPT") (bs "UTF-8;" ++ encode_utf8_addr_xtext (utf8_of_runes cs)) o
  = inl (set_orcpt o (bs "UTF-8") (utf8_of_runes cs)).
Proof.
  intros Hd Hc Ha. apply orcpt_utf8; [exact Hd|now apply utf8_of_runes_nonempty|].
  now apply utf8_addr_xtext_roundtrip.
Qed.

(* NOTIFY: the sixteen valid sets - NEVER alone, or a duplicate-free non-empty
   sequence over SUCCESS / FAILURE / DELAY *)
Definition notify_sets : list (list bytes) :=
  let S := bs "SUCCESS" in let F := bs "FAILURE" in let D := bs "DELAY" in
  [ [bs "NEVER"];
    [S]; [F]; [D];
    [S; F]; [S; D]; [F; S]; [F; D]; [D; S]; [D; F];
    [S; F; D]; [S; D; F]; [F; S; D]; [F; D; S]; [D; S; F]; [D; F; S] ].

Definition list_bytes_eqb (a b : list bytes) : bool :=
  (List.length a =? List.length b)%nat && forallb (fun '(x, y) => bytes_eqb x y) (combine a b).

Lemma list_bytes_eqb_eq a : forall b, list_bytes_eqb a b = true -> a = b.
Proof.
  unfold list_bytes_eqb. induction a as [|x a IH]; intros [|y b] H; cbn in H; try discriminate; [reflexivity|].
  apply andb_true_iff in H as [H1 H2]. apply andb_true_iff in H2 as [H2 H3].
  apply bytes_eqb_eq in H2. subst y. f_equal. apply IH. now rewrite H1, H3.
Qed.

Definition notify_chk (vals : list bytes) : bool :=
  notify_ok vals && list_bytes_eqb (map to_upper (split_byte "," (join (bs ",") vals))) vals.

Lemma notify_sets_chk : forallb notify_chk notify_sets = true.
Proof. vm_compute. reflexivity. Qed.

Theorem C14_notify cfg vals o :
  cf_dsn cfg = true -> In vals notify_sets ->
  rcpt_param cfg (bs "NOTIFY") (join (bs ",") vals) o = inl (set_notify o vals).
Proof.
  intros Hd Hin.
  pose proof notify_sets_chk as C. rewrite forallb_forall in C. specialize (C vals Hin).
  unfold notify_chk in C. apply andb_true_iff in C as [C1 C2]. apply list_bytes_eqb_eq in C2.
  unfold rcpt_param. cbv beta zeta. keys. rewrite Hd. cbn [negb]. rewrite C2, C1. reflexivity.
Qed.

(* the sixteen sets are exactly what checkNotifySet (client and server) accepts *)
Fixpoint nodupb (l : list bytes) : bool :=
  match l with
  | [] => true
  | x :: r => negb (existsb (bytes_eqb x) r) && nodupb r
  end.

Definition notify_consts : list bytes := [bs "NEVER"; bs "DELAY"; bs "FAILURE"; bs "SUCCESS"].

Lemma nodupb_NoDup l : nodupb l = true -> NoDup l.
Proof.
  induction l as [|x l IH]; cbn [nodupb]; intros H; [constructor|].
  apply andb_true_iff in H as [H1 H2]. constructor; [|now apply IH].
  intros Hin. apply negb_true_iff in H1.
  assert (E : existsb (bytes_eqb x) l = true).
  { apply existsb_exists. exists x. split; [exact Hin|apply bytes_eqb_refl]. }
  congruence.
Qed.

Definition in_sets (vals : list bytes) : bool := existsb (list_bytes_eqb vals) notify_sets.

(* all sequences over the four constants of length <= 4 *)
Definition seqs1 : list (list bytes) := map (fun a => [a]) notify_consts.
Definition ext_seqs (l : list (list bytes)) : list (list bytes) :=
  flat_map (fun s => map (fun a => a :: s) notify_consts) l.
Definition seqs_upto4 : list (list bytes) :=
  seqs1 ++ ext_seqs seqs1 ++ ext_seqs (ext_seqs seqs1) ++ ext_seqs (ext_seqs (ext_seqs seqs1)).

Lemma seqs_chk : forallb (fun s => negb (notify_ok s) || in_sets s) seqs_upto4 = true.
Proof. vm_compute. reflexivity. Qed.

Lemma in_ext_seqs a s l : In a notify_consts -> In s l -> In (a :: s) (ext_seqs l).
Proof.
  intros Ha Hs. unfold ext_seqs. apply in_flat_map. exists s. split; [exact Hs|].
  apply in_map_iff. exists a. auto.
Qed.

Theorem notify_sets_complete vals : notify_ok vals = true <-> In vals notify_sets.
Proof.
  split.
  - intros H.
    assert (K : forallb (fun v => existsb (bytes_eqb v) notify_consts) vals = true
                /\ nodupb vals = true /\ vals <> []).
    { unfold notify_ok in H. destruct vals as [|v0 vals]; [discriminate|].
      apply andb_true_iff in H as [H _]. apply andb_true_iff in H as [H1 H2].
      split; [|split; [exact H2|discriminate]].
      rewrite forallb_forall in *. intros v Hv. specialize (H1 v Hv).
      unfold notify_consts. cbn [existsb]. rewrite orb_false_r. rewrite <- !orb_assoc in H1.
      exact H1. }
    destruct K as (K1 & K2 & K3).
    assert (Hc : forall v, In v vals -> In v notify_consts).
    { intros v Hv. rewrite forallb_forall in K1. specialize (K1 v Hv).
      apply existsb_exists in K1 as (c & Hc & E). apply bytes_eqb_eq in E. now subst. }
    assert (L : (List.length vals <= 4)%nat).
    { apply (NoDup_incl_length (nodupb_NoDup _ K2) Hc). }
    assert (S4 : In vals seqs_upto4).
    { unfold seqs_upto4.
      destruct vals as [|a [|b [|c [|d [|e r]]]]]; [congruence| | | | |cbn in L; lia].
      - apply in_or_app. left. apply (in_map (fun x => [x])). apply Hc. now left.
      - apply in_or_app. right. apply in_or_app. left.
        apply in_ext_seqs; [apply Hc; now left|]. apply (in_map (fun x => [x])). apply Hc. right. now left.
      - apply in_or_app. right. apply in_or_app. right. apply in_or_app. left.
        apply in_ext_seqs; [apply Hc; now left|].
        apply in_ext_seqs; [apply Hc; right; now left|]. apply (in_map (fun x => [x])). apply Hc. right. right. now left.
      - apply in_or_app. right. apply in_or_app. right. apply in_or_app. right.
        apply in_ext_seqs; [apply Hc; now left|].
        apply in_ext_seqs; [apply Hc; right; now left|].
        apply in_ext_seqs; [apply Hc; right; right; now left|].
        apply (in_map (fun x => [x])). apply Hc. right. right. right. now left. }
    pose proof seqs_chk as C. rewrite forallb_forall in C. specialize (C vals S4).
    rewrite H in C. cbn [negb orb] in C. unfold in_sets in C.
    apply existsb_exists in C as (s & Hs & E). apply list_bytes_eqb_eq in E. now subst.
  - intros Hin. pose proof notify_sets_chk as C. rewrite forallb_forall in C.
    specialize (C vals Hin). unfold notify_chk in C. now apply andb_true_iff in C as [C _].
Qed.

Corollary C14_notify_ok cfg vals o :
  cf_dsn cfg = true -> notify_ok vals = true ->
  rcpt_param cfg (bs "NOTIFY") (join (bs ",") vals) o = inl (set_notify o vals).
Proof. intros Hd H. apply C14_notify; [exact Hd|now apply notify_sets_complete]. Qed.

(* RRVS: every instant of the years 0001..9999 (local date), every zone offset
   of whole minutes inside (-24h, +24h); the instant and the offset arrive,
   nanoseconds are not transmitted by the RFC 3339 layout *)
Lemma format_no_semicolon t : mem_byte ";" (Client.format_rfc3339 t) = false.
Proof.
  eapply forallb_not_mem; [apply ClientProofs.format_rfc3339_timech|reflexivity].
Qed.

Theorem C14_rrvs cfg t o :
  cf_rrvs cfg = true -> rt_dom t ->
  rcpt_param cfg (bs "RRVS") (Client.format_rfc3339 t) o
  = inl (set_rrvs o (mkRT (rt_unix t) 0 (rt_off t))).
Proof.
  intros Hr Hd. unfold rcpt_param. cbv beta zeta. keys. rewrite Hr. cbn [negb].
  rewrite (cut_byte_none _ _ (format_no_semicolon t)).
  rewrite rfc3339_roundtrip by exact Hd. reflexivity.
Qed.

Print Assumptions C14_envid.
Print Assumptions C14_auth_mailbox.
Print Assumptions C14_size_Z.
Print Assumptions C14_orcpt_rfc822.
Print Assumptions C14_orcpt_utf8_unitext.
Print Assumptions C14_orcpt_utf8_xtext.
Print Assumptions C14_notify_ok.
Print Assumptions C14_rrvs.
