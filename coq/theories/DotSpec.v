(* Declarative, line-wise definition of RFC 5321 dot-unstuffing and of the
   end-of-data marker.  No automaton here: this is the specification that the
   model of dataReader.Read is proved against. *)
From Smtp Require Import Bytes.

Inductive dres := Complete (body rest : bytes) | Incomplete (body : bytes).

Definition prepend (l : bytes) (r : dres) : dres :=
  match r with
  | Complete b rest => Complete (l ++ b) rest
  | Incomplete b => Incomplete (l ++ b)
  end.

Definition consfst (c : ascii) (p : bytes * bytes) := (c :: fst p, snd p).

(* copy up to and including the first CRLF: (line with its CRLF, rest) *)
Fixpoint cut_crlf (s : bytes) : option (bytes * bytes) :=
  match s with
  | [] => None
  | c :: t =>
      match t with
      | d :: t' =>
          if Ascii.eqb c CR && Ascii.eqb d LF then Some ([c; d], t')
          else option_map (consfst c) (cut_crlf t)
      | [] => None
      end
  end.

(* the stream starts with the end marker ".CRLF" (at a line start) *)
Definition is_marker (s : bytes) : option bytes :=
  match s with
  | a :: b :: c :: rest =>
      if Ascii.eqb a DOT && Ascii.eqb b CR && Ascii.eqb c LF then Some rest else None
  | _ => None
  end.

(* remove one leading dot *)
Definition strip_dot (s : bytes) : bytes :=
  match s with
  | a :: t => if Ascii.eqb a DOT then t else s
  | [] => []
  end.

(* At a line start: the end marker ends the data; otherwise strip one leading
   dot, copy the line up to and including its CRLF, and repeat.  Lines are
   delimited by CRLF only. *)
Fixpoint unstuff_f (n : nat) (s : bytes) : dres :=
  match n with
  | 0 => Incomplete []
  | S n' =>
      match is_marker s with
      | Some rest => Complete [] rest
      | None =>
          match cut_crlf (strip_dot s) with
          | Some (line, rest) => prepend line (unstuff_f n' rest)
          | None => Incomplete (strip_dot s)
          end
      end
  end.

Definition unstuff (s : bytes) : dres := unstuff_f (S (List.length s)) s.
