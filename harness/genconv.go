package harness

import (
	"fmt"
	"math/rand"
	"strings"
)

// convBuilder assembles the client's octet stream of one conversation.
type convBuilder struct {
	rng    *rand.Rand
	cfg    Cfg
	script Script
	out    []byte
	cuts   []int // positions where a raw read boundary is forced
	faults map[int]RawKind // a failing raw read (timeout / error) scripted at this stream position
	tlsSplit int           // > 0: the stream position after a STARTTLS line at which a real TLS upgrade happens
}

func (b *convBuilder) line(s string) { b.out = append(b.out, s...); b.out = append(b.out, '\r', '\n') }
func (b *convBuilder) raw(s string)  { b.out = append(b.out, s...) }
func (b *convBuilder) cut()          { b.cuts = append(b.cuts, len(b.out)) }

var addrPool = []string{"a@b", "c@d.example", "e@f", "user.name@host", "\"q s\"@x", "x@[1.2.3.4]", "a@b"}

func (b *convBuilder) greet() {
	verb := "EHLO"
	if b.cfg.LMTP {
		verb = "LHLO"
	}
	switch b.rng.Intn(30) {
	case 0:
		verb = "HELO"
	case 1:
		verb = "ehlo"
		if b.cfg.LMTP {
			verb = "lhlo"
		}
	case 2:
		if b.cfg.LMTP {
			verb = "EHLO"
		} else {
			verb = "LHLO"
		}
	}
	switch b.rng.Intn(30) {
	case 0:
		b.line(verb)
	case 1:
		b.line(verb + " ")
	case 2, 3, 4:
		b.line(verb + " host.example extra words")
	default:
		b.line(verb + " client.example")
	}
}

func (b *convBuilder) berr(pFail int) BErr {
	if b.rng.Intn(100) >= pFail {
		return BNil
	}
	switch b.rng.Intn(5) {
	case 0:
		return BSmtp(550, [3]int{5, 1, 1}, "no such user")
	case 1:
		return BSmtp(451, [3]int{0, 0, 0}, "try later")
	case 2:
		return BSmtp(552, [3]int{5, 2, 2}, "line one\nline two")
	case 3:
		return BPlain("backend exploded")
	default:
		return BSmtp(421, [3]int{4, 3, 0}, "busy")
	}
}

func (b *convBuilder) mailParams() string {
	var ps []string
	add := func(p string) { ps = append(ps, p) }
	r := b.rng
	if r.Intn(3) == 0 {
		if b.cfg.BinaryMIME && r.Intn(2) == 0 {
			add(pick(r, "BODY=BINARYMIME", "BODY=binarymime"))
		} else {
			add(pick(r, "BODY=8BITMIME", "BODY=7BIT", "body=8bitmime", "BODY=8BITMIME", "BODY=BINARYMIME"))
		}
	}
	if r.Intn(4) == 0 {
		add(fmt.Sprintf("SIZE=%d", pickI(r, 0, 1, 10, 11, 12, 1000, 4294967295, 4294967296, 5000000000)))
	}
	en := func(flag bool) bool { return flag || r.Intn(10) == 0 }
	if r.Intn(5) == 0 && en(b.cfg.UTF8) {
		add("SMTPUTF8")
	}
	if r.Intn(6) == 0 && en(b.cfg.RequireTLS) {
		add("REQUIRETLS")
	}
	if r.Intn(5) == 0 && en(b.cfg.DSN) {
		add(pick(r, "RET=FULL", "RET=HDRS", "ret=hdrs"))
	}
	if r.Intn(5) == 0 && en(b.cfg.DSN) {
		add(pick(r, "ENVID=abc", "ENVID=a+2Bb", "ENVID=QQ314159"))
	}
	if r.Intn(6) == 0 {
		add(pick(r, "AUTH=<>", "AUTH=e+3Dmc2@example.com", "AUTH=x@y"))
	}
	// at most one faulty parameter (Go visits the map in random order)
	if r.Intn(14) == 0 {
		bad := pick(r, "SIZE=abc", "SIZE=-1", "SIZE=99999999999999999999", "BODY=9BIT", "RET=ALL", "ENVID=", "ENVID=a+2", "AUTH=", "AUTH=<x", "FOO=BAR", "FOO", "SIZE", "X=1=2", "AUTH=+80")
		// BINARYMIME together with a fault makes the binarymime flag order-dependent
		var keep []string
		for _, p := range ps {
			if !strings.Contains(strings.ToUpper(p), "BINARYMIME") {
				keep = append(keep, p)
			}
		}
		ps = append(keep, bad)
	}
	// drop parameters that would be a second fault under this configuration
	var res []string
	faults := 0
	for _, p := range ps {
		up := strings.ToUpper(p)
		f := false
		switch {
		case strings.HasPrefix(up, "SMTPUTF8") && !b.cfg.UTF8,
			strings.HasPrefix(up, "REQUIRETLS") && !b.cfg.RequireTLS,
			strings.Contains(up, "BINARYMIME") && !b.cfg.BinaryMIME,
			(strings.HasPrefix(up, "RET=") || strings.HasPrefix(up, "ENVID=")) && !b.cfg.DSN:
			f = true
		case strings.HasPrefix(up, "SIZE="):
			var n int64
			if _, err := fmt.Sscanf(up, "SIZE=%d", &n); err == nil && b.cfg.MaxBytes > 0 && n > b.cfg.MaxBytes {
				f = true
			}
		}
		if p == ps[len(ps)-1] && len(ps) > 0 && isBadParam(p) {
			f = true
		}
		if f {
			faults++
			if faults > 1 {
				continue
			}
			// a fault plus BINARYMIME is order dependent too
			var keep []string
			for _, q := range res {
				if !strings.Contains(strings.ToUpper(q), "BINARYMIME") {
					keep = append(keep, q)
				}
			}
			res = keep
		}
		if faults >= 1 && strings.Contains(up, "BINARYMIME") && !f {
			continue
		}
		res = append(res, p)
	}
	r.Shuffle(len(res), func(i, j int) { res[i], res[j] = res[j], res[i] })
	if len(res) == 0 {
		return ""
	}
	return " " + strings.Join(res, " ")
}

func isBadParam(p string) bool {
	for _, b := range []string{"SIZE=abc", "SIZE=-1", "SIZE=99999999999999999999", "BODY=9BIT", "RET=ALL", "ENVID=", "ENVID=a+2", "AUTH=", "AUTH=<x", "FOO=BAR", "FOO", "SIZE", "X=1=2", "AUTH=+80"} {
		if p == b {
			return true
		}
	}
	return false
}

func (b *convBuilder) rcptParams() string {
	r := b.rng
	var ps []string
	en := func(flag bool) bool { return flag || r.Intn(10) == 0 }
	if r.Intn(5) == 0 && en(b.cfg.DSN) {
		ps = append(ps, pick(r, "NOTIFY=NEVER", "NOTIFY=SUCCESS,FAILURE", "notify=delay", "NOTIFY=FAILURE,DELAY,SUCCESS"))
	}
	if r.Intn(5) == 0 && en(b.cfg.DSN) {
		ps = append(ps, pick(r, "ORCPT=rfc822;a+2Bb@c", "ORCPT=utf-8;x\\x{20}y@z", "ORCPT=RFC822;plain@x"))
	}
	if r.Intn(6) == 0 && en(b.cfg.RRVS) {
		ps = append(ps, pick(r, "RRVS=2014-04-03T23:01:00Z", "RRVS=2024-02-29T05:04:05+05:30;C", "RRVS=1999-12-31T23:59:59-08:00"))
	}
	if r.Intn(14) == 0 {
		ps = []string{pick(r, "NOTIFY=NEVER,SUCCESS", "NOTIFY=", "NOTIFY=X", "NOTIFY=SUCCESS,SUCCESS", "ORCPT=rfc822", "ORCPT=;x", "ORCPT=foo;bar", "ORCPT=utf-8;a b", "RRVS=yesterday", "RRVS=2023-02-29T00:00:00Z", "BAR=1", "A=B=C")}
	}
	// keep at most one faulty parameter
	var res []string
	faults := 0
	for _, p := range ps {
		up := strings.ToUpper(p)
		f := false
		if (strings.HasPrefix(up, "NOTIFY") || strings.HasPrefix(up, "ORCPT")) && !b.cfg.DSN {
			f = true
		}
		if strings.HasPrefix(up, "RRVS") && !b.cfg.RRVS {
			f = true
		}
		if f {
			faults++
			if faults > 1 {
				continue
			}
		}
		res = append(res, p)
	}
	if len(res) == 0 {
		return ""
	}
	return " " + strings.Join(res, " ")
}

func pick(r *rand.Rand, xs ...string) string { return xs[r.Intn(len(xs))] }
func pickI(r *rand.Rand, xs ...int64) int64   { return xs[r.Intn(len(xs))] }

func (b *convBuilder) mail() {
	r := b.rng
	switch r.Intn(40) {
	case 0, 7, 8:
		b.line("MAIL FROM:<>")
	case 1:
		b.line("MAIL FROM:")
	case 2:
		b.line("MAIL TO:<a@b>")
	case 3, 9:
		b.line("mail from:<A@B>" + b.mailParams())
	case 4, 10:
		b.line("MAIL FROM:a@b" + b.mailParams())
	case 5, 11:
		b.line("MAIL FROM: <" + pick(r, addrPool...) + ">")
	case 6:
		b.line("MAIL FROM:<" + pick(r, "a", "@b", "a@", "<a@b>", "a b@c", "a@b", "@r1,@r2:u@h", "a@b>x") + ">")
	default:
		b.line("MAIL FROM:<" + pick(r, addrPool...) + ">" + b.mailParams())
	}
	b.script.Mail = append(b.script.Mail, b.berr(6))
}

func (b *convBuilder) rcpt() {
	r := b.rng
	switch r.Intn(30) {
	case 0:
		b.line("RCPT TO:")
	case 1:
		b.line("RCPT FROM:<a@b>")
	case 2, 4, 5:
		b.line("rcpt to:<" + pick(r, addrPool...) + ">" + b.rcptParams())
	case 3:
		b.line("RCPT TO:<" + pick(r, "x", "@", "a@b c", "\"unterminated@x", "@a:b@c") + ">")
	default:
		b.line("RCPT TO:<" + pick(r, addrPool...) + ">" + b.rcptParams())
	}
	b.script.Rcpt = append(b.script.Rcpt, b.berr(10))
}

var lookalikes = []string{"\n.\n", "\n.\r\n", "\r\n.\n", "\r.\r", "\r\n..\r\n", "\r\n.x\r\n", "\r\r\n.\r\r\n", "\r\nMAIL FROM:<bait@evil>\r\n", "\r\nRSET\r\n", "\r\nQUIT\r\n", "\x00\xff\x80", ".\r", "\r\n.\r"}

func (b *convBuilder) body() []byte {
	r := b.rng
	var s []byte
	n := r.Intn(6)
	for i := 0; i < n; i++ {
		switch r.Intn(3) {
		case 0:
			s = append(s, lookalikes[r.Intn(len(lookalikes))]...)
		case 1:
			s = append(s, fmt.Sprintf("line %d of the message\r\n", i)...)
		default:
			k := r.Intn(20)
			for j := 0; j < k; j++ {
				s = append(s, byte(r.Intn(256)))
			}
		}
	}
	return s
}

func (b *convBuilder) plan() DataPlan {
	r := b.rng
	p := DefaultPlan()
	p.Sizes = [][]int{{4096}, {1}, {3}, {7, 2}, {64}}[r.Intn(5)]
	switch r.Intn(6) {
	case 0:
		p.Stop = int64(r.Intn(30))
	case 1:
		p.Stop = 0
	}
	switch r.Intn(5) {
	case 0:
		p.Ret = b.berr(100)
	}
	if r.Intn(3) == 0 {
		p.Prop = false
	}
	if r.Intn(40) == 0 {
		p.Panic = true
	}
	return p
}

// data appends DATA + a message, possibly cut short.
func (b *convBuilder) data(accepted bool) {
	r := b.rng
	if r.Intn(20) == 0 {
		b.line("DATA now")
		return
	}
	b.line("DATA")
	p := b.plan()
	if b.cfg.LMTP && b.cfg.LMTPSession && r.Intn(2) == 0 {
		// per-recipient statuses, within the contract
		for _, a := range addrPool[:3] {
			if r.Intn(2) == 0 {
				p.Status = append(p.Status, StatusCall{Addr: a, Err: b.berr(50)})
			}
		}
	}
	b.script.Data = append(b.script.Data, p)
	body := b.body()
	b.out = append(b.out, body...)
	if r.Intn(12) != 0 {
		b.raw("\r\n.\r\n")
	}
}

func (b *convBuilder) bdat() {
	r := b.rng
	switch r.Intn(14) {
	case 0:
		b.line("BDAT")
		return
	case 1:
		b.line("BDAT 1 2 3")
		return
	case 2:
		b.line("BDAT x LAST")
		return
	case 3:
		b.line("BDAT -1")
		return
	}
	b.script.Data = append(b.script.Data, b.plan())
	nchunks := 1 + r.Intn(3)
	for i := 0; i < nchunks; i++ {
		var payload []byte
		switch r.Intn(4) {
		case 0:
		case 1:
			payload = append(payload, lookalikes[r.Intn(len(lookalikes))]...)
		default:
			k := r.Intn(25)
			for j := 0; j < k; j++ {
				payload = append(payload, byte(r.Intn(256)))
			}
		}
		last := i == nchunks-1 && r.Intn(5) != 0
		arg := ""
		if last {
			arg = pick(r, " LAST", " last", " LAST", " LAST")
		} else if r.Intn(15) == 0 {
			arg = " LOST"
		}
		size := len(payload)
		if r.Intn(20) == 0 {
			size += 3 // declared size longer than what is sent before the next command
		}
		b.line(fmt.Sprintf("BDAT %d%s", size, arg))
		// mostly keep the payload in a later raw read than the command (see known finding F6)
		if r.Intn(4) != 0 {
			b.cut()
		}
		if len(payload) > 2 && r.Intn(12) == 0 {
			// the peer stalls (or the read fails once) inside the chunk
			k := 1 + r.Intn(len(payload)-1)
			b.out = append(b.out, payload[:k]...)
			if b.faults == nil {
				b.faults = map[int]RawKind{}
			}
			b.faults[len(b.out)] = []RawKind{RawTimeout, RawErr}[r.Intn(2)]
			b.out = append(b.out, payload[k:]...)
		} else {
			b.out = append(b.out, payload...)
		}
		if r.Intn(3) == 0 {
			b.cut()
		}
		if r.Intn(10) == 0 {
			b.line(pick(r, "NOOP", "RSET", "MAIL FROM:<x@y>", "RCPT TO:<x@y>", "DATA"))
		}
	}
}

func (b *convBuilder) misc() {
	r := b.rng
	switch r.Intn(16) {
	case 0:
		b.line("NOOP")
	case 1:
		b.line("RSET")
	case 2:
		b.line("VRFY someone")
	case 3:
		b.line("XXXX")
	case 4:
		b.line("X")
	case 5:
		b.line("")
	case 6:
		b.line("HELP")
	case 7:
		b.line("NOOPE")
	case 8:
		b.line("STARTTLS")
	case 9:
		b.line("AUTH PLAIN AGEAYg==")
	case 10:
		b.line("QUIT")
	case 11:
		b.line("noop extra")
	case 12:
		b.line(strings.Repeat("A", 30+r.Intn(80)))
	case 13:
		b.line("EHLO again.example")
	case 14:
		b.line("\xc5\xbfTARTTLS")
	default:
		b.line("RSET")
	}
}

// segment turns the stream into raw read results.
func (b *convBuilder) segment() []Raw {
	r := b.rng
	s := b.out
	mode := r.Intn(5)
	cutset := map[int]bool{}
	for _, c := range b.cuts {
		cutset[c] = true
	}
	var raws []Raw
	start := 0
	flush := func(end int) {
		if end > start {
			raws = append(raws, Raw{Kind: RawData, Data: append([]byte(nil), s[start:end]...)})
			start = end
		}
	}
	for i := 1; i <= len(s); i++ {
		boundary := false
		switch mode {
		case 0: // one segment (apart from forced cuts)
		case 1: // per line
			boundary = s[i-1] == '\n'
		case 2: // random
			boundary = r.Intn(17) == 0
		case 3: // byte by byte for short streams, else random small
			boundary = len(s) < 200 || r.Intn(5) == 0
		case 4: // lock-step like: per line, and also random
			boundary = s[i-1] == '\n' || r.Intn(40) == 0
		}
		if boundary || cutset[i] || i == len(s) || b.faults[i] != 0 {
			flush(i)
		}
		if k, ok := b.faults[i]; ok {
			raws = append(raws, Raw{Kind: k})
		}
	}
	switch r.Intn(8) {
	case 0:
		raws = append(raws, Raw{Kind: RawTimeout})
	case 1:
		raws = append(raws, Raw{Kind: RawErr})
	default:
		raws = append(raws, Raw{Kind: RawEOF})
	}
	return raws
}

func randCfg(r *rand.Rand) Cfg {
	c := DefaultCfg()
	c.LMTP = r.Intn(3) == 0
	c.LMTPSession = c.LMTP && r.Intn(2) == 0
	if r.Intn(3) == 0 {
		c.MaxBytes = int64(pickI(r, 5, 10, 20, 50, 1000))
	}
	if r.Intn(3) == 0 {
		c.MaxRcpt = int(pickI(r, 1, 2, 3))
	}
	switch r.Intn(6) {
	case 0:
		c.MaxLine = 60
	case 1:
		c.MaxLine = 0
	case 2:
		c.MaxLine = 120
	}
	c.UTF8 = r.Intn(2) == 0
	c.RequireTLS = r.Intn(2) == 0
	c.BinaryMIME = r.Intn(2) == 0
	c.DSN = r.Intn(2) == 0
	c.RRVS = r.Intn(2) == 0
	c.Insecure = r.Intn(2) == 0
	if r.Intn(2) == 0 {
		c.HasAuth = true
		c.Auth = []string{"PLAIN", "LOGIN"}[:1+r.Intn(2)]
	}
	return c
}

// GenConvMix: grammar-derived, mostly valid conversations with mutations.
func GenConvMix(rng *rand.Rand, n int, emit func(*Sx)) {
	for i := 0; i < n; i++ {
		b := &convBuilder{rng: rng, cfg: randCfg(rng)}
		if rng.Intn(25) != 0 {
			b.greet()
		}
		if rng.Intn(25) == 0 {
			b.script.NS = append(b.script.NS, b.berr(100))
		}
		txs := 1 + rng.Intn(3)
		wantTLS := rng.Intn(7) == 0
		if wantTLS {
			b.cfg.TLSConfig = true
			b.cfg.MaxLine = 2000
		}
		for t := 0; t < txs; t++ {
			if wantTLS && b.tlsSplit == 0 && (t == txs-1 || rng.Intn(2) == 0) {
				// upgrade here: possibly in the middle of a transaction
				if rng.Intn(2) == 0 {
					b.mail()
					if rng.Intn(2) == 0 {
						b.rcpt()
					}
				}
				if rng.Intn(4) == 0 {
					b.line("AUTH PLAIN AGEAYg==")
				}
				b.line(pick(rng, "STARTTLS", "starttls", "STARTTLS"))
				b.tlsSplit = len(b.out)
				if rng.Intn(3) != 0 {
					b.greet()
				}
			}
			if rng.Intn(8) == 0 {
				b.misc()
			}
			if rng.Intn(12) != 0 {
				b.mail()
			}
			nr := rng.Intn(4)
			for k := 0; k < nr; k++ {
				b.rcpt()
				if rng.Intn(10) == 0 {
					b.misc()
				}
			}
			switch rng.Intn(5) {
			case 0, 1:
				b.data(true)
			case 2, 3:
				b.bdat()
			}
			if rng.Intn(4) == 0 {
				b.misc()
			}
		}
		if rng.Intn(2) == 0 {
			b.line("QUIT")
			if rng.Intn(3) == 0 {
				b.line("EHLO after.quit")
				b.line("MAIL FROM:<late@x>")
			}
		}
		// cut the stream short sometimes
		if rng.Intn(8) == 0 && len(b.out) > 0 && b.tlsSplit == 0 {
			b.out = b.out[:rng.Intn(len(b.out))]
		}
		if b.tlsSplit > 0 {
			// a real STARTTLS upgrade in the middle: the plaintext phase ends with the STARTTLS line, the
			// rest is sent inside TLS (one record per segment)
			plain := segStream(rng, b.out[:b.tlsSplit], nil, rng.Intn(4), Raw{Kind: RawData})
			plain = plain[:len(plain)-1]
			inTLS := segStream(rng, b.out[b.tlsSplit:], nil, []int{0, 1, 3}[rng.Intn(3)], rawEOF)
			b.cfg.Timeouts = nextTimeouts()
			emit(RunConv(ConvCase{Cfg: b.cfg, Script: b.script, Phases: [][]Raw{plain, inTLS}}))
			continue
		}
		b.cfg.Timeouts = nextTimeouts()
		emit(RunConv(ConvCase{Cfg: b.cfg, Script: b.script, Phases: [][]Raw{b.segment()}}))
	}
}
