(* Round-trip and alphabet theorems for the encoding/base64 model of
   Base64.v. *)
From Smtp Require Import Bytes Base64.
Local Open Scope char_scope.

(* ---- sanity tests of the statements ---- *)
Example test_rt1 : b64_decode (b64_encode (bs "hello, world")) = Some (bs "hello, world").
Proof. vm_compute. reflexivity. Qed.
Example test_rt2 : b64_decode (b64_encode (bs "a")) = Some (bs "a").
Proof. vm_compute. reflexivity. Qed.
Example test_rt3 : b64_decode (b64_encode (bs "ab")) = Some (bs "ab").
Proof. vm_compute. reflexivity. Qed.
Example test_enc : b64_encode (bs "foobar") = bs "Zm9vYmFy".
Proof. vm_compute. reflexivity. Qed.
Example test_enc2 : b64_encode (bs "fooba") = bs "Zm9vYmE=".
Proof. vm_compute. reflexivity. Qed.
Example test_enc1 : b64_encode (bs "foob") = bs "Zm9vYg==".
Proof. vm_compute. reflexivity. Qed.

(* ---- the 64-case facts ---- *)

Lemma b64_val_char (s : sextet) : b64_val (b64_char s) = Some s.
Proof.
  destruct s as [[[[[b5 b4] b3] b2] b1] b0].
  destruct b5, b4, b3, b2, b1, b0; vm_compute; reflexivity.
Qed.

Lemma b64_char_not_nl (s : sextet) : is_nl (b64_char s) = false.
Proof.
  destruct s as [[[[[b5 b4] b3] b2] b1] b0].
  destruct b5, b4, b3, b2, b1, b0; vm_compute; reflexivity.
Qed.

Lemma b64_char_not_pad (s : sextet) : Ascii.eqb (b64_char s) "=" = false.
Proof.
  destruct s as [[[[[b5 b4] b3] b2] b1] b0].
  destruct b5, b4, b3, b2, b1, b0; vm_compute; reflexivity.
Qed.

Lemma is_nl_val (c : ascii) : is_nl c = true -> b64_val c = None.
Proof.
  unfold is_nl. intros H. apply orb_true_iff in H as [H|H];
    apply Ascii.eqb_eq in H; subst c; vm_compute; reflexivity.
Qed.

Lemma pad_val : b64_val "=" = None.
Proof. vm_compute. reflexivity. Qed.

Lemma pad_not_nl : is_nl "=" = false.
Proof. vm_compute. reflexivity. Qed.

(* ---- the regrouping is the identity ---- *)

Lemma enc3_spec (a b c : ascii) :
  exists s1 s2 s3 s4,
    enc3 a b c = [b64_char s1; b64_char s2; b64_char s3; b64_char s4]
    /\ dec_4 s1 s2 s3 s4 = [a; b; c].
Proof.
  destruct a as [a0 a1 a2 a3 a4 a5 a6 a7].
  destruct b as [b0 b1 b2 b3 b4 b5 b6 b7].
  destruct c as [c0 c1 c2 c3 c4 c5 c6 c7].
  do 4 eexists. split; reflexivity.
Qed.

Lemma enc2_spec (a b : ascii) :
  exists s1 s2 s3,
    enc2 a b = [b64_char s1; b64_char s2; b64_char s3; "="]
    /\ firstn 2 (dec_4 s1 s2 s3 zero6) = [a; b].
Proof.
  destruct a as [a0 a1 a2 a3 a4 a5 a6 a7].
  destruct b as [b0 b1 b2 b3 b4 b5 b6 b7].
  do 3 eexists. split; reflexivity.
Qed.

Lemma enc1_spec (a : ascii) :
  exists s1 s2,
    enc1 a = [b64_char s1; b64_char s2; "="; "="]
    /\ firstn 1 (dec_4 s1 s2 zero6 zero6) = [a].
Proof.
  destruct a as [a0 a1 a2 a3 a4 a5 a6 a7].
  do 2 eexists. split; reflexivity.
Qed.

(* ---- induction three octets at a time ---- *)

Lemma list_ind3 (A : Type) (P : list A -> Prop) :
  P [] -> (forall a, P [a]) -> (forall a b, P [a; b]) ->
  (forall a b c t, P t -> P (a :: b :: c :: t)) ->
  forall l, P l.
Proof.
  intros H0 H1 H2 H3.
  fix IH 1. intros [|a [|b [|c t]]].
  - exact H0.
  - apply H1.
  - apply H2.
  - apply H3. apply IH.
Qed.

(* ---- one decoder step on an alphabet character ---- *)

Lemma go_char (s : sextet) (t : bytes) (q : list sextet) :
  b64_decode_go (b64_char s :: t) q =
  match q with
  | [s3; s2; s1] => option_map (app (dec_4 s1 s2 s3 s)) (b64_decode_go t [])
  | _ => b64_decode_go t (s :: q)
  end.
Proof. cbn [b64_decode_go]. rewrite b64_val_char. reflexivity. Qed.

Lemma go_quad (s1 s2 s3 s4 : sextet) (t : bytes) :
  b64_decode_go (b64_char s1 :: b64_char s2 :: b64_char s3 :: b64_char s4 :: t) [] =
  option_map (app (dec_4 s1 s2 s3 s4)) (b64_decode_go t []).
Proof. rewrite !go_char. reflexivity. Qed.

Lemma go_pad1 (s1 s2 s3 : sextet) :
  b64_decode_go [b64_char s1; b64_char s2; b64_char s3; "="] [] =
  Some (firstn 2 (dec_4 s1 s2 s3 zero6)).
Proof.
  rewrite !go_char. cbn [b64_decode_go]. rewrite pad_val, pad_not_nl.
  reflexivity.
Qed.

Lemma go_pad2 (s1 s2 : sextet) :
  b64_decode_go [b64_char s1; b64_char s2; "="; "="] [] =
  Some (firstn 1 (dec_4 s1 s2 zero6 zero6)).
Proof.
  rewrite !go_char. cbn [b64_decode_go]. rewrite pad_val, pad_not_nl.
  cbn [skip_nl]. rewrite pad_not_nl. reflexivity.
Qed.

(* ---- 1. round trip ---- *)

Theorem b64_decode_encode : forall x : bytes, b64_decode (b64_encode x) = Some x.
Proof.
  unfold b64_decode.
  induction x as [|a|a b|a b c t IH] using list_ind3.
  - reflexivity.
  - cbn [b64_encode]. destruct (enc1_spec a) as (s1 & s2 & He & Hd).
    rewrite He, go_pad2, Hd. reflexivity.
  - cbn [b64_encode]. destruct (enc2_spec a b) as (s1 & s2 & s3 & He & Hd).
    rewrite He, go_pad1, Hd. reflexivity.
  - cbn [b64_encode]. destruct (enc3_spec a b c) as (s1 & s2 & s3 & s4 & He & Hd).
    rewrite He. cbn [app]. rewrite go_quad, IH, Hd. reflexivity.
Qed.
Print Assumptions b64_decode_encode.

(* ---- 2. alphabet ---- *)

Theorem b64_encode_alphabet :
  forall x c, In c (b64_encode x) -> b64_val c <> None \/ c = "="%char.
Proof.
  assert (Hc : forall s c, b64_char s = c -> b64_val c <> None \/ c = "="%char).
  { intros s c <-. left. rewrite b64_val_char. discriminate. }
  induction x as [|a|a b|a b c t IH] using list_ind3; intros d Hin.
  - destruct Hin.
  - cbn [b64_encode] in Hin. destruct (enc1_spec a) as (s1 & s2 & He & _).
    rewrite He in Hin. cbn [In] in Hin.
    destruct Hin as [H|[H|[H|[H|[]]]]]; eauto.
  - cbn [b64_encode] in Hin. destruct (enc2_spec a b) as (s1 & s2 & s3 & He & _).
    rewrite He in Hin. cbn [In] in Hin.
    destruct Hin as [H|[H|[H|[H|[]]]]]; eauto.
  - cbn [b64_encode] in Hin. apply in_app_or in Hin as [Hin|Hin]; [|auto].
    destruct (enc3_spec a b c) as (s1 & s2 & s3 & s4 & He & _).
    rewrite He in Hin. cbn [In] in Hin.
    destruct Hin as [H|[H|[H|[H|[]]]]]; eauto.
Qed.
Print Assumptions b64_encode_alphabet.

Lemma mem_byte_In (c : ascii) (s : bytes) : mem_byte c s = true <-> In c s.
Proof.
  induction s as [|x t IH]; cbn [mem_byte In].
  - split; [discriminate|tauto].
  - rewrite orb_true_iff, Ascii.eqb_eq, IH. split; intros [H|H]; auto.
Qed.

Lemma b64_encode_not_mem (d : ascii) :
  b64_val d = None -> d <> "="%char ->
  forall x, mem_byte d (b64_encode x) = false.
Proof.
  intros Hv Hp x. destruct (mem_byte d (b64_encode x)) eqn:E; [|reflexivity].
  apply mem_byte_In in E. apply b64_encode_alphabet in E as [E|E]; contradiction.
Qed.

Corollary b64_encode_no_crlf :
  forall x, mem_byte CR (b64_encode x) = false /\ mem_byte LF (b64_encode x) = false.
Proof.
  intros x. split; apply b64_encode_not_mem;
    solve [vm_compute; reflexivity | discriminate].
Qed.
Print Assumptions b64_encode_no_crlf.

Corollary b64_encode_no_space : forall x, mem_byte SP (b64_encode x) = false.
Proof.
  intros x. apply b64_encode_not_mem; solve [vm_compute; reflexivity | discriminate].
Qed.

Corollary b64_encode_no_star : forall x, mem_byte "*" (b64_encode x) = false.
Proof.
  intros x. apply b64_encode_not_mem; solve [vm_compute; reflexivity | discriminate].
Qed.

Corollary b64_encode_not_star : forall x, b64_encode x <> bs "*".
Proof.
  intros x H. pose proof (b64_encode_no_star x) as Hn. rewrite H in Hn.
  vm_compute in Hn. discriminate.
Qed.
Print Assumptions b64_encode_not_star.

(* no octet of the encoding is a newline *)
Lemma b64_encode_no_nl (x : bytes) : forallb (fun c => negb (is_nl c)) (b64_encode x) = true.
Proof.
  apply forallb_forall. intros c Hin.
  destruct (is_nl c) eqn:E; [|reflexivity]. exfalso.
  apply b64_encode_alphabet in Hin as [Hin|Hin].
  - apply Hin. apply is_nl_val. exact E.
  - subst c. vm_compute in E. discriminate.
Qed.

(* ---- 3. SASL response ---- *)

Lemma b64_encode_head (x : bytes) :
  x <> [] -> exists s t, b64_encode x = b64_char s :: t.
Proof.
  destruct x as [|a [|b [|c t]]]; intros Hx.
  - contradiction.
  - destruct (enc1_spec a) as (s1 & s2 & He & _). cbn [b64_encode]. rewrite He. eauto.
  - destruct (enc2_spec a b) as (s1 & s2 & s3 & He & _). cbn [b64_encode]. rewrite He. eauto.
  - destruct (enc3_spec a b c) as (s1 & s2 & s3 & s4 & He & _).
    cbn [b64_encode]. rewrite He. cbn [app]. eauto.
Qed.

Lemma b64_encode_not_pad (x : bytes) : x <> [] -> b64_encode x <> bs "=".
Proof.
  intros Hx H. destruct (b64_encode_head x Hx) as (s & t & He).
  rewrite He in H. change (bs "=") with ["="] in H.
  injection H as H _. pose proof (b64_char_not_pad s) as Hp.
  rewrite H in Hp. vm_compute in Hp. discriminate.
Qed.

Theorem decode_sasl_response_encode :
  forall x, x <> [] -> decode_sasl_response (b64_encode x) = Some x.
Proof.
  intros x Hx. unfold decode_sasl_response.
  destruct (bytes_eqb (b64_encode x) (bs "=")) eqn:E.
  - apply bytes_eqb_eq in E. exfalso. exact (b64_encode_not_pad x Hx E).
  - apply b64_decode_encode.
Qed.
Print Assumptions decode_sasl_response_encode.

Theorem decode_sasl_response_pad : decode_sasl_response (bs "=") = Some [].
Proof. vm_compute. reflexivity. Qed.
Print Assumptions decode_sasl_response_pad.

(* ---- 4. CR / LF are ignored anywhere ---- *)

Definition non_nl (c : ascii) : bool := negb (is_nl c).
Definition strip_nl (s : bytes) : bytes := filter non_nl s.

Lemma strip_nl_cons (c : ascii) (t : bytes) :
  strip_nl (c :: t) = if is_nl c then strip_nl t else c :: strip_nl t.
Proof. unfold strip_nl. cbn [filter]. unfold non_nl at 1. destruct (is_nl c); reflexivity. Qed.

Lemma skip_nl_strip (t : bytes) :
  (skip_nl t = [] /\ strip_nl t = []) \/
  (exists c2 t2, skip_nl t = c2 :: t2 /\ is_nl c2 = false
                 /\ strip_nl t = c2 :: strip_nl t2).
Proof.
  induction t as [|c t IH].
  - left. split; reflexivity.
  - rewrite strip_nl_cons. cbn [skip_nl].
    destruct (is_nl c) eqn:E.
    + exact IH.
    + right. exists c, t. repeat split. exact E.
Qed.

(* the decoder sees only the non-newline octets *)
Theorem b64_decode_go_strip_nl (s : bytes) :
  forall q, b64_decode_go s q = b64_decode_go (strip_nl s) q.
Proof.
  induction s as [|c t IH]; intros q.
  - reflexivity.
  - rewrite strip_nl_cons.
    destruct (is_nl c) eqn:Hnl.
    + cbn [b64_decode_go]. rewrite (is_nl_val c Hnl), Hnl. apply IH.
    + cbn [b64_decode_go]. rewrite Hnl. destruct (b64_val c) as [v|].
      * destruct q as [|s3 [|s2 [|s1 [|s0 q]]]]; try apply IH.
        rewrite IH. reflexivity.
      * destruct (Ascii.eqb c "="); [|reflexivity].
        destruct q as [|s2 [|s1 [|s0 [|s q]]]]; try reflexivity.
        -- destruct (skip_nl_strip t) as [[H1 H2]|(c2 & t2 & H1 & H2 & H3)].
           ++ rewrite H1, H2. reflexivity.
           ++ rewrite H1, H3. cbn [skip_nl]. rewrite H2.
              destruct (Ascii.eqb c2 "="); [|reflexivity].
              destruct (skip_nl_strip t2) as [[K1 K2]|(c3 & t3 & K1 & K2 & K3)].
              ** rewrite K1, K2. reflexivity.
              ** rewrite K1, K3. cbn [skip_nl]. rewrite K2. reflexivity.
        -- destruct (skip_nl_strip t) as [[H1 H2]|(c2 & t2 & H1 & H2 & H3)].
           ++ rewrite H1, H2. reflexivity.
           ++ rewrite H1, H3. cbn [skip_nl]. rewrite H2. reflexivity.
Qed.

Corollary b64_decode_strip_nl (s : bytes) : b64_decode s = b64_decode (strip_nl s).
Proof. apply b64_decode_go_strip_nl. Qed.
Print Assumptions b64_decode_strip_nl.

Lemma strip_nl_app (a b : bytes) : strip_nl (a ++ b) = strip_nl a ++ strip_nl b.
Proof. apply filter_app. Qed.

Lemma strip_nl_all_nl (nl : bytes) : forallb is_nl nl = true -> strip_nl nl = [].
Proof.
  induction nl as [|c t IH]; cbn [forallb]; intros H.
  - reflexivity.
  - apply andb_true_iff in H as [H1 H2]. rewrite strip_nl_cons, H1.
    apply IH. exact H2.
Qed.

Lemma strip_nl_none (s : bytes) : forallb non_nl s = true -> strip_nl s = s.
Proof.
  induction s as [|c t IH]; cbn [forallb]; intros H.
  - reflexivity.
  - apply andb_true_iff in H as [H1 H2]. rewrite strip_nl_cons.
    unfold non_nl in H1. apply negb_true_iff in H1. rewrite H1.
    f_equal. apply IH. exact H2.
Qed.

Theorem b64_decode_nl_insensitive :
  forall x pre post, b64_encode x = pre ++ post ->
  forall nl, forallb is_nl nl = true ->
  b64_decode (pre ++ nl ++ post) = Some x.
Proof.
  intros x pre post He nl Hnl.
  rewrite b64_decode_strip_nl, !strip_nl_app, (strip_nl_all_nl nl Hnl).
  cbn [app]. rewrite <- strip_nl_app, <- He.
  rewrite (strip_nl_none _ (b64_encode_no_nl x)).
  apply b64_decode_encode.
Qed.
Print Assumptions b64_decode_nl_insensitive.

(* stronger form: any number of CR/LF insertions at any positions *)
Theorem b64_decode_nl_insensitive_gen :
  forall x s, strip_nl s = b64_encode x -> b64_decode s = Some x.
Proof.
  intros x s H. rewrite b64_decode_strip_nl, H. apply b64_decode_encode.
Qed.
Print Assumptions b64_decode_nl_insensitive_gen.
