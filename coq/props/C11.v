(* C11 - MAIL/RCPT arguments reach the backend exactly as sent, or are refused.

   [classify_mail] / [classify_rcpt] (RefGrammar.v) is an independent
   recogniser/decoder written from the RFC grammars; it sorts the argument of
   a MAIL / RCPT command into Valid mailbox opts | Invalid | Unspecified.
   The theorems relate it to the model of handleMail / handleRcpt (Conn.v),
   for EVERY configuration, EVERY connection state in which the command is
   admissible and EVERY argument (no length bound).

   - C11_valid_exact_mail / _rcpt: a Valid line makes the handler call the
     backend with exactly the reference's mailbox and options (all other
     fields zero, they come from mo_zero / ro_zero), followed by the reply
     that belongs to the backend's scripted answer.
   - C11_invalid_refused_mail_partial / _rcpt_partial: an Invalid line is
     answered by a single 5xx reply and no callback - PROVIDED the line does
     not use one of the two deviations go-smtp accepts:
       fold_trap       : U+017F / U+0131 in a keyword, mapped to S / I by
                         Go's Unicode strings.ToUpper ("ſIZE=1" = SIZE=1);
       flag_with_value : SMTPUTF8=x / REQUIRETLS=x (the value is ignored).
     "_partial": the full statement
         classify_mail cfg arg = Invalid -> refused (snd (handle_mail cfg c arg))
     is FALSE for the implementation, see C11_refuted_*: witnesses on which
     the line is Invalid and the backend is called (reproduced against the
     real server by the c11 correspondence cases; known-finding signatures
     C11-unicode-fold and C11-flag-value).  Nothing else is missing: the two
     hypotheses are exactly the complement of the refutations' root causes. *)
From Smtp Require Import Bytes Reply Rfc3339 Conn RefGrammar RefGrammarProofs.

Theorem C11_valid_exact_mail (cfg : config) (c : conn) (arg from : bytes) (opts : mail_opts) :
  c_helo c <> [] -> c_bdat c = None -> c_session c = true ->
  classify_mail cfg arg = Valid from opts ->
  snd (handle_mail cfg c arg) = mail_ok_events from opts (fst (pop BNil (be_mail (c_be c)))).
Proof. exact (valid_exact_mail cfg c arg from opts). Qed.
Print Assumptions C11_valid_exact_mail.

Theorem C11_valid_exact_rcpt (cfg : config) (c : conn) (arg rcpt : bytes) (opts : rcpt_opts) :
  c_from c = true -> c_bdat c = None -> c_session c = true -> rcpt_limit_free cfg c ->
  classify_rcpt cfg arg = Valid rcpt opts ->
  snd (handle_rcpt cfg c arg) = rcpt_ok_events rcpt opts (fst (pop BNil (be_rcpt (c_be c)))).
Proof. exact (valid_exact_rcpt cfg c arg rcpt opts). Qed.
Print Assumptions C11_valid_exact_rcpt.

Theorem C11_invalid_refused_mail_partial (cfg : config) (c : conn) (arg : bytes) :
  c_helo c <> [] -> c_bdat c = None ->
  classify_mail cfg arg = Invalid -> fold_trap arg = false -> flag_with_value arg = false ->
  refused (snd (handle_mail cfg c arg)).
Proof. exact (invalid_refused_mail_5xx cfg c arg). Qed.
Print Assumptions C11_invalid_refused_mail_partial.

Theorem C11_invalid_refused_rcpt_partial (cfg : config) (c : conn) (arg : bytes) :
  c_from c = true -> c_bdat c = None -> rcpt_limit_free cfg c ->
  classify_rcpt cfg arg = Invalid -> fold_trap arg = false ->
  refused (snd (handle_rcpt cfg c arg)).
Proof. exact (invalid_refused_rcpt_5xx cfg c arg). Qed.
Print Assumptions C11_invalid_refused_rcpt_partial.

(* a refused command calls nothing *)
Theorem C11_refused_no_callback (evs : list event) :
  refused evs ->
  forall e, In e evs -> match e with EMail _ _ _ | ERcpt _ _ _ => False | _ => True end.
Proof. exact (refused_no_callback evs). Qed.
Print Assumptions C11_refused_no_callback.

(* the deviations: Invalid lines that reach the backend *)
Theorem C11_refuted_unicode_fold_mail :
  let arg := bs "FROM:<a@b> " ++ long_s ++ bs "IZE=1" in
  classify_mail cfg_all arg = Invalid /\
  snd (handle_mail cfg_all (conn_ready false) arg)
  = mail_ok_events (bs "a@b") (mkMO [] 1 false false [] [] None) BNil.
Proof. exact refuted_unicode_fold_mail. Qed.
Print Assumptions C11_refuted_unicode_fold_mail.

Theorem C11_refuted_unicode_fold_rcpt :
  let arg := bs "TO:<a@b> NOT" ++ dotless_i ++ bs "FY=NEVER" in
  classify_rcpt cfg_all arg = Invalid /\
  snd (handle_rcpt cfg_all (conn_ready true) arg)
  = rcpt_ok_events (bs "a@b") (mkRO [bs "NEVER"] [] [] None) BNil.
Proof. exact refuted_unicode_fold_rcpt. Qed.
Print Assumptions C11_refuted_unicode_fold_rcpt.

Theorem C11_refuted_flag_value_mail :
  let arg := bs "FROM:<a@b> SMTPUTF8=1" in
  classify_mail cfg_all arg = Invalid /\
  snd (handle_mail cfg_all (conn_ready false) arg)
  = mail_ok_events (bs "a@b") (mkMO [] 0 false true [] [] None) BNil.
Proof. exact refuted_flag_value_mail. Qed.
Print Assumptions C11_refuted_flag_value_mail.

(* non-vacuity: the hypotheses are satisfiable together, on a concrete
   admissible state, for a line with every MAIL parameter and for a line with
   every RCPT parameter *)
Example C11_witness_mail :
  let c := conn_ready false in
  let arg := bs "FROM:<a@b> AUTH=<> ENVID=x RET=FULL REQUIRETLS SMTPUTF8 BODY=7BIT SIZE=5" in
  c_helo c <> [] /\ c_bdat c = None /\ c_session c = true /\
  classify_mail cfg_all arg = Valid (bs "a@b") (mkMO (bs "7BIT") 5 true true (bs "FULL") (bs "x") (Some [])).
Proof. vm_compute. repeat split; try reflexivity; discriminate. Qed.

Example C11_witness_rcpt :
  let c := conn_ready true in
  let arg := bs "TO:<""q s""@d.example> RRVS=2014-04-03T23:01:00Z;C ORCPT=rfc822;Bob+20S@x NOTIFY=FAILURE,DELAY" in
  c_from c = true /\ c_bdat c = None /\ c_session c = true /\ rcpt_limit_free cfg_all c /\
  classify_rcpt cfg_all arg
  = Valid (bs "q s@d.example")
          (mkRO [bs "FAILURE"; bs "DELAY"] (bs "RFC822") (bs "Bob S@x") (Some (mkRT 1396566060 0 0))).
Proof. vm_compute. repeat split; reflexivity. Qed.

Example C11_witness_invalid :
  let c := conn_ready false in
  let arg := bs "FROM:<a@b> SIZE=1x" in
  c_helo c <> [] /\ c_bdat c = None /\ classify_mail cfg_all arg = Invalid /\
  fold_trap arg = false /\ flag_with_value arg = false.
Proof. vm_compute. repeat split; try reflexivity; discriminate. Qed.
