(* C14 - envelope and options survive the client-to-server trip.

   Composition of the client's rendering (Client.v: mail_params / rcpt_params
   / mail_line / rcpt_line) with the server's parsing (Parse.v, Conn.v:
   parse_cmd, handle_mail, handle_rcpt):

   [C14_mail_trip], [C14_rcpt_trip]: for every sender / recipient in
   [addr_ok] (or the null sender), every option record of the stated domain
   for which the client returns no local error, a client whose extension map
   holds the keys of the options used and a server with the extensions
   enabled: the line the client writes is parsed by the server into the MAIL /
   RCPT event carrying the SAME address and the SAME options, MailOptions.Body
   included ([C14_body]: each of 7BIT / 8BITMIME / BINARYMIME x every server
   configuration; an unset Body arrives as the documented default "8BITMIME").

   Outside the domain, with witnesses: F25 (addresses that are not
   addr_simple), [C14_addr_special_refused] (addr_simple but refused by the
   server's path parser), [C14_auth_brackets_refuted] (Auth = "<>").
   ORCPT=UTF-8 holds for every text over U+0020..U+007F and the non-ASCII
   scalar values in BOTH forms: the unitext form embeds the non-ASCII
   White_Space code points ([C14_orcpt_unicode_space_ex]; sending them raw
   was finding F29). *)
From Smtp Require Import Bytes GoStrings Utf8 Xtext Parse Reply Rfc3339 Conn
                         Utf8Proofs XtextProofs ReplyProofs
                         C14Time C14Rfc3339 C14Param C14Line C14Unitext.
From Smtp Require Client ClientReply ClientProofs CheckTrip.
From Coq Require Import Lia Permutation.
Local Open Scope char_scope.

(* ------------------------------------------------------------------ *)
(* the server visits the parameters in sorted key order                *)
(* ------------------------------------------------------------------ *)

Lemma insert_kv_in kv l x : In x (insert_kv kv l) <-> x = kv \/ In x l.
Proof.
  induction l as [|y l IH]; cbn [insert_kv In]; [intuition|].
  destruct (bytes_ltb (fst kv) (fst y)); cbn [In]; [intuition|]. rewrite IH. intuition.
Qed.

Lemma sort_kv_in l x : In x (sort_kv l) <-> In x l.
Proof.
  induction l as [|y l IH]; cbn [sort_kv fold_right In]; [reflexivity|].
  fold (sort_kv l). rewrite insert_kv_in, IH. intuition.
Qed.

Definition has_key (k : bytes) (ks : list bytes) : bool := existsb (bytes_eqb k) ks.

Lemma has_key_in k ks : has_key k ks = true <-> In k ks.
Proof.
  unfold has_key. rewrite existsb_exists. split.
  - intros (x & Hx & E). apply bytes_eqb_eq in E. now subst.
  - intros H. exists k. split; [exact H|apply bytes_eqb_refl].
Qed.

Lemma has_key_cons k k0 ks : has_key k (k0 :: ks) = bytes_eqb k k0 || has_key k ks.
Proof. reflexivity. Qed.

(* ------------------------------------------------------------------ *)
(* MAIL: folding parameter setters in any order                        *)
(* ------------------------------------------------------------------ *)

(* the fields of e named by the keys ks, the others from o *)
Definition mo_merge (ks : list bytes) (e o : mail_opts) : mail_opts :=
  mkMO (if has_key (bs "BODY") ks then mo_body e else mo_body o)
       (if has_key (bs "SIZE") ks then mo_size e else mo_size o)
       (if has_key (bs "REQUIRETLS") ks then mo_requiretls e else mo_requiretls o)
       (if has_key (bs "SMTPUTF8") ks then mo_utf8 e else mo_utf8 o)
       (if has_key (bs "RET") ks then mo_ret e else mo_ret o)
       (if has_key (bs "ENVID") ks then mo_envid e else mo_envid o)
       (if has_key (bs "AUTH") ks then mo_auth e else mo_auth o).

(* BODY=BINARYMIME raises the connection's binarymime flag *)
Definition bin_kv (kv : bytes * bytes) : bool :=
  bytes_eqb (fst kv) (bs "BODY") && is_binarymime (snd kv).

Lemma bin_kv_other k v : bytes_eqb k (bs "BODY") = false -> bin_kv (k, v) = false.
Proof. intros H. unfold bin_kv. cbn [fst]. now rewrite H. Qed.

Definition sets_mail (cfg : config) (e : mail_opts) (k v : bytes) : Prop :=
  forall o bm, mail_param cfg k v o bm = inl (mo_merge [k] e o, bm || bin_kv (k, v)).

Lemma merge_field {A} K k ks (x y : A) :
  (if has_key K ks then x else if has_key K [k] then x else y)
  = if has_key K (k :: ks) then x else y.
Proof.
  unfold has_key. cbn [existsb]. rewrite orb_false_r.
  destruct (bytes_eqb K k), (existsb (bytes_eqb K) ks); reflexivity.
Qed.

Lemma mo_merge_cons k ks e o : mo_merge ks e (mo_merge [k] e o) = mo_merge (k :: ks) e o.
Proof.
  unfold mo_merge. cbn [mo_body mo_size mo_requiretls mo_utf8 mo_ret mo_envid mo_auth].
  rewrite !merge_field. reflexivity.
Qed.

Lemma mail_params_merge cfg e l :
  (forall k v, In (k, v) l -> sets_mail cfg e k v) ->
  forall o bm, Conn.mail_params cfg l o bm
               = inl (mo_merge (map fst l) e o, bm || existsb bin_kv l).
Proof.
  induction l as [|[k v] l IH]; intros H o bm.
  - cbn [Conn.mail_params map existsb]. rewrite orb_false_r.
    unfold mo_merge, has_key. cbn [existsb]. destruct o; reflexivity.
  - cbn [Conn.mail_params map fst existsb]. rewrite (H k v (or_introl eq_refl)).
    rewrite IH by (intros k' v' Hin; apply H; now right). now rewrite mo_merge_cons, orb_assoc.
Qed.

(* ------------------------------------------------------------------ *)
(* RCPT                                                                *)
(* ------------------------------------------------------------------ *)

Definition ro_merge (ks : list bytes) (e o : rcpt_opts) : rcpt_opts :=
  mkRO (if has_key (bs "NOTIFY") ks then ro_notify e else ro_notify o)
       (if has_key (bs "ORCPT") ks then ro_orcpt_type e else ro_orcpt_type o)
       (if has_key (bs "ORCPT") ks then ro_orcpt e else ro_orcpt o)
       (if has_key (bs "RRVS") ks then ro_rrvs e else ro_rrvs o).

Definition sets_rcpt (cfg : config) (e : rcpt_opts) (k v : bytes) : Prop :=
  forall o, rcpt_param cfg k v o = inl (ro_merge [k] e o).

Lemma ro_merge_cons k ks e o : ro_merge ks e (ro_merge [k] e o) = ro_merge (k :: ks) e o.
Proof.
  unfold ro_merge. cbn [ro_notify ro_orcpt_type ro_orcpt ro_rrvs].
  rewrite !merge_field. reflexivity.
Qed.

Lemma rcpt_params_merge cfg e l :
  (forall k v, In (k, v) l -> sets_rcpt cfg e k v) ->
  forall o, Conn.rcpt_params cfg l o = inl (ro_merge (map fst l) e o).
Proof.
  induction l as [|[k v] l IH]; intros H o.
  - cbn [Conn.rcpt_params map]. unfold ro_merge, has_key. cbn [existsb]. destruct o; reflexivity.
  - cbn [Conn.rcpt_params map fst]. rewrite (H k v (or_introl eq_refl)).
    rewrite IH by (intros k' v' Hin; apply H; now right). now rewrite ro_merge_cons.
Qed.

(* ------------------------------------------------------------------ *)
(* tokens: shape and white-space freedom                               *)
(* ------------------------------------------------------------------ *)

Lemma tokch_of (P : ascii -> bool) :
  forallb (fun n => implb (P (n_byte n)) (tokch (n_byte n))) (map N.of_nat (seq 0 256)) = true ->
  forall s, forallb P s = true -> forallb tokch s = true.
Proof.
  intros H s Hs. eapply forallb_impl; [|exact Hs].
  intros c Hc. pose proof (byte_enum (fun c => implb (P c) (tokch c)) H c) as I.
  cbv beta in I. rewrite Hc in I. exact I.
Qed.

Definition xtch (c : ascii) : bool := xtext_plain c || Ascii.eqb c "+".

Lemma encode_xtext_xtch s : forallb xtch (encode_xtext s) = true.
Proof.
  apply forallb_forall. intros c Hc. apply encode_xtext_clean in Hc as [H| ->]; unfold xtch.
  - now rewrite H.
  - apply orb_true_r.
Qed.

Lemma xtch_tokch s : forallb xtch s = true -> forallb tokch s = true.
Proof. apply tokch_of. vm_compute. reflexivity. Qed.

Lemma xtch_no_eq s : forallb xtch s = true -> mem_byte "=" s = false.
Proof. intros H. eapply forallb_not_mem; [exact H|reflexivity]. Qed.

Lemma zch_tokch s : forallb zch s = true -> forallb tokch s = true.
Proof. apply tokch_of. vm_compute. reflexivity. Qed.

Lemma zch_no_eq s : forallb zch s = true -> mem_byte "=" s = false.
Proof. intros H. eapply forallb_not_mem; [exact H|reflexivity]. Qed.

Lemma timech_tokch s : forallb ClientProofs.timech s = true -> forallb tokch s = true.
Proof. apply tokch_of. vm_compute. reflexivity. Qed.

Lemma timech_no_eq s : forallb ClientProofs.timech s = true -> mem_byte "=" s = false.
Proof. intros H. eapply forallb_not_mem; [exact H|reflexivity]. Qed.

Lemma ws_free_clean s : ws_free s = true -> clean s.
Proof.
  induction s as [|c s IH]; [intros _; split; reflexivity|].
  intros H. pose proof (ws_free_head c s H) as Z. cbn [ws_free] in H.
  apply andb_true_iff in H as [_ H]. destruct (IH H) as [A B].
  unfold space_len in Z. destruct (is_ascii_space c) eqn:S; [discriminate|].
  split; cbn [mem_byte]; [rewrite A|rewrite B]; rewrite orb_false_r;
    (destruct (Ascii.eqb _ c) eqn:E; [apply Ascii.eqb_eq in E; subst c; vm_compute in S; discriminate|reflexivity]).
Qed.

Lemma clean_app a b : clean a -> clean b -> clean (a ++ b).
Proof. intros [A B] [C D]. split; rewrite mem_byte_app; [rewrite A, C|rewrite B, D]; reflexivity. Qed.

Lemma render_clean ps : Forall tok_ok ps -> clean (render ps).
Proof.
  induction 1 as [|p ps [Hw _] _ IH]; [split; reflexivity|].
  cbn [render flat_map]. fold (render ps). apply (clean_app (" " :: p)); [|exact IH].
  apply (clean_app [" "] p); [split; reflexivity|now apply ws_free_clean].
Qed.

(* flags are written bare, everything else as KEY=value *)
Definition is_flag (k : bytes) : bool :=
  bytes_eqb k (bs "REQUIRETLS") || bytes_eqb k (bs "SMTPUTF8").
Definition tok_of (kv : bytes * bytes) : bytes :=
  if is_flag (fst kv) then fst kv else fst kv ++ "=" :: snd kv.

Ltac tokof :=
  unfold tok_of; cbn [fst snd];
  match goal with
  | |- context [is_flag (bs ?k)] =>
      let v := eval vm_compute in (is_flag (bs k)) in change (is_flag (bs k)) with v
  end; cbv iota.

Lemma Forall2_map_tok (kvs : list (bytes * bytes)) :
  (forall kv, In kv kvs -> tok_kv (tok_of kv) (fst kv) (snd kv)) ->
  Forall2 (fun p kv => tok_kv p (fst kv) (snd kv)) (map tok_of kvs) kvs.
Proof.
  induction kvs as [|kv kvs IH]; intros H; [constructor|]. cbn [map]. constructor.
  - apply H. now left.
  - apply IH. intros x Hx. apply H. now right.
Qed.

Lemma keys_sorted m k : In k (map fst (sort_kv m)) <-> In k (map fst m).
Proof.
  rewrite !in_map_iff. split; intros (x & E & Hx); exists x; (split; [exact E|]); now apply sort_kv_in.
Qed.

(* ------------------------------------------------------------------ *)
(* MAIL                                                                *)
(* ------------------------------------------------------------------ *)

(* Body as the backend sees it: the value given; an unset Body is sent as
   BODY=8BITMIME whenever the server offers 8BITMIME (the documented default of
   Client.Mail), and not at all otherwise *)
Definition seen_body (ext : option Client.extmap) (o : mail_opts) : bytes :=
  match mo_body o with
  | [] => if Client.has_ext ext (bs "8BITMIME") then bs "8BITMIME" else []
  | _ :: _ => mo_body o
  end.

(* what the backend sees for the options o: o itself when Body is set *)
Definition seen_mail (ext : option Client.extmap) (o : mail_opts) : mail_opts :=
  set_body o (seen_body ext o).

Lemma seen_mail_id ext o : mo_body o <> [] -> seen_mail ext o = o.
Proof.
  intros H. unfold seen_mail, seen_body, set_body. destruct o as [b s r u rt ev au].
  cbn [mo_body mo_size mo_requiretls mo_utf8 mo_ret mo_envid mo_auth] in *.
  destruct b; [congruence|reflexivity].
Qed.

Definition body_kvs (ext : option Client.extmap) (o : mail_opts) : list (bytes * bytes) :=
  match seen_body ext o with [] => [] | _ :: _ => [(bs "BODY", seen_body ext o)] end.

Definition mail_kvs (ext : option Client.extmap) (o : mail_opts) : list (bytes * bytes) :=
  body_kvs ext o
  ++ (if (mo_size o =? 0)%Z then [] else [(bs "SIZE", dec_of_Z (mo_size o))])
  ++ (if mo_requiretls o then [(bs "REQUIRETLS", [])] else [])
  ++ (if mo_utf8 o then [(bs "SMTPUTF8", [])] else [])
  ++ (match mo_ret o with [] => [] | _ :: _ => [(bs "RET", mo_ret o)] end)
  ++ (match mo_envid o with [] => [] | _ :: _ => [(bs "ENVID", encode_xtext (mo_envid o))] end)
  ++ (match mo_auth o with None => [] | Some a => [(bs "AUTH", Client.auth_value a)] end).

Definition mail_toks ext (o : mail_opts) : list bytes := map tok_of (mail_kvs ext o).

(* the options the theorem speaks about *)
Definition mail_dom (cfg : config) (o : mail_opts) : Prop :=
  (mo_body o = [] \/ body_value (mo_body o))
  /\ (0 <= mo_size o < 2 ^ 63)%Z
  /\ (cf_max_bytes cfg <= 0 \/ mo_size o <= cf_max_bytes cfg)%Z
  /\ (mo_ret o = [] \/ mo_ret o = bs "FULL" \/ mo_ret o = bs "HDRS")
  /\ is_printable_ascii (mo_envid o) = true
  /\ match mo_auth o with
     | Some ((_ :: _) as a) => forallb is_ascii7 a = true /\ parse_mailbox a = Some (a, [])
     | _ => True
     end.

(* the server has the extensions the options need *)
Definition mail_srv (cfg : config) (o : mail_opts) : Prop :=
  (mo_body o = bs "BINARYMIME" -> cf_binarymime cfg = true)
  /\ (mo_requiretls o = true -> cf_requiretls cfg = true)
  /\ (mo_utf8 o = true -> cf_utf8 cfg = true)
  /\ (mo_ret o <> [] \/ mo_envid o <> [] -> cf_dsn cfg = true).

(* ... and the client has learnt them from EHLO *)
Definition mail_ext (ext : option Client.extmap) (o : mail_opts) : Prop :=
  (mo_body o = bs "7BIT" \/ mo_body o = bs "8BITMIME" -> Client.has_ext ext (bs "8BITMIME") = true)
  /\ (mo_body o = bs "BINARYMIME" -> Client.has_ext ext (bs "BINARYMIME") = true)
  /\ (mo_size o <> 0%Z -> Client.has_ext ext (bs "SIZE") = true)
  /\ (mo_requiretls o = true -> Client.has_ext ext (bs "REQUIRETLS") = true)
  /\ (mo_utf8 o = true -> Client.has_ext ext (bs "SMTPUTF8") = true)
  /\ (mo_ret o <> [] \/ mo_envid o <> [] -> Client.has_ext ext (bs "DSN") = true)
  /\ (mo_auth o <> None -> Client.has_ext ext (bs "AUTH") = true).

(* the BODY token the client writes *)
Lemma client_body_toks ext opts :
  let o := match opts with Some o => o | None => mo_zero end in
  (mo_body o = [] \/ body_value (mo_body o)) -> mail_ext ext o ->
  Client.mail_body_param ext opts = inl (map tok_of (body_kvs ext o)).
Proof.
  intros o Hb (H8 & Hbin & _). unfold Client.mail_body_param, body_kvs, seen_body, Client.key.
  destruct opts as [o'|].
  - subst o. destruct Hb as [E|[E|[E|E]]]; rewrite E in *.
    + destruct (Client.has_ext ext (bs "8BITMIME")); reflexivity.
    + rewrite (H8 (or_introl eq_refl)). reflexivity.
    + rewrite (H8 (or_intror eq_refl)). reflexivity.
    + rewrite (Hbin eq_refl). reflexivity.
  - subst o. cbn [mo_body mo_zero]. destruct (Client.has_ext ext (bs "8BITMIME")); reflexivity.
Qed.

Lemma client_mail_toks cfg ext o :
  mail_dom cfg o -> mail_ext ext o ->
  Client.mail_params ext (Some o) = inl (mail_toks ext o).
Proof.
  intros Hdom Hext.
  pose proof (client_body_toks ext (Some o) (proj1 Hdom) Hext) as Hbt. cbv zeta in Hbt.
  destruct Hdom as (_ & _ & _ & Hret & Hp & _). destruct Hext as (_ & _ & Hs & Hr & Hu & Hd & Ha).
  unfold Client.mail_params. rewrite Hbt. clear Hbt.
  unfold mail_toks, mail_kvs. rewrite map_app.
  unfold body_kvs. generalize (seen_body ext o). intros sb.
  destruct o as [body size rtls utf8 ret envid auth].
  cbn [mo_body mo_size mo_requiretls mo_utf8 mo_ret mo_envid mo_auth] in *.
  unfold Client.mail_dsn_params, Client.key.
  cbn [mo_body mo_size mo_requiretls mo_utf8 mo_ret mo_envid mo_auth].
  assert (Hs' : (size =? 0)%Z = false -> Client.has_ext ext (bs "SIZE") = true) by (intros E; apply Hs; lia).
  destruct (size =? 0)%Z; [rewrite andb_false_r|rewrite (Hs' eq_refl)];
  (destruct rtls; [rewrite (Hr eq_refl)|]);
  (destruct utf8; [rewrite (Hu eq_refl)|]);
  cbn [andb negb];
  (destruct (Client.has_ext ext (bs "DSN")) eqn:D;
   [ destruct Hret as [->|[->| ->]];
     (destruct envid as [|e0 envid]; [|rewrite Hp])
   | destruct ret as [|r0 ret]; [|exfalso; assert (true = false) by (symmetry; apply Hd; left; discriminate); discriminate];
     destruct envid as [|e0 envid]; [|exfalso; assert (true = false) by (symmetry; apply Hd; right; discriminate); discriminate] ]);
  (destruct auth as [a|]; [rewrite Ha by discriminate|]);
  destruct sb; reflexivity.
Qed.

(* the Body the backend sees is one the server accepts *)
Lemma seen_body_value cfg ext o :
  mail_dom cfg o -> mail_srv cfg o ->
  seen_body ext o = [] \/ (body_value (seen_body ext o)
                          /\ (seen_body ext o = bs "BINARYMIME" -> cf_binarymime cfg = true)).
Proof.
  intros (Hb & _) (Sb & _). unfold seen_body.
  destruct Hb as [E|Hv].
  - rewrite E. destruct (Client.has_ext ext (bs "8BITMIME")); [right|left; reflexivity].
    split; [right; left; reflexivity|discriminate].
  - right. destruct (mo_body o) as [|b0 bt] eqn:E.
    + destruct Hv as [H|[H|H]]; discriminate H.
    + split; [exact Hv|exact Sb].
Qed.

Ltac nobin :=
  match goal with
  | |- context [bin_kv (bs ?k, ?v)] => rewrite (bin_kv_other (bs k) v eq_refl), orb_false_r
  end.

Lemma mail_kv_facts cfg ext o kv :
  mail_dom cfg o -> mail_srv cfg o -> In kv (mail_kvs ext o) ->
  tok_kv (tok_of kv) (fst kv) (snd kv) /\ tok_ok (tok_of kv)
  /\ sets_mail cfg (seen_mail ext o) (fst kv) (snd kv).
Proof.
  intros Hdom Hsrv Hin. pose proof (seen_body_value cfg ext o Hdom Hsrv) as Hsb.
  destruct Hdom as (_ & Hsz & Hmax & Hret & Hp & Hauth). destruct Hsrv as (_ & Sr & Su & Sd).
  unfold mail_kvs in Hin. repeat (apply in_app_or in Hin as [Hin|Hin]).
  - (* BODY *)
    unfold body_kvs in Hin. unfold seen_mail.
    destruct (seen_body ext o) as [|s0 st] eqn:Esb; [destruct Hin|]. destruct Hin as [<-|[]].
    destruct Hsb as [Hsb|[Hv Hbin]]; [discriminate|]. cbn [fst snd]. split; [|split].
    + destruct Hv as [-> | [-> | ->]]; (repeat split; try reflexivity; left; split; [reflexivity|split; [discriminate|reflexivity]]).
    + destruct Hv as [-> | [-> | ->]]; (split; [reflexivity|discriminate]).
    + intros o' bm. rewrite (C14_body_param cfg (s0 :: st) o' bm Hv Hbin). reflexivity.
  - (* SIZE *)
    destruct (mo_size o =? 0)%Z eqn:Z; [destruct Hin|]. destruct Hin as [<-|[]].
    pose proof (dec_of_Z_zch (mo_size o)) as Hz. split; [|split].
    + repeat split; try reflexivity. left. split; [now apply zch_no_eq|split; [|reflexivity]].
      cbn [snd]. unfold Reply.dec_of_Z. destruct (mo_size o <? 0)%Z; [discriminate|apply ReplyProofs.dec_of_N_nonempty].
    + split; [|discriminate]. apply ws_free_ascii. tokof.
      change (bs "SIZE" ++ "=" :: dec_of_Z (mo_size o)) with (bs "SIZE=" ++ dec_of_Z (mo_size o)).
      rewrite forallb_app. rewrite (zch_tokch _ Hz). reflexivity.
    + intros o' bm. cbn [fst snd]. nobin.
      rewrite C14_size_Z by assumption. reflexivity.
  - (* REQUIRETLS *)
    destruct (mo_requiretls o) eqn:R; [|destruct Hin]. destruct Hin as [<-|[]]. split; [|split].
    + repeat split; try reflexivity. right. split; reflexivity.
    + split; [reflexivity|discriminate].
    + intros o' bm. cbn [fst snd]. nobin. rewrite C14_requiretls by auto.
      unfold mo_merge, seen_mail, set_body, set_requiretls. cbn. now rewrite R.
  - (* SMTPUTF8 *)
    destruct (mo_utf8 o) eqn:R; [|destruct Hin]. destruct Hin as [<-|[]]. split; [|split].
    + repeat split; try reflexivity. right. split; reflexivity.
    + split; [reflexivity|discriminate].
    + intros o' bm. cbn [fst snd]. nobin. rewrite C14_smtputf8 by auto.
      unfold mo_merge, seen_mail, set_body, set_utf8. cbn. now rewrite R.
  - (* RET *)
    destruct (mo_ret o) as [|r0 r] eqn:R; [destruct Hin|]. destruct Hin as [<-|[]].
    assert (Hd : cf_dsn cfg = true) by (apply Sd; left; discriminate).
    assert (Hv : r0 :: r = bs "FULL" \/ r0 :: r = bs "HDRS") by (destruct Hret as [?|?]; [discriminate|assumption]).
    split; [|split].
    + repeat split; try reflexivity. left. split; [destruct Hv as [-> | ->]; reflexivity|split; [discriminate|reflexivity]].
    + split; [destruct Hv as [-> | ->]; reflexivity|discriminate].
    + intros o' bm. cbn [fst snd]. nobin. rewrite C14_ret by assumption.
      unfold mo_merge, seen_mail, set_body, set_ret. cbn. now rewrite R.
  - (* ENVID *)
    destruct (mo_envid o) as [|e0 e] eqn:R; [destruct Hin|]. destruct Hin as [<-|[]].
    assert (Hd : cf_dsn cfg = true) by (apply Sd; right; discriminate).
    pose proof (encode_xtext_xtch (e0 :: e)) as Hx. split; [|split].
    + repeat split; try reflexivity. left. split; [now apply xtch_no_eq|split; [|reflexivity]].
      cbn [snd]. apply encode_xtext_nonempty; [apply printable_ascii7, Hp|discriminate].
    + split; [|discriminate]. apply ws_free_ascii. tokof.
      change (bs "ENVID" ++ "=" :: encode_xtext (e0 :: e)) with (bs "ENVID=" ++ encode_xtext (e0 :: e)).
      rewrite forallb_app. rewrite (xtch_tokch _ Hx). reflexivity.
    + intros o' bm. cbn [fst snd]. nobin. rewrite C14_envid by (assumption || discriminate).
      unfold mo_merge, seen_mail, set_body, set_envid. cbn. now rewrite R.
  - (* AUTH *)
    destruct (mo_auth o) as [a|] eqn:R; [|destruct Hin]. destruct Hin as [<-|[]].
    destruct a as [|a0 a].
    + split; [|split].
      * repeat split; try reflexivity. left. split; [reflexivity|split; [discriminate|reflexivity]].
      * split; [reflexivity|discriminate].
      * intros o' bm. cbn [fst snd]. nobin. rewrite C14_auth_empty.
        unfold mo_merge, seen_mail, set_body, set_auth. cbn. now rewrite R.
    + destruct Hauth as [Ha Hm]. cbn [Client.auth_value].
      pose proof (encode_xtext_xtch (a0 :: a)) as Hx. split; [|split].
      * repeat split; try reflexivity. left. split; [now apply xtch_no_eq|split; [|reflexivity]].
        cbn [snd]. apply encode_xtext_nonempty; [exact Ha|discriminate].
      * split; [|discriminate]. apply ws_free_ascii. tokof.
        change (bs "AUTH" ++ "=" :: encode_xtext (a0 :: a)) with (bs "AUTH=" ++ encode_xtext (a0 :: a)).
        rewrite forallb_app. rewrite (xtch_tokch _ Hx). reflexivity.
      * intros o' bm. cbn [fst snd]. nobin. rewrite C14_auth_mailbox by assumption.
        unfold mo_merge, seen_mail, set_body, set_auth. cbn. now rewrite R.
Qed.

(* ------------------------------------------------------------------ *)
(* addresses                                                           *)
(* ------------------------------------------------------------------ *)

(* the addresses the theorem speaks about: CheckTrip.addr_simple (no SP / HT /
   '<' / '>' / CR / LF, not starting with DQUOTE or '@', non-empty local part and
   domain) and, in addition, what the server's path parser insists on: none of
   ( ) < > [ ] : ; \ , DQUOTE in the local part, and the address does not end in
   '@'.  (addr_simple addresses outside addr_ok are REFUSED by the server with
   501 - see C14_addr_special_refused - they never reach the backend.) *)
Definition addr_ok (a : bytes) : bool :=
  CheckTrip.addr_simple a
  && match cut_byte "@" a with
     | Some (lp, _) => forallb (fun c => negb (dot_string_special c)) lp
     | None => false
     end
  && negb (has_suffix a (bs "@")).

Lemma cut_byte_inv c : forall s a b,
  cut_byte c s = Some (a, b) -> s = a ++ c :: b /\ mem_byte c a = false.
Proof.
  induction s as [|x s IH]; intros a b H; [discriminate|]. cbn [cut_byte] in H.
  destruct (Ascii.eqb c x) eqn:E.
  - injection H as <- <-. apply Ascii.eqb_eq in E. subst x. split; reflexivity.
  - destruct (cut_byte c s) as [[a' b']|]; [|discriminate]. injection H as <- <-.
    destruct (IH a' b' eq_refl) as [-> M]. split; [reflexivity|]. cbn [mem_byte]. now rewrite E, M.
Qed.

Definition bad_addr_ch (c : ascii) : bool :=
  Ascii.eqb c " " || Ascii.eqb c HT || Ascii.eqb c "<" || Ascii.eqb c ">"
  || Ascii.eqb c CR || Ascii.eqb c LF.

Lemma bad_dom_ok c : bad_addr_ch c = false -> dom_ok c = true.
Proof.
  intros H.
  assert (E : (bad_addr_ch c || dom_ok c) = true).
  { apply (byte_enum (fun c => bad_addr_ch c || dom_ok c)). vm_compute. reflexivity. }
  now rewrite H in E.
Qed.

Lemma addr_ok_mbox a :
  addr_ok a = true -> exists lp dom, a = lp ++ "@" :: dom /\ mbox_ok lp dom /\ clean a.
Proof.
  unfold addr_ok, CheckTrip.addr_simple. intros H.
  apply andb_true_iff in H as [H H3]. apply andb_true_iff in H as [H H2].
  apply andb_true_iff in H as [H H1]. apply andb_true_iff in H as [H0 _].
  apply negb_true_iff in H0, H3.
  destruct (cut_byte "@" a) as [[lp dom]|] eqn:E; [|discriminate].
  destruct (cut_byte_inv _ _ _ _ E) as [-> M].
  assert (Hall : forall x, In x (lp ++ "@" :: dom) -> bad_addr_ch x = false).
  { intros x Hx. destruct (bad_addr_ch x) eqn:B; [|reflexivity].
    assert (X : existsb bad_addr_ch (lp ++ "@" :: dom) = true) by (apply existsb_exists; eauto).
    unfold bad_addr_ch in X. rewrite X in H0. discriminate. }
  exists lp, dom. split; [reflexivity|]. split; [|split].
  - destruct lp as [|l0 lp]; [discriminate|]. split; [discriminate|]. split; [|split].
    + apply forallb_forall. intros x Hx. unfold lp_ok.
      rewrite forallb_forall in H2. rewrite (H2 x Hx), andb_true_r.
      apply mem_false_forallb in M. rewrite forallb_forall in M. specialize (M x Hx).
      now rewrite Ascii.eqb_sym.
    + apply forallb_forall. intros x Hx. apply bad_dom_ok, Hall, in_or_app. right. now right.
    + exact H3.
  - destruct (mem_byte CR (lp ++ "@" :: dom)) eqn:C; [|reflexivity].
    apply mem_byte_In, Hall in C. vm_compute in C. discriminate.
  - destruct (mem_byte LF (lp ++ "@" :: dom)) eqn:C; [|reflexivity].
    apply mem_byte_In, Hall in C. vm_compute in C. discriminate.
Qed.

(* ------------------------------------------------------------------ *)
(* MAIL: the trip                                                      *)
(* ------------------------------------------------------------------ *)

Lemma has_key_mono K ks ks' :
  (forall k, In k ks -> In k ks') -> has_key K ks = true -> has_key K ks' = true.
Proof. intros H. rewrite !has_key_in. apply H. Qed.

Lemma mo_merge_full ks e :
  (has_key (bs "BODY") ks = true \/ mo_body e = []) ->
  (has_key (bs "SIZE") ks = true \/ mo_size e = 0%Z) ->
  (has_key (bs "REQUIRETLS") ks = true \/ mo_requiretls e = false) ->
  (has_key (bs "SMTPUTF8") ks = true \/ mo_utf8 e = false) ->
  (has_key (bs "RET") ks = true \/ mo_ret e = []) ->
  (has_key (bs "ENVID") ks = true \/ mo_envid e = []) ->
  (has_key (bs "AUTH") ks = true \/ mo_auth e = None) ->
  mo_merge ks e mo_zero = e.
Proof.
  intros H1 H2 H3 H4 H5 H6 H7. unfold mo_merge. destruct e as [b s r u rt ev au].
  cbn [mo_body mo_size mo_requiretls mo_utf8 mo_ret mo_envid mo_auth mo_zero] in *.
  f_equal;
    match goal with
    | |- (if ?c then _ else _) = _ => destruct c; [reflexivity|]
    end;
    match goal with
    | H : false = true \/ _ |- _ => destruct H as [H|H]; [discriminate|now rewrite H]
    end.
Qed.

Lemma mail_kvs_keys ext o :
  let ks := map fst (mail_kvs ext o) in
  (has_key (bs "BODY") ks = true \/ seen_body ext o = [])
  /\ (has_key (bs "SIZE") ks = true \/ mo_size o = 0%Z)
  /\ (has_key (bs "REQUIRETLS") ks = true \/ mo_requiretls o = false)
  /\ (has_key (bs "SMTPUTF8") ks = true \/ mo_utf8 o = false)
  /\ (has_key (bs "RET") ks = true \/ mo_ret o = [])
  /\ (has_key (bs "ENVID") ks = true \/ mo_envid o = [])
  /\ (has_key (bs "AUTH") ks = true \/ mo_auth o = None).
Proof.
  unfold mail_kvs, body_kvs. generalize (seen_body ext o). intros sb.
  destruct o as [b s r u rt ev au].
  cbn [mo_body mo_size mo_requiretls mo_utf8 mo_ret mo_envid mo_auth].
  destruct (s =? 0)%Z eqn:Z; [apply Z.eqb_eq in Z|]; destruct sb, r, u, rt, ev, au;
    cbv zeta; repeat split; (left; reflexivity) || (right; first [reflexivity|assumption]).
Qed.

(* BODY=BINARYMIME is among the parameters iff Body is BINARYMIME *)
Lemma mail_kvs_bin cfg ext o kv :
  mail_dom cfg o -> In kv (mail_kvs ext o) -> bin_kv kv = true -> mo_body o = bs "BINARYMIME".
Proof.
  intros (Hb & _) Hin Hk. unfold mail_kvs in Hin. apply in_app_or in Hin as [Hin|Hin].
  - unfold body_kvs in Hin. destruct (seen_body ext o) as [|s0 st] eqn:Esb; [destruct Hin|].
    destruct Hin as [<-|[]]. unfold bin_kv, is_binarymime in Hk. cbn [fst snd] in Hk.
    apply andb_true_iff in Hk as [_ Hk]. apply bytes_eqb_eq in Hk.
    unfold seen_body in Esb. destruct (mo_body o) as [|b0 bt] eqn:E; [|congruence].
    destruct (Client.has_ext ext (bs "8BITMIME")); [|discriminate]. rewrite Hk in Esb. discriminate.
  - exfalso. unfold bin_kv in Hk. apply andb_true_iff in Hk as [Hk _]. apply bytes_eqb_eq in Hk.
    repeat (apply in_app_or in Hin as [Hin|Hin]);
      repeat match type of Hin with
             | In _ (if ?c then _ else _) => destruct c
             | In _ (match ?x with _ => _ end) => destruct x
             end;
      cbn [In] in Hin; try contradiction;
      destruct Hin as [<-|[]]; discriminate Hk.
Qed.

Lemma seen_body_bin ext o :
  is_binarymime (seen_body ext o) = is_binarymime (mo_body o).
Proof.
  unfold seen_body. destruct (mo_body o); [|reflexivity].
  destruct (Client.has_ext ext (bs "8BITMIME")); reflexivity.
Qed.

Lemma pop_mail_binarymime c b : fst (pop_mail (upd_binarymime c b)) = fst (pop_mail c).
Proof.
  unfold pop_mail. change (c_be (upd_binarymime c b)) with (c_be c).
  destruct (pop BNil (be_mail (c_be c))). reflexivity.
Qed.

Lemma pop_mail_flag c b :
  c_binarymime (snd (pop_mail (upd_binarymime c b))) = b
  /\ c_session (snd (pop_mail (upd_binarymime c b))) = c_session c.
Proof.
  unfold pop_mail. change (c_be (upd_binarymime c b)) with (c_be c).
  destruct (pop BNil (be_mail (c_be c))). split; reflexivity.
Qed.

Definition mail_state_ok (c : conn) : Prop :=
  c_helo c <> [] /\ c_bdat c = None /\ c_session c = true.

Lemma handle_mail_eq cfg c arg : handle cfg c (bs "MAIL") arg = handle_mail cfg c arg.
Proof. reflexivity. Qed.
Lemma handle_rcpt_eq cfg c arg : handle cfg c (bs "RCPT") arg = handle_rcpt cfg c arg.
Proof. reflexivity. Qed.

(* shared: the envelope command line  VERB SP kw "<" addr ">" tokens *)
Lemma envelope_line_facts (kw addr : bytes) ps k0 kt :
  kw = k0 :: kt -> forallb tokch kw = true -> clean addr -> Forall tok_ok ps ->
  let arg := kw ++ "<" :: addr ++ ">" :: render ps in
  clean arg /\ trim_space arg = arg
  /\ trim_space ("<" :: addr ++ ">" :: render ps) = "<" :: addr ++ ">" :: render ps.
Proof.
  intros -> Hkw Ha Hps arg.
  assert (Hr : clean (render ps)) by now apply render_clean.
  assert (Hc : clean ("<" :: addr ++ ">" :: render ps)).
  { apply (clean_app ["<"]); [split; reflexivity|]. apply clean_app; [exact Ha|].
    apply (clean_app [">"]); [split; reflexivity|exact Hr]. }
  split; [|split].
  - apply clean_app; [|exact Hc]. apply ws_free_clean, ws_free_ascii, Hkw.
  - destruct (line_tail ((k0 :: kt) ++ "<" :: addr) ps Hps) as (pre & d & tok & E & Hd & Hw & Hn).
    subst arg. cbn [app].
    apply (trim_space_id k0 _ pre d tok); try assumption.
    + apply space_len_ascii. cbn [forallb] in Hkw. now apply andb_true_iff in Hkw as [Hkw _].
    + rewrite <- E. cbn [app]. rewrite <- app_assoc. reflexivity.
  - destruct (line_tail ("<" :: addr) ps Hps) as (pre & d & tok & E & Hd & Hw & Hn).
    apply (trim_space_id "<" _ pre d tok); try assumption.
    apply space_len_ascii. reflexivity.
Qed.

Theorem C14_mail_trip cfg ext c from opts :
  let o := match opts with Some o => o | None => mo_zero end in
  let ps := mail_toks ext o in
  (from = [] \/ addr_ok from = true) ->
  mail_dom cfg o -> mail_srv cfg o -> mail_ext ext o -> mail_state_ok c ->
  (* the client returns no local error and writes exactly this line ... *)
  Client.mail_params ext opts = inl ps
  /\ exists arg,
       parse_cmd (Client.mail_line from ps) = Some (bs "MAIL", arg)
       (* ... which the server turns into this backend call: the options given,
          Body included (seen_mail ext o = o when Body is set: seen_mail_id) *)
       /\ exists c' w,
            handle cfg c (bs "MAIL") arg
            = (c', [EMail from (seen_mail ext o) (fst (pop_mail c)); w])
            (* ... and DATA is refused from then on iff Body is BINARYMIME *)
            /\ c_binarymime c' = is_binarymime (mo_body o).
Proof.
  intros o ps Hfrom Hdom Hsrv Hext (Hhelo & Hbdat & Hsess).
  assert (Hcl : Client.mail_params ext opts = inl ps).
  { destruct opts as [o'|]; [exact (client_mail_toks cfg ext o' Hdom Hext)|].
    unfold Client.mail_params. rewrite (client_body_toks ext None (proj1 Hdom) Hext).
    unfold ps, mail_toks, mail_kvs. subst o. cbn [mo_size mo_requiretls mo_utf8 mo_ret mo_envid mo_auth mo_zero Z.eqb].
    rewrite !app_nil_r. reflexivity. }
  split; [exact Hcl|].
  assert (Hfacts : forall kv, In kv (mail_kvs ext o) ->
            tok_kv (tok_of kv) (fst kv) (snd kv) /\ tok_ok (tok_of kv)
            /\ sets_mail cfg (seen_mail ext o) (fst kv) (snd kv))
    by (intros kv; now apply mail_kv_facts).
  assert (Hok : Forall tok_ok ps).
  { apply Forall_forall. intros p Hp. apply in_map_iff in Hp as (kv & <- & Hkv). now apply Hfacts. }
  assert (Hkv : Forall2 (fun p kv => tok_kv p (fst kv) (snd kv)) ps (mail_kvs ext o)).
  { apply Forall2_map_tok. intros kv Hin. now apply Hfacts. }
  assert (Hca : clean from).
  { destruct Hfrom as [->|Ha]; [split; reflexivity|]. now destruct (addr_ok_mbox _ Ha) as (? & ? & _ & _ & ?). }
  destruct (envelope_line_facts (bs "FROM:") from ps "F" (bs "ROM:") eq_refl eq_refl Hca Hok)
    as (Carg & Targ & Trest).
  set (rest := "<" :: from ++ ">" :: render ps) in *.
  exists (bs "FROM:" ++ rest). split.
  { change (Client.mail_line from ps) with (bs "MAIL " ++ "F" :: (bs "ROM:" ++ rest)).
    apply parse_cmd_mail.
    - apply (clean_app (bs "MAIL ")); [split; reflexivity|exact Carg].
    - exact Targ. }
  rewrite handle_mail_eq. unfold handle_mail.
  destruct (c_helo c) as [|h0 ht] eqn:Eh; [congruence|]. rewrite Hbdat, cut_prefix_from, Trest.
  assert (Hpath : parse_reverse_path rest = Some (from, render ps)).
  { destruct Hfrom as [->|Ha]; [reflexivity|].
    destruct (addr_ok_mbox _ Ha) as (lp & dom & -> & Hm & _). now apply parse_reverse_path_ok. }
  rewrite Hpath.
  destruct (parse_args_render ps (mail_kvs ext o) Hok Hkv) as (m & -> & Hin & Hkeys).
  rewrite (mail_params_merge cfg (seen_mail ext o)).
  2:{ intros k v Hs. apply sort_kv_in, Hin in Hs. now apply (Hfacts (k, v)). }
  assert (Mono : forall K, has_key K (map fst (mail_kvs ext o)) = true ->
                           has_key K (map fst (sort_kv m)) = true).
  { intros K. apply has_key_mono. intros k Hk. apply keys_sorted. now apply Hkeys. }
  assert (Hm : mo_merge (map fst (sort_kv m)) (seen_mail ext o) mo_zero = seen_mail ext o).
  { destruct (mail_kvs_keys ext o) as (K1 & K2 & K3 & K4 & K5 & K6 & K7).
    apply mo_merge_full;
      match goal with
      | |- _ \/ _ => first [ destruct K1 as [K|K]; [left; now apply Mono|right; exact K]
                           | destruct K2 as [K|K]; [left; now apply Mono|right; exact K]
                           | destruct K3 as [K|K]; [left; now apply Mono|right; exact K]
                           | destruct K4 as [K|K]; [left; now apply Mono|right; exact K]
                           | destruct K5 as [K|K]; [left; now apply Mono|right; exact K]
                           | destruct K6 as [K|K]; [left; now apply Mono|right; exact K]
                           | destruct K7 as [K|K]; [left; now apply Mono|right; exact K] ]
      end. }
  rewrite Hm. cbn [orb].
  (* the binarymime flag *)
  assert (Hbm : existsb bin_kv (sort_kv m) = is_binarymime (mo_body o)).
  { destruct (existsb bin_kv (sort_kv m)) eqn:Ex.
    - apply existsb_exists in Ex as (kv & Hkvin & Hb). apply sort_kv_in, Hin in Hkvin.
      rewrite (mail_kvs_bin cfg ext o kv Hdom Hkvin Hb). reflexivity.
    - destruct (is_binarymime (mo_body o)) eqn:Eb; [|reflexivity]. exfalso.
      rewrite <- seen_body_bin with (ext := ext) in Eb.
      assert (Hk : has_key (bs "BODY") (map fst (sort_kv m)) = true).
      { apply Mono. unfold mail_kvs, body_kvs.
        destruct (seen_body ext o) as [|s0 st]; [discriminate Eb|]. reflexivity. }
      apply has_key_in, in_map_iff in Hk as ([k v] & Ek & Hkvin). cbn [fst] in Ek. subst k.
      pose proof Hkvin as Hkv2. apply sort_kv_in, Hin in Hkv2.
      assert (Hv : v = seen_body ext o).
      { unfold mail_kvs in Hkv2. apply in_app_or in Hkv2 as [H|H].
        - unfold body_kvs in H. destruct (seen_body ext o); [destruct H|].
          destruct H as [H|[]]. now injection H as <-.
        - exfalso.
          repeat (apply in_app_or in H as [H|H]);
            repeat match type of H with
                   | In _ (if ?c then _ else _) => destruct c
                   | In _ (match ?x with _ => _ end) => destruct x
                   end;
            cbn [In] in H; try contradiction;
            destruct H as [H|[]]; discriminate H. }
      assert (Hb : bin_kv (bs "BODY", v) = true) by (subst v; exact Eb).
      assert (X : existsb bin_kv (sort_kv m) = true) by (apply existsb_exists; eauto).
      congruence. }
  rewrite Hbm.
  destruct (pop_mail_flag c (is_binarymime (mo_body o))) as [Fb Fs].
  rewrite <- (pop_mail_binarymime c (is_binarymime (mo_body o))).
  change (c_session (upd_binarymime c (is_binarymime (mo_body o)))) with (c_session c).
  rewrite Hsess. cbn [negb].
  destruct (pop_mail (upd_binarymime c (is_binarymime (mo_body o)))) as [r c2]. cbn [fst snd] in *.
  destruct r; eexists; eexists; (split; [reflexivity|exact Fb]).
Qed.

Print Assumptions C14_mail_trip.

(* ------------------------------------------------------------------ *)
(* RCPT                                                                *)
(* ------------------------------------------------------------------ *)

(* RequireRecipientValidSince: the zero Time is "absent"; any other instant
   arrives to the second with its zone offset *)
Definition rrvs_seen (r : option rtime) : option rtime :=
  match r with
  | Some t => if Client.rt_is_zero t then None else Some (mkRT (rt_unix t) 0 (rt_off t))
  | None => None
  end.

(* what the backend sees for the options o (OriginalRecipientType is only
   transmitted together with a non-empty OriginalRecipient) *)
Definition seen_rcpt (o : rcpt_opts) : rcpt_opts :=
  mkRO (ro_notify o) (match ro_orcpt o with [] => [] | _ :: _ => ro_orcpt_type o end)
       (ro_orcpt o) (rrvs_seen (ro_rrvs o)).

Definition orcpt_value (ext : option Client.extmap) (o : rcpt_opts) : bytes :=
  if bytes_eqb (ro_orcpt_type o) (bs "RFC822") then bs "RFC822;" ++ encode_xtext (ro_orcpt o)
  else bs "UTF-8;" ++ (if Client.has_ext ext (bs "SMTPUTF8")
                       then encode_utf8_addr_unitext (ro_orcpt o)
                       else encode_utf8_addr_xtext (ro_orcpt o)).

Definition rcpt_kvs (ext : option Client.extmap) (o : rcpt_opts) : list (bytes * bytes) :=
  (match ro_notify o with [] => [] | _ :: _ => [(bs "NOTIFY", join (bs ",") (ro_notify o))] end)
  ++ (match ro_orcpt o with [] => [] | _ :: _ => [(bs "ORCPT", orcpt_value ext o)] end)
  ++ (match ro_rrvs o with
      | Some t => if Client.rt_is_zero t then [] else [(bs "RRVS", Client.format_rfc3339 t)]
      | None => []
      end).

Definition rcpt_toks ext o : list bytes := map tok_of (rcpt_kvs ext o).

Definition rrvs_set (o : rcpt_opts) : Prop :=
  match ro_rrvs o with Some t => Client.rt_is_zero t = false | None => False end.

Definition rcpt_dom (o : rcpt_opts) : Prop :=
  (ro_notify o = [] \/ notify_ok (ro_notify o) = true)
  /\ (ro_orcpt o = []
      \/ (ro_orcpt_type o = bs "RFC822" /\ is_printable_ascii (ro_orcpt o) = true)
      \/ (ro_orcpt_type o = bs "UTF-8"
          /\ exists cs, ro_orcpt o = utf8_of_runes cs /\ forallb addr_cp cs = true))
  /\ match ro_rrvs o with
     | Some t => Client.rt_is_zero t = true \/ rt_dom t
     | None => True
     end.

Definition rcpt_srv (cfg : config) (o : rcpt_opts) : Prop :=
  (ro_notify o <> [] \/ ro_orcpt o <> [] -> cf_dsn cfg = true)
  /\ (rrvs_set o -> cf_rrvs cfg = true).

Definition rcpt_ext (ext : option Client.extmap) (o : rcpt_opts) : Prop :=
  (ro_notify o <> [] \/ ro_orcpt o <> [] -> Client.has_ext ext (bs "DSN") = true)
  /\ (rrvs_set o -> Client.has_ext ext (bs "RRVS") = true).

Ltac fin :=
  cbv beta iota zeta delta [map app tok_of is_flag fst snd bytes_eqb bs list_ascii_of_string
                            Ascii.eqb Bool.eqb orb andb negb];
  reflexivity.

Lemma client_rcpt_toks ext o :
  rcpt_dom o -> rcpt_ext ext o ->
  Client.rcpt_params ext (Some o) = inl (rcpt_toks ext o).
Proof.
  intros (Hn & Ho & Hr) (Hd & Hv).
  destruct o as [notify ty orcpt rrvs]. unfold rrvs_set in Hv.
  cbn [ro_notify ro_orcpt_type ro_orcpt ro_rrvs] in *.
  unfold Client.rcpt_params, rcpt_toks, rcpt_kvs, orcpt_value, Client.rcpt_dsn_params, Client.key.
  cbn [ro_notify ro_orcpt_type ro_orcpt ro_rrvs].
  assert (Hrr : match rrvs with
                | Some t => Client.has_ext ext (bs "RRVS") && negb (Client.rt_is_zero t)
                            = negb (Client.rt_is_zero t)
                | None => True
                end).
  { destruct rrvs as [t|]; [|exact I]. destruct (Client.rt_is_zero t) eqn:Z.
    - apply andb_false_r.
    - rewrite (Hv eq_refl). reflexivity. }
  destruct (Client.has_ext ext (bs "DSN")) eqn:D.
  - destruct notify as [|n0 notify].
    + destruct Ho as [->|[[-> Hp]|[-> _]]].
      * destruct rrvs as [t|]; [rewrite Hrr; destruct (Client.rt_is_zero t)|]; fin.
      * destruct orcpt as [|c0 orcpt];
          [|rewrite Hp]; (destruct rrvs as [t|]; [rewrite Hrr; destruct (Client.rt_is_zero t)|]; fin).
      * destruct orcpt as [|c0 orcpt];
          (destruct rrvs as [t|]; [rewrite Hrr; destruct (Client.rt_is_zero t)|]; fin).
    + destruct Hn as [Hn|Hn]; [discriminate|]. rewrite Hn.
      destruct Ho as [->|[[-> Hp]|[-> _]]].
      * destruct rrvs as [t|]; [rewrite Hrr; destruct (Client.rt_is_zero t)|]; fin.
      * destruct orcpt as [|c0 orcpt];
          [|rewrite Hp]; (destruct rrvs as [t|]; [rewrite Hrr; destruct (Client.rt_is_zero t)|]; fin).
      * destruct orcpt as [|c0 orcpt];
          (destruct rrvs as [t|]; [rewrite Hrr; destruct (Client.rt_is_zero t)|]; fin).
  - destruct notify as [|n0 notify]; [|exfalso; assert (true = false) by (symmetry; apply Hd; left; discriminate); discriminate].
    destruct orcpt as [|c0 orcpt]; [|exfalso; assert (true = false) by (symmetry; apply Hd; right; discriminate); discriminate].
    destruct rrvs as [t|]; [rewrite Hrr; destruct (Client.rt_is_zero t)|]; fin.
Qed.

(* the sixteen NOTIFY values as tokens *)
Lemma notify_tok_chk :
  forallb (fun vals => negb (mem_byte "=" (join (bs ",") vals)) && forallb tokch (join (bs ",") vals)
                       && match join (bs ",") vals with [] => false | _ => true end)
          notify_sets = true.
Proof. vm_compute. reflexivity. Qed.

Definition u8xch (c : ascii) : bool :=
  qchar c || Ascii.eqb c "\" || Ascii.eqb c "x" || Ascii.eqb c "{" || Ascii.eqb c "}" || is_hexU c.

Lemma utf8_xtext_u8xch s : forallb u8xch (encode_utf8_addr_xtext s) = true.
Proof.
  apply forallb_forall. intros c Hc. apply encode_utf8_addr_xtext_clean in Hc. unfold u8xch.
  destruct Hc as [H|[->|[->|[->|[->|H]]]]]; try reflexivity; rewrite H; rewrite ?orb_true_r; reflexivity.
Qed.

Lemma u8xch_tokch s : forallb u8xch s = true -> forallb tokch s = true.
Proof. apply tokch_of. vm_compute. reflexivity. Qed.
Lemma u8xch_no_eq s : forallb u8xch s = true -> mem_byte "=" s = false.
Proof. intros H. eapply forallb_not_mem; [exact H|reflexivity]. Qed.

Lemma unitext_no_eq s : mem_byte "=" (encode_utf8_addr_unitext s) = false.
Proof.
  apply mem_byte_false. intros Hin. apply encode_utf8_addr_unitext_clean in Hin.
  repeat (destruct Hin as [Hin|Hin]); try (vm_compute in Hin; discriminate Hin).
  apply N.leb_le in Hin. vm_compute in Hin. discriminate Hin.
Qed.

Lemma rcpt_kv_facts cfg ext o kv :
  rcpt_dom o -> rcpt_srv cfg o -> In kv (rcpt_kvs ext o) ->
  tok_kv (tok_of kv) (fst kv) (snd kv) /\ tok_ok (tok_of kv)
  /\ sets_rcpt cfg (seen_rcpt o) (fst kv) (snd kv).
Proof.
  intros (Hn & Ho & Hr) (Sd & Sr) Hin. unfold rrvs_set in Sr.
  unfold rcpt_kvs in Hin. repeat (apply in_app_or in Hin as [Hin|Hin]).
  - (* NOTIFY *)
    destruct (ro_notify o) as [|n0 ns] eqn:R; [destruct Hin|]. destruct Hin as [<-|[]].
    assert (Hd : cf_dsn cfg = true) by (apply Sd; left; discriminate).
    destruct Hn as [Hn|Hn]; [discriminate|].
    pose proof (proj1 (notify_sets_complete _) Hn) as Hset.
    pose proof notify_tok_chk as C. rewrite forallb_forall in C. specialize (C _ Hset).
    apply andb_true_iff in C as [C C3]. apply andb_true_iff in C as [C1 C2]. apply negb_true_iff in C1.
    split; [|split].
    + repeat split; try reflexivity. left. split; [exact C1|split; [|reflexivity]].
      cbn [snd]. intros E. rewrite E in C3. discriminate C3.
    + split; [|discriminate]. apply ws_free_ascii. tokof.
      change (bs "NOTIFY" ++ "=" :: join (bs ",") (n0 :: ns)) with (bs "NOTIFY=" ++ join (bs ",") (n0 :: ns)).
      rewrite forallb_app, C2. reflexivity.
    + intros o'. cbn [fst snd]. rewrite C14_notify_ok by assumption.
      unfold ro_merge, seen_rcpt, set_notify. cbn. now rewrite R.
  - (* ORCPT *)
    destruct (ro_orcpt o) as [|a0 a] eqn:R; [destruct Hin|]. destruct Hin as [<-|[]].
    assert (Hd : cf_dsn cfg = true) by (apply Sd; right; discriminate).
    unfold orcpt_value.
    destruct Ho as [Ho|[[Ht Hp]|(Ht & cs & Hcs & Ha)]]; [discriminate| |].
    + rewrite Ht, R. change (bytes_eqb (bs "RFC822") (bs "RFC822")) with true. cbv iota.
      pose proof (encode_xtext_xtch (a0 :: a)) as Hx. try rewrite R in Hp. split; [|split].
      * repeat split; try reflexivity. left. split; [|split; [intros E; cbn in E; discriminate E|reflexivity]].
        cbn [fst snd]. rewrite mem_byte_app, (xtch_no_eq _ Hx). reflexivity.
      * split; [|discriminate]. apply ws_free_ascii. tokof.
        change (bs "ORCPT" ++ "=" :: bs "RFC822;" ++ encode_xtext (a0 :: a))
          with (bs "ORCPT=RFC822;" ++ encode_xtext (a0 :: a)).
        rewrite forallb_app, (xtch_tokch _ Hx). reflexivity.
      * intros o'. cbn [fst snd]. rewrite C14_orcpt_rfc822 by (assumption || discriminate).
        unfold ro_merge, seen_rcpt, set_orcpt. cbn. now rewrite R, Ht.
    + rewrite Ht, R. change (bytes_eqb (bs "UTF-8") (bs "RFC822")) with false. cbv iota.
      try rewrite R in Hcs.
      assert (Hne : cs <> []) by (intros ->; discriminate).
      destruct (Client.has_ext ext (bs "SMTPUTF8")) eqn:U.
      * pose proof (unitext_ws_free cs Ha) as Hw. rewrite <- Hcs in Hw. split; [|split].
        -- repeat split; try reflexivity. left. split; [|split; [intros E; cbn in E; discriminate E|reflexivity]].
           cbn [fst snd]. rewrite mem_byte_app, unitext_no_eq. reflexivity.
        -- split; [|discriminate]. tokof.
           change (bs "ORCPT" ++ "=" :: bs "UTF-8;" ++ encode_utf8_addr_unitext (a0 :: a))
             with (bs "ORCPT=UTF-8;" ++ encode_utf8_addr_unitext (a0 :: a)).
           apply ws_free_app_ascii; [reflexivity|exact Hw].
        -- intros o'. cbn [fst snd]. rewrite Hcs. rewrite C14_orcpt_utf8_unitext by assumption.
           unfold ro_merge, seen_rcpt, set_orcpt. cbn. now rewrite R, Ht, Hcs.
      * pose proof (utf8_xtext_u8xch (a0 :: a)) as Hx. split; [|split].
        -- repeat split; try reflexivity. left. split; [|split; [intros E; cbn in E; discriminate E|reflexivity]].
           cbn [fst snd]. rewrite mem_byte_app, (u8xch_no_eq _ Hx). reflexivity.
        -- split; [|discriminate]. apply ws_free_ascii. tokof.
           change (bs "ORCPT" ++ "=" :: bs "UTF-8;" ++ encode_utf8_addr_xtext (a0 :: a))
             with (bs "ORCPT=UTF-8;" ++ encode_utf8_addr_xtext (a0 :: a)).
           rewrite forallb_app, (u8xch_tokch _ Hx). reflexivity.
        -- intros o'. cbn [fst snd]. rewrite Hcs. rewrite C14_orcpt_utf8_xtext by assumption.
           unfold ro_merge, seen_rcpt, set_orcpt. cbn. now rewrite R, Ht, Hcs.
  - (* RRVS *)
    destruct (ro_rrvs o) as [t|] eqn:R; [|destruct Hin].
    destruct (Client.rt_is_zero t) eqn:Z; [destruct Hin|]. destruct Hin as [<-|[]].
    destruct Hr as [Hr|Hr]; [congruence|].
    pose proof (ClientProofs.format_rfc3339_timech t) as Ht. split; [|split].
    + repeat split; try reflexivity. left. split; [now apply timech_no_eq|split; [|reflexivity]].
      cbn [snd]. unfold Client.format_rfc3339. destruct (Client.civil_from_days _) as [[y m] d].
      intros E. apply app_eq_nil in E as [_ E]. discriminate E.
    + split; [|discriminate]. apply ws_free_ascii. tokof.
      change (bs "RRVS" ++ "=" :: Client.format_rfc3339 t) with (bs "RRVS=" ++ Client.format_rfc3339 t).
      rewrite forallb_app, (timech_tokch _ Ht). reflexivity.
    + intros o'. cbn [fst snd]. rewrite C14_rrvs by auto.
      unfold ro_merge, seen_rcpt, set_rrvs, rrvs_seen. cbn. now rewrite R, Z.
Qed.

Lemma ro_merge_full ks e :
  (has_key (bs "NOTIFY") ks = true \/ ro_notify e = []) ->
  (has_key (bs "ORCPT") ks = true \/ (ro_orcpt_type e = [] /\ ro_orcpt e = [])) ->
  (has_key (bs "RRVS") ks = true \/ ro_rrvs e = None) ->
  ro_merge ks e ro_zero = e.
Proof.
  intros H1 H2 H3. unfold ro_merge. destruct e as [n ty a r].
  cbn [ro_notify ro_orcpt_type ro_orcpt ro_rrvs ro_zero] in *.
  f_equal;
    match goal with
    | |- (if ?c then _ else _) = _ => destruct c; [reflexivity|]
    end.
  - destruct H1 as [H|H]; [discriminate|now rewrite H].
  - destruct H2 as [H|[H _]]; [discriminate|now rewrite H].
  - destruct H2 as [H|[_ H]]; [discriminate|now rewrite H].
  - destruct H3 as [H|H]; [discriminate|now rewrite H].
Qed.

Lemma rcpt_kvs_keys ext o :
  let ks := map fst (rcpt_kvs ext o) in
  let e := seen_rcpt o in
  (has_key (bs "NOTIFY") ks = true \/ ro_notify e = [])
  /\ (has_key (bs "ORCPT") ks = true \/ (ro_orcpt_type e = [] /\ ro_orcpt e = []))
  /\ (has_key (bs "RRVS") ks = true \/ ro_rrvs e = None).
Proof.
  destruct o as [n ty a r]. unfold rcpt_kvs, seen_rcpt, rrvs_seen.
  cbn [ro_notify ro_orcpt_type ro_orcpt ro_rrvs].
  destruct n, a, r as [t|]; try destruct (Client.rt_is_zero t);
    cbv zeta; repeat split; (left; reflexivity) || (right; repeat split; reflexivity).
Qed.

Definition rcpt_state_ok (cfg : config) (c : conn) : Prop :=
  c_from c = true /\ c_bdat c = None /\ c_session c = true
  /\ ((0 <? cf_max_rcpt cfg)%N && (cf_max_rcpt cfg <=? N.of_nat (List.length (c_rcpts c)))%N) = false.

Theorem C14_rcpt_trip cfg ext c to opts :
  let o := match opts with Some o => o | None => ro_zero end in
  let ps := rcpt_toks ext o in
  addr_ok to = true ->
  rcpt_dom o -> rcpt_srv cfg o -> rcpt_ext ext o -> rcpt_state_ok cfg c ->
  (* the client returns no local error and writes exactly this line ... *)
  Client.rcpt_params ext opts = inl ps
  /\ exists arg,
       parse_cmd (Client.rcpt_line to ps) = Some (bs "RCPT", arg)
       (* ... which the server turns into this backend call *)
       /\ exists c' w,
            handle cfg c (bs "RCPT") arg
            = (c', [ERcpt to (seen_rcpt o) (fst (pop_rcpt c)); w]).
Proof.
  intros o ps Hto Hdom Hsrv Hext (Hfrom & Hbdat & Hsess & Hmax).
  assert (Hcl : Client.rcpt_params ext opts = inl ps).
  { destruct opts as [o'|]; [exact (client_rcpt_toks ext o' Hdom Hext)|reflexivity]. }
  split; [exact Hcl|].
  assert (Hfacts : forall kv, In kv (rcpt_kvs ext o) ->
            tok_kv (tok_of kv) (fst kv) (snd kv) /\ tok_ok (tok_of kv)
            /\ sets_rcpt cfg (seen_rcpt o) (fst kv) (snd kv))
    by (intros kv; now apply rcpt_kv_facts).
  assert (Hok : Forall tok_ok ps).
  { apply Forall_forall. intros p Hp. apply in_map_iff in Hp as (kv & <- & Hkv). now apply Hfacts. }
  assert (Hkv : Forall2 (fun p kv => tok_kv p (fst kv) (snd kv)) ps (rcpt_kvs ext o)).
  { apply Forall2_map_tok. intros kv Hin. now apply Hfacts. }
  destruct (addr_ok_mbox _ Hto) as (lp & dom & -> & Hm & Hca).
  destruct (envelope_line_facts (bs "TO:") (lp ++ "@" :: dom) ps "T" (bs "O:") eq_refl eq_refl Hca Hok)
    as (Carg & Targ & Trest).
  set (rest := "<" :: (lp ++ "@" :: dom) ++ ">" :: render ps) in *.
  exists (bs "TO:" ++ rest). split.
  { change (Client.rcpt_line (lp ++ "@" :: dom) ps) with (bs "RCPT " ++ "T" :: (bs "O:" ++ rest)).
    apply parse_cmd_rcpt.
    - apply (clean_app (bs "RCPT ")); [split; reflexivity|exact Carg].
    - exact Targ. }
  rewrite handle_rcpt_eq. unfold handle_rcpt.
  rewrite Hfrom, Hbdat, cut_prefix_to, Trest. cbn [negb].
  subst rest. rewrite (parse_path_ok lp dom (render ps) Hm). rewrite Hmax.
  destruct (parse_args_render ps (rcpt_kvs ext o) Hok Hkv) as (m & -> & Hin & Hkeys).
  rewrite (rcpt_params_merge cfg (seen_rcpt o)).
  2:{ intros k v Hs. apply sort_kv_in, Hin in Hs. now apply (Hfacts (k, v)). }
  assert (Hmm : ro_merge (map fst (sort_kv m)) (seen_rcpt o) ro_zero = seen_rcpt o).
  { assert (Mono : forall K, has_key K (map fst (rcpt_kvs ext o)) = true ->
                             has_key K (map fst (sort_kv m)) = true).
    { intros K. apply has_key_mono. intros k Hk. apply keys_sorted. now apply Hkeys. }
    destruct (rcpt_kvs_keys ext o) as (K1 & K2 & K3).
    apply ro_merge_full.
    - destruct K1 as [K|K]; [left; now apply Mono|right; exact K].
    - destruct K2 as [K|K]; [left; now apply Mono|right; exact K].
    - destruct K3 as [K|K]; [left; now apply Mono|right; exact K]. }
  rewrite Hmm, Hsess. cbn [negb].
  destruct (pop_rcpt c) as [r c2]. cbn [fst].
  destruct r; eexists; eexists; reflexivity.
Qed.

Print Assumptions C14_rcpt_trip.

(* ------------------------------------------------------------------ *)
(* the client side: the line really is what Mail / Rcpt write          *)
(* ------------------------------------------------------------------ *)

Theorem C14_client_writes_mail c from opts ps e rest :
  ClientProofs.io_ready c -> Client.mail_params (Client.c_ext c) opts = inl ps ->
  ClientProofs.reads (Client.c_in c) 250 e rest ->
  Client.c_out (snd (Client.c_mail_step from opts c))
  = Client.c_out c ++ Client.mail_line from ps ++ crlf
  /\ fst (Client.c_mail_step from opts c) = Client.res_of_cerr e.
Proof.
  intros R Hp Hr. unfold Client.c_mail_step.
  change (Client.c_ext (Client.set_rcpts c [])) with (Client.c_ext c). rewrite Hp.
  assert (R' : ClientProofs.io_ready (Client.set_rcpts c [])) by exact R.
  rewrite (ClientProofs.cmd_err_ready _ _ _ e rest R') by exact Hr. split; reflexivity.
Qed.

Theorem C14_client_writes_rcpt c to opts ps e rest :
  ClientProofs.io_ready c -> clean to -> Client.rcpt_params (Client.c_ext c) opts = inl ps ->
  ClientProofs.reads (Client.c_in c) 25 e rest ->
  Client.c_out (snd (Client.c_rcpt c to opts))
  = Client.c_out c ++ Client.rcpt_line to ps ++ crlf
  /\ fst (Client.c_rcpt c to opts) = Client.res_of_cerr e.
Proof.
  intros R C Hp Hr. unfold Client.c_rcpt.
  assert (V : Client.valid_line to = true) by (apply ClientProofs.valid_line_clean; exact C).
  rewrite V, Hp. cbn [negb].
  rewrite (ClientProofs.cmd_err_ready _ _ _ e rest R) by exact Hr.
  destruct e; split; reflexivity.
Qed.

(* ------------------------------------------------------------------ *)
(* the bridge: the extension map parsed from this server's EHLO reply  *)
(* ------------------------------------------------------------------ *)

Lemma split_join texts :
  texts <> [] -> Forall (fun t => mem_byte LF t = false) texts ->
  split_byte LF (join [LF] texts) = texts.
Proof.
  induction texts as [|t texts IH]; [congruence|]. intros _ H.
  inversion H as [|? ? Ht Hr]; subst. destruct texts as [|t' r].
  - cbn [join]. now apply split_byte_single.
  - rewrite join_cons2. cbn [app]. rewrite split_byte_app by exact Ht.
    rewrite IH by (discriminate || assumption). reflexivity.
Qed.

(* the keys the client holds after reading the 250 reply handle_greet writes
   for EHLO / LHLO are exactly the first words of the advertised lines *)
Theorem C14_ehlo_bridge cfg c domain expect rest k :
  mem_byte LF domain = false ->
  Forall (fun t => mem_byte LF t = false) (caps cfg c) ->
  exists msg e,
    ClientReply.client_read_response expect
      (write_response 250 no_ec ((bs "Hello " ++ domain) :: caps cfg c) ++ rest)
    = ((250%Z, msg, e), rest)
    /\ (ClientReply.expect_mismatch expect 250 = false -> e = ClientReply.CNil)
    /\ (Client.has_ext (Some (Client.parse_ext msg)) k = true
        <-> In k (map ClientProofs.ext_key (caps cfg c))).
Proof.
  intros Hd Hc.
  assert (Hall : Forall (fun t => mem_byte LF t = false) ((bs "Hello " ++ domain) :: caps cfg c)).
  { constructor; [|exact Hc]. rewrite mem_byte_app, Hd. reflexivity. }
  unfold write_response. change (default_ec 250 no_ec) with no_ec.
  rewrite split_join by (discriminate || exact Hall).
  unfold ClientReply.client_read_response.
  rewrite read_response_rendered by (lia || discriminate || exact Hall).
  rewrite wire_msg_no_ec.
  eexists; eexists; split; [reflexivity|]. split.
  - intros ->. reflexivity.
  - rewrite ClientProofs.has_ext_parse_ext. unfold ClientProofs.ext_lines.
    rewrite split_join by (discriminate || exact Hall). reflexivity.
Qed.

(* which keys that gives for the extensions C14 is about *)
Lemma ext_key_sp a r : mem_byte " " a = false -> ClientProofs.ext_key (a ++ " " :: r) = a.
Proof. intros H. unfold ClientProofs.ext_key. now rewrite cut_byte_app. Qed.

Theorem C14_caps_keys cfg c :
  let ks := map ClientProofs.ext_key (caps cfg c) in
  In (bs "8BITMIME") ks /\ In (bs "SIZE") ks
  /\ (cf_utf8 cfg = true -> In (bs "SMTPUTF8") ks)
  /\ (c_tls c = true -> cf_requiretls cfg = true -> In (bs "REQUIRETLS") ks)
  /\ (cf_dsn cfg = true -> In (bs "DSN") ks)
  /\ (cf_rrvs cfg = true -> In (bs "RRVS") ks)
  /\ (auth_allowed cfg c = true -> (exists m ms, cf_auth cfg = Some (m :: ms)) -> In (bs "AUTH") ks)
  /\ (In (bs "BINARYMIME") ks <-> cf_binarymime cfg = true).
Proof.
  cbv zeta. unfold caps. rewrite !map_app.
  repeat split.
  - apply in_or_app. left. cbn. tauto.
  - do 7 (apply in_or_app; right). apply in_or_app. left.
    destruct (0 <? cf_max_bytes cfg)%Z; [|now left].
    left. unfold ClientProofs.ext_key.
    change (bs "SIZE " ++ dec_of_Z (cf_max_bytes cfg)) with (bs "SIZE" ++ " " :: dec_of_Z (cf_max_bytes cfg)).
    rewrite cut_byte_app by reflexivity. reflexivity.
  - intros H. rewrite H. do 3 (apply in_or_app; right). apply in_or_app. left. now left.
  - intros H1 H2. rewrite H1, H2. do 4 (apply in_or_app; right). apply in_or_app. left. now left.
  - intros H. rewrite H. do 6 (apply in_or_app; right). apply in_or_app. left. now left.
  - intros H. rewrite H. do 9 (apply in_or_app; right). now left.
  - intros H (m & ms & E). rewrite H, E. do 2 (apply in_or_app; right). apply in_or_app. left.
    left. unfold ClientProofs.ext_key.
    change (bs "AUTH" ++ flat_map (fun n => " " :: n) (m :: ms))
      with (bs "AUTH" ++ " " :: (m ++ flat_map (fun n => " " :: n) ms)).
    rewrite cut_byte_app by reflexivity. reflexivity.
  - (* no other capability line has the key BINARYMIME *)
    intros H. destruct (cf_binarymime cfg); [reflexivity|exfalso].
    repeat (apply in_app_or in H as [H|H]).
    + cbn [map In] in H. decompose [or] H; try contradiction;
        match goal with X : ClientProofs.ext_key _ = _ |- _ => vm_compute in X; discriminate X end.
    + destruct (cf_tls_config cfg && negb (c_tls c)); cbn [map In] in H; [|contradiction].
      destruct H as [H|[]]. vm_compute in H. discriminate H.
    + destruct (auth_allowed cfg c); [|contradiction].
      destruct (cf_auth cfg) as [[|m ms]|]; cbn [map In] in H; try contradiction.
      destruct H as [H|[]].
      change (bs "AUTH" ++ flat_map (fun n => " " :: n) (m :: ms))
        with (bs "AUTH" ++ " " :: (m ++ flat_map (fun n => " " :: n) ms)) in H.
      rewrite ext_key_sp in H by reflexivity. discriminate H.
    + destruct (cf_utf8 cfg); cbn [map In] in H; [|contradiction].
      destruct H as [H|[]]. vm_compute in H. discriminate H.
    + destruct (c_tls c && cf_requiretls cfg); cbn [map In] in H; [|contradiction].
      destruct H as [H|[]]. vm_compute in H. discriminate H.
    + contradiction.
    + destruct (cf_dsn cfg); cbn [map In] in H; [|contradiction].
      destruct H as [H|[]]. vm_compute in H. discriminate H.
    + destruct (0 <? cf_max_bytes cfg)%Z; cbn [map In] in H; destruct H as [H|[]].
      * change (bs "SIZE " ++ dec_of_Z (cf_max_bytes cfg)) with (bs "SIZE" ++ " " :: dec_of_Z (cf_max_bytes cfg)) in H.
        rewrite ext_key_sp in H by reflexivity. discriminate H.
      * vm_compute in H. discriminate H.
    + destruct (0 <? cf_max_rcpt cfg)%N; cbn [map In] in H; [|contradiction].
      destruct H as [H|[]].
      change (bs "LIMITS RCPTMAX=" ++ dec_of_N (cf_max_rcpt cfg))
        with (bs "LIMITS" ++ " " :: (bs "RCPTMAX=" ++ dec_of_N (cf_max_rcpt cfg))) in H.
      rewrite ext_key_sp in H by reflexivity. discriminate H.
    + destruct (cf_rrvs cfg); cbn [map In] in H; [|contradiction].
      destruct H as [H|[]]. vm_compute in H. discriminate H.
  - intros H. rewrite H. do 5 (apply in_or_app; right). apply in_or_app. left. now left.
Qed.

(* ------------------------------------------------------------------ *)
(* MailOptions.Body: every value x every server configuration          *)
(* ------------------------------------------------------------------ *)

(* [ext] holds exactly the keys of THIS server's EHLO reply (C14_ehlo_bridge).
   A server without EnableBINARYMIME does not offer BINARYMIME and the client
   refuses Body = BINARYMIME locally (nothing is sent); in every other case the
   backend sees exactly the Body the caller gave, and the connection's
   binarymime flag is raised iff it was BINARYMIME. *)
Theorem C14_body cfg ext c from b :
  body_value b ->
  (from = [] \/ addr_ok from = true) -> mail_state_ok c ->
  (forall k, Client.has_ext ext k = true <-> In k (map ClientProofs.ext_key (caps cfg c))) ->
  let o := set_body mo_zero b in
  if is_binarymime b && negb (cf_binarymime cfg)
  then Client.mail_params ext (Some o) = inr Client.err_binarymime
  else exists ps arg c' w,
         Client.mail_params ext (Some o) = inl ps
         /\ parse_cmd (Client.mail_line from ps) = Some (bs "MAIL", arg)
         /\ handle cfg c (bs "MAIL") arg = (c', [EMail from o (fst (pop_mail c)); w])
         /\ c_binarymime c' = is_binarymime b.
Proof.
  intros Hv Hfrom Hst Hext o.
  destruct (C14_caps_keys cfg c) as (K8 & _ & _ & _ & _ & _ & _ & Kb).
  assert (Hne : b <> []) by (destruct Hv as [-> | [-> | ->]]; discriminate).
  destruct (is_binarymime b && negb (cf_binarymime cfg)) eqn:Eref.
  - apply andb_true_iff in Eref as [Eb Ec]. apply bytes_eqb_eq in Eb. apply negb_true_iff in Ec.
    assert (Hx : Client.has_ext ext (bs "BINARYMIME") = false).
    { destruct (Client.has_ext ext (bs "BINARYMIME")) eqn:X; [|reflexivity].
      apply Hext, Kb in X. congruence. }
    subst b. unfold Client.mail_params, Client.mail_body_param, Client.key. subst o.
    cbn [mo_body set_body]. change (bytes_eqb (bs "BINARYMIME") (bs "7BIT") || bytes_eqb (bs "BINARYMIME") (bs "8BITMIME")) with false.
    change (bytes_eqb (bs "BINARYMIME") (bs "BINARYMIME")) with true. cbv iota. rewrite Hx. reflexivity.
  - assert (Hbin : b = bs "BINARYMIME" -> cf_binarymime cfg = true).
    { intros ->. change (is_binarymime (bs "BINARYMIME")) with true in Eref. cbn [andb] in Eref.
      now apply negb_false_iff in Eref. }
    assert (Hdom : mail_dom cfg o).
    { subst o. unfold mail_dom. cbn [set_body mo_body mo_size mo_ret mo_envid mo_auth mo_zero].
      split; [right; exact Hv|]. split; [lia|]. split; [lia|]. split; [left; reflexivity|].
      split; [reflexivity|exact I]. }
    assert (Hsrv : mail_srv cfg o).
    { subst o. unfold mail_srv. cbn [set_body mo_body mo_requiretls mo_utf8 mo_ret mo_envid mo_zero].
      split; [exact Hbin|]. split; [discriminate|]. split; [discriminate|].
      intros [H|H]; exfalso; apply H; reflexivity. }
    assert (Hme : mail_ext ext o).
    { subst o. unfold mail_ext.
      cbn [set_body mo_body mo_size mo_requiretls mo_utf8 mo_ret mo_envid mo_auth mo_zero].
      split; [intros _; apply Hext; exact K8|]. split; [intros E; apply Hext, Kb, Hbin, E|].
      split; [intros H; exfalso; apply H; reflexivity|]. split; [discriminate|]. split; [discriminate|].
      split; [intros [H|H]; exfalso; apply H; reflexivity|intros H; exfalso; apply H; reflexivity]. }
    destruct (C14_mail_trip cfg ext c from (Some o) Hfrom Hdom Hsrv Hme Hst)
      as (Hps & arg & Hparse & c' & w & Hh & Hflag).
    rewrite (seen_mail_id ext o Hne) in Hh.
    exists (mail_toks ext o), arg, c', w. repeat split; assumption.
Qed.

(* after BODY=BINARYMIME the server refuses DATA (the message has to be sent
   with BDAT, which the client does not implement): the transaction of a
   caller who asked for BINARYMIME ends there instead of delivering a message
   that was not labelled as the caller wanted *)
Theorem C14_binarymime_data_refused cfg c :
  c_binarymime c = true -> c_bdat c = None ->
  handle cfg c (bs "DATA") []
  = (c, [reply 502 (5, 5, 1)%Z (bs "DATA not allowed for BINARYMIME messages")]).
Proof.
  intros Hb Hd. change (handle cfg c (bs "DATA") []) with (handle_data cfg c []).
  unfold handle_data. rewrite Hd, Hb. reflexivity.
Qed.

(* ------------------------------------------------------------------ *)
(* the oracle of the correspondence check accepts what the theorems say *)
(* ------------------------------------------------------------------ *)

Lemma optb_eqb_refl a : CheckTrip.optb_eqb a a = true.
Proof. destruct a; [apply bytes_eqb_refl|reflexivity]. Qed.

Theorem C14_oracle_mail ext o :
  CheckTrip.mo_matches o (seen_mail ext o) = true.
Proof.
  unfold CheckTrip.mo_matches, CheckTrip.body_matches, seen_mail, seen_body, set_body.
  cbn [mo_body mo_size mo_requiretls mo_utf8 mo_ret mo_envid mo_auth].
  rewrite Z.eqb_refl, !Bool.eqb_reflx, !bytes_eqb_refl, optb_eqb_refl, !andb_true_r.
  destruct (mo_body o) as [|b0 bt]; [|apply bytes_eqb_refl].
  destruct (Client.has_ext ext (bs "8BITMIME")); reflexivity.
Qed.

Lemma list_bytes_eqb_refl l : CheckOracle.list_bytes_eqb l l = true.
Proof. induction l as [|x l IH]; [reflexivity|]. cbn. now rewrite bytes_eqb_refl, IH. Qed.

Theorem C14_oracle_rcpt o :
  match ro_rrvs o with Some t => Client.rt_is_zero t = false | None => True end ->
  CheckTrip.ro_matches o (seen_rcpt o) = true.
Proof.
  intros H. unfold CheckTrip.ro_matches, seen_rcpt, rrvs_seen. cbn [ro_notify ro_orcpt_type ro_orcpt ro_rrvs].
  rewrite list_bytes_eqb_refl. cbn [andb].
  assert (A : match ro_orcpt o with
              | [] => match ro_orcpt o with [] => true | _ :: _ => false end
              | a0 :: a => bytes_eqb (ro_orcpt_type o)
                             match ro_orcpt o with [] => [] | _ :: _ => ro_orcpt_type o end
                           && bytes_eqb (a0 :: a) (ro_orcpt o)
              end = true).
  { destruct (ro_orcpt o) eqn:E; [reflexivity|]. now rewrite !bytes_eqb_refl. }
  rewrite A. cbn [andb].
  destruct (ro_rrvs o) as [t|]; [|reflexivity]. rewrite H. cbn [CheckTrip.rtime_eqb rt_unix].
  apply Z.eqb_refl.
Qed.

(* ------------------------------------------------------------------ *)
(* concrete instances: non-vacuity, and what lies outside the domain   *)
(* ------------------------------------------------------------------ *)

(* a server with every extension enabled, a TLS session ready for MAIL / RCPT *)
Definition cfg_all : config :=
  mkCfg false false (bs "srv") 0 0 2000 true true true true true true false (Some [bs "PLAIN"]) true.
Definition c_ready : conn :=
  mkC (Transport.mkT [] [] 0 2000 false) [] (mkBE [] [] [] [] []) (bs "h") true 0 false true []
      false false true None 0.
(* the extension map a client parses from THIS server's EHLO reply text *)
Definition ext_all : option Client.extmap :=
  Some (Client.parse_ext (join [LF] ((bs "Hello h") :: caps cfg_all c_ready))).
(* the same server without SMTPUTF8: ORCPT=UTF-8 travels in the xtext form *)
Definition cfg_noutf8 : config :=
  mkCfg false false (bs "srv") 0 0 2000 true false true true true true false (Some [bs "PLAIN"]) true.
Definition ext_noutf8 : option Client.extmap :=
  Some (Client.parse_ext (join [LF] ((bs "Hello h") :: caps cfg_noutf8 c_ready))).
(* the same server without BINARYMIME *)
Definition cfg_nobin : config :=
  mkCfg false false (bs "srv") 0 0 2000 true true true false true true false (Some [bs "PLAIN"]) true.
Definition ext_nobin : option Client.extmap :=
  Some (Client.parse_ext (join [LF] ((bs "Hello h") :: caps cfg_nobin c_ready))).

(* the model composition: client renders, server parses and handles *)
Definition trip_mail cfg ext c from opts : option (list event) :=
  match Client.mail_params ext opts with
  | inl ps => match parse_cmd (Client.mail_line from ps) with
              | Some (cmd, arg) => Some (snd (handle cfg c cmd arg))
              | None => None
              end
  | inr _ => None
  end.
Definition trip_rcpt cfg ext c to opts : option (list event) :=
  match Client.rcpt_params ext opts with
  | inl ps => match parse_cmd (Client.rcpt_line to ps) with
              | Some (cmd, arg) => Some (snd (handle cfg c cmd arg))
              | None => None
              end
  | inr _ => None
  end.
Definition mails (evs : list event) : list (bytes * mail_opts) :=
  flat_map (fun e => match e with EMail f o _ => [(f, o)] | _ => [] end) evs.
Definition rcpts (evs : list event) : list (bytes * rcpt_opts) :=
  flat_map (fun e => match e with ERcpt f o _ => [(f, o)] | _ => [] end) evs.

(* ---- non-vacuity of the parameter-level theorems ---- *)

Example C14_envid_ex :
  cf_dsn cfg_all = true /\ bs "id 1+=~" <> [] /\ is_printable_ascii (bs "id 1+=~") = true
  /\ encode_xtext (bs "id 1+=~") = bs "id+201+2B+3D~".
Proof. repeat split; try reflexivity; discriminate. Qed.

Example C14_auth_mailbox_ex :
  forallb is_ascii7 (bs "a+b=c@d.e") = true
  /\ parse_mailbox (bs "a+b=c@d.e") = Some (bs "a+b=c@d.e", [])
  /\ encode_xtext (bs "a+b=c@d.e") = bs "a+2Bb+3Dc@d.e".
Proof. repeat split; reflexivity. Qed.

Example C14_size_ex :
  (9223372036854775807 < 2 ^ 63)%N
  /\ (cf_max_bytes cfg_all <= 0 \/ Z.of_N 9223372036854775807 <= cf_max_bytes cfg_all)%Z
  /\ mail_param cfg_all (bs "SIZE") (dec_of_N 9223372036854775807) mo_zero false
     = inl (set_size mo_zero 9223372036854775807, false).
Proof. split; [reflexivity|]. split; [left; reflexivity|]. vm_compute. reflexivity. Qed.

Example C14_orcpt_rfc822_ex :
  cf_dsn cfg_all = true /\ bs "o p@q" <> [] /\ is_printable_ascii (bs "o p@q") = true.
Proof. repeat split; try reflexivity; discriminate. Qed.

Example C14_orcpt_utf8_ex :
  let cs := [233; 32; 92; 43; 61; 127; 128512; 64; 8364; 160]%N in
  cs <> [] /\ forallb addr_cp cs = true
  /\ encode_utf8_addr_xtext (utf8_of_runes cs) = bs "\x{E9}\x{20}\x{5C}\x{2B}\x{3D}\x{7F}\x{1F600}@\x{20AC}\x{A0}".
Proof. cbv zeta. split; [discriminate|]. split; vm_compute; reflexivity. Qed.

Example C14_notify_ex : In [bs "FAILURE"; bs "DELAY"] notify_sets /\ List.length notify_sets = 16%nat.
Proof. split; [cbn; tauto|reflexivity]. Qed.

Example C14_rrvs_ex :
  cf_rrvs cfg_all = true /\ rt_dom (mkRT 1700000000 5 (-12600))
  /\ Client.format_rfc3339 (mkRT 1700000000 5 (-12600)) = bs "2023-11-14T18:43:20-03:30".
Proof. unfold rt_dom. cbn [rt_unix rt_off]. repeat split; try lia; reflexivity. Qed.

(* ---- non-vacuity of the trip theorems: every option at once ---- *)

Definition mo_ex : mail_opts :=
  mkMO [] 123456789012 true true (bs "HDRS") (bs "id 1+=") (Some (bs "a+b@c.d")).
Definition from_ex : bytes := [b 195; b 169] ++ bs ".x@" ++ [b 195; b 169] ++ bs ".example".

Example C14_mail_trip_ex :
  addr_ok from_ex = true /\ mail_dom cfg_all mo_ex /\ mail_srv cfg_all mo_ex
  /\ mail_ext ext_all mo_ex /\ mail_state_ok c_ready
  /\ option_map mails (trip_mail cfg_all ext_all c_ready from_ex (Some mo_ex))
     = Some [(from_ex, seen_mail ext_all mo_ex)]
  (* the same options with Body = BINARYMIME: they arrive unchanged *)
  /\ (let o := set_body mo_ex (bs "BINARYMIME") in
      mail_dom cfg_all o /\ mail_srv cfg_all o /\ mail_ext ext_all o /\ seen_mail ext_all o = o
      /\ option_map mails (trip_mail cfg_all ext_all c_ready from_ex (Some o)) = Some [(from_ex, o)]).
Proof.
  assert (D : forall b, b = [] \/ body_value b -> mail_dom cfg_all (set_body mo_ex b)).
  { intros b Hb. unfold mail_dom.
    cbn [set_body mo_body mo_size mo_ret mo_envid mo_auth mo_ex cfg_all cf_max_bytes].
    split; [exact Hb|]. split; [lia|]. split; [left; lia|]. split; [right; right; reflexivity|].
    split; [reflexivity|]. split; reflexivity. }
  split; [reflexivity|]. split; [exact (D [] (or_introl eq_refl))|].
  split. { repeat split; intros _; reflexivity. }
  split. { repeat split; intros _; vm_compute; reflexivity. }
  split. { repeat split; try reflexivity. discriminate. }
  split; [vm_compute; reflexivity|]. cbv zeta.
  split; [apply D; right; right; right; reflexivity|].
  split. { repeat split; intros _; reflexivity. }
  split. { repeat split; intros _; vm_compute; reflexivity. }
  split; [apply seen_mail_id; discriminate|]. vm_compute. reflexivity.
Qed.

Definition ro_ex : rcpt_opts :=
  mkRO [bs "SUCCESS"; bs "DELAY"] (bs "UTF-8") (utf8_of_runes [8232; 233; 32; 92; 8195; 64; 8364; 160]%N)
       (Some (mkRT 1700000000 7 3600)).

Example C14_rcpt_trip_ex :
  addr_ok from_ex = true /\ rcpt_dom ro_ex /\ rcpt_srv cfg_all ro_ex
  /\ rcpt_ext ext_all ro_ex /\ rcpt_state_ok cfg_all c_ready
  /\ rcpt_ext ext_noutf8 ro_ex /\ rcpt_srv cfg_noutf8 ro_ex
  (* unitext form *)
  /\ option_map rcpts (trip_rcpt cfg_all ext_all c_ready from_ex (Some ro_ex))
     = Some [(from_ex, seen_rcpt ro_ex)]
  (* xtext form *)
  /\ option_map rcpts (trip_rcpt cfg_noutf8 ext_noutf8 c_ready from_ex (Some ro_ex))
     = Some [(from_ex, seen_rcpt ro_ex)]
  /\ Client.rcpt_params ext_all (Some ro_ex) <> Client.rcpt_params ext_noutf8 (Some ro_ex).
Proof.
  assert (D : rcpt_dom ro_ex).
  { split; [right; reflexivity|]. split.
    - right. right. split; [reflexivity|].
      exists [8232; 233; 32; 92; 8195; 64; 8364; 160]%N. split; reflexivity.
    - right. unfold rt_dom. cbn [rt_unix rt_off]. repeat split; try lia; reflexivity. }
  split; [reflexivity|]. split; [exact D|].
  split. { split; intros _; reflexivity. }
  split. { split; intros _; vm_compute; reflexivity. }
  split. { repeat split; reflexivity. }
  split. { split; intros _; vm_compute; reflexivity. }
  split. { split; intros _; reflexivity. }
  split; [vm_compute; reflexivity|]. split; [vm_compute; reflexivity|].
  vm_compute. discriminate.
Qed.

Example C14_ehlo_bridge_ex :
  mem_byte LF (bs "h") = false
  /\ Forall (fun t => mem_byte LF t = false) (caps cfg_all c_ready)
  /\ map ClientProofs.ext_key (caps cfg_all c_ready)
     = [bs "PIPELINING"; bs "8BITMIME"; bs "ENHANCEDSTATUSCODES"; bs "CHUNKING"; bs "AUTH";
        bs "SMTPUTF8"; bs "REQUIRETLS"; bs "BINARYMIME"; bs "DSN"; bs "SIZE"; bs "RRVS"].
Proof.
  split; [reflexivity|]. split; [|vm_compute; reflexivity].
  apply Forall_forall. intros t Ht.
  assert (C : forallb (fun t => negb (mem_byte LF t)) (caps cfg_all c_ready) = true) by (vm_compute; reflexivity).
  rewrite forallb_forall in C. apply negb_true_iff. now apply C.
Qed.

(* ---- MailOptions.Body: non-vacuity of C14_body, and its instances ---- *)

(* the hypothesis of C14_body about [ext] holds for the map parsed from the
   server's own EHLO reply *)
Example C14_body_ext_ex :
  (forall k, Client.has_ext ext_all k = true
             <-> In k (map ClientProofs.ext_key (caps cfg_all c_ready)))
  /\ (forall k, Client.has_ext ext_nobin k = true
                <-> In k (map ClientProofs.ext_key (caps cfg_nobin c_ready))).
Proof.
  split; intros k; unfold ext_all, ext_nobin; rewrite ClientProofs.has_ext_parse_ext.
  - assert (E : ClientProofs.ext_lines (join [LF] (bs "Hello h" :: caps cfg_all c_ready))
                = caps cfg_all c_ready) by (vm_compute; reflexivity).
    rewrite E. reflexivity.
  - assert (E : ClientProofs.ext_lines (join [LF] (bs "Hello h" :: caps cfg_nobin c_ready))
                = caps cfg_nobin c_ready) by (vm_compute; reflexivity).
    rewrite E. reflexivity.
Qed.

(* the three values through the model composition, on the fully enabled server
   and on the one without BINARYMIME; an unset Body; DATA after BINARYMIME *)
Example C14_body_ex :
  let body b := mkMO b 0 false false [] [] None in
  let trip cfg ext b := option_map mails (trip_mail cfg ext c_ready (bs "a@b") (Some (body b))) in
  trip cfg_all ext_all (bs "7BIT") = Some [(bs "a@b", body (bs "7BIT"))]
  /\ trip cfg_all ext_all (bs "8BITMIME") = Some [(bs "a@b", body (bs "8BITMIME"))]
  /\ trip cfg_all ext_all (bs "BINARYMIME") = Some [(bs "a@b", body (bs "BINARYMIME"))]
  /\ trip cfg_nobin ext_nobin (bs "7BIT") = Some [(bs "a@b", body (bs "7BIT"))]
  /\ trip cfg_nobin ext_nobin (bs "8BITMIME") = Some [(bs "a@b", body (bs "8BITMIME"))]
  /\ Client.mail_params ext_nobin (Some (body (bs "BINARYMIME"))) = inr Client.err_binarymime
  /\ Client.mail_params ext_all (Some (body (bs "binarymime"))) = inr Client.err_body
  /\ trip cfg_all ext_all [] = Some [(bs "a@b", body (bs "8BITMIME"))]
  /\ option_map mails (trip_mail cfg_all ext_all c_ready (bs "a@b") None)
     = Some [(bs "a@b", body (bs "8BITMIME"))].
Proof. vm_compute. repeat split. Qed.

Example C14_binarymime_data_ex :
  match Client.mail_params ext_all (Some (mkMO (bs "BINARYMIME") 0 false false [] [] None)) with
  | inl ps =>
      match parse_cmd (Client.mail_line (bs "a@b") ps) with
      | Some (cmd, arg) =>
          let c' := fst (handle cfg_all c_ready cmd arg) in
          c_binarymime c' = true /\ c_bdat c' = None
          /\ snd (handle cfg_all c' (bs "DATA") [])
             = [reply 502 (5, 5, 1)%Z (bs "DATA not allowed for BINARYMIME messages")]
      | None => False
      end
  | inr _ => False
  end.
Proof. vm_compute. repeat split. Qed.

(* ---- outside the domain ---- *)

(* F25: an address that is not addr_simple injects parameters *)
Theorem C14_address_injection_refuted :
  CheckTrip.addr_simple (bs "a@b> AUTH=<") = false
  /\ Client.valid_line (bs "a@b> AUTH=<") = true
  /\ option_map mails (trip_mail cfg_all ext_all c_ready (bs "a@b> AUTH=<") None)
     = Some [(bs "a@b", mkMO (bs "8BITMIME") 0 false false [] [] (Some []))]
  /\ CheckTrip.addr_simple (bs "r@s> NOTIFY=NEVER ORCPT=rfc822;x") = false
  /\ option_map rcpts (trip_rcpt cfg_all ext_all c_ready (bs "r@s> NOTIFY=NEVER ORCPT=rfc822;x") None)
     = Some [(bs "r@s", mkRO [bs "NEVER"] (bs "RFC822") (bs "x>") None)].
Proof. vm_compute. repeat split. Qed.

(* addr_simple is not enough to be ACCEPTED: a dot-string special in the local
   part, or a trailing '@', passes the client and is refused by the server with
   501 - the backend sees nothing (so no different value is observed either) *)
Theorem C14_addr_special_refused :
  CheckTrip.addr_simple (bs "a(b@c") = true /\ addr_ok (bs "a(b@c") = false
  /\ trip_rcpt cfg_all ext_all c_ready (bs "a(b@c") None = Some [syntax_rcpt]
  /\ CheckTrip.addr_simple (bs "a@b@") = true /\ addr_ok (bs "a@b@") = false
  /\ trip_rcpt cfg_all ext_all c_ready (bs "a@b@") None = Some [syntax_rcpt]
  /\ trip_mail cfg_all ext_all c_ready (bs "a,b@c") None = Some [syntax_mail].
Proof. vm_compute. repeat split. Qed.

(* formerly finding F29 (fixed): with SMTPUTF8 negotiated the client wrote
   EVERY non-ASCII code point of an ORCPT=UTF-8 address raw (unitext form), and
   the server's strings.TrimSpace / strings.Fields took the non-ASCII
   White_Space code points for separators (a trailing U+00A0 was silently
   dropped; inside the address it made the server refuse the command with
   500).  They are embedded now: each of the nineteen code points, at the
   start, inside and at the end of the address, arrives unchanged in both
   forms - instances of C14_rcpt_trip, computed. *)
Example C14_orcpt_unicode_space_ex :
  let nbsp := [b 194; b 160] in
  Client.rcpt_params ext_all (Some (mkRO [] (bs "UTF-8") (bs "x@y" ++ nbsp) None))
  = inl [bs "ORCPT=UTF-8;x@y\x{A0}"]
  /\ option_map rcpts (trip_rcpt cfg_all ext_all c_ready (bs "r@s")
                         (Some (mkRO [] (bs "UTF-8") (bs "x@y" ++ nbsp) None)))
     = Some [(bs "r@s", mkRO [] (bs "UTF-8") (bs "x@y" ++ nbsp) None)]
  /\ option_map rcpts (trip_rcpt cfg_all ext_all c_ready (bs "r@s")
                         (Some (mkRO [] (bs "UTF-8") (bs "x" ++ nbsp ++ bs "y@z") None)))
     = Some [(bs "r@s", mkRO [] (bs "UTF-8") (bs "x" ++ nbsp ++ bs "y@z") None)]
  /\ option_map rcpts (trip_rcpt cfg_noutf8 ext_noutf8 c_ready (bs "r@s")
                         (Some (mkRO [] (bs "UTF-8") (bs "x@y" ++ nbsp) None)))
     = Some [(bs "r@s", mkRO [] (bs "UTF-8") (bs "x@y" ++ nbsp) None)]
  /\ forallb (fun cp =>
        let o := mkRO [] (bs "UTF-8") (utf8_of_runes [cp; 120; cp; 64; 121; cp]%N) None in
        let arrives cfg ext :=
          match option_map rcpts (trip_rcpt cfg ext c_ready (bs "r@s") (Some o)) with
          | Some [(to, o')] => bytes_eqb to (bs "r@s") && CheckTrip.ro_matches o o'
          | _ => false
          end in
        arrives cfg_all ext_all && arrives cfg_noutf8 ext_noutf8) uspace_cps = true.
Proof. vm_compute. repeat split. Qed.

(* MailOptions.Auth = "<>" (the two characters) is written as AUTH=<> and
   arrives as the empty string; "<>" is not a mailbox *)
Theorem C14_auth_brackets_refuted :
  parse_mailbox (bs "<>") = None
  /\ option_map mails (trip_mail cfg_all ext_all c_ready (bs "a@b")
                         (Some (mkMO [] 0 false false [] [] (Some (bs "<>")))))
     = Some [(bs "a@b", mkMO (bs "8BITMIME") 0 false false [] [] (Some []))].
Proof. vm_compute. repeat split. Qed.

(* a Size the client accepts but the server cannot: negative (int64) *)
Theorem C14_negative_size_refused :
  option_map mails (trip_mail cfg_all ext_all c_ready (bs "a@b")
                      (Some (mkMO [] (-1) false false [] [] None))) = Some [].
Proof. vm_compute. reflexivity. Qed.

Print Assumptions C14_client_writes_mail.
Print Assumptions C14_client_writes_rcpt.
Print Assumptions C14_ehlo_bridge.
Print Assumptions C14_caps_keys.
Print Assumptions C14_body.
Print Assumptions C14_binarymime_data_refused.
Print Assumptions C14_oracle_mail.
Print Assumptions C14_oracle_rcpt.
