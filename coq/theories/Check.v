(* Correspondence checks: decode a case written by the Go harness, run the
   model on the recorded inputs, compare with the recorded behaviour of the
   implementation, and evaluate the property specifications on the recorded
   behaviour (the oracle that turns a disagreement into a violation replay). *)
From Smtp Require Import Bytes Sx Transport DataReader DotSpec.


Record verdict := mkV {
  v_ok : bool;              (* the case could be decoded *)
  v_agree : bool;           (* model behaviour = recorded implementation behaviour *)
  v_model : sx;             (* what the model computed *)
  v_viol : list bytes;      (* properties the recorded behaviour violates *)
  v_kf : list bytes;        (* known-finding signatures the case matches *)
  v_tags : list bytes       (* coverage tags *)
}.

Definition bad_case : verdict := mkV false false (SL []) [] [] [].

(* ---- decoding of shared pieces ---- *)

Definition dec_terr (x : sx) : option terr :=
  if sx_is "eof" x then Some TEof
  else if sx_is "toolong" x then Some TTooLong
  else if sx_is "timeout" x then Some TTimeout
  else if sx_is "err" x then Some TNetErr
  else if sx_is "closed" x then Some TClosed
  else None.

Definition dec_raw (x : sx) : option raw :=
  match x with
  | SL [tag; d] =>
      if sx_is "d" tag then
        match sx_bytes d with
        | Some (c :: r) => Some (RData c r)
        | _ => None
        end
      else None
  | SL [tag] => option_map RFail (dec_terr tag)
  | _ => None
  end.

Definition dec_raws (x : sx) : option (list raw) :=
  match x with SL l => map_opt dec_raw l | _ => None end.

Definition show_terr (e : terr) : string :=
  match e with
  | TEof => "eof" | TTooLong => "toolong" | TTimeout => "timeout"
  | TNetErr => "err" | TClosed => "closed"
  end.

Definition show_rerr (e : option rerr) : sx :=
  match e with
  | None => XT "nil"
  | Some REOF => XT "eof"
  | Some RUnexpectedEOF => XT "ueof"
  | Some RTooLarge => XT "toolarge"
  | Some (RTransport e) => XT (show_terr e)
  | Some RDataReset => XT "datareset"
  | Some RClosedPipe => XT "closedpipe"
  end.

(* read everything that is left on the transport, io.ReadAll style *)
Definition t_read_rest (t : transport) : bytes * option terr :=
  let '(b, e, _) := t_copy_n (2 ^ 62)%N t in (b, e).

Definition show_topt (e : option terr) : sx :=
  match e with None => XT "nil" | Some e => XT (show_terr e) end.

(* ---- kind "dr": the DATA reader in isolation ----
   (dr (linelimit n) (max n) (raws ...) (sizes ...) (stop none|n) 
       (obs (out x) (err e) (drain e) (rest x) (resterr e))) *)

Definition assoc (k : string) (l : list sx) : option (list sx) :=
  (fix go (l : list sx) :=
     match l with
     | SL (t :: args) :: r => if sx_is k t then Some args else go r
     | _ :: r => go r
     | [] => None
     end) l.

Definition assoc1 (k : string) (l : list sx) : option sx :=
  match assoc k l with Some [x] => Some x | _ => None end.

Definition dr_obs (out : bytes) (e : option rerr) (de : option rerr)
                  (rest : bytes) (re : option terr) : sx :=
  SL [XT "obs"; SL [XT "out"; XB out]; SL [XT "err"; show_rerr e];
      SL [XT "drain"; show_rerr de]; SL [XT "rest"; XB rest];
      SL [XT "resterr"; show_topt re]].

Definition check_dr (args : list sx) : verdict :=
  match assoc1 "linelimit" args, assoc1 "max" args, assoc1 "raws" args,
        assoc1 "sizes" args, assoc1 "stop" args, assoc "obs" args with
  | Some ll, Some mx, Some rs, Some SZ, Some st, Some obs =>
      match sx_N ll, sx_Z mx, dec_raws rs, sx_list SZ with
      | Some ll, Some mx, Some rs, Some szl =>
          match map_opt sx_nat szl with
          | Some sizes =>
              let stop := if sx_is "none" st then None else sx_N st in
              let t0 := mkT [] rs 0%N ll false in
              let '(out, e, d1, t1) := backend_reads sizes stop (new_data_reader mx) t0 in
              let '(de, d2, t2) := dr_drain d1 t1 in
              let '(rest, re) := t_read_rest t2 in
              let model := dr_obs out e de rest re in
              let agree := sx_eqb model (SL (XT "obs" :: obs)) in
              (* oracle: the property specs evaluated on the recorded behaviour *)
              let transparent := lim_ok ll 0%N rs in
              let stream := raws_bytes rs in
              let o_out := match assoc1 "out" obs with Some x => sx_bytes x | None => None end in
              let o_err := assoc1 "err" obs in
              let o_rest := match assoc1 "rest" obs with Some x => sx_bytes x | None => None end in
              let is_e (tag : string) := match o_err with Some x => sx_is tag x | None => false end in
              let viol :=
                if negb transparent then []
                else match unstuff stream, o_out, o_rest, stop with
                     | Complete body rest, Some oo, Some orr, None =>
                         if (mx <=? 0)%Z || (Z.of_nat (List.length body) <=? mx)%Z then
                           (if bytes_eqb oo body && is_e "eof"%string then [] else [bs "C01"; bs "C06"])
                           ++ (if bytes_eqb orr rest then [] else [bs "C02"])
                         else
                           (if bytes_eqb oo (firstn (Z.to_nat mx) body) && is_e "toolarge"%string
                            then [] else [bs "C06"])
                           ++ (if bytes_eqb orr rest then [] else [bs "C02"])
                     | Incomplete body, Some oo, _, _ =>
                         (if is_e "eof"%string then [bs "C07"] else [])
                         ++ (if (mx <=? 0)%Z && negb (is_prefix oo body) then [bs "C01"] else [])
                     | _, _, _, _ => []
                     end in
              let tags :=
                [match unstuff stream with Complete _ _ => bs "complete" | Incomplete _ => bs "incomplete" end;
                 if transparent then bs "transparent" else bs "limiter-trips";
                 if (0 <? mx)%Z then bs "limited" else bs "unlimited"] in
              mkV true agree model viol [] tags
          | None => bad_case
          end
      | _, _, _, _ => bad_case
      end
  | _, _, _, _, _, _ => bad_case
  end.

(* ---- dispatcher ---- *)

Definition check_sx (x : sx) : verdict :=
  match x with
  | SL (k :: args) =>
      if sx_is "dr" k then check_dr args
      else bad_case
  | _ => bad_case
  end.

Definition check_line (l : bytes) : verdict :=
  match parse_sx l with
  | Some x => check_sx x
  | None => bad_case
  end.

(* one output line per case: "ok|BAD agree|DIFF viol=.. kf=.. tags=.. model=.." *)
Definition show_verdict (v : verdict) : bytes :=
  (if v_ok v then bs "ok" else bs "BAD") ++ bs " " ++
  (if v_agree v then bs "agree" else bs "DIFF") ++ bs " viol=" ++
  join (bs ",") (v_viol v) ++ bs " kf=" ++ join (bs ",") (v_kf v) ++
  bs " tags=" ++ join (bs ",") (v_tags v) ++
  (if v_agree v then [] else bs " model=" ++ show_sx (v_model v)).

Definition run_line (l : bytes) : bytes := show_verdict (check_line l).
