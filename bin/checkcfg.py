"""Per-property configuration of bin/check."""

PROPS = {}

PROPS["C01"] = {
    "kinds": ["dr"],
    "rule": "dr: DATA reader run in isolation on a scripted raw-read schedule. Exhaustive streams over {'.',CR,LF,'x'} (all segmentations x read sizes up to length 4, rotating beyond), seeded random streams over all 256 octets with planted end-marker look-alikes, size-limit sweep, cut points. A case is non-trivial unless tagged 'trivial'; distinct = distinct generated case lines.",
    "trusted_base": ["model of bufio.Reader.ReadByte/UnreadByte and of lineLimitReader.Read (Transport.v), tied by the same runs"],
    "assumptions": ["limiter transparency (no line of the message longer than MaxLineLength) is the hypothesis of C01_byte_exact; streams violating it are covered by C19"],
}

CONV_TB = ["model of the server side of one connection (Conn.v: conn.go + server.go handleConn), of bufio/textproto line reading and of lineLimitReader (Transport.v), of the scripted backend; tied by the conv runs of this check",
           "the observed-behaviour oracles of CheckOracle.v and the expectations stated by the focused generators (harness/genfocus.go)"]

def conv_prop(pid, kinds, rule, assumptions=None):
    PROPS[pid] = {"kinds": kinds, "rule": rule, "trusted_base": CONV_TB, "assumptions": assumptions or []}

conv_prop("C02", ["c02", "dr"], "c02: complete conversations EHLO/MAIL/RCPT/DATA/<message>/MAIL/QUIT over message bodies with bait command lines and every terminator look-alike x backend {reads all, 3 octets, nothing} x {accept, reject} x {propagates reader error, not} x size limit {none, below, at, above} x {SMTP, LMTP, LMTP per-recipient} x 4 segmentations; dr: the DATA reader in isolation (see C01). Oracle: no bait address ever reaches Mail/Rcpt, the marker command after the message is executed, reply codes as the property prescribes.")
conv_prop("C03", ["c03", "conv"], "c03: command histories over a 35-symbol alphabet: every 2-step (3-step thorough) continuation of 6 prefixes, and random histories up to length 33, x {SMTP, LMTP} x recipient limit {0,2} x backend rejecting; conv: grammar-derived mixed conversations. Oracle: monitor over the recorded callbacks (order, envelope discarded and signalled, recipient limit).")
conv_prop("C05", ["c05", "conv"], "c05: chunkings {1 chunk, empty first chunk, 3/0/4, 1/1/1, 5+rest, empty} x LAST placement {on last chunk, on an extra empty chunk, none} x payloads {CRLF.CRLF, command look-alikes, NUL/8-bit, 100 LF-free octets with line limit 60, QUIT, text} x states {ok, no MAIL, all RCPT rejected, bad LAST token, over the size limit, LMTP, LMTP per-recipient} x segmentations. Oracle: message octets = concatenated payloads with EOF only after LAST, no payload line executed, marker command executed, reply codes.")
conv_prop("C06", ["c06", "dr"], "c06: limits N x message sizes N-2..N+2 and 10N x DATA (3 read sizes) and all chunkings into <= 3 BDAT chunks x {SMTP, LMTP}; SIZE= values around N, 2^32, 2^63-1, 2^63 and beyond. Oracle: the backend never sees more than N octets, <= N accepted exactly, > N answered 552 with the first N octets, SIZE > N refused without Mail.")
conv_prop("C07", ["c07", "dr"], "c07: every byte offset of the message part of DATA and BDAT conversations (SMTP, LMTP, LMTP per-recipient) as cut point x {EOF, timeout, error} x {one segment, byte-wise}; abandoning commands between chunks. Oracle: no reader ever reports EOF, no positive final reply.")
conv_prop("C08", ["c08", "conv"], "c08: every byte offset of 3 conversations (DATA, BDAT+re-EHLO+RSET, AUTH+out-of-order BDAT) as cut point x {EOF, timeout, error} x {SMTP, LMTP}; every server-initiated close reason {QUIT, 4 bad commands, too long line, idle timeout, backend panic, QUIT inside a chunked transfer} x buffered suffixes x segmentations. Oracle: one Logout per session, no callback/no new session after a closing reply, no command executed from the suffix, no go-smtp goroutine left.")
conv_prop("C19", ["c19", "conv"], "c19: line lengths L-3..L+5 for L in {60,120,500} at 3 positions x 3 verbs x 5 segmentations (incl. a split inside the line); endless lines; mixes of valid/invalid commands around the error threshold; all strings up to length 3 (4 thorough) over {NUL,CR,LF,SP,A,:,<,0xFF,U+017F} as command lines; random binary lines after command prefixes. Oracle: no recovered panic, a line > L+1 octets answered 500 and closed with no callback from it or after it, a line <= L never refused, 4th protocol error closes.")
conv_prop("C04", ["conv", "c03"], "conv: grammar-derived mixed conversations under 5 segmentation disciplines (one segment = fully pipelined, per line = lock step, random, byte-wise); c03: command histories. Oracle: the final reply after a Data call reports that call's verdict; replies compared octet for octet with the model, whose reply groups are proved one per command.")
