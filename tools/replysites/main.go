// replysites: reads every writeResponse / protocolError / writeError call and every SMTPError
// composite literal out of /repo's non-test sources and writes them as a Coq table
// (coq/gen/ReplySites.v) and a JSON list (for the reply-site coverage measure of the C04 check).
// It fails loudly (exit 2) on a call whose reply code or enhanced code it cannot read.
package main

import (
	"encoding/json"
	"flag"
	"fmt"
	"go/ast"
	"go/parser"
	"go/token"
	"os"
	"path/filepath"
	"regexp"
	"sort"
	"strconv"
	"strings"
)

type site struct {
	Kind string `json:"kind"` // writeResponse protocolError writeError SMTPError
	File string `json:"file"`
	Line int    `json:"line"`
	Fn   string `json:"fn"`
	Code int    `json:"code"`
	EC   [3]int `json:"ec"` // -1,-1,-1 NoEnhancedCode; 0,0,0 EnhancedCodeNotSet
	Text string `json:"text"` // first literal text fragment, "" if not a literal
}

func fail(fset *token.FileSet, n ast.Node, msg string) {
	fmt.Fprintf(os.Stderr, "replysites: %s: %s\n", fset.Position(n.Pos()), msg)
	os.Exit(2)
}

func intLit(e ast.Expr) (int, bool) {
	if b, ok := e.(*ast.BasicLit); ok && b.Kind == token.INT {
		v, err := strconv.Atoi(b.Value)
		return v, err == nil
	}
	if u, ok := e.(*ast.UnaryExpr); ok && u.Op == token.SUB {
		v, ok := intLit(u.X)
		return -v, ok
	}
	return 0, false
}

func ecOf(e ast.Expr) ([3]int, bool) {
	switch x := e.(type) {
	case *ast.Ident:
		switch x.Name {
		case "NoEnhancedCode":
			return [3]int{-1, -1, -1}, true
		case "EnhancedCodeNotSet":
			return [3]int{0, 0, 0}, true
		}
	case *ast.CompositeLit:
		if id, ok := x.Type.(*ast.Ident); ok && id.Name == "EnhancedCode" && len(x.Elts) == 3 {
			var r [3]int
			for i, el := range x.Elts {
				v, ok := intLit(el)
				if !ok {
					return r, false
				}
				r[i] = v
			}
			return r, true
		}
	}
	return [3]int{}, false
}

func strLit(e ast.Expr) string {
	switch x := e.(type) {
	case *ast.BasicLit:
		if x.Kind == token.STRING {
			s, _ := strconv.Unquote(x.Value)
			return s
		}
	case *ast.BinaryExpr:
		if s := strLit(x.X); s != "" {
			return s
		}
		return strLit(x.Y)
	case *ast.CallExpr:
		// fmt.Sprintf("literal ...", ...)
		if len(x.Args) > 0 {
			if s := strLit(x.Args[0]); s != "" {
				if i := strings.Index(s, "%"); i >= 0 {
					s = s[:i]
				}
				return s
			}
		}
	}
	return ""
}

func main() {
	repo := flag.String("repo", "/repo", "repository root")
	outV := flag.String("o", "", "Coq output file")
	outJ := flag.String("json", "", "JSON output file")
	modelDir := flag.String("model", "", "directory of the Coq model (Conn.v, Reply.v): also emit the model's reply literals")
	flag.Parse()
	files, _ := filepath.Glob(filepath.Join(*repo, "*.go"))
	sort.Strings(files)
	fset := token.NewFileSet()
	var sites []site
	for _, f := range files {
		if strings.HasSuffix(f, "_test.go") || strings.HasSuffix(f, "verif_export.go") {
			continue
		}
		af, err := parser.ParseFile(fset, f, nil, 0)
		if err != nil {
			fmt.Fprintln(os.Stderr, err)
			os.Exit(2)
		}
		for _, d := range af.Decls {
			fd, ok := d.(*ast.FuncDecl)
			fn := ""
			if ok {
				fn = fd.Name.Name
			}
			ast.Inspect(d, func(n ast.Node) bool {
				switch x := n.(type) {
				case *ast.CallExpr:
					sel, ok := x.Fun.(*ast.SelectorExpr)
					if !ok {
						return true
					}
					name := sel.Sel.Name
					if name != "writeResponse" && name != "protocolError" && name != "writeError" {
						return true
					}
					if len(x.Args) == 1 {
						// writeResponse(dataErrorToStatus(err)): forwards a backend-supplied status
						sites = append(sites, site{Kind: "forward", File: filepath.Base(f), Line: fset.Position(x.Pos()).Line, Fn: fn})
						return true
					}
					if len(x.Args) < 2 {
						fail(fset, x, "too few arguments to "+name)
					}
					// writeResponse(dataErrorToStatus(err)) and writeResponse(code, enhancedCode, msg) with
					// variables forward a backend-supplied status: recorded as kind "forward"
					code, okc := intLit(x.Args[0])
					if !okc {
						sites = append(sites, site{Kind: "forward", File: filepath.Base(f), Line: fset.Position(x.Pos()).Line, Fn: fn})
						return true
					}
					ec, oke := ecOf(x.Args[1])
					if !oke {
						fail(fset, x, "cannot read the enhanced code of this "+name+" call")
					}
					text := ""
					if len(x.Args) > 2 {
						text = strLit(x.Args[2])
					}
					sites = append(sites, site{Kind: name, File: filepath.Base(f), Line: fset.Position(x.Pos()).Line, Fn: fn, Code: code, EC: ec, Text: text})
				case *ast.ReturnStmt:
					// dataErrorToStatus: return code, EnhancedCode{...}, "text"
					if len(x.Results) == 3 {
						if code, ok := intLit(x.Results[0]); ok {
							if ec, ok := ecOf(x.Results[1]); ok {
								sites = append(sites, site{Kind: "status", File: filepath.Base(f), Line: fset.Position(x.Pos()).Line, Fn: fn, Code: code, EC: ec, Text: strLit(x.Results[2])})
							}
						}
					}
				case *ast.CompositeLit:
					if id, ok := x.Type.(*ast.Ident); ok && id.Name == "SMTPError" {
						s := site{Kind: "SMTPError", File: filepath.Base(f), Line: fset.Position(x.Pos()).Line, Fn: fn}
						for _, el := range x.Elts {
							kv, ok := el.(*ast.KeyValueExpr)
							if !ok {
								continue
							}
							switch kv.Key.(*ast.Ident).Name {
							case "Code":
								v, ok := intLit(kv.Value)
								if !ok {
									return true // built from variables (toSMTPErr): not a literal site
								}
								s.Code = v
							case "EnhancedCode":
								ec, ok := ecOf(kv.Value)
								if !ok {
									return true
								}
								s.EC = ec
							case "Message":
								s.Text = strLit(kv.Value)
							}
						}
						if s.Code != 0 {
							sites = append(sites, s)
						}
					}
				}
				return true
			})
		}
	}
	// the model's reply literals, read out of Conn.v / Reply.v with the same purpose: every literal reply of
	// the code must have a counterpart in the model and vice versa
	var model []site
	if *modelDir != "" {
		re := regexp.MustCompile(`\b(\d{3})\b[ ,]*(no_ec|\((-?\d+), (-?\d+), (-?\d+)\)(?:%Z)?)[ ,]*(?:\[?\(*bs "((?:[^"]|"")*)")?`)
		for _, name := range []string{"Conn.v", "Reply.v"} {
			data, err := os.ReadFile(filepath.Join(*modelDir, name))
			if err != nil {
				fmt.Fprintln(os.Stderr, err)
				os.Exit(2)
			}
			for ln, line := range strings.Split(string(data), "\n") {
				for _, m := range re.FindAllStringSubmatch(line, -1) {
					c, _ := strconv.Atoi(m[1])
					ms := site{Kind: "model", File: name, Line: ln + 1, Code: c, EC: [3]int{-1, -1, -1}, Text: strings.ReplaceAll(m[6], `""`, `"`)}
					if m[2] != "no_ec" {
						for i := 0; i < 3; i++ {
							ms.EC[i], _ = strconv.Atoi(m[3+i])
						}
					}
					model = append(model, ms)
				}
			}
		}
	}
	if *outJ != "" {
		b, _ := json.MarshalIndent(sites, "", " ")
		os.WriteFile(*outJ, b, 0644)
	}
	if *outV != "" {
		var sb strings.Builder
		sb.WriteString("(* GENERATED by tools/replysites from /repo's source - do not edit. *)\n")
		sb.WriteString("From Coq Require Import List String ZArith.\nImport ListNotations.\nOpen Scope string_scope.\n\n")
		sb.WriteString("(* (kind, function, line, reply code, enhanced code, first literal text) *)\n")
		sb.WriteString("Definition reply_sites : list (string * string * Z * Z * (Z * Z * Z) * string) := [\n")
		first := true
		for _, s := range sites {
			if s.Kind == "forward" {
				continue
			}
			if !first {
				sb.WriteString(";\n")
			}
			first = false
			t := strings.ReplaceAll(s.Text, "\"", "\"\"")
			fmt.Fprintf(&sb, "  (%q, %q, %d, %d, (%d, %d, %d), \"%s\")%%Z", s.Kind, s.Fn, s.Line, s.Code, s.EC[0], s.EC[1], s.EC[2], t)
		}
		sb.WriteString("\n].\n\n")
		n := 0
		for _, s := range sites {
			if s.Kind == "forward" {
				n++
			}
		}
		fmt.Fprintf(&sb, "(* calls that forward a status computed elsewhere (dataErrorToStatus, SMTPError fields) *)\nDefinition forwarding_sites : nat := %d.\n\n", n)
		sb.WriteString("(* the reply literals of the Coq model (Conn.v, Reply.v): (file, line, code, enhanced code, first literal text) *)\n")
		sb.WriteString("Definition model_sites : list (string * Z * Z * (Z * Z * Z) * string) := [\n")
		for i, s := range model {
			if i > 0 {
				sb.WriteString(";\n")
			}
			t := strings.ReplaceAll(s.Text, "\"", "\"\"")
			fmt.Fprintf(&sb, "  (%q, %d, %d, (%d, %d, %d), \"%s\")%%Z", s.File, s.Line, s.Code, s.EC[0], s.EC[1], s.EC[2], t)
		}
		sb.WriteString("\n].\n")
		os.WriteFile(*outV, []byte(sb.String()), 0644)
	}
}
