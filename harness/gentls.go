package harness

import (
	"math/rand"
)

// GenTLS: conversations across a real STARTTLS upgrade (crypto/tls on both
// sides) and under implicit TLS: plaintext pre-histories x plaintext injected
// behind the STARTTLS command x what the client tries inside TLS.
func GenTLS(rng *rand.Rand, thorough bool, emit func(*Sx)) {
	type hist struct {
		name  string
		lines []string
		codes []int
	}
	hists := []hist{
		{"greeted", []string{"EHLO p.example"}, []int{250}},
		{"mail", []string{"EHLO p.example", "MAIL FROM:<plain@x>"}, []int{250, 250}},
		{"rcpt", []string{"EHLO p.example", "MAIL FROM:<plain@x>", "RCPT TO:<plainr@x>"}, []int{250, 250, 250}},
		{"bdat", []string{"EHLO p.example", "MAIL FROM:<plain@x>", "RCPT TO:<plainr@x>", "BDAT 3\r\nabc"}, []int{250, 250, 250, 250}},
		{"authed", []string{"EHLO p.example", "AUTH PLAIN AGEAYg=="}, []int{250, 235}},
		{"none", nil, nil},
	}
	type inj struct {
		name   string
		same   string // in the same raw read as the STARTTLS line: buffered, must be dropped
		later  string // in a later raw read: the handshake reads it and fails
	}
	injs := []inj{
		{"clean", "", ""},
		{"buffered", "RCPT TO:<inj@evil>\r\nMAIL FROM:<inj@evil>\r\n", ""},
		{"later", "", "MAIL FROM:<inj@evil>\r\n"},
	}
	n := 0
	for _, insecure := range []bool{true, false} {
		for _, h := range hists {
			if h.name == "authed" && !insecure {
				continue
			}
			for _, in := range injs {
				for seg := 0; seg < 3; seg++ {
					n++
					cfg := DefaultCfg()
					cfg.TLSConfig = true
					cfg.Insecure = insecure
					cfg.HasAuth, cfg.Auth = true, []string{"PLAIN"}
					f := newF(cfg)
					for i, l := range h.lines {
						if l == "BDAT 3\r\nabc" {
							f.raw(l)
							f.expect(h.codes[i])
						} else {
							f.cmd(l, h.codes[i])
						}
					}
					f.out = append(f.out, "STARTTLS\r\n"...)
					f.expect(220)
					f.out = append(f.out, in.same...)
					var plain []Raw
					if seg == 0 {
						plain = []Raw{{Kind: RawData, Data: append([]byte(nil), f.out...)}}
					} else {
						// everything before the STARTTLS line segmented, the line and what shares its raw read as one
						k := len(f.out) - len(in.same) - len("STARTTLS\r\n")
						plain = segStream(rng, f.out[:k], nil, seg, Raw{Kind: RawData, Data: append([]byte(nil), f.out[k:]...)})
					}
					f.add(L(A("must-not-mail"), XS("inj@evil")))
					if in.later != "" {
						// handshake failure: 550, the plaintext session goes on
						plain = append(plain, Raw{Kind: RawData, Data: []byte(in.later)})
						f.expect(550)
						rest := "NOOP\r\nQUIT\r\n"
						f.expect(250, 221)
						plain = append(plain, Raw{Kind: RawData, Data: []byte(rest)}, rawEOF)
						emit(RunConv(ConvCase{Cfg: cfg, Script: f.script, Phases: [][]Raw{plain}, Extra: f.caseOf("C10", nil).Extra}))
						continue
					}
					// inside TLS
					g := &fconv{cfg: cfg}
					g.cmd("RCPT TO:<r2@x>", 502)
					g.cmd("DATA", 502)
					g.cmd("MAIL FROM:<early@x>", 502)
					g.cmd("EHLO t.example", 250)
					g.cmd("RCPT TO:<r2@x>", 502)
					g.cmd("BDAT 0 LAST", 502)
					g.cmd("MAIL FROM:<intls@x>", 250)
					g.cmd("AUTH PLAIN AGEAYg==", 235)
					g.cmd("AUTH PLAIN AGEAYg==", 503)
					g.cmd("STARTTLS", 502)
					g.cmd("QUIT", 221)
					f.expect(g.codes...)
					f.add(L(A("must-mail"), XS("intls@x")))
					f.add(L(A("must-not-mail"), XS("early@x")))
					f.add(L(A("must-not-mail"), XS("r2@x")))
					tlsRaws := segStream(rng, g.out, nil, []int{1, 3, 0}[seg], rawEOF)
					emit(RunConv(ConvCase{Cfg: cfg, Script: f.script, Phases: [][]Raw{plain, tlsRaws}, Extra: f.caseOf("C10", nil).Extra}))
				}
			}
		}
	}
	// STARTTLS not configured / AUTH on plaintext without AllowInsecureAuth
	for _, tlscfg := range []bool{false, true} {
		cfg := DefaultCfg()
		cfg.TLSConfig = tlscfg
		cfg.HasAuth, cfg.Auth = true, []string{"PLAIN"}
		f := newF(cfg)
		f.hello()
		f.cmd("AUTH PLAIN AGEAYg==", 523)
		f.cmd("AUTH PLAIN", 523)
		if !tlscfg {
			f.cmd("STARTTLS", 502)
		}
		f.cmd("QUIT", 221)
		emit(RunConv(f.caseOf("C09", segStream(rng, f.out, nil, 1, rawEOF))))
	}
	// implicit TLS
	for seg := 0; seg < 3; seg++ {
		for _, auth := range []bool{true, false} {
			cfg := DefaultCfg()
			cfg.ImplicitTLS = true
			cfg.TLSConfig = seg == 1
			cfg.RequireTLS = true
			if auth {
				cfg.HasAuth, cfg.Auth = true, []string{"PLAIN", "LOGIN"}
			}
			f := newF(cfg)
			f.hello()
			f.cmd("STARTTLS", 502)
			if auth {
				f.cmd("AUTH PLAIN AGEAYg==", 235)
				f.cmd("AUTH PLAIN AGEAYg==", 503)
			} else {
				f.cmd("AUTH PLAIN AGEAYg==", 504)
			}
			f.cmd("MAIL FROM:<s@ok> REQUIRETLS", 250)
			f.cmd("RCPT TO:<r@ok>", 250)
			f.cmd("DATA", 354)
			f.raw("in tls\r\n.\r\n")
			f.expect(250)
			f.cmd("QUIT", 221)
			f.add(L(A("must-mail"), XS("s@ok")))
			emit(RunConv(f.caseOf("C10", segStream(rng, f.out, nil, []int{1, 3, 0}[seg], rawEOF))))
		}
	}
}
