(* A backend that goes on reading after a failed Read.

   dataReader.Read may hand out octets TOGETHER with a transport error: the
   client stalled while a read deadline was in force, bufio hands out what it
   has and then the time-out.  A backend with its own patience policy extends
   the deadline (Conn.Conn().SetReadDeadline) and reads on; the failure is
   consumed by the read that saw it (Transport.raw_read), the reader's state
   and remaining budget are kept in [dreader].

   [be_read_retry] is [DataReader.be_read] with that policy: after a read that
   ended in a transport failure (time-out, connection error) it continues, up
   to [retry] times.  The harness counterpart is harness/retry.go (retryReader
   around the reader given to readPlan); the dr cases with a (retry k) field
   tie the two (CheckDr.v).  Every other error ends the reading: io.EOF (end
   of the message), ErrDataTooLarge (sticky), io.ErrUnexpectedEOF, a too long
   line (sticky in the limiter). *)
From Smtp Require Import Bytes Transport DataReader.

Definition retryable (e : rerr) : bool :=
  match e with
  | RTransport TTimeout | RTransport TNetErr => true
  | _ => false
  end.

Fixpoint be_read_retry (fuel : nat) (sizes cur : list nat) (stop : option N) (retry : nat)
                       (got : bytes) (d : dreader) (t : transport)
  : bytes * option rerr * dreader * transport :=
  match fuel with
  | O => (got, Some (RTransport TNetErr), d, t)   (* out of fuel: excluded *)
  | S fuel' =>
      let enough := match stop with Some k => (k <=? blen got)%N | None => false end in
      if enough then (got, None, d, t)
      else
        let '(sz, cur') := next_size sizes cur in
        let '(o, e, d', t') := dr_read d t (pos_size sz) in
        match e with
        | Some err =>
            match retry with
            | S retry' =>
                if retryable err then be_read_retry fuel' sizes cur' stop retry' (got ++ o) d' t'
                else (got ++ o, e, d', t')
            | O => (got ++ o, e, d', t')
            end
        | None => be_read_retry fuel' sizes cur' stop retry (got ++ o) d' t'
        end
  end.

(* every iteration consumes an octet of the transport or one of its failures *)
Definition backend_reads_retry (sizes : list nat) (stop : option N) (retry : nat)
                               (d : dreader) (t : transport) :=
  be_read_retry (be_fuel t + retry) sizes [] stop retry [] d t.
