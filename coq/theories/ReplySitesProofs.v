(* Obligations over the reply-site table that is regenerated from /repo's
   source on every run (coq/gen/ReplySites.v, written by tools/replysites):
   - every literal reply of conn.go / server.go / backend.go / data.go has a
     well-formed reply code and an enhanced code of the reply code's class
     (or leaves it to writeResponse's defaulting, or is one of the replies RFC
     2034 exempts: greeting, EHLO reply, 3xx);
   - the Coq model (Conn.v, Reply.v) contains the same reply literals as the
     code: every site of the code has a counterpart in the model with the same
     reply code, enhanced code and text, and vice versa.
   Both are closed boolean computations re-checked against the current
   source, so a reply added, removed or altered on one side only breaks them. *)
From Coq Require Import List String ZArith Bool Ascii.
From SmtpGen Require Import ReplySites.
Import ListNotations.
Open Scope Z_scope.

Definition site_code (s : string * string * Z * Z * (Z * Z * Z) * string) : Z :=
  let '(_, _, _, c, _, _) := s in c.
Definition site_ec (s : string * string * Z * Z * (Z * Z * Z) * string) : Z * Z * Z :=
  let '(_, _, _, _, e, _) := s in e.
Definition site_text (s : string * string * Z * Z * (Z * Z * Z) * string) : string :=
  let '(_, _, _, _, _, t) := s in t.

Definition ec_eq (a b : Z * Z * Z) : bool :=
  let '(a1, a2, a3) := a in let '(b1, b2, b3) := b in (a1 =? b1) && (a2 =? b2) && (a3 =? b3).

(* class rule of one site *)
Definition site_class_ok (s : string * string * Z * Z * (Z * Z * Z) * string) : bool :=
  let c := site_code s in
  let '(e1, e2, e3) := site_ec s in
  (200 <=? c) && (c <=? 599) &&
  (if ec_eq (e1, e2, e3) (-1, -1, -1) then
     (* NoEnhancedCode: only the greeting, the EHLO reply and 3xx replies *)
     (c =? 220) || (c =? 250) || ((300 <=? c) && (c <=? 399))
   else if ec_eq (e1, e2, e3) (0, 0, 0) then true     (* defaulted to X.0.0 by writeResponse *)
   else (e1 =? c / 100) && (0 <=? e2) && (0 <=? e3)).

Theorem sites_class_ok : forallb site_class_ok reply_sites = true.
Proof. vm_compute. reflexivity. Qed.

(* the sites that use NoEnhancedCode with a 250 are exactly the EHLO reply *)
Theorem no_ec_250_is_ehlo :
  forallb (fun s => implb (ec_eq (site_ec s) (-1, -1, -1) && (site_code s =? 250))
                          (prefix "Hello " (site_text s) || String.eqb (site_text s) ""))
          reply_sites = true.
Proof. vm_compute. reflexivity. Qed.

(* ---------- the model and the code contain the same reply literals ---------- *)

Definition m_code (s : string * Z * Z * (Z * Z * Z) * string) : Z := let '(_, _, c, _, _) := s in c.
Definition m_ec (s : string * Z * Z * (Z * Z * Z) * string) : Z * Z * Z := let '(_, _, _, e, _) := s in e.
Definition m_text (s : string * Z * Z * (Z * Z * Z) * string) : string := let '(_, _, _, _, t) := s in t.

(* texts match when one literal fragment is a prefix of the other (format verbs and
   concatenations cut the literal short on either side); a site whose text is not a
   literal matches on code and enhanced code alone *)
Definition text_match (a b : string) : bool := prefix a b || prefix b a.

Definition site_in_model (s : string * string * Z * Z * (Z * Z * Z) * string) : bool :=
  existsb (fun m => (m_code m =? site_code s) && ec_eq (m_ec m) (site_ec s) && text_match (m_text m) (site_text s))
          model_sites.

Definition model_in_sites (m : string * Z * Z * (Z * Z * Z) * string) : bool :=
  existsb (fun s => (m_code m =? site_code s) && ec_eq (m_ec m) (site_ec s) && text_match (m_text m) (site_text s))
          reply_sites.

(* the client-side sentinel errors of backend.go / client.go are not server replies *)
(* Conn.Reject is an exported method for use by applications (never called by the library's own
   serving code): it is not part of the model *)
Definition server_site (s : string * string * Z * Z * (Z * Z * Z) * string) : bool :=
  let '(k, fn, _, _, _, t) := s in
  negb (String.eqb fn "Reject") &&
  (negb (String.eqb k "SMTPError") || String.eqb t "Maximum message size exceeded"
   || String.eqb t "Internal server error" || String.eqb t "Unsupported authentication mechanism").

Definition unmatched_sites := filter (fun s => server_site s && negb (site_in_model s)) reply_sites.
Definition unmatched_model := filter (fun m => negb (model_in_sites m)) model_sites.

Theorem every_code_reply_is_in_the_model : unmatched_sites = [].
Proof. vm_compute. reflexivity. Qed.

Theorem every_model_reply_is_in_the_code : unmatched_model = [].
Proof. vm_compute. reflexivity. Qed.
