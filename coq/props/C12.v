(* C12 - EHLO advertises exactly what the configuration enables, and honours it.

   For EVERY configuration (all flags, ANY size limit and recipient limit
   value, any list of backend mechanisms) and TLS state:
   - the capability list of the EHLO/LHLO reply contains a line s exactly when
     [advertised cfg tls s] holds - the property's own table (STARTTLS iff TLS
     configured and not active, AUTH with the backend's mechanisms iff
     permitted, REQUIRETLS only under TLS, SIZE/RCPTMAX with the configured
     values, the fixed four always) - and that list is what the reply carries;
     HELO's reply is the single greeting line;
   - each extension's parameter or command is accepted when enabled and
     refused with 504 when disabled (502/523 for STARTTLS/AUTH), the advertised
     SIZE and RCPTMAX values are the ones enforced;
   - additionally the property's finite space (here 4096 configurations, a
     superset of its 3072) is enumerated by vm_compute: advertised <-> accepted
     and not advertised <-> 504 for every extension. *)
From Smtp Require Import Bytes GoStrings Transport Parse Reply Conn C12Proofs.

Theorem C12_caps_exact cfg c s : In s (caps cfg c) <-> advertised cfg (c_tls c) s.
Proof. exact (caps_exact cfg c s). Qed.
Print Assumptions C12_caps_exact.

Theorem C12_ehlo_reply_is_caps cfg c arg domain :
  parse_hello_argument arg = Some domain -> c_session c = true ->
  exists c' ev, handle_greet cfg c true arg
                = (c', ev ++ [EWire (write_response 250 no_ec ((bs "Hello " ++ domain) :: caps cfg c'))])
                /\ c_tls c' = c_tls c.
Proof. exact (ehlo_lists_caps cfg c arg domain). Qed.
Print Assumptions C12_ehlo_reply_is_caps.

Theorem C12_helo_lists_nothing cfg c arg domain :
  parse_hello_argument arg = Some domain -> c_session c = true ->
  exists c' ev, handle_greet cfg c false arg
                = (c', ev ++ [reply 250 (2, 0, 0)%Z (bs "Hello " ++ domain)]).
Proof. exact (helo_lists_nothing cfg c arg domain). Qed.
Print Assumptions C12_helo_lists_nothing.

Theorem C12_honoured_mail cfg o bm :
  ((cf_utf8 cfg = true -> accepted (mail_param cfg (bs "SMTPUTF8") [] o bm)) /\
   (cf_utf8 cfg = false -> refused_504 (mail_param cfg (bs "SMTPUTF8") [] o bm))) /\
  ((cf_requiretls cfg = true -> accepted (mail_param cfg (bs "REQUIRETLS") [] o bm)) /\
   (cf_requiretls cfg = false -> refused_504 (mail_param cfg (bs "REQUIRETLS") [] o bm))) /\
  ((cf_binarymime cfg = true -> accepted (mail_param cfg (bs "BODY") (bs "BINARYMIME") o bm)) /\
   (cf_binarymime cfg = false -> refused_504 (mail_param cfg (bs "BODY") (bs "BINARYMIME") o bm))) /\
  (accepted (mail_param cfg (bs "BODY") (bs "8BITMIME") o bm) /\ accepted (mail_param cfg (bs "BODY") (bs "7BIT") o bm)) /\
  ((cf_dsn cfg = true -> accepted (mail_param cfg (bs "RET") (bs "FULL") o bm)
                         /\ accepted (mail_param cfg (bs "RET") (bs "HDRS") o bm)) /\
   (cf_dsn cfg = false -> forall v, refused_504 (mail_param cfg (bs "RET") v o bm)
                                    /\ refused_504 (mail_param cfg (bs "ENVID") v o bm))).
Proof.
  exact (conj (honour_smtputf8 cfg o bm) (conj (honour_requiretls cfg o bm)
        (conj (honour_binarymime cfg o bm) (conj (honour_8bitmime cfg o bm) (honour_dsn_ret cfg o bm))))).
Qed.
Print Assumptions C12_honoured_mail.

Theorem C12_honoured_rcpt cfg o :
  ((cf_dsn cfg = true -> accepted (rcpt_param cfg (bs "NOTIFY") (bs "SUCCESS,FAILURE") o)
                         /\ accepted (rcpt_param cfg (bs "NOTIFY") (bs "NEVER") o)) /\
   (cf_dsn cfg = false -> forall v, refused_504 (rcpt_param cfg (bs "NOTIFY") v o)
                                    /\ refused_504 (rcpt_param cfg (bs "ORCPT") v o))) /\
  ((cf_rrvs cfg = true -> accepted (rcpt_param cfg (bs "RRVS") (bs "2014-04-03T23:01:00Z") o)) /\
   (cf_rrvs cfg = false -> forall v, refused_504 (rcpt_param cfg (bs "RRVS") v o))).
Proof. exact (conj (honour_dsn_rcpt cfg o) (honour_rrvs cfg o)). Qed.
Print Assumptions C12_honoured_rcpt.

Theorem C12_size_value_enforced cfg o bm v :
  forallb is_digit v = true -> v <> [] -> (dec_value v < 2 ^ 63)%N ->
  ((0 < cf_max_bytes cfg)%Z -> (cf_max_bytes cfg < Z.of_N (dec_value v))%Z ->
     mail_param cfg (bs "SIZE") v o bm = inr (552, (5, 3, 4), bs "Max message size exceeded")%Z) /\
  ((cf_max_bytes cfg <= 0)%Z \/ (Z.of_N (dec_value v) <= cf_max_bytes cfg)%Z ->
     accepted (mail_param cfg (bs "SIZE") v o bm)).
Proof. exact (honour_size cfg o bm v). Qed.
Print Assumptions C12_size_value_enforced.

Theorem C12_starttls_iff_advertised cfg c :
  (cf_tls_config cfg = true /\ c_tls c = false ->
     exists c' ev, handle_starttls cfg c = (c', reply 220 (2, 0, 0)%Z (bs "Ready to start TLS") :: ev)) /\
  (cf_tls_config cfg = false \/ c_tls c = true ->
     exists msg, handle_starttls cfg c = (c, [reply 502 (5, 5, 1)%Z msg])).
Proof. exact (honour_starttls cfg c). Qed.
Print Assumptions C12_starttls_iff_advertised.

Theorem C12_auth_needs_tls cfg c arg m more :
  c_helo c <> [] -> c_did_auth c = false -> fields arg = m :: more ->
  c_tls c = false -> cf_insecure_auth cfg = false ->
  handle_auth cfg c arg = (c, [reply 523 (5, 7, 10)%Z (bs "TLS is required")]).
Proof. exact (honour_auth_needs_tls cfg c arg m more). Qed.
Print Assumptions C12_auth_needs_tls.

Theorem C12_rcptmax_enforced cfg c arg a rcpt rest :
  c_from c = true -> c_bdat c = None -> cut_prefix_fold arg (bs "TO:") = Some a ->
  parse_path (trim_space a) = Some (rcpt, rest) ->
  (0 < cf_max_rcpt cfg)%N -> (cf_max_rcpt cfg <= N.of_nat (List.length (c_rcpts c)))%N ->
  handle_rcpt cfg c arg
  = (c, [reply 452 (4, 5, 3)%Z (bs "Maximum limit of " ++ dec_of_N (cf_max_rcpt cfg) ++ bs " recipients reached")]).
Proof. exact (honour_rcptmax cfg c arg a rcpt rest). Qed.
Print Assumptions C12_rcptmax_enforced.

(* the finite space of the property, enumerated: the bound (4096 configurations) is part of the statement *)
Theorem C12_configuration_space_consistent :
  N.of_nat (List.length cfg_space) = 4096%N /\ forall p, In p cfg_space -> cfg_consistent p = true.
Proof. exact (conj cfg_space_size cfg_space_consistent_all). Qed.
Print Assumptions C12_configuration_space_consistent.
