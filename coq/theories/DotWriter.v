(* net/textproto/writer.go: dotWriter.Write and dotWriter.Close (Go 1.23),
   the writer through which the SMTP client sends a message body, and the
   specification of what the server-side backend must receive for a body
   written through it. *)
From Smtp Require Import Bytes.

(* ---------- the model, following the Go code ---------- *)

(* const ( wstateBegin = iota; wstateBeginLine; wstateCR; wstateData ) *)
Inductive wstate := WBegin | WBeginLine | WCR | WData.

Definition dotcrnl : bytes := [DOT; CR; LF].

(* the body of `case wstateData:` on octet c, entered with d.state = w:
     if c == '\r' { d.state = wstateCR }
     if c == '\n' { bw.WriteByte('\r'); d.state = wstateBeginLine }
   result: (d.state afterwards, octets written by this case) *)
Definition dw_case_data (w : wstate) (c : ascii) : wstate * bytes :=
  let w1 := if Ascii.eqb c CR then WCR else w in
  if Ascii.eqb c LF then (WBeginLine, [CR]) else (w1, []).

(* one iteration of the for loop in Write on octet c = b[n]:
     switch d.state {
     case wstateBegin, wstateBeginLine:
         d.state = wstateData
         if c == '.' { bw.WriteByte('.') }
         fallthrough
     case wstateData:
         ... (dw_case_data)
     case wstateCR:
         d.state = wstateData
         if c == '\n' { d.state = wstateBeginLine }
     }
     bw.WriteByte(c)
   (bw is a bufio.Writer; its sticky write error is outside this model) *)
Definition dw_step (w : wstate) (c : ascii) : wstate * bytes :=
  match w with
  | WBegin | WBeginLine =>
      let pre := if Ascii.eqb c DOT then [DOT] else [] in
      let '(w', o) := dw_case_data WData c in
      (w', pre ++ o ++ [c])
  | WData =>
      let '(w', o) := dw_case_data WData c in
      (w', o ++ [c])
  | WCR =>
      ((if Ascii.eqb c LF then WBeginLine else WData), [c])
  end.

(* one Write call: (state afterwards, octets written to the wire) *)
Fixpoint dw_write (w : wstate) (b : bytes) : wstate * bytes :=
  match b with
  | [] => (w, [])
  | c :: t =>
      let '(w1, o1) := dw_step w c in
      let '(w2, o2) := dw_write w1 t in
      (w2, o1 ++ o2)
  end.

(* Close:
     switch d.state {
     default:          bw.WriteByte('\r'); fallthrough      (Begin, Data)
     case wstateCR:    bw.WriteByte('\n'); fallthrough
     case wstateBeginLine: bw.Write(dotcrnl)
     }
   So: an unterminated last line and the EMPTY message (state Begin) get
   CRLF before the end marker, a message ending in a bare CR gets the
   missing LF, a message ending in a line terminator gets nothing. *)
Definition dw_close (w : wstate) : bytes :=
  match w with
  | WBegin | WData => CR :: LF :: dotcrnl
  | WCR => LF :: dotcrnl
  | WBeginLine => dotcrnl
  end.

(* a sequence of Write calls *)
Fixpoint dw_writes (w : wstate) (parts : list bytes) : wstate * bytes :=
  match parts with
  | [] => (w, [])
  | p :: r =>
      let '(w1, o1) := dw_write w p in
      let '(w2, o2) := dw_writes w1 r in
      (w2, o1 ++ o2)
  end.

(* DotWriter(); Write(p) for each p in parts; Close() *)
Definition dot_write_all (parts : list bytes) : bytes :=
  let '(w, o) := dw_writes WBegin parts in o ++ dw_close w.

(* ---------- what the backend must receive ---------- *)

(* every bare LF (an LF not immediately preceded by CR) becomes CRLF;
   prevCR: the previous octet of the body was a CR *)
Fixpoint fix_lf (prevCR : bool) (s : bytes) : bytes :=
  match s with
  | [] => []
  | c :: t =>
      if Ascii.eqb c LF
      then (if prevCR then [LF] else [CR; LF]) ++ fix_lf false t
      else c :: fix_lf (Ascii.eqb c CR) t
  end.

(* p is a suffix of s *)
Fixpoint ends_with (p s : bytes) : bool :=
  bytes_eqb p s ||
  match s with
  | [] => false
  | _ :: t => ends_with p t
  end.

(* make the message end with CRLF:
   - it already ends with CRLF: unchanged;
   - it ends with a (bare) CR: only the LF is added (Close in state wstateCR
     writes "\n.\r\n", and the reader then sees the line terminator CRLF);
   - otherwise, INCLUDING THE EMPTY MESSAGE: CRLF is appended.  For the empty
     message Close runs in state wstateBegin and writes "\r\n.\r\n"; the
     leading CRLF is not part of an end marker at a line start, so `unstuff`
     yields the one empty line "\r\n".  (net/textproto never sends the bare
     marker ".\r\n" for an empty body.) *)
Definition ensure_crlf (b : bytes) : bytes :=
  if ends_with crlf b then b
  else if ends_with [CR] b then b ++ [LF]
  else b ++ crlf.

(* normalise "" = "\r\n";  normalise "a" = normalise "a\n" = normalise "a\r"
   = normalise "a\r\n" = "a\r\n" *)
Definition normalise (body : bytes) : bytes := ensure_crlf (fix_lf false body).

(* every CR is immediately followed by LF; a CR that is the very last octet
   violates it *)
Fixpoint cr_only_in_crlf (s : bytes) : bool :=
  match s with
  | [] => true
  | c :: t =>
      if Ascii.eqb c CR
      then match t with
           | d :: _ => Ascii.eqb d LF && cr_only_in_crlf t
           | [] => false
           end
      else cr_only_in_crlf t
  end.
