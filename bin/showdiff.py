#!/usr/bin/env python3
"""showdiff.py cases.txt out.txt [k] : pretty-print the k-th disagreement (model vs observed events)"""
import sys,re
def parse(s):
    s=s.replace('(',' ( ').replace(')',' ) ').split()
    def go(i):
        if s[i]=='(':
            l=[];i+=1
            while s[i]!=')':
                x,i=go(i);l.append(x)
            return l,i+1
        return s[i],i+1
    return go(0)[0]
def dec(a):
    if isinstance(a,list): return [dec(x) for x in a]
    if a.startswith('x') and re.fullmatch(r'x([0-9a-f]{2})*',a):
        return repr(bytes.fromhex(a[1:]))[1:]
    return a
def find(l,k):
    for x in l:
        if isinstance(x,list) and x and x[0]==k: return x
cases=open(sys.argv[1]).read().splitlines()
outs=[l for l in open(sys.argv[2]).read().splitlines() if ' DIFF ' in l or ' BAD ' in l]
k=int(sys.argv[3]) if len(sys.argv)>3 else 0
o=outs[k]; idx=int(o.split()[0])-1
case=parse(cases[idx])
print("CASE",idx, dec(find(case,'cfg')))
print("BE", dec(find(case,'be')))
print("PHASES", dec(find(case,'phases')))
obs=find(case,'obs')
m=re.search(r'model=(.*)$',o)
model=parse(m.group(1)) if m else None
oe=dec(find(obs,'events')[1]); me=dec(find(model,'events')[1]) if model else []
for i in range(max(len(oe),len(me))):
    a=oe[i] if i<len(oe) else None; b=me[i] if i<len(me) else None
    print(("  " if a==b else "!!"),"OBS",a); 
    if a!=b: print("  ","MOD",b)
for k2 in ('deliveries','panics','waited'):
    a=dec(find(obs,k2)); b=dec(find(model,k2)) if model else None
    print(("  " if a==b else "!!"),k2,"OBS",a,"MOD",b)
