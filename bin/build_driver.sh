#!/bin/bash
# Extract the model and build the OCaml driver into /verif/ocaml/_build/driver
set -e
cd "${VERIF_ROOT:-$(cd "$(dirname "$0")/.." && pwd)}/ocaml"
mkdir -p _build
cd _build
cp ../main.ml .
timeout 600 coqc -Q ../../coq/theories Smtp ../../coq/extract/Extract.v > extract.log 2>&1 || { cat extract.log; exit 1; }
rm -f ../../coq/extract/Extract.vo ../../coq/extract/Extract.glob ../../coq/extract/.Extract.aux ../../coq/extract/Extract.vos ../../coq/extract/Extract.vok
ocamlfind ocamlopt -O2 -w -a model.mli model.ml main.ml -o driver 2> ocaml.log || ocamlfind ocamlopt -w -a model.mli model.ml main.ml -o driver 2> ocaml.log || { cat ocaml.log; exit 1; }
echo "driver built"
