(* kind "cli": a recorded run of the real go-smtp client against a scripted
   fake server (harness/gencli.go) is replayed through Client.v and compared
   call by call (octets written, returned error, status callbacks, Extension
   result, challenges handed to the SASL mechanism).

   Independently of the model, oracles are evaluated on the RECORDED behaviour:
   C15  every conn.Write made by a command method while no data writer is open
        is exactly one line "l CRLF" with no CR / LF inside l; the lines of a
        call are hello lines (EHLO/LHLO/HELO ...) followed by at most one line
        of the method's own verb, carrying the argument verbatim; an argument
        with CR or LF gives a local error with nothing written; on MAIL / RCPT
        lines every SP-separated parameter after the address is a known
        keyword whose extension key is in the EHLO reply in force (stated by
        the generator: (adv ..); BODY=BINARYMIME needs BINARYMIME, any other
        BODY value 8BITMIME); RequireTLS / UTF8 / a Body value requested
        without its key, or an unknown Body value => local error and no MAIL
        line.
   C18  LMTP: the callbacks of a Close are exactly (recipient, scripted reply)
        for the recipients whose RCPT returned nil since the last MAIL, in
        order; without callback Close returns the first negative reply; a
        stated expected result (want ..) of the following commands holds
        (the next command's reply was not eaten).
   C16  SMTP: Close returns the scripted final reply; a Close of an already
        closed writer writes nothing and returns an error.
   C10  NewClientStartTLS against a server that does not offer STARTTLS or
        refuses it returns an error having written only EHLO/LHLO/HELO/
        STARTTLS lines (no STARTTLS line when not offered); after a 220 not a
        single plaintext octet is written by any later call. *)
From Smtp Require Import Bytes Sx CheckBase GoStrings Reply ClientReply Rfc3339 DotWriter Conn Client.
Local Open Scope char_scope.

(* ---------- decoding ---------- *)

Definition cl_optb (x : sx) : option (option bytes) :=
  if sx_is "nil" x then Some None else option_map Some (sx_bytes x).

Definition cl_list {A} (f : sx -> option A) (x : sx) : option (list A) :=
  match x with SL l => map_opt f l | _ => None end.

Definition cl_mopts (x : sx) : option (option mail_opts) :=
  if sx_is "nil" x then Some None
  else match x with
       | SL [t; size; rtls; utf8; ret; envid; au; body] =>
           if sx_is "o" t then
             match sx_Z size, sx_bool rtls, sx_bool utf8, sx_bytes ret, sx_bytes envid,
                   cl_optb au, sx_bytes body with
             | Some size, Some rtls, Some utf8, Some ret, Some envid, Some au, Some body =>
                 Some (Some (mkMO body size rtls utf8 ret envid au))
             | _, _, _, _, _, _, _ => None
             end
           else None
       | _ => None
       end.

Definition cl_time (x : sx) : option (option rtime) :=
  if sx_is "nil" x then Some None
  else match x with
       | SL [t; u; o] =>
           if sx_is "t" t then
             match sx_Z u, sx_Z o with
             | Some u, Some o => Some (Some (mkRT u 0 o))
             | _, _ => None
             end
           else None
       | _ => None
       end.

Definition cl_ropts (x : sx) : option (option rcpt_opts) :=
  if sx_is "nil" x then Some None
  else match x with
       | SL [t; nl; ty; orcpt; tm] =>
           if sx_is "o" t then
             match cl_list sx_bytes nl, sx_bytes ty, sx_bytes orcpt, cl_time tm with
             | Some nl, Some ty, Some orcpt, Some tm => Some (Some (mkRO nl ty orcpt tm))
             | _, _, _, _ => None
             end
           else None
       | _ => None
       end.

Definition cl_step (x : sx) : option cstep :=
  match x with
  | SL [t; v] =>
      if sx_is "r" t then option_map (fun b => CResp (Some b)) (sx_bytes v)
      else if sx_is "e" t then option_map CErr (sx_bytes v)
      else None
  | SL [t] => if sx_is "rnil" t then Some (CResp None) else None
  | _ => None
  end.

(* a call and its annotations *)
Definition cl_call (x : sx) : option (call * list sx) :=
  match x with
  | SL (t :: args) =>
      if sx_is "hello" t then
        match args with [n] => option_map (fun n => (KHello n, [])) (sx_bytes n) | _ => None end
      else if sx_is "verify" t then
        match args with [n] => option_map (fun n => (KVerify n, [])) (sx_bytes n) | _ => None end
      else if sx_is "ext" t then
        match args with [n] => option_map (fun n => (KExtension n, [])) (sx_bytes n) | _ => None end
      else if sx_is "write" t then
        match args with [n] => option_map (fun n => (KWrite n, [])) (sx_bytes n) | _ => None end
      else if sx_is "mail" t then
        match args with
        | f :: o :: ann =>
            match sx_bytes f, cl_mopts o with
            | Some f, Some o => Some (KMail f o, ann)
            | _, _ => None
            end
        | _ => None
        end
      else if sx_is "rcpt" t then
        match args with
        | f :: o :: ann =>
            match sx_bytes f, cl_ropts o with
            | Some f, Some o => Some (KRcpt f o, ann)
            | _, _ => None
            end
        | _ => None
        end
      else if sx_is "lmtpdata" t then
        match args with [b] => option_map (fun b => (KLmtpData b, [])) (sx_bool b) | _ => None end
      else if sx_is "auth" t then
        match args with
        | [m; ir; se; st] =>
            match sx_bytes m, cl_optb ir, cl_optb se, cl_list cl_step st with
            | Some m, Some ir, Some se, Some st => Some (KAuth (mkCS m ir se st), [])
            | _, _, _, _ => None
            end
        | _ => None
        end
      else if sx_is "sendmail" t then
        match args with
        | [f; tos; b] =>
            match sx_bytes f, cl_list sx_bytes tos, sx_bytes b with
            | Some f, Some tos, Some b => Some (KSendMail f tos b, [])
            | _, _, _ => None
            end
        | _ => None
        end
      else if sx_is "data" t then Some (KData, args)
      else if sx_is "close" t then Some (KClose, args)
      else if sx_is "reset" t then Some (KReset, args)
      else if sx_is "noop" t then Some (KNoop, args)
      else if sx_is "quit" t then Some (KQuit, args)
      else if sx_is "starttls" t then Some (KStartTLS, args)
      else None
  | _ => None
  end.

(* one recorded observation *)
Record cobs := mkO {
  ob_chunks : list bytes;
  ob_tlsrec : bool;
  ob_r : sx;
  ob_cbs : list (bytes * sx);
  ob_extra : list sx
}.

Definition cl_cb (x : sx) : option (bytes * sx) :=
  match x with
  | SL [r; s] => option_map (fun r => (r, s)) (sx_bytes r)
  | _ => None
  end.

Definition cl_obs (x : sx) : option cobs :=
  match x with
  | SL (t :: w :: tr :: r :: cbs :: extra) =>
      if sx_is "o" t then
        match w, tr, r, cbs with
        | SL [tw; wl], SL [t2; trv], SL [t3; rv], SL [t4; cl] =>
            if sx_is "w" tw && sx_is "tlsrec" t2 && sx_is "r" t3 && sx_is "cbs" t4 then
              match cl_list sx_bytes wl, sx_bool trv, cl_list cl_cb cl with
              | Some wl, Some trv, Some cl => Some (mkO wl trv rv cl extra)
              | _, _, _ => None
              end
            else None
        | _, _, _, _ => None
        end
      else None
  | _ => None
  end.

(* ---------- rendering of model results ---------- *)

Definition show_res (r : result) : sx :=
  match r with
  | RNil => XT "nil"
  | RSmtp c (a, b, d) m => SL [XT "smtp"; XZ c; XZ a; XZ b; XZ d; XB m]
  | RLocal t => SL [XT "local"; XB t]
  | RIo => SL [XT "io"]
  end.

Definition show_cbs (l : list (bytes * result)) : sx :=
  SL (map (fun p => SL [XB (fst p); show_res (snd p)]) l).

Definition show_extra (k : call) (r : cret) : list sx :=
  match k with
  | KAuth _ => [SL [XT "got"; SL (map XB (r_got r))]]
  | KExtension _ =>
      match r_ext r with
      | Some (ok, v) => [SL [XT "xt"; XBool ok; XB v]]
      | None => []
      end
  | _ => []
  end.

(* model observation of one call: written octets (flat), result, callbacks, extras *)
Definition model_obs (c : client) (k : call) : sx * client :=
  let '(r, c') := run_call c k in
  let w := skipn (List.length (c_out c)) (c_out c') in
  let cbs := skipn (List.length (c_cbs c)) (c_cbs c') in
  (SL (XT "o" :: SL [XT "w"; XB w] :: SL [XT "r"; show_res (r_err r)]
       :: SL [XT "cbs"; show_cbs cbs] :: show_extra k r), c').

Definition norm_obs (o : cobs) : sx :=
  SL (XT "o" :: SL [XT "w"; XB (List.concat (ob_chunks o))] :: SL [XT "r"; ob_r o]
      :: SL [XT "cbs"; SL (map (fun p => SL [XB (fst p); snd p]) (ob_cbs o))] :: ob_extra o).

Fixpoint replay (c : client) (ks : list call) : list sx :=
  match ks with
  | [] => []
  | k :: r => let '(o, c') := model_obs c k in o :: replay c' r
  end.

Fixpoint sx_list_eqb (a b : list sx) : bool :=
  match a, b with
  | [], [] => true
  | x :: a', y :: b' => sx_eqb x y && sx_list_eqb a' b'
  | _, _ => false
  end.

(* ---------- the oracles (on the recorded behaviour only) ---------- *)

Definition no_crlf_b (l : bytes) : bool := negb (mem_byte CR l || mem_byte LF l).

(* "l CRLF" with no CR / LF in l: Some l *)
Definition one_line (ch : bytes) : option bytes :=
  match rev ch with
  | lf :: cr :: r =>
      if Ascii.eqb lf LF && Ascii.eqb cr CR && no_crlf_b r then Some (rev r) else None
  | _ => None
  end.

Definition is_hello_line (l : bytes) : bool :=
  is_prefix (bs "EHLO ") l || is_prefix (bs "LHLO ") l || is_prefix (bs "HELO ") l.

Fixpoint drop_hello (n : nat) (ls : list bytes) : list bytes :=
  match n, ls with
  | S n', l :: r => if is_hello_line l then drop_hello n' r else ls
  | _, _ => ls
  end.

Definition res_is_nil (r : sx) : bool := sx_is "nil" r.
Definition res_is_local (r : sx) : bool :=
  match r with SL (t :: _) => sx_is "local" t | _ => false end.

Fixpoint strip_prefix (p s : bytes) : option bytes :=
  match p, s with
  | [], _ => Some s
  | x :: p', y :: s' => if Ascii.eqb x y then strip_prefix p' s' else None
  | _ :: _, [] => None
  end.

(* keyword -> extension key *)
Definition kw_table : list (bytes * bytes) :=
  [ (bs "BODY", bs "8BITMIME"); (bs "SIZE", bs "SIZE"); (bs "REQUIRETLS", bs "REQUIRETLS");
    (bs "SMTPUTF8", bs "SMTPUTF8"); (bs "RET", bs "DSN"); (bs "ENVID", bs "DSN");
    (bs "NOTIFY", bs "DSN"); (bs "ORCPT", bs "DSN"); (bs "AUTH", bs "AUTH"); (bs "RRVS", bs "RRVS") ].

Fixpoint kw_key (kw : bytes) (t : list (bytes * bytes)) : option bytes :=
  match t with
  | [] => None
  | (k, e) :: r => if bytes_eqb k kw then Some e else kw_key kw r
  end.

(* BODY=BINARYMIME is licensed by BINARYMIME, every other BODY value by 8BITMIME *)
Definition param_ok (adv : list bytes) (p : bytes) : bool :=
  let '(kw, v) := match cut_byte "=" p with Some (k, v) => (k, v) | None => (p, []) end in
  let key := if bytes_eqb kw (bs "BODY") && bytes_eqb v (bs "BINARYMIME") then Some (bs "BINARYMIME")
             else kw_key kw kw_table in
  match key with
  | Some e => existsb (bytes_eqb e) adv
  | None => false
  end.

(* the text after the address: "" or " p1 p2 ..." with every p_i negotiated *)
Definition params_ok (adv : list bytes) (tail : bytes) : bool :=
  match tail with
  | [] => true
  | _ :: _ =>
      match split_byte " " tail with
      | [] :: ps => forallb (param_ok adv) ps
      | _ => false
      end
  end.

Definition ann_adv (ann : list sx) : option (list bytes) :=
  match assoc1 "adv" ann with Some l => cl_list sx_bytes l | None => None end.

Definition has_key (adv : list bytes) (k : string) : bool := existsb (bytes_eqb (bs k)) adv.

(* a requested Body that cannot be sent: its extension was not advertised, or
   it is none of the three values *)
Definition body_refused (adv : list bytes) (m : mail_opts) : bool :=
  match mo_body m with
  | [] => false
  | b => if bytes_eqb b (bs "7BIT") || bytes_eqb b (bs "8BITMIME") then negb (has_key adv "8BITMIME")
         else if bytes_eqb b (bs "BINARYMIME") then negb (has_key adv "BINARYMIME")
         else true
  end.

(* shape of the lines of one call after the hello lines *)
Definition own_lines_ok (k : call) (ann : list sx) (o : cobs) (own : list bytes) : bool :=
  let none := match own with [] => true | _ => false end in
  let at_most (line : bytes) :=
    match own with [] => true | [l] => bytes_eqb l line | _ => false end in
  match k with
  | KHello n => none
  | KVerify a => at_most (bs "VRFY " ++ a)
  | KReset => at_most (bs "RSET")
  | KNoop => at_most (bs "NOOP")
  | KQuit => at_most (bs "QUIT")
  | KData => at_most (bs "DATA")
  | KLmtpData _ => at_most (bs "DATA")
  | KExtension _ => none
  | KMail f opts =>
        (match own with
         | [] => true
         | [l] =>
             match strip_prefix (bs "MAIL FROM:<" ++ f ++ bs ">") l with
             | Some tail =>
                 match ann_adv ann with
                 | Some adv => params_ok adv tail
                 | None => true
                 end
             | None => false
             end
         | _ => false
         end)
        && (match opts, ann_adv ann with
            | Some m, Some adv =>
                if body_refused adv m
                   || (mo_requiretls m && negb (has_key adv "REQUIRETLS"))
                   || (mo_utf8 m && negb (has_key adv "SMTPUTF8"))
                then none && res_is_local (ob_r o) else true
            | _, _ => true
            end)
  | KRcpt t _ =>
        match own with
        | [] => true
        | [l] =>
            match strip_prefix (bs "RCPT TO:<" ++ t ++ bs ">") l with
            | Some tail =>
                match ann_adv ann with
                | Some adv => params_ok adv tail
                | None => true
                end
            | None => false
            end
        | _ => false
        end
  | KAuth s =>
      match own with
      | [] => true
      | l :: _ => is_prefix (bs "AUTH") l
      end
  | _ => true
  end.

Definition is_cmd_call (k : call) : bool :=
  match k with
  | KWrite _ | KClose | KSendMail _ _ _ | KStartTLS => false
  | KAuth s => no_crlf_b (cs_mech s)     (* the mechanism NAME is outside the statement *)
  | _ => true
  end.

(* the argument checked by validateLine *)
Definition line_arg (k : call) : option bytes :=
  match k with
  | KHello n => Some n | KVerify a => Some a | KMail f _ => Some f | KRcpt t _ => Some t
  | _ => None
  end.

Definition hello_lines_ok (k : call) (ls : list bytes) : bool :=
  match k with
  | KHello n =>
      forallb (fun l => bytes_eqb l (bs "EHLO " ++ n) || bytes_eqb l (bs "LHLO " ++ n)
                        || bytes_eqb l (bs "HELO " ++ n)) ls
  | _ => true
  end.

Definition c15_call (dirty : bool) (k : call) (ann : list sx) (o : cobs) : bool :=
  if dirty || negb (is_cmd_call k) then true
  else
    match map_opt one_line (ob_chunks o) with
    | None => false
    | Some ls =>
        match line_arg k with
        | Some a => if no_crlf_b a then true
                    else match ls with [] => res_is_local (ob_r o) | _ => false end
        | None => true
        end && hello_lines_ok k ls &&
        (* Rcpt / Data / LMTPData never say hello *)
        let nh := match k with KRcpt _ _ | KData | KLmtpData _ => 0 | _ => 2 end in
        own_lines_ok k ann o (drop_hello nh ls)
    end.

(* C10 *)
Definition tls_line_ok (with_starttls : bool) (l : bytes) : bool :=
  is_hello_line l || (with_starttls && bytes_eqb l (bs "STARTTLS")).

Definition c10_starttls (ann : list sx) (o : cobs) : bool :=
  match assoc1 "exp" ann with
  | Some e =>
      match map_opt one_line (ob_chunks o) with
      | None => false
      | Some ls =>
          if sx_is "nostarttls" e then negb (res_is_nil (ob_r o)) && forallb (tls_line_ok false) ls
          else if sx_is "refused" e then negb (res_is_nil (ob_r o)) && forallb (tls_line_ok true) ls
          else if sx_is "accepted" e then res_is_nil (ob_r o) && forallb (tls_line_ok true) ls
          else true
      end
  | None => true
  end.

(* monitor state while walking the recorded calls *)
Record cl_mon := mkCM {
  m_dirty : bool;              (* a data writer is open, or was written to after Close *)
  m_closed : bool;             (* the current writer has been closed *)
  m_cb : bool;                 (* the current writer has a status callback *)
  m_acc : list bytes;          (* recipients accepted since the last MAIL *)
  m_tls : bool;                (* STARTTLS was accepted: no plaintext any more *)
  m_viol : list bytes
}.

Definition addv (m : cl_mon) (ok : bool) (tag : string) : cl_mon :=
  if ok then m else mkCM (m_dirty m) (m_closed m) (m_cb m) (m_acc m) (m_tls m) (m_viol m ++ [bs tag]).

Fixpoint first_non_nil (l : list sx) : sx :=
  match l with
  | [] => XT "nil"
  | x :: r => if res_is_nil x then first_non_nil r else x
  end.

Fixpoint cbs_match (acc : list bytes) (verd : list sx) (cbs : list (bytes * sx)) : bool :=
  match acc, verd, cbs with
  | [], [], [] => true
  | a :: acc', v :: verd', (r, s) :: cbs' => bytes_eqb a r && sx_eqb v s && cbs_match acc' verd' cbs'
  | _, _, _ => false
  end.

Definition close_oracle (lmtp : bool) (m : cl_mon) (ann : list sx) (o : cobs) : cl_mon :=
  if m_closed m then
    addv m (match ob_chunks o with [] => true | _ => false end && negb (res_is_nil (ob_r o))) "C16"
  else
    match assoc1 "verd" ann with
    | Some (SL verd) =>
        if lmtp then
          if m_cb m then
            addv (addv m (cbs_match (m_acc m) verd (ob_cbs o)) "C18") (res_is_nil (ob_r o)) "C18"
          else
            addv m (sx_eqb (ob_r o) (first_non_nil verd)
                    && match ob_cbs o with [] => true | _ => false end) "C18"
        else
          addv m (match verd with [v] => sx_eqb (ob_r o) v | _ => true end) "C16"
    | _ => m
    end.

Definition want_oracle (m : cl_mon) (ann : list sx) (o : cobs) : cl_mon :=
  match assoc1 "want" ann with
  | Some w => addv m (sx_eqb w (ob_r o)) "C18"
  | None => m
  end.

Definition cl_ostep (tlsok lmtp : bool) (m : cl_mon) (k : call) (ann : list sx) (o : cobs) : cl_mon :=
  (* C10: nothing in plaintext after an accepted STARTTLS ([tlsok]: the scripted server completed a real
     handshake and the recorded octets are what it decrypted, i.e. they were sent inside TLS) *)
  let m := if m_tls m && negb tlsok then addv m (match ob_chunks o with [] => true | _ => false end) "C10" else m in
  let m := addv m (c15_call (m_dirty m) k ann o) "C15" in
  let m := want_oracle m ann o in
  let ok := res_is_nil (ob_r o) in
  match k with
  | KStartTLS =>
      let m := addv m (c10_starttls ann o) "C10" in
      mkCM (m_dirty m) (m_closed m) (m_cb m) (m_acc m) ok (m_viol m)
  | KMail _ _ => mkCM (m_dirty m) (m_closed m) (m_cb m) [] (m_tls m) (m_viol m)
  | KRcpt t _ =>
      if ok then mkCM (m_dirty m) (m_closed m) (m_cb m) (m_acc m ++ [t]) (m_tls m) (m_viol m) else m
  | KReset =>
      if ok then mkCM (m_dirty m) (m_closed m) (m_cb m) [] (m_tls m) (m_viol m) else m
  | KData => if ok then mkCM true false false (m_acc m) (m_tls m) (m_viol m) else m
  | KLmtpData cb => if ok then mkCM true false cb (m_acc m) (m_tls m) (m_viol m) else m
  | KWrite _ => mkCM true (m_closed m) (m_cb m) (m_acc m) (m_tls m) (m_viol m)
  | KClose =>
      (* a refused second Close flushes nothing: octets written to the closed
         writer in between stay pending *)
      let was_closed := m_closed m in
      let m := close_oracle lmtp m ann o in
      mkCM (if was_closed then m_dirty m else false) true (m_cb m) (m_acc m) (m_tls m) (m_viol m)
  | KSendMail _ _ _ => mkCM true true false [] (m_tls m) (m_viol m)
  | _ => m
  end.

Fixpoint cl_orun (tlsok lmtp : bool) (m : cl_mon) (ks : list (call * list sx)) (os : list cobs) : cl_mon :=
  match ks, os with
  | (k, ann) :: ks', o :: os' => cl_orun tlsok lmtp (cl_ostep tlsok lmtp m k ann o) ks' os'
  | _, _ => m
  end.

Fixpoint dedup_b (l : list bytes) : list bytes :=
  match l with
  | [] => []
  | x :: r => if existsb (bytes_eqb x) r then dedup_b r else x :: dedup_b r
  end.

(* ---------- tags ---------- *)

Definition call_tag (k : call) : bytes :=
  match k with
  | KHello _ => bs "k-hello" | KVerify _ => bs "k-verify" | KMail _ None => bs "k-mail"
  | KMail _ (Some _) => bs "k-mail-opts" | KRcpt _ None => bs "k-rcpt"
  | KRcpt _ (Some _) => bs "k-rcpt-opts" | KData => bs "k-data"
  | KLmtpData true => bs "k-lmtpdata-cb" | KLmtpData false => bs "k-lmtpdata-nocb"
  | KWrite _ => bs "k-write" | KClose => bs "k-close" | KReset => bs "k-reset"
  | KNoop => bs "k-noop" | KQuit => bs "k-quit" | KAuth _ => bs "k-auth"
  | KExtension _ => bs "k-ext" | KSendMail _ _ _ => bs "k-sendmail" | KStartTLS => bs "k-starttls"
  end.

Definition res_tag (r : sx) : bytes :=
  if res_is_nil r then bs "r-nil"
  else match r with
       | SL (t :: _) =>
           if sx_is "smtp" t then bs "r-smtp" else if sx_is "local" t then bs "r-local"
           else if sx_is "io" t then bs "r-io" else bs "r-other"
       | _ => bs "r-other"
       end.

(* ---------- the check ---------- *)

Definition check_cli (args : list sx) : verdict :=
  match assoc1 "lmtp" args, assoc1 "stream" args, assoc1 "focus" args,
        assoc1 "calls" args, assoc1 "obs" args with
  | Some l, Some s, Some (SA focus), Some (SL calls), Some (SL obs) =>
      match sx_bool l, sx_bytes s, map_opt cl_call calls, map_opt cl_obs obs with
      | Some lmtp, Some stream, Some ks, Some os =>
          if negb (Nat.eqb (List.length ks) (List.length os)) then bad_case
          else
            let tls := match assoc1 "tlsstream" args with Some x => sx_bytes x | None => None end in
            let tlsok := match tls with Some _ => true | None => false end in
            let model := replay (new_client lmtp stream tls) (map fst ks) in
            let agree := sx_list_eqb model (map norm_obs os) in
            let m := cl_orun tlsok lmtp (mkCM false false false [] false []) ks os in
            mkV true agree (SL model) (dedup_b (m_viol m)) []
                (dedup_b ([focus; if lmtp then bs "lmtp" else bs "smtp"]
                          ++ map (fun p => call_tag (fst p)) ks
                          ++ map (fun o => res_tag (ob_r o)) os
                          ++ (if existsb ob_tlsrec os then [bs "tls-record"] else [])
                          ++ (if existsb (fun o => match ob_cbs o with [] => false | _ => true end) os
                              then [bs "callbacks"] else [])))
      | _, _, _, _ => bad_case
      end
  | _, _, _, _, _ => bad_case
  end.
