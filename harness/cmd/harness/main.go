package main

import (
	"bufio"
	"flag"
	"fmt"
	"math/rand"
	"os"
	"strings"

	h "verifharness"
)

func main() {
	kind := flag.String("kind", "", "case kind to generate: dr, ...")
	tier := flag.String("tier", "quick", "quick or thorough")
	seed := flag.Int64("seed", 1, "PRNG seed")
	out := flag.String("out", "", "output file (default stdout)")
	rerun := flag.String("rerun", "", "file of recorded case lines: run the implementation again on their inputs and print fresh case lines")
	flag.Parse()
	if *rerun != "" {
		data, err := os.ReadFile(*rerun)
		if err != nil {
			fmt.Fprintln(os.Stderr, err)
			os.Exit(2)
		}
		for _, l := range strings.Split(string(data), "\n") {
			if strings.TrimSpace(l) == "" {
				continue
			}
			nl, err := h.Rerun(l)
			if err != nil {
				fmt.Fprintln(os.Stderr, "rerun:", err)
			}
			fmt.Println(nl)
		}
		return
	}

	w := bufio.NewWriterSize(os.Stdout, 1<<20)
	if *out != "" {
		f, err := os.Create(*out)
		if err != nil {
			fmt.Fprintln(os.Stderr, err)
			os.Exit(2)
		}
		defer f.Close()
		w = bufio.NewWriterSize(f, 1<<20)
	}
	defer w.Flush()
	emit := func(s *h.Sx) {
		if s == nil {
			return // the generator gave up on a hanging implementation
		}
		w.WriteString(s.String())
		w.WriteByte('\n')
	}
	rng := rand.New(rand.NewSource(*seed))
	thorough := *tier == "thorough"
	switch *kind {
	case "dr":
		h.GenDr(rng, thorough, emit)
	case "conv":
		n := 3000
		if thorough {
			n = 40000
		}
		h.GenConvMix(rng, n, emit)
	case "reply":
		h.GenReply(rng, thorough, emit)
	case "c13x":
		h.GenC13x(rng, thorough, emit)
	case "c17conv":
		h.GenC17conv(rng, thorough, emit)
	case "cli":
		h.GenCli(rng, thorough, emit)
	case "sm":
		h.GenSM(rng, thorough, emit)
	case "tmo":
		h.GenTmo(rng, thorough, emit)
	case "trip":
		h.GenTrip(rng, thorough, emit)
	case "tripw":
		h.GenTripW(rng, thorough, emit)
	case "wtmo":
		h.GenWtmo(rng, thorough, emit)
	case "life":
		h.GenLife(rng, thorough, emit)
	case "lmtp":
		h.GenLmtp(rng, thorough, emit)
	case "c09":
		h.GenC09(rng, thorough, emit)
	case "c11":
		h.GenC11(rng, thorough, emit)
	case "c12":
		h.GenC12(rng, thorough, emit)
	case "tls":
		h.GenTLS(rng, thorough, emit)
	case "c01":
		h.GenC01(rng, thorough, emit)
	case "c02":
		h.GenC02(rng, thorough, emit)
	case "c03":
		h.GenC03(rng, thorough, emit)
	case "c05":
		h.GenC05(rng, thorough, emit)
	case "c06":
		h.GenC06(rng, thorough, emit)
	case "c07":
		h.GenC07(rng, thorough, emit)
	case "c08":
		h.GenC08(rng, thorough, emit)
	case "c19":
		h.GenC19(rng, thorough, emit)
	default:
		fmt.Fprintln(os.Stderr, "unknown kind", *kind)
		os.Exit(2)
	}
}
