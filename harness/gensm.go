package harness

import (
	"bufio"
	"bytes"
	"crypto/tls"
	"math/rand"
	"net"
	"strings"
	"time"

	sasl "github.com/emersion/go-sasl"
	smtp "github.com/emersion/go-smtp"
)

// Package-level SendMail / DialStartTLS against a scripted TCP server on the loopback interface: what
// reaches the server in PLAINTEXT when STARTTLS is not offered, refused, or the handshake fails.
// (No model is involved: the recorded lines are judged against the property directly.)

type smBehaviour struct {
	name      string
	advertise bool   // EHLO lists STARTTLS
	reply     string // reply to STARTTLS ("tls" = 220 and a real handshake)
	garbage   bool   // after the 220, answer the ClientHello with garbage
}

var smBehaviours = []smBehaviour{
	{"not-offered", false, "", false},
	{"refused-454", true, "454 4.7.0 TLS not available\r\n", false},
	{"refused-502", true, "502 5.5.1 no\r\n", false},
	{"handshake-garbage", true, "220 2.0.0 go ahead\r\n", true},
	{"handshake-close", true, "220 2.0.0 go ahead\r\n", false},
	{"tls-ok", true, "tls", false},
	{"helo-only", false, "helo", false}, // EHLO refused with 502: the client falls back to HELO
}

type plainAuth struct{}

func (plainAuth) Start() (string, []byte, error) { return "PLAIN", []byte("\x00user\x00secret-password"), nil }
func (plainAuth) Next([]byte) ([]byte, error)    { return nil, nil }

func runSM(b smBehaviour, withAuth bool, dialOnly bool) *Sx {
	l, err := net.Listen("tcp", "127.0.0.1:0")
	if err != nil {
		return L(A("sm"), L(A("behaviour"), A(b.name)), L(A("obs"), L(A("listen-error"))))
	}
	defer l.Close()
	type rec struct {
		line string
		tls  bool
	}
	var lines []rec
	done := make(chan struct{})
	go func() {
		defer close(done)
		conn, err := l.Accept()
		if err != nil {
			return
		}
		defer conn.Close()
		conn.SetDeadline(time.Now().Add(10 * time.Second))
		var c net.Conn = conn
		inTLS := false
		r := bufio.NewReader(c)
		w := func(s string) { c.Write([]byte(s)) }
		w("220 scripted.example ESMTP\r\n")
		for {
			line, err := r.ReadString('\n')
			if line != "" {
				lines = append(lines, rec{strings.TrimRight(line, "\r\n"), inTLS})
			}
			if err != nil {
				return
			}
			up := strings.ToUpper(line)
			switch {
			case strings.HasPrefix(up, "EHLO"):
				if b.reply == "helo" {
					w("502 5.5.1 EHLO not implemented\r\n")
					continue
				}
				rep := "250-scripted.example\r\n"
				if b.advertise && !inTLS {
					rep += "250-STARTTLS\r\n"
				}
				rep += "250-AUTH PLAIN\r\n250 8BITMIME\r\n"
				w(rep)
			case strings.HasPrefix(up, "HELO"):
				w("250 scripted.example\r\n")
			case strings.HasPrefix(up, "STARTTLS"):
				switch {
				case b.reply == "tls":
					w("220 2.0.0 go ahead\r\n")
					tc := tls.Server(conn, serverTLSConfig())
					if err := tc.Handshake(); err != nil {
						return
					}
					c = tc
					r = bufio.NewReader(c)
					inTLS = true
				case b.garbage:
					w(b.reply)
					// read the ClientHello, answer with something that is not TLS
					buf := make([]byte, 4096)
					conn.Read(buf)
					w("GARBAGE GARBAGE GARBAGE\r\n")
				case strings.HasPrefix(b.reply, "220"):
					w(b.reply)
					return // close instead of a handshake
				default:
					w(b.reply)
				}
			case strings.HasPrefix(up, "AUTH"):
				w("235 2.7.0 ok\r\n")
			case strings.HasPrefix(up, "MAIL"), strings.HasPrefix(up, "RCPT"), strings.HasPrefix(up, "RSET"), strings.HasPrefix(up, "NOOP"):
				w("250 2.0.0 ok\r\n")
			case strings.HasPrefix(up, "DATA"):
				w("354 go\r\n")
				for {
					dl, err := r.ReadString('\n')
					if dl != "" {
						lines = append(lines, rec{strings.TrimRight(dl, "\r\n"), inTLS})
					}
					if err != nil || dl == ".\r\n" {
						break
					}
				}
				w("250 2.0.0 queued\r\n")
			case strings.HasPrefix(up, "QUIT"):
				w("221 2.0.0 bye\r\n")
				return
			default:
				w("500 5.5.2 what\r\n")
			}
		}
	}()
	var a sasl.Client
	if withAuth {
		a = plainAuth{}
	}
	var res error
	if dialOnly {
		var cl *smtp.Client
		cl, res = smtp.DialStartTLS(l.Addr().String(), &tls.Config{InsecureSkipVerify: true})
		if res == nil {
			res = cl.SendMail("secret-sender@example.org", []string{"secret-rcpt@example.org"}, bytes.NewReader([]byte("secret content\r\n")))
			cl.Quit()
		}
	} else {
		smtp.VerifSetStartTLSHook(func(c *tls.Config) { c.InsecureSkipVerify = true })
		res = smtp.SendMail(l.Addr().String(), a, "secret-sender@example.org", []string{"secret-rcpt@example.org"}, bytes.NewReader([]byte("secret content\r\n")))
		smtp.VerifSetStartTLSHook(nil)
	}
	select {
	case <-done:
	case <-time.After(12 * time.Second):
	}
	pl, tl := L(), L()
	for _, r := range lines {
		if r.tls {
			tl.Add(XS(r.line))
		} else {
			pl.Add(XS(r.line))
		}
	}
	return L(A("sm"), L(A("behaviour"), A(b.name)), L(A("auth"), B(withAuth)), L(A("dialonly"), B(dialOnly)),
		L(A("obs"), L(A("plain"), pl), L(A("tls"), tl), L(A("result"), resSx(res))))
}

// GenSM: all behaviours x {with, without credentials} x {package-level SendMail, DialStartTLS + Client.SendMail}.
func GenSM(rng *rand.Rand, thorough bool, emit func(*Sx)) {
	for _, b := range smBehaviours {
		for _, auth := range []bool{false, true} {
			for _, dialOnly := range []bool{false, true} {
				if dialOnly && auth {
					continue
				}
				emit(runSM(b, auth, dialOnly))
			}
		}
	}
}
