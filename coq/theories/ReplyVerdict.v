(* C04, verdict attribution (sequential part).

   In every trace of the server model:
   - a Data call of the DATA path ([EData got term ret panic]) is followed
     immediately by the final reply rendered from THAT return value
     ([serve_data_verdict]);
   - the reply to the LAST chunk of a chunked transfer is rendered from the
     value of the one delivery that ran since THIS transfer's [EBdatStart]
     ([serve_bdat_verdict]): the delivery of an earlier transfer - completed,
     or aborted by RSET / EHLO / STARTTLS / a failed chunk / the size limit,
     whose [EDelivery] comes with that command's reset - precedes the
     [EBdatStart] and can never supply the verdict.

   The model runs the delivery goroutine of a chunked transfer in lock step
   with the command loop (its EDelivery is emitted at the point where the
   backend's Data returns).  That the REAL goroutine, completing at an
   arbitrary later time, still reports to the transaction that started it is
   the subject of the interleaving model of C20 (finding F4: channel and
   collector captured in locals before "go"), not of this file. *)
From Smtp Require Import Bytes GoStrings Transport DataReader Parse Xtext Base64 Reply Rfc3339 Lmtp Conn.
From Smtp Require Import Order OrderStrict ConnProofs TraceProps ReplyGroups.
Local Open Scope char_scope.

(* ================= event classes ================= *)

Definition is_data (e : event) : bool := match e with EData _ _ _ _ => true | _ => false end.
Definition is_start (e : event) : bool := match e with EBdatStart => true | _ => false end.
Definition is_deliv (e : event) : bool := match e with EDelivery _ _ _ _ => true | _ => false end.

(* no command, no Data call, no new transfer *)
Definition calm (e : event) : bool := negb (is_cmd e) && negb (is_data e) && negb (is_start e).
(* ... and no delivery outcome either *)
Definition plain (e : event) : bool := calm e && negb (is_deliv e).

Lemma plain_calm ev : forallb plain ev = true -> forallb calm ev = true.
Proof.
  induction ev as [|e ev IH]; cbn [forallb]; [reflexivity|]. intros H.
  apply andb_true_iff in H as [He H]. rewrite (IH H), andb_true_r.
  unfold plain in He. apply andb_true_iff in He as [He _]. exact He.
Qed.

Lemma calm_no_cmd ev : forallb calm ev = true -> forallb (fun e => negb (is_cmd e)) ev = true.
Proof.
  induction ev as [|e ev IH]; cbn [forallb]; [reflexivity|]. intros H.
  apply andb_true_iff in H as [He H]. rewrite (IH H), andb_true_r.
  unfold calm in He. apply andb_true_iff in He as [He _]. apply andb_true_iff in He as [He _]. exact He.
Qed.

Lemma calm_not_data ev e : forallb calm ev = true -> In e ev -> is_data e = false.
Proof.
  intros H Hin. rewrite forallb_forall in H. specialize (H e Hin). unfold calm in H.
  apply andb_true_iff in H as [H _]. apply andb_true_iff in H as [_ H].
  destruct (is_data e); [discriminate|reflexivity].
Qed.

(* ---- splitting lists ---- *)

Lemma app_split_elt {A} (l1 l2 pre : list A) x post :
  l1 ++ l2 = pre ++ x :: post ->
  (exists mid, l1 = pre ++ x :: mid /\ post = mid ++ l2)
  \/ (exists mid, pre = l1 ++ mid /\ l2 = mid ++ x :: post).
Proof.
  revert pre. induction l1 as [|a l1 IH]; intros pre H; cbn [app] in H.
  - right. exists pre. split; [reflexivity|exact H].
  - destruct pre as [|b pre]; cbn [app] in H.
    + inversion H; subst. left. exists l1. split; reflexivity.
    + inversion H; subst. destruct (IH pre H2) as [(mid & -> & ->)|(mid & -> & ->)].
      * left. exists mid. split; reflexivity.
      * right. exists mid. split; reflexivity.
Qed.

Lemma app_split_skip {A} (P : A -> bool) (l1 l2 pre : list A) x post :
  l1 ++ l2 = pre ++ x :: post -> forallb (fun e => negb (P e)) l1 = true -> P x = true ->
  exists mid, pre = l1 ++ mid /\ l2 = mid ++ x :: post.
Proof.
  intros H Hl Hx. destruct (app_split_elt l1 l2 pre x post H) as [(mid & -> & _)|Hr]; [|exact Hr].
  rewrite forallb_app in Hl. apply andb_true_iff in Hl as [_ Hl]. cbn [forallb] in Hl.
  rewrite Hx in Hl. discriminate.
Qed.

(* ================= DATA: the reply that follows the Data call ================= *)

Definition data_adj (cfg : config) (ev : list event) : Prop :=
  forall pre got term ret panic post, ev = pre ++ EData got term ret panic :: post ->
    (cf_lmtp cfg = false -> panic = false ->
       exists code ec msg rest,
         data_error_to_status ret = (code, ec, msg) /\ post = reply code ec msg :: rest)
    /\ (cf_lmtp cfg = false -> panic = true ->
       exists a rest,
         post = a ++ reply 421 (4, 0, 0)%Z (bs "Internal server error") :: rest
         /\ forallb (fun e => negb (is_wire e)) a = true)
    /\ (cf_lmtp cfg = true -> cf_lmtp_session cfg = false -> panic = false ->
       exists rcpts rest, rcpts <> [] /\ post = map (fun a => status_reply a ret) rcpts ++ rest).

Lemma calm_data_adj cfg ev : forallb calm ev = true -> data_adj cfg ev.
Proof.
  intros H pre got term ret panic post E. exfalso.
  assert (Hin : In (EData got term ret panic) ev) by (rewrite E; apply in_elt).
  pose proof (calm_not_data ev _ H Hin). discriminate.
Qed.

Lemma data_adj_one cfg pre0 g t r p tail :
  forallb calm pre0 = true -> forallb calm tail = true ->
  ((cf_lmtp cfg = false -> p = false ->
       exists code ec msg rest,
         data_error_to_status r = (code, ec, msg) /\ tail = reply code ec msg :: rest)
    /\ (cf_lmtp cfg = false -> p = true ->
       exists a rest,
         tail = a ++ reply 421 (4, 0, 0)%Z (bs "Internal server error") :: rest
         /\ forallb (fun e => negb (is_wire e)) a = true)
    /\ (cf_lmtp cfg = true -> cf_lmtp_session cfg = false -> p = false ->
       exists rcpts rest, rcpts <> [] /\ tail = map (fun a => status_reply a r) rcpts ++ rest)) ->
  data_adj cfg (pre0 ++ EData g t r p :: tail).
Proof.
  intros Hpre Htail Hconc pre got term ret panic post E.
  destruct (app_split_elt pre0 (EData g t r p :: tail) pre _ post E) as [(mid & E1 & _)|(mid & E1 & E2)].
  - exfalso. assert (Hin : In (EData got term ret panic) pre0) by (rewrite E1; apply in_elt).
    pose proof (calm_not_data _ _ Hpre Hin). discriminate.
  - destruct mid as [|x mid]; cbn [app] in E2.
    + inversion E2; subst. exact Hconc.
    + exfalso. inversion E2; subst.
      assert (Hin : In (EData got term ret panic) (mid ++ EData got term ret panic :: post)) by apply in_elt.
      pose proof (calm_not_data _ _ Htail Hin). discriminate.
Qed.

(* ================= chunked transfers: deliveries since the last EBdatStart ================= *)

Definition dstate := option (list event).

Definition dl_step (st : dstate) (e : event) : dstate :=
  match e with
  | EBdatStart => Some []
  | EDelivery _ _ _ _ => option_map (fun l => l ++ [e]) st
  | _ => st
  end.

(* the delivery outcomes recorded since the last EBdatStart (None: no
   transfer has been started yet) *)
Definition dl_run (st : dstate) (ev : list event) : dstate := fold_left dl_step ev st.
Definition deliveries_since_start (tr : list event) : dstate := dl_run None tr.

Lemma dl_run_app st a b : dl_run st (a ++ b) = dl_run (dl_run st a) b.
Proof. apply fold_left_app. Qed.

Lemma dl_run_plain st ev : forallb plain ev = true -> dl_run st ev = st.
Proof.
  revert st. induction ev as [|e ev IH]; intros st H; [reflexivity|].
  cbn [forallb] in H. apply andb_true_iff in H as [He H]. cbn [dl_run fold_left].
  change (fold_left dl_step ev (dl_step st e)) with (dl_run (dl_step st e) ev). rewrite (IH _ H).
  destruct e; try reflexivity; discriminate.
Qed.

(* the value a delivery closes the pipe with / sends on dataResult *)
Definition delivered (r : berr) (panic : bool) : berr := if panic then err_panic else r.

(* the delivery record of the open transfer agrees with the events *)
Definition BdMatch (st : dstate) (b : bdat) : Prop :=
  match bd_done b with
  | None => st = Some []
  | Some v => exists g t r p, st = Some [EDelivery g t r p] /\ v = delivered r p
  end.

Definition BdRel (st : dstate) (c : conn) : Prop :=
  match c_bdat c with Some b => BdMatch st b | None => True end.

Lemma bd_finish_match st b term :
  bd_done b = None -> BdMatch st b ->
  BdMatch (dl_run st (snd (bd_finish b term))) (fst (bd_finish b term))
  /\ bd_done (fst (bd_finish b term)) <> None.
Proof.
  unfold BdMatch. intros Hd H. rewrite Hd in H. subst st. unfold bd_finish. cbn [fst snd bd_done dl_run fold_left dl_step option_map app].
  split; [|discriminate]. eexists _, _, _, _. split; [reflexivity|]. unfold delivered. reflexivity.
Qed.

Lemma bd_end_match st b term :
  BdMatch st b ->
  BdMatch (dl_run st (snd (bd_end b term))) (fst (bd_end b term))
  /\ bd_done (fst (bd_end b term)) <> None.
Proof.
  intros H. unfold bd_end. destruct (bd_done b) as [v|] eqn:Hd.
  - cbn [fst snd dl_run fold_left]. split; [exact H|congruence].
  - apply bd_finish_match; assumption.
Qed.

Lemma bd_feed_match st b chunk :
  BdMatch st b ->
  BdMatch (dl_run st (snd (fst (bd_feed b chunk)))) (fst (fst (bd_feed b chunk)))
  /\ (forall e, snd (bd_feed b chunk) = Some e ->
        exists v, bd_done (fst (fst (bd_feed b chunk))) = Some v /\ e = pipe_err v).
Proof.
  intros H. unfold bd_feed. destruct chunk as [|x chunk].
  { cbn [fst snd dl_run fold_left]. split; [exact H|discriminate]. }
  destruct (bd_done b) as [v|] eqn:Hd.
  { cbn [fst snd dl_run fold_left]. split; [exact H|]. intros e He. inversion He. exists v. split; [exact Hd|reflexivity]. }
  destruct (dp_stop (bd_plan b)) as [k|].
  2:{ cbn [fst snd dl_run fold_left]. split; [|discriminate]. unfold BdMatch in *. rewrite Hd in H. exact H. }
  destruct (take_N _ _) as [[a ?] ?].
  set (b1 := mkBD _ _ _ _ _).
  assert (H1 : BdMatch st b1) by (unfold BdMatch in *; rewrite Hd in H; exact H).
  destruct (_ <? _)%N.
  { cbn [fst snd dl_run fold_left]. split; [exact H1|discriminate]. }
  destruct (bd_finish_match st b1 None eq_refl H1) as [F1 F2].
  destruct (bd_finish b1 None) as [b2 ev]. cbn [fst snd] in *.
  destruct (_ =? _)%N; cbn [fst snd]; (split; [exact F1|]); [discriminate|].
  intros e He. destruct (bd_done b2) as [v|]; [|congruence]. inversion He. exists v. split; reflexivity.
Qed.

Lemma bd_new_match st p rcpts sp :
  BdMatch (dl_run st (snd (bd_new p rcpts sp))) (fst (bd_new p rcpts sp)).
Proof.
  unfold bd_new. set (b := mkBD _ _ _ _ _).
  assert (Hb : BdMatch (Some []) b) by reflexivity.
  destruct (dp_stop p) as [[|k]|]; try (cbn [fst snd dl_run fold_left dl_step]; exact Hb).
  destruct (bd_finish_match (Some []) b None eq_refl Hb) as [F1 _].
  destruct (bd_finish b None) as [b' ev]. cbn [fst snd] in *. exact F1.
Qed.

(* ================= what every handler but BDAT does to these ================= *)

(* the events contain no command; every Data call in them is followed by its
   reply; an open transfer is either dropped or left alone (and then no
   delivery outcome is recorded) *)
Definition VS (cfg : config) (c : conn) (r : hres) : Prop :=
  forallb (fun e => negb (is_cmd e)) (snd r) = true
  /\ data_adj cfg (snd r)
  /\ (c_bdat (fst r) = None \/ (c_bdat (fst r) = c_bdat c /\ forallb plain (snd r) = true)).

Lemma VS_plain cfg c c' ev :
  forallb plain ev = true -> c_bdat c' = c_bdat c -> VS cfg c (c', ev).
Proof.
  intros H Hb. pose proof (plain_calm _ H) as Hc. split; [apply calm_no_cmd, Hc|].
  split; [apply calm_data_adj, Hc|]. right. split; assumption.
Qed.

Lemma VS_reset cfg c c' ev :
  forallb calm ev = true -> c_bdat c' = None -> VS cfg c (c', ev).
Proof.
  intros Hc Hb. split; [apply calm_no_cmd, Hc|]. split; [apply calm_data_adj, Hc|]. left. exact Hb.
Qed.

Lemma abort_ev_calm bd : forallb calm (abort_ev bd) = true.
Proof. destruct bd as [b|]; [|reflexivity]. unfold abort_ev, bd_end. destruct (bd_done b); reflexivity. Qed.

Lemma reset_ev_calm c : forallb calm (reset_ev c) = true.
Proof. unfold reset_ev. rewrite forallb_app, abort_ev_calm. destruct (c_session c); reflexivity. Qed.

Lemma close_ev_calm c : forallb calm (close_ev c) = true.
Proof. unfold close_ev. rewrite !forallb_app, abort_ev_calm. destruct (c_session c); reflexivity. Qed.

Lemma status_reply_plain a e : plain (status_reply a e) = true.
Proof. unfold status_reply. destruct (data_error_to_status e) as [[? ?] ?]. reflexivity. Qed.

Lemma statuses_plain (sts : list (bytes * berr)) :
  forallb plain (map (fun '(a, e) => status_reply a e) sts) = true.
Proof. induction sts as [|[a e] l IH]; cbn [map forallb]; [reflexivity|]. rewrite status_reply_plain. exact IH. Qed.

Lemma statuses_same_plain (rc : list bytes) e :
  forallb plain (map (fun a => status_reply a e) rc) = true.
Proof. induction rc as [|a l IH]; cbn [map forallb]; [reflexivity|]. rewrite status_reply_plain. exact IH. Qed.

Lemma auth_evs_plain ev : forallb is_auth_ev ev = true -> forallb plain ev = true.
Proof.
  induction ev as [|e ev IH]; cbn [forallb]; [reflexivity|]. intros H.
  apply andb_true_iff in H as [He H]. rewrite (IH H), andb_true_r. destruct e; try discriminate; reflexivity.
Qed.

Lemma reply_err_plain code ec e : plain (reply_err code ec e) = true.
Proof. reflexivity. Qed.

Ltac cs :=
  cbn [c_t c_phases c_be c_helo c_session c_errs c_binarymime c_from c_rcpts c_did_auth c_closed
       c_tls c_bdat c_received upd_t upd_be upd_helo upd_session upd_errs upd_binarymime upd_from
       upd_rcpts upd_did_auth upd_bdat upd_received fst snd] in *.

Ltac start c HI :=
  destruct c as [t ph be h se er bm fr rc da cl tl bd rv];
  unfold Inv in HI; cs; subst cl.

Ltac get_session HI se :=
  let H := fresh "Hse" in
  assert (H : se = true) by
    (destruct se; [reflexivity|]; destruct HI as [?H1 _];
     destruct (H1 eq_refl eq_refl) as (? & ? & ? & ?); congruence);
  subst se.

Ltac calm_tac :=
  rewrite ?forallb_app; cbn [forallb];
  rewrite ?abort_ev_calm, ?reset_ev_calm, ?close_ev_calm; reflexivity.

Ltac vs_plain := apply VS_plain; [reflexivity|reflexivity].
Ltac vs_reset := apply VS_reset; [calm_tac|reflexivity].

Lemma protocol_error_vs cfg c code ec msg : VS cfg c (protocol_error c code ec msg).
Proof.
  unfold protocol_error. destruct (err_threshold <? c_errs (upd_errs c (c_errs c + 1)))%N.
  - rewrite do_close_eq. apply VS_reset; [|reflexivity]. cbn [app forallb]. rewrite close_ev_calm. reflexivity.
  - apply VS_plain; [reflexivity|destruct c; reflexivity].
Qed.

Lemma handle_mail_vs cfg c arg : Inv c -> c_closed c = false -> VS cfg c (handle_mail cfg c arg).
Proof.
  intros HI Hc. start c HI. unfold handle_mail, syntax_mail. cs.
  destruct h as [|h0 h]; [vs_plain|].
  destruct bd as [b|]; [vs_plain|].
  destruct (cut_prefix_fold arg (bs "FROM:")) as [a|]; [|vs_plain].
  destruct (parse_reverse_path (trim_space a)) as [[from rest]|]; [|vs_plain].
  destruct (parse_args rest) as [args|]; [|vs_plain].
  destruct (mail_params cfg (sort_kv args) mo_zero false) as [[opts bm']|[[[code ec] msg] bm']]; [|vs_plain].
  cs. destruct se; cbn [negb]; [|vs_plain].
  unfold pop_mail. cs. destruct (pop BNil (be_mail be)) as [r rest']. cs.
  destruct r; vs_plain.
Qed.

Lemma handle_rcpt_vs cfg c arg : Inv c -> c_closed c = false -> VS cfg c (handle_rcpt cfg c arg).
Proof.
  intros HI Hc. start c HI. unfold handle_rcpt, syntax_rcpt. cs.
  destruct fr; cbn [negb]; [|vs_plain].
  destruct bd as [b|]; [vs_plain|].
  destruct (cut_prefix_fold arg (bs "TO:")) as [a|]; [|vs_plain].
  destruct (parse_path (trim_space a)) as [[rcpt rest]|]; [|vs_plain].
  destruct ((0 <? cf_max_rcpt cfg)%N && (cf_max_rcpt cfg <=? N.of_nat (List.length rc))%N); [vs_plain|].
  destruct (parse_args rest) as [args|]; [|vs_plain].
  destruct (rcpt_params cfg (sort_kv args) ro_zero) as [opts|[[code ec] msg]]; [|vs_plain].
  destruct se; cbn [negb]; [|vs_plain].
  unfold pop_rcpt. cs. destruct (pop BNil (be_rcpt be)) as [r rest']. cs.
  destruct r; vs_plain.
Qed.

Lemma handle_greet_vs cfg c enh arg : Inv c -> c_closed c = false -> VS cfg c (handle_greet cfg c enh arg).
Proof.
  intros HI Hc. start c HI. unfold handle_greet. cs.
  destruct (parse_hello_argument arg) as [domain|]; [|vs_plain]. cs.
  destruct se.
  - rewrite do_reset_eq. cbn [negb]. unfold reset_c. cs. destruct enh; cbn [negb]; vs_reset.
  - destruct (pop BNil (be_ns be)) as [r rest]. cs.
    destruct r; cbn [negb]; [destruct enh; cbn [negb]| |]; vs_plain.
Qed.

Lemma handle_starttls_vs cfg c : Inv c -> c_closed c = false -> VS cfg c (handle_starttls cfg c).
Proof.
  intros HI Hc. start c HI. unfold handle_starttls. cs.
  destruct tl; [vs_plain|].
  destruct (cf_tls_config cfg); cbn [negb]; [|vs_plain].
  destruct (t_raw t) as [|r0 rs]; [destruct ph as [|p phs]|]; [vs_plain| |vs_plain].
  rewrite do_reset_eq. unfold reset_c. cs.
  apply VS_reset; [|reflexivity]. cbn [app forallb]. rewrite forallb_app, reset_ev_calm.
  destruct se; reflexivity.
Qed.

Lemma handle_auth_vs cfg c arg : Inv c -> c_closed c = false -> VS cfg c (handle_auth cfg c arg).
Proof.
  intros HI Hc. start c HI. unfold handle_auth. cs.
  destruct h as [|h0 h]; [vs_plain|].
  destruct da; [vs_plain|].
  destruct (fields arg) as [|m more]; [vs_plain|].
  destruct (negb (auth_allowed cfg (mkC t ph be (h0 :: h) se er bm fr rc false false tl bd rv))); [vs_plain|].
  assert (Hir : forall ir : option (option bytes),
    VS cfg (mkC t ph be (h0 :: h) se er bm fr rc false false tl bd rv)
      match ir with
      | None => (mkC t ph be (h0 :: h) se er bm fr rc false false tl bd rv,
                 [reply 454 (4, 7, 0)%Z (bs "Invalid base64 data")])
      | Some ir =>
          match cf_auth cfg with
          | None => (mkC t ph be (h0 :: h) se er bm fr rc false false tl bd rv,
                     [reply_err 454 (4, 7, 0)%Z err_auth_unknown_mechanism])
          | Some _ =>
              let '(p, c1) := pop_auth (mkC t ph be (h0 :: h) se er bm fr rc false false tl bd rv) in
              match ap_start p with
              | BNil =>
                  let '(c2, ev, ok) := auth_loop (ap_steps p) c1 ir in
                  if ok then
                    (upd_did_auth c2 true,
                     EAuth (to_upper m) BNil :: ev
                       ++ [reply 235 (2, 0, 0)%Z (bs "Authentication succeeded"); EAuthOk])
                  else (c2, EAuth (to_upper m) BNil :: ev)
              | e => (c1, [EAuth (to_upper m) e; reply_err 454 (4, 7, 0)%Z e])
              end
          end
      end).
  { intros [ir|]; [|vs_plain].
    destruct (cf_auth cfg) as [mechs|]; [|vs_plain].
    unfold pop_auth. cs. destruct (pop ap_default (be_auth be)) as [p rest]. cs.
    destruct (ap_start p) as [|scode sec smsg|smsg]; [|vs_plain..].
    match goal with |- context [auth_loop ?s ?c ?r] =>
      pose proof (auth_loop_spec s c r) as [Hc2 Hev]; destruct (auth_loop s c r) as [[c2 ev] ok] end.
    cbn [fst snd] in Hc2, Hev. cs. apply auth_evs_plain in Hev.
    destruct ok; (apply VS_plain; [|rewrite Hc2; reflexivity]).
    - cbn [forallb]. rewrite forallb_app, Hev. reflexivity.
    - cbn [forallb]. rewrite Hev. reflexivity. }
  destruct more as [|x more]; [exact (Hir (Some None))|].
  destruct (decode_sasl_response x) as [r|]; [exact (Hir (Some (Some r)))|exact (Hir None)].
Qed.

(* ---------- DATA ---------- *)

Lemma handle_data_vs cfg c arg : Inv c -> c_closed c = false -> VS cfg c (handle_data cfg c arg).
Proof.
  intros HI Hc. start c HI. unfold handle_data. cs.
  destruct arg as [|a0 arg]; [|vs_plain].
  destruct bd as [b|]; [vs_plain|].
  destruct bm; [vs_plain|].
  destruct fr; cbn [negb orb]; [|vs_plain].
  destruct rc as [|r0 rc]; [vs_plain|].
  get_session HI se. cbn [negb].
  unfold pop_data. cs. destruct (pop dp_default (be_data be)) as [p rest]. cs.
  destruct (call_data p (new_data_reader (cf_max_bytes cfg)) t) as [[[[got term] ret] d1] t1].
  rewrite !do_reset_eq.
  assert (Hmk : forall c' tail,
            c_bdat c' = None -> forallb calm tail = true ->
            forall panic,
            ((cf_lmtp cfg = false -> panic = false ->
                exists code ec msg rest,
                  data_error_to_status ret = (code, ec, msg) /\ tail = reply code ec msg :: rest)
             /\ (cf_lmtp cfg = false -> panic = true ->
                exists a rest,
                  tail = a ++ reply 421 (4, 0, 0)%Z (bs "Internal server error") :: rest
                  /\ forallb (fun e => negb (is_wire e)) a = true)
             /\ (cf_lmtp cfg = true -> cf_lmtp_session cfg = false -> panic = false ->
                exists rcpts rest, rcpts <> [] /\ tail = map (fun a => status_reply a ret) rcpts ++ rest)) ->
            VS cfg (mkC t ph be h true er false true (r0 :: rc) da false tl None rv)
               (c', EWire (write_response 354 no_ec [bs "Go ahead. End your data with <CR><LF>.<CR><LF>"])
                    :: EData got term ret panic :: tail)).
  { intros c' tail Hb Htail panic Hconc.
    pose proof (data_adj_one cfg [EWire (write_response 354 no_ec [bs "Go ahead. End your data with <CR><LF>.<CR><LF>"])]
                  got term ret panic tail eq_refl Htail Hconc) as Hadj.
    split; [|split; [exact Hadj|left; exact Hb]].
    cbn [snd forallb is_cmd negb andb]. apply calm_no_cmd, Htail. }
  destruct (cf_lmtp cfg) eqn:Elmtp; cbn [negb]; [destruct (cf_lmtp_session cfg) eqn:Esess; cbn [negb]|].
  - (* LMTP, per-recipient statuses *)
    destruct (lmtp_statuses (r0 :: rc) (dp_status p) ret (dp_panic p)) as [sts panicked].
    pose proof (plain_calm _ (statuses_plain sts)) as Hst.
    set (replies := map _ sts) in *. clearbody replies.
    destruct panicked.
    + rewrite do_close_eq. cbv beta iota. rewrite do_reset_eq. unfold reset_c, close_c. cs.
      cbn [app]. apply Hmk; [reflexivity| |].
      * rewrite !forallb_app, Hst, close_ev_calm, reset_ev_calm. reflexivity.
      * repeat split; intros; congruence.
    + destruct (dr_drain d1 t1) as [[de ?] t2]. unfold close_unless.
      destruct (drained de); cbv beta iota; rewrite ?do_close_eq; cbv beta iota; rewrite do_reset_eq;
        unfold reset_c, close_c; cs; cbn [app]; (apply Hmk; [reflexivity| |]).
      1,3: rewrite !forallb_app, Hst, ?close_ev_calm, reset_ev_calm; reflexivity.
      1,2: repeat split; intros; congruence.
  - (* LMTP, one status for everybody *)
    destruct (dp_panic p).
    + rewrite do_close_eq. unfold reset_c, close_c. cs.
      cbn [app]. apply Hmk; [reflexivity| |].
      * rewrite !forallb_app. cbn [forallb]. rewrite close_ev_calm, reset_ev_calm. reflexivity.
      * repeat split; intros; congruence.
    + destruct (dr_drain d1 t1) as [[de ?] t2]. unfold close_unless.
      destruct (drained de); cbv beta iota; rewrite ?do_close_eq; cbv beta iota; rewrite do_reset_eq;
        unfold reset_c, close_c; cs; cbn [app]; (apply Hmk; [reflexivity| |]).
      1,3: rewrite !forallb_app, (plain_calm _ (statuses_same_plain (r0 :: rc) ret)), ?close_ev_calm, reset_ev_calm;
        reflexivity.
      1,2: (split; [intros; congruence|]; split; [intros; congruence|]; intros _ _ _;
            eexists (r0 :: rc), _; split; [discriminate|reflexivity]).
  - (* SMTP *)
    destruct (dp_panic p).
    + rewrite do_close_eq. unfold reset_c, close_c. cs.
      cbn [app]. apply Hmk; [reflexivity| |].
      * rewrite !forallb_app. cbn [forallb]. rewrite close_ev_calm, reset_ev_calm. reflexivity.
      * split; [intros; congruence|]. split; [|intros; congruence]. intros _ _.
        eexists (reset_ev _ ++ [EPanic]), _. split.
        -- rewrite <- app_assoc. reflexivity.
        -- rewrite forallb_app. cbn [forallb]. rewrite andb_true_r.
           unfold reset_ev, abort_ev. cs. reflexivity.
    + destruct (dr_drain d1 t1) as [[de ?] t2]. destruct (data_error_to_status ret) as [[code ec] msg] eqn:Est.
      unfold close_unless.
      destruct (drained de); cbv beta iota; rewrite ?do_close_eq; cbv beta iota; rewrite do_reset_eq;
        unfold reset_c, close_c; cs; cbn [app]; (apply Hmk; [reflexivity| |]).
      1,3: cbn [forallb]; rewrite ?forallb_app, ?close_ev_calm, reset_ev_calm; reflexivity.
      1,2: (split; [|split; intros; congruence]; intros _ _; eexists code, ec, msg, _; split; reflexivity).
Qed.

(* ---------- dispatch: everything but BDAT ---------- *)

Lemma handle_vs cfg c cmd arg :
  Inv c -> c_closed c = false ->
  (match cmd with [] => false | _ => cmd_is (to_upper cmd) "BDAT" end) = false ->
  VS cfg c (handle cfg c cmd arg).
Proof.
  intros HI Hc Hnb. unfold handle.
  destruct cmd as [|c0 cmd]; [apply protocol_error_vs|].
  set (CMD := to_upper (c0 :: cmd)) in *. clearbody CMD.
  assert (Hone : forall w, VS cfg c (c, [EWire w])) by (intros w; apply VS_plain; reflexivity).
  destruct (cmd_is CMD "SEND" || cmd_is CMD "SOML" || cmd_is CMD "SAML" || cmd_is CMD "EXPN"
            || cmd_is CMD "HELP" || cmd_is CMD "TURN"); [apply Hone|].
  destruct (cmd_is CMD "HELO" || cmd_is CMD "EHLO" || cmd_is CMD "LHLO").
  { destruct (cf_lmtp cfg && negb (cmd_is CMD "LHLO")); [apply Hone|].
    destruct (negb (cf_lmtp cfg) && cmd_is CMD "LHLO"); [apply Hone|].
    apply handle_greet_vs; assumption. }
  destruct (cmd_is CMD "MAIL"); [apply handle_mail_vs; assumption|].
  destruct (cmd_is CMD "RCPT"); [apply handle_rcpt_vs; assumption|].
  destruct (cmd_is CMD "VRFY"); [apply Hone|].
  destruct (cmd_is CMD "NOOP"); [apply Hone|].
  destruct (cmd_is CMD "RSET").
  { rewrite do_reset_eq. apply VS_reset; [|reflexivity]. rewrite forallb_app, reset_ev_calm. reflexivity. }
  rewrite Hnb.
  destruct (cmd_is CMD "DATA"); [apply handle_data_vs; assumption|].
  destruct (cmd_is CMD "QUIT").
  { rewrite do_close_eq. apply VS_reset; [|reflexivity]. cbn [forallb]. rewrite close_ev_calm. reflexivity. }
  destruct (cmd_is CMD "AUTH"); [apply handle_auth_vs; assumption|].
  destruct (cmd_is CMD "STARTTLS"); [apply handle_starttls_vs; assumption|].
  apply protocol_error_vs.
Qed.

(* ---------- BDAT ---------- *)

Definition nocd (e : event) : bool := negb (is_cmd e) && negb (is_data e).

Lemma calm_nocd ev : forallb calm ev = true -> forallb nocd ev = true.
Proof.
  induction ev as [|e ev IH]; cbn [forallb]; [reflexivity|]. intros H.
  apply andb_true_iff in H as [He H]. rewrite (IH H), andb_true_r.
  unfold calm in He. apply andb_true_iff in He as [He _]. exact He.
Qed.

Lemma nocd_no_cmd ev : forallb nocd ev = true -> forallb (fun e => negb (is_cmd e)) ev = true.
Proof.
  induction ev as [|e ev IH]; cbn [forallb]; [reflexivity|]. intros H.
  apply andb_true_iff in H as [He H]. rewrite (IH H), andb_true_r.
  unfold nocd in He. apply andb_true_iff in He as [He _]. exact He.
Qed.

Lemma nocd_data_adj cfg ev : forallb nocd ev = true -> data_adj cfg ev.
Proof.
  intros H pre got term ret panic post E. exfalso.
  assert (Hin : In (EData got term ret panic) ev) by (rewrite E; apply in_elt).
  rewrite forallb_forall in H. specialize (H _ Hin). discriminate.
Qed.

(* the replies with which BDAT is refused before anything is copied *)
Definition bdat_refusals : list (Z * ecode * bytes) :=
  [(501, (5, 5, 4), bs "Missing chunk size argument"); (501, (5, 5, 4), bs "Too many arguments");
   (501, (5, 5, 4), bs "Malformed size argument"); (502, (5, 5, 1), bs "Missing RCPT TO command.");
   (501, (5, 5, 4), bs "Unknown BDAT argument"); (552, (5, 3, 4), bs "Max message size exceeded")]%Z.

(* What the first reply [w] to a BDAT command reports, given the delivery
   outcomes [st] recorded since the EBdatStart of the transfer it belongs to. *)
Inductive bdat_verdict (st : dstate) (last : bool) (w : bytes) : Prop :=
| BV_refused code ec msg :
    In (code, ec, msg) bdat_refusals -> w = write_response code ec [msg] -> bdat_verdict st last w
| BV_continue :
    last = false -> w = write_response 250 (2, 0, 0)%Z [bs "Continue"] -> bdat_verdict st last w
| BV_accepted g t r p code ec msg :
    (* the LAST chunk was copied: the verdict of THIS transfer's delivery *)
    last = true -> st = Some [EDelivery g t r p] ->
    data_error_to_status (delivered r p) = (code, ec, msg) -> w = write_response code ec [msg] ->
    bdat_verdict st last w
| BV_stopped g t r p code ec msg :
    (* THIS transfer's delivery had returned before the chunk was copied:
       its error, or "closed pipe" if it returned nil *)
    st = Some [EDelivery g t r p] ->
    data_error_to_status (pipe_err (delivered r p)) = (code, ec, msg) -> w = write_response code ec [msg] ->
    bdat_verdict st last w
| BV_read_failed te code ec msg :
    (* the chunk could not be read from the connection *)
    data_error_to_status (berr_of_rerr (rerr_of_copy te)) = (code, ec, msg) -> w = write_response code ec [msg] ->
    bdat_verdict st last w.

Definition no_wire (ev : list event) : Prop := forallb (fun e => negb (is_wire e)) ev = true.

Definition BS (cfg : config) (st : dstate) (last : bool) (r : hres) : Prop :=
  forallb nocd (snd r) = true
  /\ BdRel (dl_run st (snd r)) (fst r)
  /\ (cf_lmtp cfg = false ->
      exists evA w evB, snd r = evA ++ EWire w :: evB /\ no_wire evA /\ bdat_verdict (dl_run st evA) last w).

Lemma BS_refuse cfg st last c c' code ec msg :
  BdRel st c -> c_bdat c' = c_bdat c -> In (code, ec, msg) bdat_refusals ->
  BS cfg st last (c', [reply code ec msg]).
Proof.
  intros HB Hb Hin. split; [reflexivity|]. split.
  - cbn [fst snd dl_run fold_left dl_step reply]. unfold BdRel in *. rewrite Hb. exact HB.
  - intros _. exists [], (write_response code ec [msg]), []. split; [reflexivity|]. split; [reflexivity|].
    eapply BV_refused; [exact Hin|reflexivity].
Qed.

Ltac simp_cond_bs :=
  match goal with
  | |- BS ?cfg ?st ?l (if ?b then ?X else ?Y) =>
      let b' := eval cbn in b in
      match b' with
      | true => change (BS cfg st l X)
      | false => change (BS cfg st l Y)
      end
  end.

Ltac in_refusals := cbn [bdat_refusals In]; tauto.

Lemma bd_events_nocd :
  (forall b term, forallb nocd (snd (bd_finish b term)) = true)
  /\ (forall b term, forallb nocd (snd (bd_end b term)) = true)
  /\ (forall b chunk, forallb nocd (snd (fst (bd_feed b chunk))) = true)
  /\ (forall p rc sp, forallb nocd (snd (bd_new p rc sp)) = true).
Proof.
  assert (H1 : forall b term, forallb nocd (snd (bd_finish b term)) = true) by reflexivity.
  assert (H2 : forall b term, forallb nocd (snd (bd_end b term)) = true).
  { intros b term. unfold bd_end. destruct (bd_done b); [reflexivity|apply H1]. }
  repeat split; try assumption.
  - intros b chunk. unfold bd_feed. destruct chunk; [reflexivity|]. destruct (bd_done b); [reflexivity|].
    destruct (dp_stop (bd_plan b)); [|reflexivity]. destruct (take_N _ _) as [[? ?] ?].
    destruct (_ <? _)%N; [reflexivity|]. set (bb := mkBD _ _ _ _ _).
    pose proof (H1 bb None). destruct (bd_finish bb None). destruct (_ =? _)%N; assumption.
  - intros p rc sp. unfold bd_new. set (b := mkBD _ _ _ _ _).
    destruct (dp_stop p) as [[|k]|]; reflexivity.
Qed.

Lemma bd_events_no_wire :
  (forall b term, no_wire (snd (bd_finish b term)))
  /\ (forall b term, no_wire (snd (bd_end b term)))
  /\ (forall b chunk, no_wire (snd (fst (bd_feed b chunk))))
  /\ (forall p rc sp, no_wire (snd (bd_new p rc sp))).
Proof.
  unfold no_wire.
  assert (H1 : forall b term, forallb (fun e => negb (is_wire e)) (snd (bd_finish b term)) = true) by reflexivity.
  assert (H2 : forall b term, forallb (fun e => negb (is_wire e)) (snd (bd_end b term)) = true).
  { intros b term. unfold bd_end. destruct (bd_done b); [reflexivity|apply H1]. }
  repeat split; try assumption.
  - intros b chunk. unfold bd_feed. destruct chunk; [reflexivity|]. destruct (bd_done b); [reflexivity|].
    destruct (dp_stop (bd_plan b)); [|reflexivity]. destruct (take_N _ _) as [[? ?] ?].
    destruct (_ <? _)%N; [reflexivity|]. set (bb := mkBD _ _ _ _ _).
    pose proof (H1 bb None). destruct (bd_finish bb None). destruct (_ =? _)%N; assumption.
  - intros p rc sp. unfold bd_new. set (b := mkBD _ _ _ _ _).
    destruct (dp_stop p) as [[|k]|]; reflexivity.
Qed.

Lemma no_wire_app a b : no_wire a -> no_wire b -> no_wire (a ++ b).
Proof. unfold no_wire. intros Ha Hb. rewrite forallb_app, Ha, Hb. reflexivity. Qed.

Lemma nocd_app a b : forallb nocd a = true -> forallb nocd b = true -> forallb nocd (a ++ b) = true.
Proof. intros Ha Hb. rewrite forallb_app, Ha, Hb. reflexivity. Qed.

Lemma bdat_lmtp_replies_nocd cfg b e : forallb nocd (fst (bdat_lmtp_replies cfg b e)) = true.
Proof.
  unfold bdat_lmtp_replies.
  match goal with |- context [let '(sts, panicked) := ?X in _] => destruct X as [sts panicked] end.
  cbn [fst]. apply calm_nocd, plain_calm, statuses_plain.
Qed.

(* a refused chunk: the reply, then discardChunk (which closes the connection
   when the declared octets cannot all be read) *)
Lemma BS_refused cfg st last c size code ec msg :
  BdRel st c -> In (code, ec, msg) bdat_refusals ->
  BS cfg st last (let '(c1, ev1) := discard_chunk cfg c size in (c1, reply code ec msg :: ev1)).
Proof.
  intros HB Hin. rewrite discard_chunk_eq. destruct (discard_short c size).
  - split; [|split; [exact I|]].
    + cbn [snd]. apply (nocd_app [reply code ec msg] (close_ev _)); [reflexivity|apply calm_nocd, close_ev_calm].
    + intros _. exists [], (write_response code ec [msg]), (close_ev (upd_t c (discard_t cfg c size))).
      split; [reflexivity|]. split; [reflexivity|]. eapply BV_refused; [exact Hin|reflexivity].
  - eapply BS_refuse; [exact HB|destruct c; reflexivity|exact Hin].
Qed.

Ltac nocd_tac :=
  first [ assumption | apply calm_nocd, reset_ev_calm | apply calm_nocd, close_ev_calm
        | apply bdat_lmtp_replies_nocd | reflexivity | (apply nocd_app; nocd_tac) ].

Ltac no_wire_tac := first [assumption | reflexivity | (apply no_wire_app; no_wire_tac)].

Lemma handle_bdat_bs cfg c arg st :
  Inv c -> c_closed c = false -> BdRel st c -> BS cfg st (bdat_last arg) (handle_bdat cfg c arg).
Proof.
  intros HI Hc HB. start c HI. unfold handle_bdat, bdat_last. unfold BdRel in HB. cs.
  assert (Hrefuse : forall last t' code ec msg, In (code, ec, msg) bdat_refusals ->
            BS cfg st last (mkC t' ph be h se er bm fr rc da false tl bd rv, [reply code ec msg])).
  { intros last t' code ec msg Hin. eapply BS_refuse; [|reflexivity|exact Hin]. exact HB. }
  destruct (fields arg) as [|a0 more]; [apply Hrefuse; in_refusals|].
  match goal with
  | |- BS _ _ ?l (match more with [] => ?B | _ :: _ => _ end) => assert (Hbody : BS cfg st l B)
  end.
  2:{ destruct more as [|a1 [|a2 more]]; [exact Hbody|exact Hbody|apply Hrefuse; in_refusals]. }
  destruct (parse_uint 32 a0) as [size| |]; [|apply Hrefuse; in_refusals..].
  destruct fr; [|simp_cond_bs; apply BS_refused; [exact HB|in_refusals]].
  destruct rc as [|r0 rc]; simp_cond_bs; [apply BS_refused; [exact HB|in_refusals]|].
  match goal with
  | |- BS _ _ _ (match ?lo with None => _ | Some _ => _ end) => destruct lo as [last|] eqn:Elast
  end.
  2:{ apply BS_refused; [exact HB|in_refusals]. }
  apply last_ok_last_of in Elast. rewrite <- Elast. clear Elast.
  get_session HI se.
  destruct (negb (cf_max_bytes cfg =? 0)%Z && (cf_max_bytes cfg <? rv + Z.of_N size)%Z).
  { rewrite discard_chunk_eq.
    match goal with |- context [discard_short ?c ?s] => destruct (discard_short c s) end;
      cbv beta iota; rewrite do_reset_eq; unfold reset_c, close_c; cs;
      (split; [cbn [snd]; nocd_tac|]; split; [exact I|];
       intros _; eexists [], _, _; split; [reflexivity|]; split; [reflexivity|];
       eapply BV_refused; [|reflexivity]; in_refusals). }
  simp_cond_bs.
  destruct bd_events_nocd as (N1 & N2 & N3 & N4). destruct bd_events_no_wire as (W1 & W2 & W3 & W4).
  (* start the delivery if there is none *)
  assert (H0 : exists b0 ev0 be0,
    match bd with
    | Some b => (b, [], mkC t ph be h true er bm true (r0 :: rc) da false tl bd rv)
    | None =>
        let '(p, c1) := pop_data (mkC t ph be h true er bm true (r0 :: rc) da false tl bd rv) in
        let status_panic :=
          cf_lmtp cfg && cf_lmtp_session cfg
          && snd (run_statuses (dp_status p) (mk_collector (c_rcpts c1))) in
        let '(b, ev) := bd_new p (c_rcpts c1) status_panic in
        (b, ev, c1)
    end = (b0, ev0, mkC t ph be0 h true er bm true (r0 :: rc) da false tl bd rv)
    /\ BdMatch (dl_run st ev0) b0 /\ forallb nocd ev0 = true /\ no_wire ev0).
  { destruct bd as [b|].
    - exists b, [], be. split; [reflexivity|]. split; [exact HB|split; reflexivity].
    - unfold pop_data. cs. destruct (pop dp_default (be_data be)) as [p rest]. cs.
      match goal with |- context [bd_new p (r0 :: rc) ?sp] =>
        pose proof (bd_new_match st p (r0 :: rc) sp) as M0;
        pose proof (N4 p (r0 :: rc) sp) as M1; pose proof (W4 p (r0 :: rc) sp) as M2;
        destruct (bd_new p (r0 :: rc) sp) as [b0 ev0] end.
      cbn [fst snd] in *. eexists b0, ev0, _. split; [reflexivity|]. split; [exact M0|split; assumption]. }
  destruct H0 as (b0 & ev0 & be0 & Heq & Hm0 & Hn0 & Hw0).
  cbv zeta in Heq. rewrite Heq. clear Heq. cs.
  destruct (t_copy_n size (set_limit t 0)) as [[chunk cerr] t1].
  destruct (bd_feed_match (dl_run st ev0) b0 chunk Hm0) as [Hm1 Hwe].
  pose proof (N3 b0 chunk) as Hn1. pose proof (W3 b0 chunk) as Hw1.
  destruct (bd_feed b0 chunk) as [[b1 ev1] werr]. cbn [fst snd] in *.
  rewrite <- dl_run_app in Hm1.
  destruct werr as [e|]; [|destruct cerr as [te|]].
  - (* the backend had stopped reading *)
    destruct (Hwe e eq_refl) as (v & Hv & He). clear Hwe. cbv beta iota zeta.
    destruct (last && cf_lmtp cfg) eqn:Ell.
    + apply andb_true_iff in Ell as [El1 El2].
      pose proof (N2 b1 RDataReset) as Hn2. destruct (bd_end b1 RDataReset) as [b2 ev2]. cbn [fst snd] in *.
      pose proof (bdat_lmtp_replies_nocd cfg b2 e) as Hrs.
      destruct (bdat_lmtp_replies cfg b2 e) as [rs pk]. cbn [fst] in Hrs. cs.
      match goal with |- context [if ?b then do_close _ else _] => destruct b end;
        rewrite ?do_close_eq; cs; rewrite ?do_reset_eq; unfold close_c, reset_c; cs;
        (split; [cbn [snd]; nocd_tac|split; [exact I|intros; congruence]]).
    + destruct (data_error_to_status e) as [[code ec] msg] eqn:Est. cs.
      assert (Hv' : bdat_verdict (dl_run st (ev0 ++ ev1)) last (write_response code ec [msg])).
      { unfold BdMatch in Hm1. rewrite Hv in Hm1. destruct Hm1 as (g & tt & r & p & Hst & Hvr).
        eapply BV_stopped; [exact Hst| |reflexivity]. rewrite <- Hvr, <- He. exact Est. }
      match goal with |- context [if ?b then do_close _ else _] => destruct b end;
        rewrite ?do_close_eq; cs; rewrite ?do_reset_eq; unfold close_c, reset_c; cs;
        (split; [cbn [snd]; nocd_tac|split; [exact I|]]; intros _;
         eexists (ev0 ++ ev1), _, _; split; [rewrite <- app_assoc; reflexivity|]; split; [no_wire_tac|exact Hv']).
  - (* the chunk could not be read *)
    cbv beta iota zeta. destruct (t_copy_n (size - blen chunk) t1) as [[dg de] t1d]. cbv beta iota zeta.
    destruct (last && cf_lmtp cfg) eqn:Ell.
    + apply andb_true_iff in Ell as [El1 El2].
      pose proof (N2 b1 (rerr_of_copy te)) as Hn2. destruct (bd_end b1 (rerr_of_copy te)) as [b2 ev2]. cbn [fst snd] in *.
      pose proof (bdat_lmtp_replies_nocd cfg b2 (berr_of_rerr (rerr_of_copy te))) as Hrs.
      destruct (bdat_lmtp_replies cfg b2 (berr_of_rerr (rerr_of_copy te))) as [rs pk]. cbn [fst] in Hrs. cs.
      match goal with |- context [if ?b then do_close _ else _] => destruct b end;
        rewrite ?do_close_eq; cs; rewrite ?do_reset_eq; unfold close_c, reset_c; cs;
        (split; [cbn [snd]; nocd_tac|split; [exact I|intros; congruence]]).
    + destruct (data_error_to_status (berr_of_rerr (rerr_of_copy te))) as [[code ec] msg] eqn:Est. cs.
      match goal with |- context [if ?b then do_close _ else _] => destruct b end;
        rewrite ?do_close_eq; cs; rewrite ?do_reset_eq; unfold close_c, reset_c; cs;
        (split; [cbn [snd]; nocd_tac|split; [exact I|]]; intros _;
         eexists (ev0 ++ ev1), _, _; split; [rewrite <- app_assoc; reflexivity|]; split; [no_wire_tac|]).
      all: eapply BV_read_failed; [exact Est|reflexivity].
  - (* the chunk was copied completely *)
    destruct last; simp_cond_bs.
    2:{ cs. split; [cbn [snd]; nocd_tac|]. split.
        - unfold BdRel. cs. rewrite app_assoc, dl_run_app. cbn [dl_run fold_left dl_step reply]. exact Hm1.
        - intros _. eexists (ev0 ++ ev1), _, _. split; [rewrite <- app_assoc; reflexivity|]. split; [no_wire_tac|].
          apply BV_continue; reflexivity. }
    destruct (bd_end_match _ b1 REOF Hm1) as [Hm2 Hd2]. rewrite <- dl_run_app in Hm2.
    pose proof (N2 b1 REOF) as Hn2. pose proof (W2 b1 REOF) as Hw2.
    destruct (bd_end b1 REOF) as [b2 ev2]. cbn [fst snd] in *.
    destruct (cf_lmtp cfg) eqn:Elmtp.
    + match goal with |- context [bdat_lmtp_replies cfg b2 ?e] =>
        pose proof (bdat_lmtp_replies_nocd cfg b2 e) as Hrs;
        destruct (bdat_lmtp_replies cfg b2 e) as [rs pk] end.
      cbn [fst] in Hrs.
      destruct pk; rewrite ?do_close_eq; cs; rewrite ?do_reset_eq; unfold close_c, reset_c; cs;
        (split; [cbn [snd]; nocd_tac|split; [exact I|intros; congruence]]).
    + destruct (bd_done b2) as [v|] eqn:Hv; [|congruence].
      destruct (data_error_to_status v) as [[code ec] msg] eqn:Est.
      assert (Hv' : bdat_verdict (dl_run st ((ev0 ++ ev1) ++ ev2)) true (write_response code ec [msg])).
      { unfold BdMatch in Hm2. rewrite Hv in Hm2. destruct Hm2 as (g & tt & r & p & Hst & Hvr).
        eapply BV_accepted; [reflexivity|exact Hst| |reflexivity]. rewrite <- Hvr. exact Est. }
      destruct (bd_panics b2); rewrite ?do_close_eq; cs; rewrite ?do_reset_eq; unfold close_c, reset_c; cs;
        (split; [cbn [snd]; nocd_tac|split; [exact I|]]; intros _;
         eexists ((ev0 ++ ev1) ++ ev2), _, _; split; [rewrite <- !app_assoc; reflexivity|]; split; [no_wire_tac|exact Hv']).
Qed.

(* ================= the trace of a connection ================= *)

Definition bdat_cmd (cmd : bytes) : bool :=
  match cmd with [] => false | _ => cmd_is (to_upper cmd) "BDAT" end.

Lemma verb_bdat_cmd cmd : verb_of_cmd cmd = VBdat <-> bdat_cmd cmd = true.
Proof.
  unfold verb_of_cmd, bdat_cmd. destruct cmd as [|c0 cmd]; [split; discriminate|].
  set (CMD := to_upper (c0 :: cmd)). clearbody CMD. unfold verb_of_upper.
  destruct (cmd_is CMD "DATA") eqn:E1.
  - unfold cmd_is in E1. apply bytes_eqb_eq in E1. subst CMD. split; discriminate.
  - destruct (cmd_is CMD "BDAT"); [split; reflexivity|].
    destruct (cmd_is CMD "AUTH"); [split; discriminate|].
    destruct (cmd_is CMD "STARTTLS"); split; discriminate.
Qed.

Lemma cmd_is_other CMD s : cmd_is CMD "BDAT" = true -> cmd_is (bs "BDAT") s = false -> cmd_is CMD s = false.
Proof. unfold cmd_is at 1. intros H. apply bytes_eqb_eq in H. subst CMD. exact (fun x => x). Qed.

Lemma handle_is_bdat cfg c cmd arg : bdat_cmd cmd = true -> handle cfg c cmd arg = handle_bdat cfg c arg.
Proof.
  unfold bdat_cmd, handle. destruct cmd as [|c0 cmd]; [discriminate|].
  set (CMD := to_upper (c0 :: cmd)). clearbody CMD. intros H.
  rewrite (cmd_is_other CMD "SEND" H eq_refl), (cmd_is_other CMD "SOML" H eq_refl),
    (cmd_is_other CMD "SAML" H eq_refl), (cmd_is_other CMD "EXPN" H eq_refl),
    (cmd_is_other CMD "HELP" H eq_refl), (cmd_is_other CMD "TURN" H eq_refl),
    (cmd_is_other CMD "HELO" H eq_refl), (cmd_is_other CMD "EHLO" H eq_refl),
    (cmd_is_other CMD "LHLO" H eq_refl), (cmd_is_other CMD "MAIL" H eq_refl),
    (cmd_is_other CMD "RCPT" H eq_refl), (cmd_is_other CMD "VRFY" H eq_refl),
    (cmd_is_other CMD "NOOP" H eq_refl), (cmd_is_other CMD "RSET" H eq_refl), H.
  reflexivity.
Qed.

Lemma data_adj_app cfg a b : data_adj cfg a -> data_adj cfg b -> data_adj cfg (a ++ b).
Proof.
  intros Ha Hb pre got term ret panic post E.
  destruct (app_split_elt a b pre _ post E) as [(mid & E1 & ->)|(mid & -> & E2)].
  - destruct (Ha _ _ _ _ _ _ E1) as (H1 & H2 & H3). repeat split.
    + intros L P. destruct (H1 L P) as (code & ec & msg & rest & Hs & ->).
      exists code, ec, msg, (rest ++ b). split; [exact Hs|reflexivity].
    + intros L P. destruct (H2 L P) as (x & rest & -> & Hx).
      exists x, (rest ++ b). split; [rewrite <- app_assoc; reflexivity|exact Hx].
    + intros L S P. destruct (H3 L S P) as (rcpts & rest & Hne & ->).
      exists rcpts, (rest ++ b). split; [exact Hne|rewrite <- app_assoc; reflexivity].
  - exact (Hb _ _ _ _ _ _ E2).
Qed.

Lemma nodata_data_adj cfg ev : forallb (fun e => negb (is_data e)) ev = true -> data_adj cfg ev.
Proof.
  intros H pre got term ret panic post E. exfalso.
  assert (Hin : In (EData got term ret panic) ev) by (rewrite E; apply in_elt).
  rewrite forallb_forall in H. specialize (H _ Hin). discriminate.
Qed.

Lemma dl_run_cmd st line ev : dl_run st (ECmd line :: ev) = dl_run st ev.
Proof. reflexivity. Qed.

Lemma BdRel_upd_t st c t : BdRel st (upd_t c t) <-> BdRel st c.
Proof. destruct c; reflexivity. Qed.

Lemma final_close_calm c : forallb calm (final_close c) = true.
Proof. unfold final_close. rewrite do_close_eq. apply close_ev_calm. Qed.

Definition block_verdict (cfg : config) (st : dstate) (line : bytes) (ev : list event) : Prop :=
  cf_lmtp cfg = false -> fst (line_verb line) = VBdat ->
  exists evA w evB, ev = evA ++ EWire w :: evB /\ no_wire evA
                    /\ bdat_verdict (dl_run st evA) (bdat_last (snd (line_verb line))) w.

Lemma serve_loop_verdicts cfg fuel : forall c st,
  Inv c -> BdRel st c ->
  data_adj cfg (serve_loop fuel cfg c)
  /\ (forall pre line post, serve_loop fuel cfg c = pre ++ ECmd line :: post ->
        block_verdict cfg (dl_run st pre) line post).
Proof.
  induction fuel as [|f IH]; intros c st HI HB; cbn [serve_loop].
  { split; [apply calm_data_adj; reflexivity|].
    intros pre line post E. exfalso. destruct pre as [|x [|y pre]]; discriminate. }
  assert (Hnocmd : forall l pre line post, forallb calm l = true -> l = pre ++ ECmd line :: post -> False).
  { intros l pre line post Hl E. apply calm_no_cmd in Hl. rewrite E, forallb_app in Hl.
    apply andb_true_iff in Hl as [_ Hl]. discriminate. }
  destruct (c_closed c) eqn:Hc.
  { split; [apply calm_data_adj, final_close_calm|].
    intros pre line post E. exfalso. eapply Hnocmd; [apply final_close_calm|exact E]. }
  pose proof (conn_read_line_c c) as Hc1.
  destruct (conn_read_line c) as [[line|e] c1]; cbn [snd] in Hc1.
  - assert (HI1 : Inv c1) by (rewrite Hc1; exact HI).
    assert (Hcl1 : c_closed c1 = false) by (rewrite Hc1; exact Hc).
    assert (HB1 : BdRel st c1) by (rewrite Hc1; apply BdRel_upd_t; exact HB).
    assert (Hstep : forall r : hres,
              Good cfg c1 r ->
              forallb (fun e => negb (is_cmd e)) (snd r) = true -> data_adj cfg (snd r) ->
              BdRel (dl_run st (snd r)) (fst r) -> block_verdict cfg st line (snd r) ->
              data_adj cfg (ECmd line :: snd r ++ serve_loop f cfg (fst r))
              /\ (forall pre line' post,
                    ECmd line :: snd r ++ serve_loop f cfg (fst r) = pre ++ ECmd line' :: post ->
                    block_verdict cfg (dl_run st pre) line' post)).
    { intros [c2 ev] (m' & _ & _ & HI2) Hnc Hadj HB2 Hv. cbn [fst snd] in *.
      destruct (IH c2 (dl_run st ev) HI2 HB2) as [IH1 IH2].
      split.
      - change (ECmd line :: ev ++ serve_loop f cfg c2) with ([ECmd line] ++ ev ++ serve_loop f cfg c2).
        apply data_adj_app; [apply nodata_data_adj; reflexivity|]. apply data_adj_app; assumption.
      - intros pre line' post E. destruct pre as [|x pre]; cbn [app] in E.
        + inversion E; subst. intros L V. destruct (Hv L V) as (evA & w & evB & -> & Hw & Hbv).
          exists evA, w, (evB ++ serve_loop f cfg c2). split; [rewrite <- app_assoc; reflexivity|].
          split; [exact Hw|exact Hbv].
        + inversion E; subst.
          destruct (app_split_skip is_cmd ev (serve_loop f cfg c2) pre (ECmd line') post H1 Hnc eq_refl)
            as (mid & -> & E2).
          specialize (IH2 mid line' post E2).
          change (dl_run st (ECmd line :: ev ++ mid)) with (dl_run st (ev ++ mid)).
          rewrite dl_run_app. exact IH2. }
    destruct (parse_cmd line) as [[cmd arg]|] eqn:Epc.
    + pose proof (handle_ok cfg c1 cmd arg HI1 Hcl1) as HG.
      destruct (bdat_cmd cmd) eqn:Ebd.
      * rewrite (handle_is_bdat cfg c1 cmd arg Ebd) in *.
        destruct (handle_bdat_bs cfg c1 arg st HI1 Hcl1 HB1) as (B1 & B2 & B3).
        specialize (Hstep (handle_bdat cfg c1 arg) HG (nocd_no_cmd _ B1) (nocd_data_adj cfg _ B1) B2).
        destruct (handle_bdat cfg c1 arg) as [c2 ev]. cbn [fst snd] in *. apply Hstep.
        intros L V. unfold line_verb. rewrite Epc. cbn [snd]. exact (B3 L).
      * destruct (handle_vs cfg c1 cmd arg HI1 Hcl1 Ebd) as (V1 & V2 & V3).
        specialize (Hstep (handle cfg c1 cmd arg) HG V1 V2).
        destruct (handle cfg c1 cmd arg) as [c2 ev]. cbn [fst snd] in *. apply Hstep.
        -- unfold BdRel in *. destruct V3 as [V3|[V3 V4]]; [rewrite V3; exact I|].
           rewrite V3, (dl_run_plain _ _ V4). exact HB1.
        -- intros L V. exfalso. unfold line_verb in V. rewrite Epc in V. cbn [fst] in V.
           apply verb_bdat_cmd in V. congruence.
    + pose proof (protocol_error_ok cfg c1 501 (5, 5, 2)%Z (bs "Bad command") HI1 Hcl1) as HG.
      destruct (protocol_error_vs cfg c1 501 (5, 5, 2)%Z (bs "Bad command")) as (V1 & V2 & V3).
      specialize (Hstep (protocol_error c1 501 (5, 5, 2)%Z (bs "Bad command")) HG V1 V2).
      destruct (protocol_error c1 501 (5, 5, 2)%Z (bs "Bad command")) as [c2 ev]. cbn [fst snd] in *. apply Hstep.
      * unfold BdRel in *. destruct V3 as [V3|[V3 V4]]; [rewrite V3; exact I|].
        rewrite V3, (dl_run_plain _ _ V4). exact HB1.
      * intros L V. exfalso. unfold line_verb in V. rewrite Epc in V. discriminate.
  - assert (Hcalm : forall w, forallb calm (EWire w :: final_close c1) = true)
      by (intros w; cbn [forallb]; apply final_close_calm).
    assert (Hall : forall l, forallb calm l = true ->
              data_adj cfg l /\ (forall pre line post, l = pre ++ ECmd line :: post ->
                                   block_verdict cfg (dl_run st pre) line post)).
    { intros l Hl. split; [apply calm_data_adj, Hl|].
      intros pre line post E. exfalso. eapply Hnocmd; [exact Hl|exact E]. }
    destruct e; apply Hall; first [apply final_close_calm|apply Hcalm].
Qed.

(* C04 (4), DATA: in every trace, a Data call of the DATA path that returns
   [ret] is followed IMMEDIATELY by the final reply rendered from that very
   value (SMTP; LMTP with a plain backend: one such reply per recipient); when
   it panics instead, the next reply is 421. *)
Theorem serve_data_verdict fuel cfg be phases : data_adj cfg (serve fuel cfg be phases).
Proof.
  unfold serve.
  change (greeting cfg :: serve_loop fuel cfg (init_conn cfg be phases))
    with ([greeting cfg] ++ serve_loop fuel cfg (init_conn cfg be phases)).
  apply data_adj_app; [apply nodata_data_adj; reflexivity|].
  apply (serve_loop_verdicts cfg fuel (init_conn cfg be phases) None).
  - apply init_conn_Inv.
  - unfold BdRel, init_conn. destruct phases; exact I.
Qed.

(* the final reply is the positive "250 2.0.0 OK: queued" exactly when the
   backend returned nil *)
Lemma data_verdict_positive ret :
  (ret = BNil <-> data_error_to_status ret = (250, (2, 0, 0), bs "OK: queued")%Z)
  \/ (exists c e m, ret = BSmtp c e m /\ data_error_to_status ret = (c, e, m)).
Proof.
  destruct ret as [|c e m|m].
  - left. split; reflexivity.
  - right. exists c, e, m. split; reflexivity.
  - left. split; [discriminate|]. cbn. intros H. inversion H.
Qed.

(* C04 (4), chunked transfers, SMTP mode: the first reply to every BDAT
   command reports on THIS transfer: [deliveries_since_start] of everything
   that precedes the reply is the list of delivery outcomes since the
   EBdatStart of the transfer the chunk belongs to, and [bdat_verdict] says
   the reply to an accepted LAST chunk is rendered from the single outcome in
   that list. *)
Theorem serve_bdat_verdict fuel cfg be phases pre line post :
  serve fuel cfg be phases = pre ++ ECmd line :: post ->
  cf_lmtp cfg = false -> fst (line_verb line) = VBdat ->
  exists evA w evB,
    post = evA ++ EWire w :: evB /\ no_wire evA
    /\ bdat_verdict (deliveries_since_start (pre ++ ECmd line :: evA)) (bdat_last (snd (line_verb line))) w.
Proof.
  intros E L V. unfold serve in E.
  destruct pre as [|g pre]; [discriminate|]. cbn [app] in E. inversion E as [[Hg E']]. subst g.
  destruct (serve_loop_verdicts cfg fuel (init_conn cfg be phases) None (init_conn_Inv cfg be phases)) as [_ H].
  { unfold BdRel, init_conn. destruct phases; exact I. }
  destruct (H pre line post E' L V) as (evA & w & evB & -> & Hw & Hv).
  exists evA, w, evB. split; [reflexivity|]. split; [exact Hw|].
  unfold deliveries_since_start. cbn [app]. change (dl_run None (greeting cfg :: pre ++ ECmd line :: evA))
    with (dl_run None (pre ++ ECmd line :: evA)).
  rewrite dl_run_app. cbn [dl_run fold_left dl_step]. exact Hv.
Qed.

(* what a reply to a LAST chunk can be: the rendering of an error value [e]
   which is nil - the positive reply - only if the one delivery of THIS
   transfer returned nil without panicking; otherwise [e] is that delivery's
   own error (or "closed pipe" if it had returned nil before the whole
   message was written), the chunk's read error, or a refusal of the command *)
Theorem bdat_verdict_last st w :
  bdat_verdict st true w ->
  exists e code ec msg,
    data_error_to_status e = (code, ec, msg) /\ w = write_response code ec [msg]
    /\ (e = BNil -> exists g t, st = Some [EDelivery g t BNil false])
    /\ ((exists g t r p, st = Some [EDelivery g t r p] /\ (e = delivered r p \/ e = pipe_err (delivered r p)))
        \/ (exists te, e = berr_of_rerr (rerr_of_copy te))
        \/ In (code, ec, msg) bdat_refusals).
Proof.
  intros [code ec msg Hin ->|Hl _|g t r p code ec msg _ Hst Hs ->|g t r p code ec msg Hst Hs ->|te code ec msg Hs ->].
  - exists (BSmtp code ec msg), code, ec, msg. split; [reflexivity|]. split; [reflexivity|].
    split; [discriminate|]. right; right. exact Hin.
  - discriminate.
  - exists (delivered r p), code, ec, msg. split; [exact Hs|]. split; [reflexivity|]. split.
    + intros He. exists g, t. rewrite Hst. unfold delivered in He. destruct p; [discriminate|]. subst r. reflexivity.
    + left. exists g, t, r, p. split; [exact Hst|left; reflexivity].
  - exists (pipe_err (delivered r p)), code, ec, msg. split; [exact Hs|]. split; [reflexivity|]. split.
    + intros He. exfalso. destruct (delivered r p); discriminate.
    + left. exists g, t, r, p. split; [exact Hst|right; reflexivity].
  - exists (berr_of_rerr (rerr_of_copy te)), code, ec, msg. split; [exact Hs|]. split; [reflexivity|]. split.
    + intros He. exfalso. destruct (rerr_of_copy te); discriminate.
    + right; left. exists te. reflexivity.
Qed.

(* ================= non-vacuity ================= *)

Module C04VerdictExample.
Import C04Example.
Local Open Scope string_scope.
Local Open Scope list_scope.

(* first transfer: the backend refuses (554) but the client aborts it with
   RSET before LAST; second transfer: accepted.  The second LAST is answered
   250 - the first delivery's 554 precedes the second EBdatStart. *)
Definition vbe : backend :=
  mkBE [] [] [] [mkDP [4096%nat] None (BSmtp 554 (5, 7, 1)%Z (bs "first rejected")) true false []; dp_default] [].
Definition vstream : bytes :=
  ln "EHLO client.example"
  ++ ln "MAIL FROM:<a@example.org>" ++ ln "RCPT TO:<b@example.org>" ++ ln "BDAT 5" ++ bs "first" ++ ln "RSET"
  ++ ln "MAIL FROM:<a@example.org>" ++ ln "RCPT TO:<b@example.org>" ++ ln "BDAT 6" ++ bs "second"
  ++ ln "BDAT 0 LAST" ++ ln "QUIT".
Definition vtrace : list event := serve 40 cfg vbe [[raw_of vstream]].

Definition show (e : event) : string :=
  match e with
  | EWire b => string_of_list_ascii (firstn 3 b)
  | ECmd l => string_of_list_ascii (firstn 4 l)
  | EBdatStart => "start"
  | EDelivery g _ r _ => String.append "delivery:" (string_of_list_ascii g)
  | EReset => "reset"
  | _ => "-"
  end.

Example trace_shape :
  map show vtrace
  = ["220"; "EHLO"; "-"; "250"; "MAIL"; "-"; "250"; "RCPT"; "-"; "250";
     "BDAT"; "start"; "250"; "RSET"; "delivery:first"; "reset"; "250";
     "MAIL"; "-"; "250"; "RCPT"; "-"; "250"; "BDAT"; "start"; "250";
     "BDAT"; "delivery:second"; "250"; "reset"; "QUIT"; "221"; "-"; "-"; "-"].
Proof. vm_compute. reflexivity. Qed.

(* the instance of [serve_bdat_verdict] at the second LAST *)
Example second_last :
  let pre := firstn 26 vtrace in
  let post := skipn 27 vtrace in
  vtrace = pre ++ ECmd (bs "BDAT 0 LAST") :: post
  /\ fst (line_verb (bs "BDAT 0 LAST")) = VBdat /\ bdat_last (snd (line_verb (bs "BDAT 0 LAST"))) = true
  /\ deliveries_since_start (pre ++ ECmd (bs "BDAT 0 LAST") :: firstn 1 post)
     = Some [EDelivery (bs "second") (Some REOF) BNil false]
  /\ nth 1 post EClose = reply 250 (2, 0, 0)%Z (bs "OK: queued").
Proof. vm_compute. repeat split; reflexivity. Qed.

End C04VerdictExample.

(* [deliveries_since_start] in the vocabulary of TraceProps.v: the delivery
   outcomes in the part of the trace after its last EBdatStart *)
Lemma deliveries_since_start_since tr :
  deliveries_since_start tr
  = if existsb is_start tr then Some (filter is_deliv (since is_start tr)) else None.
Proof.
  unfold deliveries_since_start. induction tr as [|e tr IH] using rev_ind; [reflexivity|].
  rewrite dl_run_app, IH, existsb_app, since_snoc. cbn [dl_run fold_left existsb].
  destruct e; cbn [dl_step is_start orb]; rewrite ?orb_false_r, ?orb_true_r;
    try (destruct (existsb is_start tr); cbn [option_map]; rewrite ?filter_app; cbn [filter is_deliv];
         rewrite ?app_nil_r; reflexivity).
Qed.
