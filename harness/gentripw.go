package harness

import (
	"fmt"
	"math/rand"
	"strings"
	"sync"
	"time"
)

// Kind tripw: trips (real client against real server over net.Pipe, whose deadlines work like those of
// a socket) with a SLOW CALLER: a small Client.CommandTimeout and a caller that sleeps much longer than
// that between Data() and its first Write, between two Writes, and between its last Write and Close.
//
// Between the 354 reply and Close the client arms no deadline of its own: whatever deadline a command
// left behind on the connection is in force for the message octets and for the terminating dot, which
// Close flushes BEFORE it arms SubmissionTimeout.  (Seeded change C16G: greet/cmd/Close cleared only
// the read half of the deadline they had set; a message written over more than CommandTimeout of wall
// time failed with "i/o timeout" and never reached the backend.  The scripted connection of the cli
// kind ignores deadlines, and the other trips finish in microseconds.)
//
// The outcome does not depend on anything finishing WITHIN a short time except the commands themselves
// (each a round trip inside the process, against a limit of 500 ms); the pause is a fixed sleep well
// ABOVE the time-out.  The cases are emitted as ordinary trip lines (the data call carries its pauses,
// the expectation the time-out) and judged by CheckTrip.c16_judge: the backend receives the normalised
// body and the envelope, Close returns the server's verdict, a second Close is a local error, the
// octets that crossed end with dot_write(body) NOOP QUIT.

const (
	tripwTimeout = 500 * time.Millisecond
	tripwPause   = 1300 // ms
)

func pausesSx(p []int, call *Sx) *Sx {
	if len(p) == 0 {
		return call
	}
	l := L()
	for _, ms := range p {
		l.Add(Num(int64(ms)))
	}
	return call.Add(L(A("pauses"), l))
}

func tripPause(p []int, i int) {
	if i < len(p) && p[i] > 0 {
		time.Sleep(time.Duration(p[i]) * time.Millisecond)
	}
}

// waitDeliveries waits for this backend's own Data / LMTPData calls only.
func waitDeliveries(be *RecBackend) bool {
	done := make(chan struct{})
	go func() { be.wg.Wait(); close(done) }()
	select {
	case <-done:
		return true
	case <-time.After(6 * time.Second):
		return false
	}
}

func GenTripW(rng *rand.Rand, thorough bool, emit func(*Sx)) {
	small := "Subject: slow\r\n\r\nfirst line\r\n.a line with a dot\r\n"
	var big []byte // more than the 4096 octets textproto buffers: the first Write itself reaches the connection
	for len(big) < 4300 {
		big = append(big, "a line of a long message, 60 octets long, ends here .......\r\n"...)
	}
	type shape struct {
		name  string
		parts [][]byte
	}
	shapes := []shape{
		{"small", [][]byte{[]byte(small), []byte("last line\r\n")}},
		{"big", [][]byte{big, []byte(".second part\r\n" + strings.Repeat("z", 70) + "\r\n")}},
	}
	if thorough {
		shapes = append(shapes,
			shape{"bigbig", [][]byte{big, big}},
			shape{"noeol", [][]byte{[]byte("no line end"), []byte(" at all")}},
			shape{"bytes", [][]byte{[]byte("a"), []byte("\r\n")}})
	}
	// where the caller pauses: before its first Write, between the Writes, before Close
	patterns := [][]int{{1, 0, 0}, {0, 1, 0}, {0, 0, 1}, {1, 1, 1}, {0, 0, 0}}
	var cases []TripCase
	n := 0
	for _, lmtp := range []bool{false, true} {
		for _, reject := range []bool{false, true} {
			for _, sh := range shapes {
				for pi, pat := range patterns {
					if sh.name != "small" && !thorough && (reject != (pi == 3) || pi == 4) {
						// the long bodies cost the checker half a second each: accept x one pause, reject x all three
						continue
					}
					n++
					cfg := fullCfg(lmtp)
					p := DefaultPlan()
					p.Sizes = [][]int{{4096}, {512}, {7}}[n%3]
					if reject {
						p.Ret = rejectErr()
					}
					pauses := make([]int, len(pat))
					for i, on := range pat {
						if on == 1 {
							pauses[i] = tripwPause + rng.Intn(200)
						}
					}
					calls := []TripCall{{Kind: "mail", Arg: "s@x"}, {Kind: "rcpt", Arg: "r1@x"}, {Kind: "rcpt", Arg: "r2@x"},
						{Kind: "data", Parts: sh.parts, Closes: 1 + n%2, Pauses: pauses}, {Kind: "noop"}, {Kind: "quit"}}
					cases = append(cases, TripCase{Cfg: cfg, Script: Script{Data: []DataPlan{p}}, LMTP: lmtp, Calls: calls,
						CmdTmo: tripwTimeout, Concur: true,
						Extra: []*Sx{L(A("focus"), A("C16")), L(A("slow-caller"), A(sh.name)),
							L(A("command-timeout-ms"), Num(int64(tripwTimeout/time.Millisecond)))}})
				}
			}
		}
	}
	// slow mailboxes: the per-recipient replies of an LMTP message arrive further apart than CommandTimeout
	// (but well within SubmissionTimeout): every accepted recipient is still reported
	for _, cb := range []bool{true, false} {
		for _, nrcpt := range []int{2, 3} {
			cfg := fullCfg(true)
			cfg.LMTPSession = true
			sc := Script{}
			calls := []TripCall{{Kind: "mail", Arg: "slow@x"}}
			p := DefaultPlan()
			p.StatusDelayMs = 1300
			for i := 0; i < nrcpt; i++ {
				addr := fmt.Sprintf("box%d@x", i)
				sc.Rcpt = append(sc.Rcpt, BNil)
				e := BNil
				if i == nrcpt-1 {
					e = BSmtp(550, [3]int{5, 1, 1}, "mailbox gone")
				}
				p.Status = append(p.Status, StatusCall{Addr: addr, Err: e})
				calls = append(calls, TripCall{Kind: "rcpt", Arg: addr})
			}
			sc.Data = []DataPlan{p}
			sc.Rcpt = append(sc.Rcpt, BNil)
			calls = append(calls, TripCall{Kind: "lmtpdata", Parts: [][]byte{[]byte("to slow mailboxes\r\n")}, Callback: cb, Closes: 1},
				TripCall{Kind: "mail", Arg: "next@x"}, TripCall{Kind: "rcpt", Arg: "box0@x"}, TripCall{Kind: "noop"}, TripCall{Kind: "quit"})
			cases = append(cases, TripCase{Cfg: cfg, Script: sc, LMTP: true, CmdTmo: tripwTimeout, Concur: true, Calls: calls,
				Extra: []*Sx{L(A("focus"), A("C18")), L(A("slow-mailboxes"), Num(int64(nrcpt)))}})
		}
	}
	// all at once, each with its own server, connection and backend: the wall time is that of the slowest
	res := make([]*Sx, len(cases))
	var wg sync.WaitGroup
	for i := range cases {
		wg.Add(1)
		go func(i int) {
			defer wg.Done()
			res[i] = RunTrip(cases[i])
		}(i)
	}
	wg.Wait()
	for _, r := range res {
		emit(r)
	}
}
