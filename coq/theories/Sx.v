(* S-expressions: the exchange format between the Go harness and the model.
   The reader is written in Coq so that the in-Coq shard and the extracted
   driver decode cases with the same definitions. *)
From Smtp Require Import Bytes.
Local Open Scope char_scope.

Inductive sx := SA (a : bytes) | SL (l : list sx).

Definition flush (atom : bytes) (cur : list sx) : list sx :=
  match atom with [] => cur | _ => SA (rev_append atom []) :: cur end.

Fixpoint parse_go (s : bytes) (atom : bytes) (cur : list sx) (stack : list (list sx))
  : option sx :=
  match s with
  | [] =>
      match stack, flush atom cur with
      | [], [x] => Some x
      | _, _ => None
      end
  | c :: t =>
      if Ascii.eqb c "(" then parse_go t [] [] (flush atom cur :: stack)
      else if Ascii.eqb c ")" then
        match stack with
        | top :: st => parse_go t [] (SL (rev_append (flush atom cur) []) :: top) st
        | [] => None
        end
      else if Ascii.eqb c " " then parse_go t [] (flush atom cur) stack
      else parse_go t (c :: atom) cur stack
  end.

Definition parse_sx (s : bytes) : option sx := parse_go s [] [] [].

(* ---- atom decoders ---- *)

Definition hexval (c : ascii) : option N :=
  if is_digit c then Some (byte_n c - 48)%N
  else if in_range 97 102 c then Some (byte_n c - 87)%N
  else if in_range 65 70 c then Some (byte_n c - 55)%N
  else None.

Fixpoint unhex (s : bytes) : option bytes :=
  match s with
  | [] => Some []
  | a :: b :: t =>
      match hexval a, hexval b, unhex t with
      | Some x, Some y, Some r => Some (n_byte (x * 16 + y) :: r)
      | _, _, _ => None
      end
  | _ => None
  end.

Definition hexdigit (n : N) : ascii :=
  if (n <? 10)%N then n_byte (48 + n) else n_byte (87 + n).

Fixpoint tohex (s : bytes) : bytes :=
  match s with
  | [] => []
  | c :: t => hexdigit (byte_n c / 16) :: hexdigit (byte_n c mod 16) :: tohex t
  end.

(* x<hex> *)
Definition sx_bytes (x : sx) : option bytes :=
  match x with
  | SA (c :: h) => if Ascii.eqb c "x" then unhex h else None
  | _ => None
  end.

(* n<dec> / m<dec> *)
Definition sx_Z (x : sx) : option Z :=
  match x with
  | SA (c :: d) =>
      if negb (forallb is_digit d) then None
      else if Ascii.eqb c "n" then Some (Z.of_N (dec_value d))
      else if Ascii.eqb c "m" then Some (- Z.of_N (dec_value d))%Z
      else None
  | _ => None
  end.

Definition sx_N (x : sx) : option N :=
  match sx_Z x with
  | Some z => if (0 <=? z)%Z then Some (Z.to_N z) else None
  | None => None
  end.

Definition sx_nat (x : sx) : option nat := option_map N.to_nat (sx_N x).

Definition sx_bool (x : sx) : option bool :=
  match x with
  | SA [c] => if Ascii.eqb c "t" then Some true else if Ascii.eqb c "f" then Some false else None
  | _ => None
  end.

Definition sx_is (tag : string) (x : sx) : bool :=
  match x with SA a => bytes_eqb a (bs tag) | _ => false end.

Definition sx_list (x : sx) : option (list sx) :=
  match x with SL l => Some l | _ => None end.

Fixpoint map_opt {A B} (f : A -> option B) (l : list A) : option (list B) :=
  match l with
  | [] => Some []
  | x :: r =>
      match f x, map_opt f r with
      | Some y, Some ys => Some (y :: ys)
      | _, _ => None
      end
  end.

(* ---- rendering (for reporting what the model computed) ---- *)

Definition show_bytes (b : bytes) : bytes := "x" :: tohex b.
Definition show_N (n : N) : bytes := "n" :: dec_of_N n.
Definition show_Z (z : Z) : bytes :=
  if (z <? 0)%Z then "m" :: dec_of_N (Z.to_N (- z)) else "n" :: dec_of_N (Z.to_N z).
Definition show_bool (b : bool) : bytes := if b then bs "t" else bs "f".

Fixpoint show_sx (x : sx) : bytes :=
  match x with
  | SA a => a
  | SL l =>
      "(" :: (fix go (l : list sx) : bytes :=
                match l with
                | [] => [")"]
                | [y] => show_sx y ++ [")"]
                | y :: r => show_sx y ++ " " :: go r
                end) l
  end.

Fixpoint sx_eqb (a b : sx) : bool :=
  match a, b with
  | SA x, SA y => bytes_eqb x y
  | SL x, SL y =>
      (fix go (x y : list sx) : bool :=
         match x, y with
         | [], [] => true
         | p :: x', q :: y' => sx_eqb p q && go x' y'
         | _, _ => false
         end) x y
  | _, _ => false
  end.

Definition XB (b : bytes) : sx := SA (show_bytes b).
Definition XN (n : N) : sx := SA (show_N n).
Definition XZ (z : Z) : sx := SA (show_Z z).
Definition XT (s : string) : sx := SA (bs s).
Definition XBool (b : bool) : sx := SA (show_bool b).
