(* LocksetInst.v - the lock discipline of go-smtp's Conn, checked against the
   table that tools/accesses regenerates from /repo on every run
   (coq/gen/Accesses.v).

   The loop task executes, in any order and number, the functions that
   Server.handleConn and Conn.handle call (plus their own accesses); the BDAT
   delivery closure (handleBdat$1) is detached, the LMTP delivery closure
   (handleDataLMTP$1) is scoped (joined by <-done); the exported methods of
   *Conn are external entries that may run at any time (Server.Close ->
   Conn.Close; a backend goroutine that kept the *Conn calling accessors).

   On the current tree the program is NOT race free (DESIGN F20 and the
   accessor / panic-path pairs below): [conn_races_exactly] pins the exact
   set of unprotected conflicting pairs, identified by (field, accessing
   function, accessing function), so that a NEW racy pair - or the repair of
   a listed one - changes [races conn_program] and breaks the theorem.
   [conn_races_only_known] is the partial theorem on the real program: for
   every sequence of handler invocations, every set of external tasks and
   every schedule, a reachable data race is on one of the listed pairs.
   [conn_race_free_partial]: with the listed unlocked command-loop accesses
   removed the program has no data race at all. *)
From Coq Require Import List String Bool.
From Smtp Require Import Lockset.
From SmtpGen Require Import Accesses.
Import ListNotations.
Local Open Scope string_scope.

Definition conn_program_with (exts : list string) : template :=
  build conn_accesses conn_dispatchers conn_handlers conn_closures exts.

Definition conn_program : template := conn_program_with conn_externals.

(* (field, function, function): the first function's access is not ordered
   with and not mutually excluded from the second's.
     bdatPipe : unlocked reads (and the write at handleBdat's io.Pipe()) in
                the command loop against Close's locked read+write
     session  : handleGreet's unlocked `c.session != nil` against Close
     conn     : handleStartTLS's unlocked `c.conn = tlsConn` against every
                reader outside the loop: Close (locked, but the writer is
                not), the accessors Conn / TLSConnectionState, Reject's
                writeResponse, and the BDAT delivery closure's panic path
                (handlePanic: c.conn.RemoteAddr())
     helo     : unlocked writes in handleGreet / handleStartTLS against the
                accessor Hostname
     text     : init's `c.text = ...` (called by handleStartTLS) against
                Reject's writeResponse *)
Definition known_races : list triple := [
  ("bdatPipe", "handleBdat", "Close");
  ("bdatPipe", "handleData", "Close");
  ("bdatPipe", "handleMail", "Close");
  ("bdatPipe", "handleRcpt", "Close");
  ("session", "handleGreet", "Close");
  ("conn", "handleStartTLS", "Close");
  ("conn", "handleStartTLS", "Conn");
  ("conn", "handleStartTLS", "TLSConnectionState");
  ("conn", "handleStartTLS", "writeResponse");
  ("conn", "handlePanic", "handleStartTLS");
  ("helo", "handleGreet", "Hostname");
  ("helo", "handleStartTLS", "Hostname");
  ("text", "init", "writeResponse")
].

(* the table is consistent (calls resolve, lock regions are balanced, the
   scoped closure is joined by its handler, closures do not spawn, ...) *)
Theorem conn_wf : wf_b conn_program = true.
Proof. vm_compute. reflexivity. Qed.

(* THE obligation re-checked against the current source on every run *)
Theorem conn_races_exactly : same_set_b (races conn_program) known_races = true.
Proof. vm_compute. reflexivity. Qed.

(* refuted: the full statement (no data race at all) fails, semantically:
   MAIL in the command loop against a concurrent Server.Close -> Conn.Close *)
Definition race_witness_sched : list iid := [Ext 0; Ext 0; Loop; Loop; Loop; Loop].

Theorem conn_race_refuted :
  race (run iid_dec chan_dec (inst conn_program ["handleMail"] [["Close"]]) race_witness_sched).
Proof.
  apply (race_pair_b_sound iid_dec) with (i := Loop) (j := Ext 0).
  vm_compute. reflexivity.
Qed.

Theorem conn_not_race_free : race_free_b conn_program = false.
Proof. vm_compute. reflexivity. Qed.

(* partial, on the real program: every reachable race is a listed one *)
Theorem conn_races_only_known :
  forall hs es sched i j f w1 t1 r1 w2 t2 r2,
    let s := run iid_dec chan_dec (inst conn_program hs es) sched in
    i <> j -> started s i = true -> started s j = true ->
    pc s i = Acc f w1 t1 :: r1 -> pc s j = Acc f w2 t2 :: r2 ->
    (w1 || w2) = true ->
    In (f, t1, t2) known_races \/ In (f, t2, t1) known_races.
Proof.
  intros hs es sched i j f w1 t1 r1 w2 t2 r2 s Hne Hsi Hsj Hpi Hpj Hw.
  assert (Hincl : incl_b (races conn_program) known_races = true).
  { assert (H := conn_races_exactly). unfold same_set_b in H.
    apply andb_prop in H. tauto. }
  destruct (races_sound conn_program conn_wf hs es sched i j f w1 t1 r1 w2 t2 r2
              Hne Hsi Hsj Hpi Hpj Hw) as [H | H];
    [left | right]; exact (incl_b_incl _ _ _ Hincl H).
Qed.

(* the command-loop accesses that are not under c.locker although Close or
   an accessor may run concurrently *)
Definition known_racy_accesses : list (string * string) := [
  ("bdatPipe", "handleBdat"); ("bdatPipe", "handleData");
  ("bdatPipe", "handleMail"); ("bdatPipe", "handleRcpt");
  ("session", "handleGreet");
  ("conn", "handleStartTLS");
  ("helo", "handleGreet"); ("helo", "handleStartTLS");
  ("text", "init")
].

Theorem conn_race_free_partial_b :
  race_free_b (prune known_racy_accesses conn_program) = true.
Proof. vm_compute. reflexivity. Qed.

(* partial: without those accesses, no data race under any schedule *)
Theorem conn_race_free_partial :
  forall hs es sched,
    no_race (run iid_dec chan_dec (inst (prune known_racy_accesses conn_program) hs es) sched).
Proof. exact (race_free_b_sound _ conn_race_free_partial_b). Qed.

(* partial: if Server.Close is never concurrent with a connection's command
   loop and the backend calls Conn accessors only from within its callbacks
   (external entries reduced to the locked Session() and the immutable
   Server()), the only remaining pair is the BDAT delivery closure's panic
   path against STARTTLS *)
Theorem conn_races_without_close :
  races (conn_program_with ["Session"; "Server"]) = [("conn", "handlePanic", "handleStartTLS")].
Proof. vm_compute. reflexivity. Qed.

(* at most one of the command loop, Conn.Close, Conn.Session ... is inside a
   c.locker region, in every reachable state *)
Theorem conn_mutual_exclusion :
  forall hs es sched i j,
    let p := inst conn_program hs es in
    inside p (run iid_dec chan_dec p sched) i ->
    inside p (run iid_dec chan_dec p sched) j -> i = j.
Proof. intros hs es sched i j p. apply mutual_exclusion. Qed.

(* the BDAT delivery closure (after fix 3cc2a65) touches no Conn field that
   anybody writes, except c.conn on its panic path *)
Theorem bdat_closure_accesses :
  match entry conn_accesses "handleBdat$1" with
  | Some (_, b) => map (fun a => (a_f a, a_w a, a_site a)) (accs b)
  | None => []
  end = [("server", false, "handleBdat$1"); ("conn", false, "handlePanic"); ("server", false, "handlePanic")].
Proof. vm_compute. reflexivity. Qed.
