(* Deadlock freedom and termination of BDAT deliveries (model: Interleave.v) *)
From Coq Require Import List Arith Bool Lia.
From Smtp Require Import Interleave.
Import ListNotations.

Definition refs (l : lstate) (i : nat) : Prop :=
  match l with
  | LChunk j _ _ | LBlocked j _ _ | LWait j => j = i
  | _ => False
  end.

Definition early (d : dstate) : bool :=
  match d with DRun | DFailed | DRet => true | _ => false end.

Record Inv (s : state) : Prop := mkInv {
  k_refs_lt : forall i, refs (loop s) i -> i < nd s;
  k_refs_res : forall i, refs (loop s) i -> res (dv s i) <> RTaken;
  k_cur : forall i, cur s = Some i -> i < nd s;
  k_cur_res : forall i, cur s = Some i -> res (dv s i) <> RTaken;
  k_cur_refs : forall i j, refs (loop s) i -> cur s = Some j -> i = j;
  k_old : forall i, i < nd s -> cur s <> Some i -> wclosed (dv s i) = true;
  k_done : forall i, d_st (dv s i) = DDone -> rclosed (dv s i) = true;
  k_res1 : forall i, early (d_st (dv s i)) = true -> res (dv s i) = REmpty;
  k_res2 : forall i, early (d_st (dv s i)) = false -> res (dv s i) <> REmpty;
  k_wait : forall i, loop s = LWait i -> wclosed (dv s i) = true;
  k_closed : closed s = true -> cur s = None;
  k_end : loop s = LEnd -> closed s = true
}.

Lemma inv_init : Inv init.
Proof.
  constructor; simpl; intros; try tauto; try discriminate; try lia; auto.
Qed.

Ltac upd_cases :=
  repeat match goal with
         | H : context [upd _ ?i _ ?j] |- _ =>
             unfold upd in H; destruct (Nat.eqb_spec j i); subst; simpl in H
         | |- context [upd _ ?i _ ?j] =>
             unfold upd; destruct (Nat.eqb_spec j i); subst; simpl
         | H : context [if Nat.eqb ?a ?b then _ else _] |- _ =>
             destruct (Nat.eqb_spec a b); subst; simpl in H
         | |- context [if Nat.eqb ?a ?b then _ else _] =>
             destruct (Nat.eqb_spec a b); subst; simpl
         end.

#[local] Hint Extern 2 (_ < _) => lia : core.
#[local] Hint Extern 2 (_ <> _) => congruence : core.
#[local] Hint Extern 2 (_ <> _) => discriminate : core.
#[local] Hint Extern 3 (_ = _) => congruence : core.

Ltac kfin :=
  intros; simpl in *; upd_cases; simpl in *; subst;
  repeat match goal with H : Some _ = Some _ |- _ => inversion H; clear H; subst end;
  repeat match goal with G : ?x = ?x -> _ |- _ => specialize (G eq_refl) end;
  repeat match goal with G : ?P -> _, H : ?P |- _ =>
           match type of P with Prop => specialize (G H) end end;
  try solve [ tauto | discriminate | lia | congruence | eauto 4
            | exfalso; eauto 4 | exfalso; congruence ].

Section Proofs.
  Variable lmtp : bool.

  Lemma close_cur_inv s l cl :
    Inv s -> (forall i, refs l i -> refs (loop s) i) ->
    (l = LEnd -> cl = true) -> (closed s = true -> cl = true) ->
    (forall i, l = LWait i -> loop s = LWait i) ->
    Inv (mkS l None cl (nd (close_cur s)) (dv (close_cur s))).
  Proof.
    intros [K1 K1' K2 K2' K2'' K3 K4 K5 K5' K6 K7 K8] Hl He Hc Hw.
    unfold close_cur. destruct (cur s) as [c|] eqn:Ec; simpl.
    - constructor; simpl; kfin.
    - constructor; simpl; kfin.
  Qed.

  Lemma close_cur_eta s :
    close_cur s = mkS (loop s) None (closed s) (nd (close_cur s)) (dv (close_cur s)).
  Proof.
    unfold close_cur. destruct (cur s) eqn:E; simpl; [reflexivity|].
    destruct s; simpl in *; subst; reflexivity.
  Qed.

  Lemma close_cur_loop s : loop (close_cur s) = loop s.
  Proof. unfold close_cur. destruct (cur s); reflexivity. Qed.

  Lemma step_inv s a s' : Inv s -> step lmtp s a = Some s' -> Inv s'.
  Proof.
    intros HI Hst. pose proof HI as [K1 K1' K2 K2' K2'' K3 K4 K5 K5' K6 K7 K8].
    destruct a as [c | i a |]; simpl in Hst.
    - destruct (loop s) as [| i n last | i n last | i |] eqn:El.
      + destruct (closed s) eqn:Ecl.
        * inversion Hst; subst; clear Hst. constructor; kfin.
        * destruct c as [n last | |].
          -- destruct (cur s) as [c|] eqn:Ec; inversion Hst; subst; clear Hst; constructor; kfin.
          -- inversion Hst; subst; clear Hst. rewrite close_cur_eta.
             apply close_cur_inv; kfin.
          -- inversion Hst; subst; clear Hst. apply close_cur_inv; kfin.
      + destruct n as [|n].
        * destruct last; inversion Hst; subst; clear Hst; constructor; kfin.
        * destruct (pipe_closed (dv s i)) eqn:Epc; inversion Hst; subst; clear Hst.
          -- unfold abort. destruct (lmtp && last); constructor; kfin.
             apply K3; auto. intro Hc. apply n0. symmetry.
             apply (K2'' i i0); [reflexivity | exact Hc].
          -- constructor; kfin.
      + destruct (pipe_closed (dv s i)) eqn:Epc.
        * inversion Hst; subst; clear Hst.
          unfold abort. destruct (lmtp && last); constructor; kfin.
          apply K3; auto. intro Hc. apply n0. symmetry.
          apply (K2'' i i0); [reflexivity | exact Hc].
        * destruct (pending (dv s i)); inversion Hst; subst; clear Hst. constructor; kfin.
      + destruct (res (dv s i)) eqn:Er; inversion Hst; subst; clear Hst.
        assert (G5 := K5 i). assert (G5' := K5' i).
        unfold close_cur; simpl. destruct (cur s) as [c0|] eqn:Ec.
        -- assert (c0 = i) by (symmetry; apply (K2'' i c0); [reflexivity | reflexivity]). subst c0.
           constructor; kfin.
        -- constructor; kfin.
      + discriminate Hst.
    - destruct (i <? nd s) eqn:Ei; [|discriminate Hst]. apply Nat.ltb_lt in Ei.
      assert (G5 := K5 i); assert (G5' := K5' i); assert (G4 := K4 i).
      destruct (d_st (dv s i)) eqn:Ed; simpl in G5, G5', G4.
      + destruct a.
        * destruct (pending (dv s i)) eqn:Ep.
          -- inversion Hst; subst; clear Hst. constructor; kfin.
          -- destruct (pipe_closed (dv s i)) eqn:Epc; inversion Hst; subst; clear Hst.
             constructor; kfin.
        * inversion Hst; subst; clear Hst. constructor; kfin.
      + inversion Hst; subst; clear Hst. constructor; kfin.
      + destruct (res (dv s i)) eqn:Er; inversion Hst; subst; clear Hst. constructor; kfin.
      + inversion Hst; subst; clear Hst. constructor; kfin.
      + discriminate Hst.
    - destruct (closed s) eqn:Ecl; [discriminate Hst|].
      inversion Hst; subst; clear Hst. rewrite close_cur_loop. apply close_cur_inv; kfin.
  Qed.

  Lemma exec_inv s a : Inv s -> Inv (exec lmtp s a).
  Proof.
    intro HI. unfold exec. destruct (step lmtp s a) as [s'|] eqn:E; [|exact HI].
    exact (step_inv s a s' HI E).
  Qed.

  Lemma run_inv s sched : Inv s -> Inv (run lmtp s sched).
  Proof.
    revert s. induction sched as [|a l IH]; intros s HI; [exact HI|].
    simpl. apply IH. apply exec_inv. exact HI.
  Qed.

  (* ---- deadlock freedom ---- *)

  Definition enabled (s : state) (a : action) : Prop := step lmtp s a <> None.

  (* everything has terminated *)
  Definition final (s : state) : Prop :=
    loop s = LEnd /\ forall i, i < nd s -> d_st (dv s i) = DDone.

  Lemma all_done_dec (f : nat -> deliv) n :
    (forall i, i < n -> d_st (f i) = DDone) \/ (exists i, i < n /\ d_st (f i) <> DDone).
  Proof.
    induction n as [|n [IH | [i [Hi Hd]]]].
    - left. intros i Hi. lia.
    - destruct (d_st (f n)) eqn:E;
        try (right; exists n; split; [lia | rewrite E; discriminate]).
      left. intros i Hi. destruct (Nat.eq_dec i n); [subst; exact E | apply IH; lia].
    - right. exists i. split; [lia | exact Hd].
  Qed.

  (* a delivery whose pipe is closed can always move, whatever the backend
     chooses, until it has finished *)
  Lemma closed_deliv_enabled s i a :
    Inv s -> i < nd s -> pipe_closed (dv s i) = true -> d_st (dv s i) <> DDone ->
    enabled s (ADeliv i a).
  Proof.
    intros HI Hi Hc Hd. unfold enabled. simpl.
    apply Nat.ltb_lt in Hi. rewrite Hi.
    assert (G5 := k_res1 s HI i).
    destruct (d_st (dv s i)) eqn:Ed; simpl in G5; try discriminate; try congruence.
    - destruct a; [|discriminate]. destruct (pending (dv s i)); [discriminate|].
      rewrite Hc. discriminate.
    - rewrite (G5 eq_refl). discriminate.
  Qed.

  (* the delivery the loop is blocked on can move, or the loop itself can *)
  Theorem blocked_loop_has_partner s i :
    Inv s ->
    (exists n last, loop s = LBlocked i n last) \/ loop s = LWait i ->
    (exists c, enabled s (ALoop c)) \/ (exists a, enabled s (ADeliv i a)).
  Proof.
    intros HI Hl.
    assert (Hi : i < nd s).
    { apply (k_refs_lt s HI). destruct Hl as [[n [last E]] | E]; rewrite E; reflexivity. }
    assert (Hlt := Hi). apply Nat.ltb_lt in Hlt.
    assert (G5 := k_res1 s HI i). assert (G5' := k_res2 s HI i). assert (G4 := k_done s HI i).
    destruct Hl as [[n [last El]] | El].
    - destruct (pipe_closed (dv s i)) eqn:Epc.
      + left. exists CReset. unfold enabled. simpl. rewrite El, Epc. discriminate.
      + destruct (pending (dv s i)) eqn:Ep.
        * right. unfold enabled. simpl. rewrite Hlt.
          destruct (d_st (dv s i)) eqn:Ed; simpl in *.
          -- exists Read. rewrite Ep. discriminate.
          -- exists Read. discriminate.
          -- exists Read. rewrite (G5 eq_refl). discriminate.
          -- exists Read. discriminate.
          -- exfalso. unfold pipe_closed in Epc. rewrite (G4 eq_refl) in Epc.
             rewrite orb_true_r in Epc. discriminate.
        * left. exists CReset. unfold enabled. simpl. rewrite El, Epc, Ep. discriminate.
    - assert (Hw := k_wait s HI i El).
      assert (Hr := k_refs_res s HI i). rewrite El in Hr. specialize (Hr eq_refl).
      destruct (res (dv s i)) eqn:Er.
      + right. exists Read. apply (closed_deliv_enabled s i Read HI Hi).
        * unfold pipe_closed. rewrite Hw. reflexivity.
        * intro Hd. rewrite Hd in G5'. simpl in G5'. apply (G5' eq_refl). reflexivity.
      + left. exists CReset. unfold enabled. simpl. rewrite El, Er. discriminate.
      + congruence.
  Qed.

  Theorem no_deadlock_inv s : Inv s -> final s \/ exists a, enabled s a.
  Proof.
    intro HI.
    destruct (loop s) as [| i n last | i n last | i |] eqn:El.
    - right. exists (ALoop CReset). unfold enabled. simpl. rewrite El.
      destruct (closed s); discriminate.
    - right. exists (ALoop CReset). unfold enabled. simpl. rewrite El.
      destruct n; [destruct last; discriminate|].
      destruct (pipe_closed (dv s i)); discriminate.
    - destruct (blocked_loop_has_partner s i HI) as [[c H] | [a H]].
      + left. exists n, last. exact El.
      + right. exists (ALoop c). exact H.
      + right. exists (ADeliv i a). exact H.
    - destruct (blocked_loop_has_partner s i HI) as [[c H] | [a H]].
      + right. exact El.
      + right. exists (ALoop c). exact H.
      + right. exists (ADeliv i a). exact H.
    - destruct (all_done_dec (dv s) (nd s)) as [Hall | [i [Hi Hd]]].
      + left. split; [exact El | exact Hall].
      + right. exists (ADeliv i Read). apply closed_deliv_enabled; auto.
        assert (Hc := k_end s HI El). assert (Hn := k_closed s HI Hc).
        unfold pipe_closed. rewrite (k_old s HI i Hi); [reflexivity|]. rewrite Hn. discriminate.
  Qed.

  (* for ALL schedules: no reachable state has every live task blocked *)
  Theorem no_deadlock sched :
    let s := run lmtp init sched in final s \/ exists a, enabled s a.
  Proof. apply no_deadlock_inv. apply run_inv. apply inv_init. Qed.

  (* ---- termination of delivery goroutines ---- *)

  Definition rank (d : deliv) : nat :=
    match d_st d with
    | DRun => 5 + (if pending d then 1 else 0)
    | DFailed => 3 | DRet => 2 | DSent => 1 | DDone => 0
    end.

  Lemma rank_zero d : rank d = 0 <-> d_st d = DDone.
  Proof. unfold rank. destruct (d_st d); split; intro H; try discriminate; try lia; reflexivity. Qed.

  (* own steps of a delivery with a closed pipe strictly decrease its rank *)
  Lemma own_step_decreases s i a s' :
    step lmtp s (ADeliv i a) = Some s' ->
    pipe_closed (dv s i) = true ->
    rank (dv s' i) < rank (dv s i) /\ pipe_closed (dv s' i) = true /\ nd s' = nd s.
  Proof.
    simpl. intros H Hc. destruct (i <? nd s); [|discriminate H].
    unfold rank, pipe_closed in *.
    destruct (d_st (dv s i)) eqn:Ed.
    - destruct a.
      + destruct (pending (dv s i)) eqn:Ep.
        * inversion H; subst; clear H. simpl. unfold upd. rewrite Nat.eqb_refl. simpl. auto.
        * rewrite Hc in H. inversion H; subst; clear H. simpl. unfold upd. rewrite Nat.eqb_refl. simpl.
          repeat split; auto; lia.
      + inversion H; subst; clear H. simpl. unfold upd. rewrite Nat.eqb_refl. simpl.
        repeat split; auto; try (destruct (pending (dv s i)); lia).
    - inversion H; subst; clear H. simpl. unfold upd. rewrite Nat.eqb_refl. simpl. auto.
    - destruct (res (dv s i)); inversion H; subst; clear H.
      simpl. unfold upd. rewrite Nat.eqb_refl. simpl. auto.
    - inversion H; subst; clear H. simpl. unfold upd. rewrite Nat.eqb_refl. simpl.
      repeat split; auto. apply orb_true_r.
    - discriminate H.
  Qed.

  (* nobody else raises it, and a closed pipe stays closed *)
  Lemma any_step_keeps s b s' i :
    step lmtp s b = Some s' -> i < nd s -> pipe_closed (dv s i) = true ->
    rank (dv s' i) <= rank (dv s i) /\ pipe_closed (dv s' i) = true /\ i < nd s'.
  Proof.
    intros H Hi Hc.
    destruct b as [c | j a |].
    - simpl in H. destruct (loop s) as [| j n last | j n last | j |] eqn:El.
      + destruct (closed s); [inversion H; subst; simpl; auto|].
        destruct c as [n last | |].
        * destruct (cur s) eqn:Ec; inversion H; subst; clear H; simpl; auto.
          unfold upd. destruct (Nat.eqb_spec i (nd s)); [lia|]. auto.
        * inversion H; subst; clear H. unfold close_cur.
          destruct (cur s) as [c|]; simpl; auto.
          unfold upd. destruct (Nat.eqb_spec i c); subst; simpl; auto.
        * inversion H; subst; clear H. unfold close_cur.
          destruct (cur s) as [c|]; simpl; auto.
          unfold upd. destruct (Nat.eqb_spec i c); subst; simpl; auto.
      + destruct n as [|n].
        * destruct last; inversion H; subst; clear H; simpl; auto.
          unfold upd. destruct (Nat.eqb_spec i j); subst; simpl; auto.
        * destruct (pipe_closed (dv s j)) eqn:Epc; inversion H; subst; clear H.
          -- unfold abort. destruct (lmtp && last); simpl;
               unfold upd; destruct (Nat.eqb_spec i j); subst; simpl; auto;
               unfold rank; simpl; (repeat split; auto);
               destruct (d_st (dv s j)); try lia; destruct (pending (dv s j)); lia.
          -- simpl. unfold upd. destruct (Nat.eqb_spec i j); subst; simpl; auto. congruence.
      + destruct (pipe_closed (dv s j)) eqn:Epc.
        * inversion H; subst; clear H.
          unfold abort. destruct (lmtp && last); simpl;
            unfold upd; destruct (Nat.eqb_spec i j); subst; simpl; auto;
            unfold rank; simpl; (repeat split; auto);
            destruct (d_st (dv s j)); try lia; destruct (pending (dv s j)); lia.
        * destruct (pending (dv s j)); inversion H; subst; clear H. simpl. auto.
      + destruct (res (dv s j)) eqn:Er; inversion H; subst; clear H.
        unfold close_cur; simpl. destruct (cur s) as [c0|]; simpl.
        * unfold upd. destruct (Nat.eqb_spec i c0); subst; simpl;
            [destruct (Nat.eqb_spec c0 j); subst; simpl; auto
            |destruct (Nat.eqb_spec i j); subst; simpl; auto].
        * unfold upd. destruct (Nat.eqb_spec i j); subst; simpl; auto.
      + discriminate H.
    - destruct (Nat.eq_dec j i) as [-> | Hne].
      + destruct (own_step_decreases s i a s' H Hc) as (A & B & C). repeat split; auto; lia.
      + simpl in H. destruct (j <? nd s); [|discriminate H].
        destruct (d_st (dv s j)).
        * destruct a.
          -- destruct (pending (dv s j)).
             ++ inversion H; subst; clear H. simpl. unfold upd.
                destruct (Nat.eqb_spec i j); [congruence|]. auto.
             ++ destruct (pipe_closed (dv s j)); inversion H; subst; clear H. simpl. unfold upd.
                destruct (Nat.eqb_spec i j); [congruence|]. auto.
          -- inversion H; subst; clear H. simpl. unfold upd.
             destruct (Nat.eqb_spec i j); [congruence|]. auto.
        * inversion H; subst; clear H. simpl. unfold upd.
          destruct (Nat.eqb_spec i j); [congruence|]. auto.
        * destruct (res (dv s j)); inversion H; subst; clear H. simpl. unfold upd.
          destruct (Nat.eqb_spec i j); [congruence|]. auto.
        * inversion H; subst; clear H. simpl. unfold upd.
          destruct (Nat.eqb_spec i j); [congruence|]. auto.
        * discriminate H.
    - simpl in H. destruct (closed s); [discriminate H|]. inversion H; subst; clear H.
      unfold close_cur. destruct (cur s) as [c|]; simpl; auto.
      unfold upd. destruct (Nat.eqb_spec i c); subst; simpl; auto.
  Qed.

  Fixpoint own_moves (i : nat) (sched : list action) : nat :=
    match sched with
    | [] => 0
    | ADeliv j _ :: r => (if Nat.eqb j i then 1 else 0) + own_moves i r
    | _ :: r => own_moves i r
    end.

  (* once its pipe is closed, a delivery goroutine is never blocked again and
     finishes within its next 6 own steps, whatever everybody else does and
     whatever the backend chooses (read again / return) *)
  Theorem delivery_terminates s i sched :
    Inv s -> i < nd s -> pipe_closed (dv s i) = true ->
    rank (dv (run lmtp s sched) i) <= rank (dv s i) - own_moves i sched /\
    pipe_closed (dv (run lmtp s sched) i) = true.
  Proof.
    revert s. induction sched as [|b l IH]; intros s HI Hi Hc.
    - simpl. split; [lia | exact Hc].
    - change (run lmtp s (b :: l)) with (run lmtp (exec lmtp s b) l).
      unfold exec. destruct (step lmtp s b) as [s'|] eqn:E.
      + destruct (any_step_keeps s b s' i E Hi Hc) as (A & B & C).
        destruct (IH s' (step_inv s b s' HI E) C B) as [D F]. split; [|exact F].
        destruct b as [c | j a |]; simpl; try lia.
        destruct (Nat.eqb_spec j i) as [-> | Hne]; simpl; [|lia].
        destruct (own_step_decreases s i a s' E Hc) as (G & _ & _). lia.
      + destruct (IH s HI Hi Hc) as [D F]. split; [|exact F].
        destruct b as [c | j a |]; simpl; try lia.
        destruct (Nat.eqb_spec j i) as [-> | Hne]; simpl; [|lia].
        (* a disabled own move: only possible when the goroutine has finished *)
        destruct (d_st (dv s i)) eqn:Ed.
        1-4: exfalso; apply (closed_deliv_enabled s i a HI Hi Hc); [rewrite Ed; discriminate | exact E].
        assert (R0 : rank (dv s i) = 0) by (apply rank_zero; exact Ed). lia.
  Qed.

  Corollary delivery_done_after_six s i sched :
    Inv s -> i < nd s -> pipe_closed (dv s i) = true -> 6 <= own_moves i sched ->
    d_st (dv (run lmtp s sched) i) = DDone.
  Proof.
    intros HI Hi Hc H6. destruct (delivery_terminates s i sched HI Hi Hc) as [D _].
    apply rank_zero. assert (rank (dv s i) <= 6).
    { unfold rank. destruct (d_st (dv s i)); try lia. destruct (pending (dv s i)); lia. }
    lia.
  Qed.

  (* when the command loop has ended, every delivery's pipe is closed: none
     of them can be left behind blocked *)
  Theorem no_goroutine_left_behind sched i :
    let s := run lmtp init sched in
    loop s = LEnd -> i < nd s -> pipe_closed (dv s i) = true.
  Proof.
    intros s El Hi. assert (HI : Inv s) by (apply run_inv; apply inv_init).
    assert (Hc := k_end s HI El). assert (Hn := k_closed s HI Hc).
    unfold pipe_closed. rewrite (k_old s HI i Hi); [reflexivity|]. rewrite Hn. discriminate.
  Qed.

  (* the result channel (capacity 1) never blocks its only sender *)
  Theorem result_send_never_blocks sched i a :
    let s := run lmtp init sched in
    i < nd s -> d_st (dv s i) = DRet -> enabled s (ADeliv i a).
  Proof.
    intros s Hi Hd. assert (HI : Inv s) by (apply run_inv; apply inv_init).
    unfold enabled. simpl. apply Nat.ltb_lt in Hi. rewrite Hi, Hd.
    assert (G := k_res1 s HI i). rewrite Hd in G. rewrite (G eq_refl). discriminate.
  Qed.
End Proofs.

(* non-vacuity: blocking is real in the model, and a transfer runs to the end *)
Example loop_really_blocks :
  let s := run false init [ALoop (CBdat 1 true); ALoop CReset] in
  loop s = LBlocked 0 0 true /\ step false s (ALoop CReset) = None /\
  step false s (ADeliv 0 Read) <> None.
Proof. cbv. repeat split; discriminate. Qed.

Example reader_really_blocks :
  let s := run false init [ALoop (CBdat 1 false)] in
  step false s (ADeliv 0 Read) = None.
Proof. reflexivity. Qed.

Example full_transfer :
  let s := run false init
    [ALoop (CBdat 1 true); ALoop CReset; ADeliv 0 Read; ALoop CReset; ALoop CReset;
     ADeliv 0 Read; ADeliv 0 Read; ADeliv 0 Read; ALoop CReset; ADeliv 0 Read; ALoop CQuit] in
  final s.
Proof.
  cbv. split; [reflexivity|]. intros i Hi.
  destruct i as [|i]; [reflexivity|]. exfalso. inversion Hi; subst. inversion H0.
Qed.

(* an aborted transfer (RSET) whose backend is slow: the old delivery is
   still running when the next transaction starts; both finish *)
Example aborted_then_next :
  let s := run false init
    [ALoop (CBdat 1 false); ALoop CReset; ADeliv 0 Read; ALoop CReset; ALoop CReset;
     ALoop CReset;                       (* RSET: pipe 0 closed, delivery 0 still in Data *)
     ALoop (CBdat 0 true); ALoop CReset; (* next transaction: delivery 1, LAST *)
     ADeliv 1 Read; ADeliv 0 Read;       (* both see their pipes closed *)
     ADeliv 1 Read; ADeliv 1 Read; ALoop CReset; ADeliv 1 Read;
     ADeliv 0 Read; ADeliv 0 Read; ADeliv 0 Read; ALoop CQuit] in
  nd s = 2 /\ d_st (dv s 0) = DDone /\ d_st (dv s 1) = DDone /\ loop s = LEnd /\
  res (dv s 0) = RFull /\ res (dv s 1) = RTaken.
Proof. cbv. repeat split. Qed.
