(* C13 - LMTP returns one status per accepted recipient, in order, correctly
   attributed; never deadlocks.

   Quantification.  [rcpts] is ANY list of accepted recipients (any length,
   any duplicates, any order); [calls] is ANY list of SetStatus calls the
   backend makes (address, status), in the order it makes them - within the
   documented contract where [contract_ok rcpts calls = true] is assumed
   (every call names a recipient; no address gets more calls than it has
   occurrences), otherwise arbitrary (unknown addresses, too many calls);
   [ret] is any return value (nil, *SMTPError, other error); [panic] says
   whether the backend panics instead of returning; [ord] is the order in
   which Go's map iteration makes fillRemaining visit the channels (any list
   containing every recipient); [sch] is ANY schedule of the two goroutines of
   handleDataLMTP - a list of booleans, true = the delivery goroutine makes
   its next atomic step (one SetStatus call, the return/panic, one send or
   one channel change inside fillRemaining, done<-), false = the handler makes
   its next step (receive one status / park on the empty channel / receive
   from done); the turn of a blocked or finished task is a stutter.  Channel
   operations follow Go's runtime: non-blocking send succeeds iff a receiver
   is parked on the channel (direct hand-off) or the buffer (capacity =
   multiplicity of the address) has room; SetStatus panics otherwise.

   The specification [expected_statuses rcpts calls ret] (LmtpSpec.v) is
   defined by counting only: the i-th recipient, being the k-th occurrence of
   its address, gets the k-th status set for that address, or [ret] if there
   is none.  It does not mention channels, FIFOs or the collector. *)
From Smtp Require Import Bytes Reply Lmtp LmtpSpec LmtpConc LmtpProofs CheckLmtp CheckLmtpProofs Conn.

(* Sequential execution (all calls before the emission: the BDAT LAST path,
   and the delivery-first schedule of DATA): within the contract the
   collector hands out exactly the specified statuses and reports no panic. *)
Theorem C13_replies (rcpts : list bytes) (calls : list (bytes * berr)) (ret : berr) :
  contract_ok rcpts calls = true ->
  lmtp_statuses rcpts calls ret false = (expected_statuses rcpts calls ret, false).
Proof. exact (lmtp_statuses_expected rcpts calls ret). Qed.
Print Assumptions C13_replies.

(* For ALL backends (contract or not, panic or not): exactly one status per
   recipient, in RCPT order, each naming its recipient (so the emission never
   finds an empty channel); the panic flag is set iff the backend panicked or
   broke the contract; then the k-th occurrence of an address gets the k-th
   call made for it before the first violating call, else errPanic (421). *)
Theorem C13_one_status_per_recipient
  (rcpts : list bytes) (calls : list (bytes * berr)) (ret : berr) (panic : bool) :
  map fst (fst (lmtp_statuses rcpts calls ret panic)) = rcpts /\
  snd (lmtp_statuses rcpts calls ret panic) = (panic || negb (contract_ok rcpts calls)) /\
  (panic || negb (contract_ok rcpts calls) = true ->
   fst (lmtp_statuses rcpts calls ret panic) =
   expected_statuses rcpts (ok_calls rcpts calls) err_panic) /\
  (panic || negb (contract_ok rcpts calls) = false ->
   fst (lmtp_statuses rcpts calls ret panic) = expected_statuses rcpts calls ret).
Proof. exact (lmtp_statuses_total rcpts calls ret panic). Qed.
Print Assumptions C13_one_status_per_recipient.

(* DATA with a per-recipient backend, the two goroutines interleaved in ANY
   way: within the contract, when the handler has finished it has written
   exactly the specified statuses (errPanic in place of the return value if
   the backend panicked after its calls), which is also what the sequential
   model computes; the connection is closed iff the backend panicked. *)
Theorem C13_replies_all_interleavings
  (rcpts : list bytes) (calls : list (bytes * berr)) (ret : berr) (panic : bool)
  (ord : list bytes) (sch : list bool) (p : bool) :
  contract_ok rcpts calls = true ->
  let s := conc_run rcpts calls ret panic ord sch in
  cs_fin s = Some p ->
  p = panic /\
  cs_out s = fst (lmtp_statuses rcpts calls ret panic) /\
  cs_out s = expected_statuses rcpts calls (if panic then err_panic else ret).
Proof. exact (conc_result_contract rcpts calls ret panic ord sch p). Qed.
Print Assumptions C13_replies_all_interleavings.

(* ... and without the contract: still one status per recipient, in order,
   each naming its recipient; the statuses are the specified ones for the
   prefix [pre] of the calls that took effect, filled with the return value
   (no panic: then every call took effect) or with errPanic. *)
Theorem C13_every_backend_all_interleavings
  (rcpts : list bytes) (calls : list (bytes * berr)) (ret : berr) (panic : bool)
  (ord : list bytes) (sch : list bool) (p : bool) :
  let s := conc_run rcpts calls ret panic ord sch in
  cs_fin s = Some p ->
  map fst (cs_out s) = rcpts /\
  exists pre post, calls = pre ++ post /\
    cs_out s = expected_statuses rcpts pre (if p then err_panic else ret) /\
    (p = false -> post = [] /\ panic = false).
Proof. exact (conc_result rcpts calls ret panic ord sch p). Qed.
Print Assumptions C13_every_backend_all_interleavings.

(* No reachable state is a deadlock, for every backend and every schedule:
   the delivery goroutine is never blocked (its step changes the state until
   it has finished); once it has finished the handler is not blocked; so in
   every unfinished state some task can move - in particular whenever the
   handler is blocked the delivery goroutine can move. *)
Theorem C13_no_deadlock_all_interleavings
  (rcpts : list bytes) (calls : list (bytes * berr)) (ret : berr) (panic : bool)
  (ord : list bytes) (sch : list bool) :
  (forall a, In a rcpts -> In a ord) ->
  let s := conc_run rcpts calls ret panic ord sch in
  (del_done s = false -> del_step ret panic ord s <> s) /\
  (del_done s = true -> finished s = false -> han_step s <> s) /\
  (finished s = false -> exists who, step ret panic ord s who <> s).
Proof. exact (conc_no_deadlock rcpts calls ret panic ord sch). Qed.
Print Assumptions C13_no_deadlock_all_interleavings.

(* Termination: every schedule consisting of [work_bound] rounds, each round
   giving at least one turn to either goroutine, ends with the handler
   finished (all replies written, done received).  [work_bound] =
   4|rcpts| + |calls| + |ord| + 4. *)
Theorem C13_terminates_fair_schedules
  (rcpts : list bytes) (calls : list (bytes * berr)) (ret : berr) (panic : bool)
  (ord : list bytes) (sch : list bool) :
  (forall a, In a rcpts -> In a ord) ->
  fair_rounds (work_bound rcpts calls ord) sch ->
  finished (conc_run rcpts calls ret panic ord sch) = true.
Proof. exact (conc_terminates rcpts calls ret panic ord sch). Qed.
Print Assumptions C13_terminates_fair_schedules.

(* ... and in ANY schedule at most [work_bound] turns are not stutters *)
Theorem C13_bounded_work
  (rcpts : list bytes) (calls : list (bytes * berr)) (ret : berr) (panic : bool)
  (ord : list bytes) (sch : list bool) (who : bool) :
  let s := conc_run rcpts calls ret panic ord sch in
  work ord s <= work_bound rcpts calls ord /\
  (step ret panic ord s who = s \/ work ord (step ret panic ord s who) < work ord s).
Proof. exact (conc_bounded_work rcpts calls ret panic ord sch who). Qed.
Print Assumptions C13_bounded_work.

(* Plain backend (no LMTPSession): every recipient gets the single result. *)
Theorem C13_plain_backend (rcpts : list bytes) (ret : berr) :
  plain_statuses rcpts ret = expected_statuses rcpts [] ret /\
  map fst (plain_statuses rcpts ret) = rcpts /\
  forall a e, In (a, e) (plain_statuses rcpts ret) -> e = ret.
Proof. exact (plain_statuses_spec rcpts ret). Qed.
Print Assumptions C13_plain_backend.

(* BDAT ... LAST in LMTP mode (Conn.v): the final response within the
   contract is the rendering of the specified statuses, [err] being the value
   the handler passes to fillRemaining. *)
Theorem C13_bdat_replies (cfg : config) (b : bdat) (err : berr) :
  cf_lmtp_session cfg = true ->
  contract_ok (bd_rcpts b) (dp_status (bd_plan b)) = true ->
  dp_panic (bd_plan b) = false -> bd_panics b = false ->
  bdat_lmtp_replies cfg b err =
  (map EWire (render (expected_statuses (bd_rcpts b) (dp_status (bd_plan b)) err)), false).
Proof. exact (bdat_lmtp_replies_expected cfg b err). Qed.
Print Assumptions C13_bdat_replies.

(* The oracle used on the implementation's recorded behaviour accepts the
   model's own output and every finished interleaving (it is satisfiable and
   never rejects a behaviour the proved model allows). *)
Theorem C13_oracle_accepts_model
  (sess : bool) (rcpts : list bytes) (calls : list (bytes * berr)) (ret : berr) (panic : bool) :
  let sts := model_statuses sess rcpts calls ret panic in
  lmtp_oracle_strict sess rcpts calls ret panic (render sts) = true /\
  lmtp_oracle sess rcpts calls ret panic (render sts) = true /\
  lmtp_oracle_wire_strict sess rcpts calls ret panic (List.concat (render sts)) = true /\
  lmtp_oracle_wire sess rcpts calls ret panic (List.concat (render sts)) = true.
Proof. exact (oracle_accepts_model sess rcpts calls ret panic). Qed.
Print Assumptions C13_oracle_accepts_model.

Theorem C13_oracle_accepts_all_interleavings
  (rcpts : list bytes) (calls : list (bytes * berr)) (ret : berr) (panic : bool)
  (ord : list bytes) (sch : list bool) (p : bool) :
  let s := conc_run rcpts calls ret panic ord sch in
  cs_fin s = Some p ->
  lmtp_oracle_strict true rcpts calls ret panic (render (cs_out s)) = true /\
  lmtp_oracle true rcpts calls ret panic (render (cs_out s)) = true.
Proof. exact (oracle_accepts_all_interleavings rcpts calls ret panic ord sch p). Qed.
Print Assumptions C13_oracle_accepts_all_interleavings.

(* non-vacuity: a recipient list with duplicates and calls out of RCPT order
   satisfies the contract and gets the expected attribution; the hypotheses
   of the deadlock/termination theorems hold for a concrete fair schedule;
   outside the contract the outcome really depends on the schedule. *)
Example C13_witness :
  let rc := [ex_a; ex_b; ex_a; ex_b; ex_a] in
  let cl := [(ex_b, ex_e 1); (ex_a, ex_e 2); (ex_b, BNil); (ex_a, ex_e 4)] in
  contract_ok rc cl = true /\
  expected_statuses rc cl (BPlain (bs "ret"))
  = [(ex_a, ex_e 2); (ex_b, ex_e 1); (ex_a, ex_e 4); (ex_b, BNil); (ex_a, BPlain (bs "ret"))] /\
  (forall a, In a rc -> In a [ex_b; ex_a]) /\
  fair_rounds (work_bound rc cl [ex_b; ex_a]) (round_robin (work_bound rc cl [ex_b; ex_a])) /\
  cs_fin (conc_run rc cl (BPlain (bs "ret")) false [ex_b; ex_a] (round_robin (work_bound rc cl [ex_b; ex_a])))
  = Some false.
Proof.
  cbv zeta. split; [vm_compute; reflexivity|]. split; [vm_compute; reflexivity|].
  split; [cbn; tauto|]. split; [apply round_robin_fair | vm_compute; reflexivity].
Qed.

Example C13_schedule_dependence_outside_contract :
  let rc := [ex_a; ex_b] in
  let cl := [(ex_a, ex_e 1); (ex_a, ex_e 2); (ex_b, ex_e 3)] in
  let s1 := conc_run rc cl BNil false rc (repeat true 10 ++ repeat false 4) in
  let s2 := conc_run rc cl BNil false rc (false :: repeat true 10 ++ repeat false 4) in
  (cs_fin s1 = Some true /\ cs_out s1 = [(ex_a, ex_e 1); (ex_b, err_panic)]) /\
  (cs_fin s2 = Some false /\ cs_out s2 = [(ex_a, ex_e 1); (ex_b, ex_e 3)]) /\
  lmtp_statuses rc cl BNil false = ([(ex_a, ex_e 1); (ex_b, err_panic)], true).
Proof. exact ex_schedule_dependence. Qed.
